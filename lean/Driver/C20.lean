import Rustic.Model.Backends
import Rustic.Gen.Constants
import Driver.Util
/-! Driver channel `c20` — see `harness/src/c20.rs` for the op-line grammar. -/
namespace Driver.C20
open Rustic.Backends Driver

def L : Nat := Rustic.Gen.ID_HEX_LEN

/-- `Rng::bytes(len)` of the harness (`g<seed>.<len>` data tokens). -/
def genBytes (seed : UInt64) (len : Nat) : List UInt8 :=
  let rec go : Nat → UInt64 → List UInt8 → List UInt8
    | 0, _, acc => acc
    | k + 1, s, acc =>
      let (v, s') := splitmix s
      let bs := (List.range 8).map (fun i => (v >>> (8 * i).toUInt64).toUInt8)
      go k s' (bs.reverse ++ acc)
  ((go (len / 8 + 1) seed []).reverse).take len

def dataOf (tok : String) : Option (List UInt8) :=
  if tok.startsWith "g" then
    match (String.ofList (tok.toList.drop 1)).splitOn "." with
    | [seed, len] =>
      match seed.toNat?, len.toNat? with
      | some s, some n => some (genBytes s.toUInt64 n)
      | _, _ => none
    | _ => none
  else unhex tok

def digest (b : List UInt8) : String :=
  let h := b.foldl (fun (h : UInt64) x => h * 0x00000100000001b3 + (x.toUInt64 + 1)) 0xcbf29ce484222325
  toString b.length ++ ":" ++ hexU64 h

def tpeOf : String → Option FileType
  | "0" => some .config | "1" => some .index | "2" => some .key | "3" => some .snapshot | "4" => some .pack
  | _ => none

def idOf (s : String) : Option Name :=
  if s.length = 64 then parseSome 64 s.toList else none

def insertSorted (x : String) : List String → List String
  | [] => [x]
  | y :: ys => if x ≤ y then x :: y :: ys else y :: insertSorted x ys

def sortStrs (l : List String) : List String := l.foldr insertSorted []

def joinOr (l : List String) : String := if l.isEmpty then "-" else "+".intercalate (sortStrs l)

def fmtListing (v : List (Name × Nat)) : String :=
  joinOr (v.map (fun e => String.ofList e.1 ++ ":" ++ toString e.2))

def allListings (fs : FS) : String :=
  "|".intercalate ([FileType.config, .index, .key, .snapshot, .pack].map (fun t => fmtListing (listWithSize L fs t)))

def layout (fs : FS) : String :=
  joinOr (fs.map (fun e => "/".intercalate (e.1.map String.ofList) ++ ":" ++ toString e.2.length))

def goodPath (p : String) : Bool :=
  !p.startsWith "/" && (p.splitOn "/").all (fun c => c ≠ "" && c ≠ "." && c ≠ "..")

structure St where
  fs : FS
  fl : Flavor
  isLocal : Bool
  hasFs : Bool

/-- one step → (observation, new state); `none` = ill-formed -/
def stepOne (st : St) (s : String) : Option (String × St) :=
  match s.splitOn "," with
  | ["w", t, id, d] =>
    match tpeOf t, idOf id, dataOf d with
    | some t, some id, some d => some ("ok", { st with fs := writeBytesFl st.fl st.fs t id d })
    | _, _, _ => none
  | ["c", t, id, d] =>
    if !st.isLocal then none else
    match tpeOf t, idOf id, dataOf d with
    | some t, some id, some d =>
      let fs' := writeTmp st.fs t id d
      some ("crash[" ++ allListings fs' ++ "]", { st with fs := fs' })
    | _, _, _ => none
  | ["d", t, id] =>
    match tpeOf t, idOf id with
    | some t, some id =>
      let (r, fs') := remove st.fl st.fs t id
      some ((match r with | .ok _ => "ok" | .err => "err"), { st with fs := fs' })
    | _, _ => none
  | ["r", t, id] =>
    match tpeOf t, idOf id with
    | some t, some id => some ((match readFull st.fs t id with | .ok b => digest b | .err => "err"), st)
    | _, _ => none
  | ["p", t, id, off, len] =>
    match tpeOf t, idOf id, off.toNat?, len.toNat? with
    | some t, some id, some off, some len =>
      if off ≥ 4294967296 ∨ len ≥ 4294967296 then none else
      some ((match readPartial st.fl st.fs t id off len with | .ok b => digest b | .err => "err"), st)
    | _, _, _, _ => none
  | ["l", t] => (tpeOf t).map (fun t => (fmtListing (listWithSize L st.fs t), st))
  | ["i", t] => (tpeOf t).map (fun t => (joinOr ((list L st.fs t).map String.ofList), st))
  | ["s", p, d] =>
    if !st.hasFs || !goodPath p then none else
    (dataOf d).map (fun d => ("ok", { st with fs := fput st.fs ((p.splitOn "/").map String.toList) d }))
  | ["m", p] => if !st.hasFs || !goodPath p then none else some ("ok", st)
  | ["f"] => if st.hasFs then some (layout st.fs, st) else none
  | _ => none

def runSteps (st : St) : List String → List String → Option (List String)
  | [], acc => some acc.reverse
  | s :: rest, acc =>
    match stepOne st s with
    | some (o, st') => runSteps st' rest (o :: acc)
    | none => none

def handle : List String → String
  | ["hist", kind, create, steps] =>
    if create ≠ "0" ∧ create ≠ "1" then "bad-op" else
    let st? : Option St := match kind with
      | "local" => some { fs := [], fl := Flavor.local, isLocal := true, hasFs := true }
      | "odfs" => some { fs := [], fl := Flavor.opendal, isLocal := false, hasFs := true }
      | "odmem" => some { fs := [], fl := Flavor.opendal, isLocal := false, hasFs := false }
      | _ => none
    match st? with
    | none => "bad-op"
    | some st =>
      match runSteps st (steps.splitOn ";") [] with
      | some obs => ";".intercalate obs
      | none => "bad-op"
  | ["parse", name] =>
    match unhex name with
    | some bs =>
      match parseSome L (bs.map (fun b => Char.ofNat b.toNat)) with
      | some id => String.ofList id
      | none => "none"
    | none => "bad-op"
  | _ => "bad-op"

end Driver.C20
