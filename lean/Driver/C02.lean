import Rustic.Model.Prune
import Rustic.Gen.Constants
import Driver.Util
/-
C02 driver channel.  Op lines (tokens separated by one space, no spaces inside a token):

  c02 plan <opts> <sizers> <used> <existing> <files>
     opts    = now,keepPack,keepDelete,FLAGS,maxRepack,maxUnused     FLAGS = 7 chars 0/1:
               cacheableOnly uncompressed all noResize instant early fast ;  limit = u | s<N> | p<N>
     sizers  = 12 numbers: tree(default,grow,limit,current,minPct,maxPct), data(…)
     used    = keys `t5,d7` or `-`
     existing= `id:size,…` or `-`
     files   = index files separated by `;`, each `id|packs|del`, packs separated by `+`,
               pack = `id:time:size:blobs` (time/size `n` = None), blobs separated by `.`,
               blob = `<t|d><id>/<offset>/<length>/<0|1 compressed>`; empty list = `-`
  c02 info <counts> <packs>     counts = `t5=2,d7=0` ; packs as above separated by `+`
  c02 hist <…>                  real history; the model only predicts the surviving snapshots
-/
namespace Driver.C02
open Rustic.Prune Driver
open Rustic.Repo (BlobType Key IdxPack)

/-- the code after `fix:` keys `used_ids` by (type, id). -/
def typed : Bool := true

def consts : Consts :=
  { compOverhead := Rustic.Gen.C02_COMP_OVERHEAD, lengthLen := Rustic.Gen.C02_LENGTH_LEN,
    entryLen := Rustic.Gen.C02_ENTRY_LEN, entryLenComp := Rustic.Gen.C02_ENTRY_LEN_COMPRESSED,
    minIndexLen := Rustic.Gen.C02_MIN_INDEX_LEN, maxPackSize := Rustic.Gen.C02_MAX_PACK_SIZE_MB * Rustic.Gen.C02_MB }

def splitList (sep : String) (s : String) : List String := if s = "-" then [] else s.splitOn sep

def parseKey (s : String) : Option Key :=
  match s.toList with
  | 't' :: r => (String.ofList r).toNat?.map (fun n => (BlobType.tree, n))
  | 'd' :: r => (String.ofList r).toNat?.map (fun n => (BlobType.data, n))
  | _ => none

def parseOptNat (s : String) : Option (Option Nat) := if s = "n" then some none else s.toNat?.map some
def parseOptInt (s : String) : Option (Option Int) := if s = "n" then some none else s.toInt?.map some

def parseBlob (s : String) : Option Blob :=
  match s.splitOn "/" with
  | [k, off, len, c] =>
    match parseKey k, off.toNat?, len.toNat?, c.toNat? with
    | some k, some off, some len, some c => some { tpe := k.1, id := k.2, offset := off, length := len, compressed := c != 0 }
    | _, _, _, _ => none
  | _ => none

def parsePack (s : String) : Option IndexPack :=
  match s.splitOn ":" with
  | [id, time, size, blobs] =>
    match id.toNat?, parseOptInt time, parseOptNat size, (splitList "." blobs).mapM parseBlob with
    | some id, some time, some size, some blobs => some { id, time, size, blobs }
    | _, _, _, _ => none
  | _ => none

def parseFile (s : String) : Option IndexFile :=
  match s.splitOn "|" with
  | [id, packs, del] =>
    match id.toNat?, (splitList "+" packs).mapM parsePack, (splitList "+" del).mapM parsePack with
    | some id, some packs, some del => some { id, packs, del }
    | _, _, _ => none
  | _ => none

def parseLimit (s : String) : Option Limit :=
  match s.toList with
  | ['u'] => some .unlimited
  | 's' :: r => (String.ofList r).toNat?.map Limit.size
  | 'p' :: r => (String.ofList r).toNat?.map Limit.percent
  | _ => none

def parseSizers (s : String) : Option (Sizer × Sizer) :=
  match (s.splitOn ",").mapM String.toNat? with
  | some [a, b, c, d, e, f, g, h, i, j, k, l] =>
    some ({ defaultSize := a, growFactor := b, sizeLimit := c, currentSize := d, minPct := e, maxPct := f },
          { defaultSize := g, growFactor := h, sizeLimit := i, currentSize := j, minPct := k, maxPct := l })
  | _ => none

/-- returns the options and the `fast` flag -/
def parseOpts (s : String) (sz : Sizer × Sizer) : Option (Opts × Bool) :=
  match s.splitOn "," with
  | [now, kp, kd, flags, mr, mu] =>
    match now.toInt?, kp.toInt?, kd.toInt?, flags.toList.map (· == '1'), parseLimit mr, parseLimit mu with
    | some now, some kp, some kd, [f0, f1, f2, f3, f4, f5, f6], some mr, some mu =>
      some ({ now, keepPack := kp, keepDelete := kd, repackCacheableOnly := f0, repackUncompressed := f1,
              repackAll := f2, noResize := f3, instantDelete := f4, earlyDeleteIndex := f5, maxRepack := mr,
              maxUnused := mu, treeSizer := sz.1, dataSizer := sz.2 }, f6)
    | _, _, _, _, _, _ => none
  | _ => none

def parseExisting (s : String) : Option (List (Nat × Nat)) :=
  (splitList "," s).mapM (fun x => match x.splitOn ":" with
    | [a, b] => match a.toNat?, b.toNat? with
      | some a, some b => some (a, b)
      | _, _ => none
    | _ => none)

def sortNats (l : List Nat) : List Nat := (l.toArray.qsort (· < ·)).toList
def sortStrs (l : List String) : List String := (l.toArray.qsort (· < ·)).toList
def joinC (l : List String) : String := if l.isEmpty then "-" else ",".intercalate l

def keyStr (k : Key) : String := (match k.1 with | .tree => "t" | .data => "d") ++ toString k.2

def todoStr : ToDo → String
  | .undecided => "U" | .keep => "K" | .repack => "R" | .markDelete => "M" | .keepMarked => "k"
  | .keepMarkedAndCorrect => "c" | .recover => "V" | .delete => "D"

def statStr (s : SizeStats) : String := s!"{s.used}/{s.unused}/{s.remove}/{s.repack}/{s.repackrm}"

def cnt (ps : List PPack) (f : PPack → Bool) : Nat := (ps.filter f).length
def sumSize (ps : List PPack) (f : PPack → Bool) : Nat := sumBy (·.size) (ps.filter f)

def optInt : Option Int → String
  | none => "n"
  | some t => toString t

def idxStr (p : IdxPack) : String := s!"{p.id}@{optInt p.time}"

def isNew (p : IdxPack) : Bool := p.id == newPackId .tree || p.id == newPackId .data

def execStr (o : Opts) (e : Exec) : String :=
  let newKeys := sortStrs ((e.newUnmarked.filter isNew).flatMap (fun p => p.blobs.map keyStr))
  let oldU := sortStrs ((e.newUnmarked.filter (fun p => !isNew p)).map idxStr)
  let early := o.earlyDeleteIndex && o.instantDelete
  s!"first={joinC ((sortNats e.removeFirst).map toString)} newU={joinC oldU} newB={joinC newKeys} " ++
  s!"newM={joinC (sortStrs (e.newMarked.map idxStr))} rmI={joinC ((sortNats e.removeIndexes).map toString)} " ++
  s!"rmP={joinC ((sortNats e.removePacks).map toString)} early={if early then 1 else 0}"

def planObs (o : Opts) (fast : Bool) (files : List IndexFile) (used : List Key) (existing : List (Nat × Nat)) : String :=
  match plan typed consts o files used existing with
  | none => "err"
  | some d =>
    let ps := d.packs
    let idOf (n : Nat) : Nat := ((d.indexes.drop n).head?.map (·.id)).getD 0
    let dec := ps.map (fun p => s!"{idOf p.index}/{p.id}/{if p.mark then 1 else 0}{todoStr p.todo}")
    let um := ps.filter (fun p => !p.mark)
    let packs := s!"{cnt um (fun p => p.info.usedBlobs > 0 && p.info.unusedBlobs == 0)}/" ++
      s!"{cnt um (fun p => p.info.usedBlobs > 0 && p.info.unusedBlobs > 0)}/{cnt um (fun p => p.info.usedBlobs == 0)}/" ++
      s!"{cnt ps (fun p => p.todo == .repack)}/{cnt ps (fun p => p.todo == .keep)}"
    let isKM (p : PPack) : Bool := p.todo == .keepMarked || p.todo == .keepMarkedAndCorrect
    let td := s!"{cnt ps (·.todo == .delete)}/{cnt ps (·.todo == .recover)}/{cnt ps isKM}/" ++
      s!"{sumSize ps (·.todo == .delete)}/{sumSize ps (·.todo == .recover)}/{sumSize ps isKM}"
    let left := sortStrs ((d.usedKeys.eraseDups.filter (fun k => (d.usedLeft.get k).isSome)).map keyStr)
    let needRepack := ps.any (fun p => p.todo == .repack)
    -- hypothesis `RepackRebuilt` of theorem prune_covers_used_keys, evaluated on every case
    if !(ps.all (fun p => p.todo != .repack || d.rebuild.contains p.index)) then "model-wf-violation:RepackRebuilt" else
    let x := if needRepack && !fast then "skip" else execStr o (execute typed o d)
    s!"ok D={joinC dec} B=t:{statStr (blobStats ps .tree)},d:{statStr (blobStats ps .data)} " ++
    s!"S=t:{statStr (sizeStats ps .tree)},d:{statStr (sizeStats ps .data)} P={packs} TD={td} " ++
    s!"UR={d.unreferenced.length}/{(d.unreferenced.map (·.2)).foldl (· + ·) 0} IF={d.indexes.length}/{d.rebuild.length} " ++
    s!"R={joinC ((sortNats (d.rebuild.map idOf)).map toString)} L={joinC left} X: {x}"

def parseCounts (s : String) : Option (List (Key × Nat)) :=
  (splitList "," s).mapM (fun x => match x.splitOn "=" with
    | [a, b] => match parseKey a, b.toNat? with
      | some a, some b => some (a, b)
      | _, _ => none
    | _ => none)

def infoObs (cs : List (Key × Nat)) (packs : List IndexPack) : String :=
  let c0 : Counts := ⟨fun k => (cs.find? (fun x => normKey typed x.1 == k)).map (·.2)⟩
  let step (acc : List String × Counts) (p : IndexPack) : List String × Counts :=
    let r := fromPack typed p.blobType p.blobs acc.2
    (acc.1 ++ [s!"{r.1.usedBlobs}/{r.1.unusedBlobs}/{r.1.usedSize}/{r.1.unusedSize}"], r.2)
  let r := packs.foldl step ([], c0)
  let after := (cs.map (·.1)).eraseDups.map (fun k => s!"{keyStr k}={(r.2.get (normKey typed k)).getD 0}")
  s!"ok {joinC r.1} C={joinC after}"

/-- `hist`: the model side of a real history only predicts which snapshots survive (the oracles run in the harness).
steps: `b<k>` backup of source version k, `f<i>` forget the i-th live snapshot (mod count; never the last one), `F<i>` the same
but also the last one, `p…` prune,
`s` a second handle reads the repository, `a<k>` that handle finishes a backup (ill-formed without a preceding `s`),
`h<k>` a backup uploads its packs (index + snapshot held back; ill-formed while another one is open), `e` it finishes
(ill-formed without `h`); `q…`/`Q…` prune with a fault sweep on copies of the store, `z<spec>/<i>` prune interrupted while it
removes old index files (`i` a number), `o<m>` serving order of index files (m ∈ {0,1,2}), `g<c>` fixed-size chunker
(first step only, c > 0), `l<k>,<n>` backup of version k plus a large file of n records: none of them changes the set of
snapshots except `l` (one more). -/
structure HistSt where
  live : Nat := 0
  forgotten : Nat := 0
  stale : Bool := false
  half : Bool := false
  /-- number of steps done -/
  n : Nat := 0

def natArg (cs : List Char) : Option Nat := (String.ofList cs).toNat?

def histObs (steps : List String) : String :=
  let r := steps.foldl (fun (st : Option HistSt) s => st.bind fun st => (fun (x : Option HistSt) => x.map fun x => { x with n := x.n + 1 }) <| match s.toList with
    | 'g' :: c => if st.n == 0 && (natArg c).any (· > 0) then some st else none
    | 'l' :: a => match (String.ofList a).splitOn "," with
      | [k, n] => if k.toNat?.isSome && (n.toNat?.any (· ≤ 1000000)) then some { st with live := st.live + 1 } else none
      | _ => none
    | 'q' :: _ => some st
    | 'Q' :: _ => some st
    | 'z' :: a => match (String.ofList a).splitOn "/" with
      | [_, i] => if i.toNat?.isSome && st.live > 0 then some st else none
      | _ => none
    | ['o', m] => if m == '0' || m == '1' || m == '2' then some st else none
    | 'b' :: _ => some { st with live := st.live + 1 }
    | 'x' :: _ => some { st with live := st.live + 1 }
    | 'c' :: _ => some { st with live := st.live + 2 }
    | 'f' :: _ => if st.live > 1 then some { st with live := st.live - 1, forgotten := st.forgotten + 1 } else some st
    | 'F' :: i => if (natArg i).isNone then none else
        if st.live > 0 then some { st with live := st.live - 1, forgotten := st.forgotten + 1 } else some st
    | 'u' :: _ => if st.forgotten > 0 then some { st with live := st.live + 1, forgotten := st.forgotten - 1 } else some st
    | ['s'] => some { st with stale := true }
    | 'a' :: _ => if st.stale then some { st with live := st.live + 1, stale := false } else none
    | 'h' :: k => if st.half ∨ (String.ofList k).toNat?.isNone then none else some { st with half := true }
    | ['e'] => if st.half then some { st with live := st.live + 1, half := false } else none
    | 'p' :: _ => some st
    | ['m'] => some st
    | _ => none) (some {})
  match r with
  | some r => s!"ok snaps={r.live}"
  | none => "bad-op"

def handle : List String → String
  | ["plan", opts, sizers, used, existing, files] =>
    match parseSizers sizers with
    | none => "bad-op"
    | some sz =>
      match parseOpts opts sz, (splitList "," used).mapM parseKey, parseExisting existing,
            (splitList ";" files).mapM parseFile with
      | some (o, fast), some used, some ex, some files => planObs o fast files used ex
      | _, _, _, _ => "bad-op"
  | ["info", counts, packs] =>
    match parseCounts counts, (splitList "+" packs).mapM parsePack with
    | some cs, some ps => infoObs cs ps
    | _, _ => "bad-op"
  | ["hist", _seed, steps] =>
    let ss := splitList ";" steps
    if ss.all (fun s => s.length > 0) then histObs ss else "bad-op"
  | _ => "bad-op"

end Driver.C02
