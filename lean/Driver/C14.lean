import Rustic.Model.Restore
import Rustic.Model.RestoreTasks
import Rustic.Model.RestoreWalk
import Driver.Util
import Driver.C20
/-! Driver channel `c14` — see `harness/src/c14.rs`. -/
namespace Driver.C14
open Rustic.Restore Driver
open Driver.C20 (dataOf)

def chars (bs : List UInt8) : List Char := bs.map (fun b => Char.ofNat b.toNat)

def flag : String → Option Bool
  | "0" => some false | "1" => some true | _ => none

/-! #### `walk` channel: the merge-walk of `collect_and_prepare` -/
section walk
open Rustic.RestoreWalk

abbrev PathW := List (List Nat)

def cmpName : List Nat → List Nat → Ordering
  | [], [] => .eq
  | [], _ :: _ => .lt
  | _ :: _, [] => .gt
  | a :: as, b :: bs => if a < b then .lt else if b < a then .gt else cmpName as bs

/-- `Path::cmp`: component-wise -/
def cmpPath : PathW → PathW → Ordering
  | [], [] => .eq
  | [], _ :: _ => .lt
  | _ :: _, [] => .gt
  | a :: as, b :: bs =>
    match cmpName a b with
    | .eq => cmpPath as bs
    | o => o

def properPrefix : PathW → PathW → Bool
  | [], _ :: _ => true
  | _, [] => false
  | a :: as, b :: bs => a == b && properPrefix as bs

def parsePath (s : String) : Option PathW :=
  let comps := s.splitOn "/"
  if comps.any (fun c => c.isEmpty) then none else some (comps.map (fun c => c.toList.map Char.toNat))

def showPath (p : PathW) : String := "/".intercalate (p.map (fun c => String.ofList (c.map Char.ofNat)))

def insertBy {α : Type} (key : α → PathW) (x : α) : List α → List α
  | [] => [x]
  | y :: l => if cmpPath (key x) (key y) == .lt then x :: y :: l else y :: insertBy key x l

def sortBy {α : Type} (key : α → PathW) (l : List α) : List α := l.foldl (fun acc x => insertBy key x acc) []

/-- destination entry: kind letter `d` dir, `f` file with other content, `F` file with the snapshot's content, `l` symlink -/
def parseD (tok : String) : Option (DEnt PathW × Bool) :=
  match tok.splitOn ":" with
  | [k, p] =>
    match parsePath p with
    | some p =>
      if k = "d" then some (⟨p, .dir⟩, false) else if k = "f" then some (⟨p, .file⟩, false)
      else if k = "F" then some (⟨p, .file⟩, true) else if k = "l" then some (⟨p, .other⟩, false) else none
    | none => none
  | _ => none

def parseN (tok : String) : Option (NEnt PathW) :=
  match tok.splitOn ":" with
  | [k, p] =>
    match parsePath p with
    | some p =>
      if k = "d" then some ⟨p, .dir⟩ else if k = "f" then some ⟨p, .file⟩ else if k = "s" then some ⟨p, .special⟩ else none
    | none => none
  | _ => none

def parseList {α : Type} (f : String → Option α) (s : String) : Option (List α) :=
  if s = "-" then some [] else (s.splitOn ",").mapM f

/-- destination state after `prepare_restore`: removals (`remove_dir_all` / `remove_file`) and `create_dir_all`;
`none` = `create_dir` failed because a non-directory is in the way -/
def applyEv (dry : Bool) (st : Option (List (PathW × DKind))) (e : Ev PathW) : Option (List (PathW × DKind)) :=
  match st with
  | none => none
  | some l =>
    match e with
    | .additional p _ true => some (l.filter (fun x => !(x.1 == p || properPrefix p x.1)))
    | .node p .dir false =>
      if dry then some l
      else if l.any (fun x => (properPrefix x.1 p || x.1 == p) && x.2 != .dir) then none
      else
        let pres := (List.range p.length).map (fun i => p.take (i + 1))
        some (pres.foldl (fun acc q => if acc.any (fun x => x.1 == q) then acc else acc ++ [(q, DKind.dir)]) l)
    | _ => some l

def kindLetter : DKind → String
  | .dir => "d" | .file => "f" | .other => "l"

def walkObs (delete dry : Bool) (ds : List (DEnt PathW × Bool)) (ns : List (NEnt PathW)) : String :=
  let ds := sortBy (fun x => x.1.path) ds
  let ns := sortBy (fun x => x.path) ns
  let c : Cfg PathW := { cmp := cmpPath, under := properPrefix, delete := delete, dryRun := dry }
  let evs := walk c (ds.map (·.1)) ns
  -- `add_file` (verify on, mtimes differ): Verified iff a regular file with the snapshot's content is there
  let addRes (p : PathW) : AddRes :=
    if ds.any (fun x => x.1.path == p && x.1.kind == .file && x.2) then .verified else .modify
  let st := statsOf addRes evs
  match evs.foldl (applyEv dry) (some (ds.map (fun x => (x.1.path, x.1.kind)))) with
  | none => "err:InputOutput"
  | some fin =>
    let fin := sortBy (fun x => x.1) fin
    let lst := if fin.isEmpty then "-" else ",".intercalate (fin.map (fun x => kindLetter x.2 ++ ":" ++ showPath x.1))
    s!"ok {st.fRestore},{st.fUnchanged},{st.fVerified},{st.fModify},{st.fAdditional}/{st.dRestore},{st.dModify},{st.dAdditional} {lst}"

/-! #### `plan` channel: `to_packs` of the plan built by `add_file` -/

/-- a file is a list of chunk letters; `packOf letter` = the backup that stored it first; dst = letters of the existing
file (`none` = absent).  Blob keys: (pack, offset = letter). -/
def planObs (packOf : Nat → Nat) (files : List (List Nat × Option (List Nat))) : String :=
  let blobsOf (f : List Nat × Option (List Nat)) : List Blob :=
    let sameSize := match f.2 with | some d => d.length == f.1.length | none => false
    (List.range f.1.length).map (fun i =>
      let l := f.1.getD i 0
      let hit := sameSize && (match f.2 with | some d => d.getD i 0 == l | none => false)
      { pack := packOf l, loc := { offset := l, length := 1, dataLen := 1 }, hit := hit })
  let r := build (files.map blobsOf)
  let ps := toPacks r
  let sorted := ps.foldl (fun acc x => if acc.contains x then acc else (acc.filter (· < x)) ++ [x] ++ (acc.filter (· > x))) []
  if sorted.isEmpty then "ok -" else "ok " ++ ",".intercalate (sorted.map toString)

end walk

def parseLetters (s : String) : Option (List Nat) :=
  if s = "-" then some [] else some (s.toList.map Char.toNat)

/-- `<secs>.<nanos>`, nanos < 10^9 -/
def parseMTime (s : String) : Option MTime :=
  match s.splitOn "." with
  | [a, b] =>
    match a.toNat?, b.toNat? with
    | some a, some b => if b < 1000000000 then some ⟨a, b⟩ else none
    | _, _ => none
  | _ => none

/-- `file` channel: the writer-task model (`Model/RestoreTasks.lean`; = `restoreFile` by `restore_tasks_eq_segments`); `dm` = mtime
of the existing destination file, `nm` = mtime of the snapshot node, both at nanosecond resolution -/
def fileObs (chunk content old v s : String) (dm : Option MTime) (nm : Option (Option MTime)) : String :=
  match chunk.toNat?, dataOf content, flag v, flag s, dm, nm with
  | some n, some c, some v, some s, some dm, some nm =>
    if n = 0 then "bad-op" else
    let old? : Option (Option Bytes) := if old = "~" then some none else (dataOf old).map some
    match old? with
    | none => "bad-op"
    | some o =>
      match restoreFileTasks { verify := v, sparse := s } o (some dm) nm (chunksOf n c) with
      | some b => "ok " ++ hex b
      | none => "ok absent"
  | _, _, _, _, _, _ => "bad-op"

def handle : List String → String
  | ["walk", del, dry, dst, nodes] =>
    match flag del, flag dry, parseList parseD dst, parseList parseN nodes with
    | some del, some dry, some ds, some ns => walkObs del dry ds ns
    | _, _, _, _ => "bad-op"
  | ["plan", snaps, which, dsts] =>
    -- snaps: `;`-separated backups, each `,`-separated files, each a string of chunk letters; which = snapshot to restore;
    -- dsts: `,`-separated existing files for that snapshot (`~` absent)
    let backups := (snaps.splitOn ";").map (fun b => (b.splitOn ",").map (fun f => f.toList.map Char.toNat))
    match which.toNat? with
    | some w =>
      match backups[w]? with
      | some files =>
        let ds := (dsts.splitOn ",").map (fun d => if d = "~" then none else some (d.toList.map Char.toNat))
        if ds.length ≠ files.length ∨ files.any (·.isEmpty) then "bad-op" else
        let packOf (l : Nat) : Nat := (backups.findIdx? (fun b => b.any (fun f => f.contains l))).getD 0
        planObs packOf (files.zip ds)
      | none => "bad-op"
    | none => "bad-op"
  | ["typed", kind, del] =>
    -- destination entry of another type than the snapshot's (walk `Equal` arm with mismatch, then `create_dir`):
    -- a file where the snapshot has an (empty) directory is replaced with `--delete` and makes `create_dir` fail without;
    -- a symlink in place of a directory: the property demands that nothing is written through it
    match kind, flag del with
    | "emptydir", some true => "ok dir"
    | "emptydir", some false => "err:InputOutput"
    | "symlink", some _ => "ok"
    | _, _ => "bad-op"
  | ["file", chunk, content, old, v, s, m] =>
    -- short form: destination mtime = the node's (`m` = 1) or 77 s later, whole seconds
    match flag m with
    | some m => fileObs chunk content old v s (some ⟨if m then 1600000000 else 1600000077, 0⟩) (some (some ⟨1600000000, 0⟩))
    | none => "bad-op"
  | ["file", chunk, content, old, v, s, dm, nm] =>
    -- full form: mtime of the existing destination file and of the snapshot node as `<secs>.<nanos>` (node: `~` = none)
    fileObs chunk content old v s (parseMTime dm) (if nm = "~" then some none else (parseMTime nm).map some)
  | ["join", base, item] =>
    match unhex base, unhex item with
    | some b, some i =>
      if (chars b).head? ≠ some '/' then "bad-op" else
      if confined (comps (chars b)) (comps (chars i)) then "in" else "out"
    | _, _ => "bad-op"
  | ["hostile", kind, name] =>
    match unhex name with
    | some n =>
      if n.isEmpty ∨ n.contains 0 then "bad-op" else
      if kind = "abs" then "refused"
      else if kind = "file" ∨ kind = "dir" then (if refused (comps (chars n)) then "refused" else "restored")
      -- the name belongs to a file node inside the plain directory `sub`: the streamed path is `sub/<name>`
      else if kind = "nested" then
        (if (chars n).head? = some '/' then "bad-op"
         else if refused (comps ("sub/".toList ++ chars n)) then "refused" else "restored")
      else "bad-op"
    | none => "bad-op"
  | ["tree", seed] => if seed.toNat?.isSome then "ok" else "bad-op"
  | _ => "bad-op"

end Driver.C14
