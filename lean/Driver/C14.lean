import Rustic.Model.Restore
import Driver.Util
import Driver.C20
/-! Driver channel `c14` — see `harness/src/c14.rs`. -/
namespace Driver.C14
open Rustic.Restore Driver
open Driver.C20 (dataOf)

def chars (bs : List UInt8) : List Char := bs.map (fun b => Char.ofNat b.toNat)

def flag : String → Option Bool
  | "0" => some false | "1" => some true | _ => none

def handle : List String → String
  | ["file", chunk, content, old, v, s, m] =>
    match chunk.toNat?, dataOf content, flag v, flag s, flag m with
    | some n, some c, some v, some s, some m =>
      if n = 0 then "bad-op" else
      let old? : Option (Option Bytes) := if old = "~" then some none else (dataOf old).map some
      match old? with
      | none => "bad-op"
      | some o =>
        match restoreFile { verify := v, sparse := s } o m (chunksOf n c) with
        | some b => "ok " ++ hex b
        | none => "ok absent"
    | _, _, _, _, _ => "bad-op"
  | ["join", base, item] =>
    match unhex base, unhex item with
    | some b, some i =>
      if (chars b).head? ≠ some '/' then "bad-op" else
      if confined (comps (chars b)) (comps (chars i)) then "in" else "out"
    | _, _ => "bad-op"
  | ["hostile", kind, name] =>
    match unhex name with
    | some n =>
      if n.isEmpty ∨ n.contains 0 then "bad-op" else
      if kind = "abs" then "refused"
      else if kind = "file" ∨ kind = "dir" then (if refused (comps (chars n)) then "refused" else "restored")
      else "bad-op"
    | none => "bad-op"
  | ["tree", seed] => if seed.toNat?.isSome then "ok" else "bad-op"
  | _ => "bad-op"

end Driver.C14
