import Rustic.Model.TreeOps
import Driver.Util
/-! `c12 <merge|rewrite|repair|copy> <model tokens…> | <raw store, ignored here>` — see harness/src/c12.rs. -/
namespace Driver.C12
open Rustic.TreeOps

/-! generic pre-order token parser: frames of (header, children so far (reversed)) -/

structure Frame (α : Type) where
  hdr : Option (Nat × Nat × Nat)
  kids : List α

structure PState (α : Type) where
  done : Array (Option (List α)) := #[]      -- finished snapshots (`none` = root unreadable)
  stack : List (Frame α) := []
  started : Bool := false
  emptyRoots : Array Nat := #[]

def closeSnap {α} (ps : PState α) : Option (PState α) :=
  if !ps.started then some ps else
  match ps.stack with
  | [f] => if f.hdr.isNone then some { ps with done := ps.done.push (some f.kids.reverse), stack := [], started := false } else none
  | _ => none

def hdr3 (a b c : String) : Option (Nat × Nat × Nat) := do
  pure (← a.toNat?, ← b.toNat?, ← c.toNat?)

def addNode {α} (ps : PState α) (x : α) : Option (PState α) :=
  match ps.stack with
  | f :: rest => some { ps with stack := { f with kids := x :: f.kids } :: rest }
  | [] => none

def natList (s : String) : Option (List Nat) :=
  if s = "-" then some [] else (s.splitOn ",").mapM (fun (x : String) => x.toNat?)

/-- tokens of merge / rewrite trees -/
def stepTr (ps : PState Tr) (tok : String) : Option (PState Tr) :=
  match tok.splitOn ":" with
  | ["S"] => do
    let ps ← closeSnap ps
    pure { ps with stack := [{ hdr := none, kids := [] }], started := true }
  | ["L", a, b, c] => do
    let (n, k, t) ← hdr3 a b c
    addNode ps (.node n k false t [])
  | ["D", a, b, c] => do
    let h ← hdr3 a b c
    if ps.stack.isEmpty then none else
    pure { ps with stack := { hdr := some h, kids := [] } :: ps.stack }
  | ["E"] =>
    match ps.stack with
    | f :: rest =>
      match f.hdr with
      | some (n, k, t) => addNode { ps with stack := rest } (.node n k true t f.kids.reverse)
      | none => none
    | [] => none
  | _ => none

def parseTrees (toks : List String) : Option (List (List Tr)) := do
  let ps ← toks.foldlM stepTr ({} : PState Tr)
  let ps ← closeSnap ps
  ps.done.toList.mapM id

def stepRT (ps : PState RT) (tok : String) : Option (PState RT) :=
  match tok.splitOn ":" with
  | ["S"] => do
    let ps ← closeSnap ps
    pure { ps with stack := [{ hdr := none, kids := [] }], started := true }
  | ["SU"] => do
    let ps ← closeSnap ps
    pure { ps with done := ps.done.push none }
  | ["SV"] => do
    -- root unreadable, its id is the empty tree's: re-created, snapshot left as it is
    let ps ← closeSnap ps
    pure { ps with done := ps.done.push (some [.other 0 0 0]), emptyRoots := ps.emptyRoots.push ps.done.size }
  | ["L", a, b, c] => do
    let (n, k, t) ← hdr3 a b c
    addNode ps (.other n k t)
  | ["F", a, b, c, size, content] => do
    let (n, k, t) ← hdr3 a b c
    addNode ps (.file n k t (← size.toNat?) (← natList content) false)
  | ["X", a, b, c] => do
    let (n, k, t) ← hdr3 a b c
    addNode ps (.dir n k t 1 [])
  | ["U", a, b, c] => do
    let (n, k, t) ← hdr3 a b c
    addNode ps (.dir n k t 2 [])
  | ["V", a, b, c] => do
    let (n, k, t) ← hdr3 a b c
    addNode ps (.dir n k t 3 [])
  | ["D", a, b, c] => do
    let h ← hdr3 a b c
    if ps.stack.isEmpty then none else
    pure { ps with stack := { hdr := some h, kids := [] } :: ps.stack }
  | ["E"] =>
    match ps.stack with
    | f :: rest =>
      match f.hdr with
      | some (n, k, t) => addNode { ps with stack := rest } (.dir n k t 0 f.kids.reverse)
      | none => none
    | [] => none
  | _ => none

/-! listings -/

def pathStr (p : List Nat) : String := "/".intercalate (p.map toString)

def showTr (l : List Tr) : String :=
  let es := listList l
  if es.isEmpty then "-" else
  ";".intercalate (es.map fun (p, d, k, t) => s!"{pathStr p}|{if d then "d" else "l"}|{k}|{t}")

/-! merge result with ties canonicalised (see harness/src/c12.rs): a node whose group holds several *differing*
    nodes of maximal key is printed as `path|T|key|c+c+…` (candidate codes `2*tag + isdir`, sorted), its children only
    if every candidate is a directory.  The model's own tie-break (tree order) is one of the admissible choices. -/

def insertSorted (x : Nat) : List Nat → List Nat
  | [] => [x]
  | y :: ys => if x < y then x :: y :: ys else if x = y then y :: ys else y :: insertSorted x ys

def code (t : Tr) : Nat := 2 * t.tag + (if t.isDir then 1 else 0)

partial def mergeListing (pre : List Nat) (res : List Tr) (ins : List (List Tr)) : List String :=
  res.flatMap fun r =>
    let grp := ins.filterMap (find r.name)
    let mk := grp.foldl (fun m t => max m t.key) 0
    let cands := ((grp.filter (·.key == mk)).map code).foldr insertSorted []
    let p := pre ++ [r.name]
    let subIns := (grp.filter (·.isDir)).map (·.sub)
    if cands.length > 1 && cands.contains (code r) && r.key == mk then
      s!"{pathStr p}|T|{mk}|{"+".intercalate (cands.map toString)}" ::
        (if cands.all (· % 2 == 1) then mergeListing p r.sub subIns else [])
    else
      s!"{pathStr p}|{if r.isDir then "d" else "l"}|{r.key}|{r.tag}" ::
        (if r.isDir then mergeListing p r.sub subIns else [])

def showMerged (res : List Tr) (ins : List (List Tr)) : String :=
  let es := mergeListing [] res ins
  if es.isEmpty then "-" else ";".intercalate es

mutual
def listRT (pre : String) : RT → List String
  | .file n _ _ size content sfx =>
    let p := pre ++ toString n ++ (if sfx then "+" else "")
    [s!"{p}|f|{size}|{if content.isEmpty then "-" else ",".intercalate (content.map toString)}"]
  | .other n _ t => [s!"{pre}{n}|l|{t}"]
  | .dir n _ t _ sub => s!"{pre}{n}|d|{t}" :: listRTs (pre ++ toString n ++ "/") sub
def listRTs (pre : String) : List RT → List String
  | [] => []
  | x :: l => listRT pre x ++ listRTs pre l
end

def showRT (l : List RT) : String :=
  let es := listRTs "" l
  if es.isEmpty then "-" else ";".intercalate es

/-! sortedness of the inputs (the precondition of merge: trees sorted by name, no duplicates) -/

def sortedNames : List Tr → Bool
  | [] => true
  | [_] => true
  | a :: b :: l => a.name < b.name && sortedNames (b :: l)

partial def allSorted (l : List Tr) : Bool := sortedNames l && l.all (fun t => allSorted t.sub)

def parseEx (toks : List String) : Option (List (List Nat × Bool)) :=
  toks.mapM fun tok =>
    match tok.splitOn ":" with
    | ["x", p, d] => do
      let p ← (if p = "" then some [] else (p.splitOn ".").mapM (fun (x : String) => x.toNat?))
      let d ← (if d = "1" then some true else if d = "0" then some false else none)
      pure (p, d)
    | _ => none

def parseCopy (toks : List String) : Option (List Nat × List CTree) :=
  toks.foldlM (fun (acc : List Nat × List CTree) tok =>
    match tok.splitOn ":" with
    | ["r", t] => do pure (acc.1 ++ [← t.toNat?], acc.2)
    | ["t", id, kids, data] => do
      pure (acc.1, acc.2 ++ [{ id := ← id.toNat?, kids := ← natList kids, data := ← natList data }])
    | _ => none) ([], [])

/-- the snapshot tree below `id` as a term (fuel = number of trees + 1 bounds the depth) -/
def buildS (m : List CTree) : Nat → Nat → Option STree
  | 0, _ => none
  | fuel + 1, id =>
    match m.find? (·.id == id) with
    | none => none
    | some t => (t.kids.mapM (buildS m fuel)).map (fun ks => .node id t.data ks)

def everyOther {α : Type} : List α → List α
  | a :: _ :: rest => a :: everyOther rest
  | l => l

/-- destinations holding arbitrary subsets of the blobs (what `H:lose` / `H:prune` histories leave behind on the real side): the
complete destination, only the root trees, every tree but no chunk, the roots and every chunk but no sub-tree, every other blob -/
def partialDests (full : Dest) (roots : List Nat) : List Dest :=
  [full, ⟨roots, []⟩, ⟨full.trees, []⟩, ⟨roots, full.data⟩, ⟨everyOther full.trees, everyOther (full.data.drop 1)⟩,
   ⟨roots ++ everyOther (full.trees.drop 1), everyOther full.data⟩]

/-- write-fault patterns of one copy run (`H:fault` sweeps on the real side fail every write of the destination in turn): none, one
data / tree blob's pack (first, last, every other), flushed by `finalize()` or not, the index file, a snapshot file -/
def faultPatterns (full : Dest) : List CopyFaults :=
  let no : Nat → Bool := fun _ => false
  let isIn (l : List Nat) : Nat → Bool := fun b => l.contains b
  [⟨no, no, no, no, false, false⟩, ⟨no, no, no, no, true, false⟩, ⟨no, no, no, no, false, true⟩] ++
  ([full.data.take 1, full.data.reverse.take 1, everyOther full.data].flatMap fun bad =>
    [⟨isIn bad, no, isIn bad, no, false, false⟩, ⟨isIn bad, no, no, no, false, false⟩]) ++
  ([full.trees.take 1, full.trees.reverse.take 1, everyOther full.trees].flatMap fun bad =>
    [⟨no, isIn bad, no, isIn bad, false, false⟩, ⟨no, isIn bad, no, no, false, false⟩])

def handle : List String → String
  | op :: rest =>
    let model := rest.takeWhile (· ≠ "|")
    if model.length = rest.length then "bad-op" else
    if op = "merge" then
      match parseTrees model with
      | none => "bad-op"
      | some ts =>
        if !(ts.all allSorted) then "unsorted" else
        s!"ok {showMerged (mergeTrees 64 ts) ts}"
    else if op = "rewrite" || op = "rewrite2" then
      let xs := model.takeWhile (fun t => t.startsWith "x:")
      match parseEx xs, parseTrees (model.drop xs.length) with
      | some ex, some ts =>
        let exf := fun (p : List Nat) (d : Bool) => ex.contains (p, d)
        -- `rewrite2`: the same rewrite applied to its own result
        let rw := fun t => if op = "rewrite2" then rewrite exf (rewrite exf t) else rewrite exf t
        "ok " ++ " # ".intercalate (ts.map (fun t => showTr (rw t)))
      | _, _ => "bad-op"
    else if op = "repair" then
      let hs := model.takeWhile (fun t => t.startsWith "h:")
      let ix? : Option (List (Nat × Nat)) := hs.mapM fun tok =>
        match tok.splitOn ":" with
        | ["h", a, b] => do pure (← a.toNat?, ← b.toNat?)
        | _ => none
      match ix?, (model.drop hs.length).foldlM stepRT ({} : PState RT) with
      | some ixl, some ps =>
        match closeSnap ps with
        | none => "bad-op"
        | some ps =>
          let ix : Idx := fun d => (ixl.find? (·.1 == d)).map (·.2)
          "ok " ++ " # ".intercalate (ps.done.toList.zipIdx.map fun (root, i) =>
            if ps.emptyRoots.contains i then "=-" else
            match root with
            | none => "~-"
            | some l =>
              match repairRoot ix true l with
              | none => "=" ++ showRT l
              | some l' => "~" ++ showRT l')
      | _, _ => "bad-op"
    else if op = "copy" then
      match parseCopy model with
      | none => "bad-op"
      | some (roots, reach) =>
        let d1 := copyStep { trees := [], data := [] } roots reach
        let d2 := copyStep d1 roots reach
        -- the whole run (`copyRun`: walk from ALL roots) into destinations that already hold part of the blobs
        match roots.mapM (buildS reach (reach.length + 1)) with
        | none => "bad-op"
        | some snaps =>
          let full := copyRun { trees := [], data := [] } snaps
          let okPartial := (partialDests full roots).all (fun p => snaps.all (fun s => s.present (copyRun p snaps)))
          -- write faults on the destination: `copy` as written returns an error or leaves every snapshot readable
          let okFaulty := (faultPatterns full).all fun f =>
            match copyRunFaulty true f { trees := [], data := [] } snaps with
            | none => true
            | some d => snaps.all (fun s => s.present d)
          s!"copied restore={if destComplete d1 roots reach && destComplete d2 roots reach && okPartial && okFaulty then "ok" else "bad"}"
    else "bad-op"
  | _ => "bad-op"

end Driver.C12
