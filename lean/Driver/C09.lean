import Rustic.Model.Forget
import Driver.Util
/- Channel `c09` (line protocol, see harness/src/c09.rs for the generator side):
   c09 apply <opts> <now_ns> <perm|-> <snap;snap;…|->   -> ok idx:K|D:reason+reason,…   | err:InvalidInput
   c09 cal <t_ns> <off_s>                               -> ok y m d doy H M S isoY isoW wd
   c09 add <t_ns> <off_s> <span>                        -> ok <ns>
   c09 mark <n|N|A<t>> <off> <now> <off>   -> ok k=<must_keep> d=<must_delete> f=<from_snapshots keep>
   c09 eq <t1> <off1> <t2> <off2>                       -> ok <8 bits: year half quarter month week day hour minute>
   span = p|n . years . months . weeks . days . time_ns ;  snap = t_ns:off_s:id8hex:tree:tags:del -/
namespace Driver.C09
open Rustic.Forget Rustic.Calendar Driver

def parseSpan (s : String) : Option Span :=
  match s.splitOn "." with
  | [sg, y, mo, w, d, ns] =>
    match y.toNat?, mo.toNat?, w.toNat?, d.toNat?, ns.toNat? with
    | some y, some mo, some w, some d, some ns =>
      if sg = "p" then some ⟨false, y, mo, w, d, ns⟩
      else if sg = "n" then some ⟨true, y, mo, w, d, ns⟩ else none
    | _, _, _, _, _ => none
  | _ => none

def unTilde (s : String) : String := if s = "~" then "" else s

/-- `a+b` -> ["a","b"], `-` -> [] -/
def parseSet (s : String) : List String := if s = "-" then [] else (s.splitOn "+").map unTilde

def slotIdx (k : String) : Option Nat :=
  ["l", "M", "H", "d", "w", "m", "q", "h", "y"].idxOf? k

def setSlot (o : KeepOptions) (i : Nat) (f : Slot → Slot) : KeepOptions :=
  { o with slots := o.slots.modify i f }

def parseOpt (o : KeepOptions) (tok : String) : Option KeepOptions :=
  if tok = "none" then some { o with keepNone := true }
  else if tok = "unch" then some { o with deleteUnchanged := true }
  else match tok.splitOn "=" with
    | [k, v] =>
      if k = "tags" then some { o with keepTags := (v.splitOn "|").map parseSet }
      else if k = "ids" then some { o with keepIds := (v.splitOn "|").map unTilde }
      else if k.startsWith "W" then
        match slotIdx (k.drop 1).toString, parseSpan v with
        | some i, some sp => some (setSlot o i (fun s => { s with within := some sp }))
        | _, _ => none
      else match slotIdx k, v.toInt? with
        | some i, some n => some (setSlot o i (fun s => { s with count := some n }))
        | _, _ => none
    | _ => none

def emptyOpts : KeepOptions :=
  { keepTags := [], keepIds := [], slots := List.replicate 9 ⟨none, none⟩, keepNone := false, deleteUnchanged := false }

def parseOpts (s : String) : Option KeepOptions :=
  if s = "-" then some emptyOpts else (s.splitOn ",").foldlM parseOpt emptyOpts

def mkSnap (t off : Int) (id : String) (tree : Nat) (tags : List String) (del : DeleteOpt) : Snap :=
  Snap.ofInstant t off (id ++ String.ofList (List.replicate (64 - id.length) '0')) tree tags del

def parseDel (s : String) : Option DeleteOpt :=
  if s = "n" then some .notSet else if s = "N" then some .never
  else if s.startsWith "A" then (s.drop 1).toString.toInt?.map .after else none

def parseSnap (s : String) : Option Snap :=
  match s.splitOn ":" with
  | [t, off, id, tree, tags, del] =>
    match t.toInt?, off.toInt?, tree.toNat?, parseDel del with
    | some t, some off, some tree, some del => some (mkSnap t off id tree (parseSet tags) del)
    | _, _, _, _ => none
  | _ => none

def parseSnaps (s : String) : Option (List Snap) :=
  if s = "-" then some [] else (s.splitOn ";").mapM parseSnap

def showOut (idx : Nat) (o : Out) : String :=
  toString idx ++ ":" ++ (if o.keep then "K" else "D") ++ ":" ++
    (if o.reasons.isEmpty then "-" else "+".intercalate (o.reasons.map (fun r => r.replace " " "_")))

def isPerm (p : List Nat) (n : Nat) : Bool :=
  p.length == n && (List.range n).all (fun i => p.contains i)

def handle : List String → String
  | ["apply", opts, now, perm, snaps] =>
    match parseOpts opts, now.toInt?, parseSnaps snaps with
    | some o, some now, some l =>
      let p : Option (List Nat) :=
        if perm = "-" then
          -- stable newest-first order of the indices
          let idx := List.range l.length
          let tagged := (l.zip idx).map (fun (s, i) => { s with tree := i })   -- reuse sortDesc on a copy
          some ((sortDesc tagged).map (·.tree))
        else (perm.splitOn ".").mapM String.toNat?
      match p with
      | none => "bad-op"
      | some p =>
        if !isPerm p l.length then "bad-op" else
        let sorted := p.filterMap (fun i => l[i]?)
        if !isSortedDesc sorted then "bad-order" else
        match applyWith (fun _ => sorted) o l now with
        | .error .invalidInput => "err:InvalidInput"
        | .ok outs =>
          if outs.isEmpty then "ok -" else "ok " ++ ",".intercalate ((p.zip outs).map (fun (i, o) => showOut i o))
    | _, _, _ => "bad-op"
  | ["cal", t, off] =>
    match t.toInt?, off.toInt? with
    | some t, some off =>
      let c := Civil.ofInstant t off
      s!"ok {c.year} {c.month} {c.day} {c.doy} {c.hour} {c.minute} {c.second} {c.isoYear} {c.isoWeek} {c.weekday}"
    | _, _ => "bad-op"
  | ["add", t, off, sp] =>
    match t.toInt?, off.toInt?, parseSpan sp with
    | some t, some off, some sp => s!"ok {addSpan t off sp}"
    | _, _, _ => "bad-op"
  | ["eq", t1, o1, t2, o2] =>
    match t1.toInt?, o1.toInt?, t2.toInt?, o2.toInt? with
    | some t1, some o1, some t2, some o2 =>
      let a := mkSnap t1 o1 "" 0 [] .notSet
      let b := mkSnap t2 o2 "" 0 [] .notSet
      let bit (f : Snap → Snap → Bool) : String := if f a b then "1" else "0"
      "ok " ++ bit equalYear ++ bit equalHalfYear ++ bit equalQuarterYear ++ bit equalMonth ++ bit equalWeek
        ++ bit equalDay ++ bit equalHour ++ bit equalMinute
    | _, _, _, _ => "bad-op"
  | ["mark", del, doff, now, noff] =>
    -- instants are compared, the two zone offsets are irrelevant (but must be numbers)
    match parseDel del, doff.toInt?, now.toInt?, noff.toInt? with
    | some d, some _, some now, some _ =>
      let sn := mkSnap 0 0 "" 0 [] d
      let b (x : Bool) : String := if x then "1" else "0"
      -- `ForgetGroups::from_snapshots`: keep = must_keep
      s!"ok k={b (mustKeep sn now)} d={b (mustDelete sn now)} f={b (mustKeep sn now)}"
    | _, _, _, _ => "bad-op"
  | _ => "bad-op"

end Driver.C09
