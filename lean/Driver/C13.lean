import Rustic.Model.Streamer
import Rustic.Model.Archive
import Driver.Util
import Driver.C11
namespace Driver.C13
open Rustic.Streamer Driver

/-- decimal digits only (`String.toNat?` also accepts `_` separators; the harness does not) -/
def num? (s : String) : Option Nat := if !s.isEmpty && s.all Char.isDigit then s.toNat? else none

/-- most labels one forest / root list may expand to (as in the harness) -/
def maxLabels : Nat := 200000

/-- a label `7` or a range `3-9` (both ends included) -/
def parseItem (x : String) : Option (List Nat) :=
  match x.splitOn "-" with
  | [a] => (num? a).map ([·])
  | [a, b] => do
    let a ← num? a
    let b ← num? b
    if a > b || b - a ≥ maxLabels then none else pure ((List.range (b - a + 1)).map (· + a))
  | _ => none

/-- labels / ranges separated by `sep` -/
def parseLabelList (s : String) (sep : String) : Option (List Nat) := do
  let ls ← (s.splitOn sep).mapM parseItem
  let l := ls.flatten
  if l.length ≥ maxLabels then none else pure l

/-- `<ids>=<children>;…`: `ids` a label or a range (every tree of the range has the same sub-tree list) -/
def parseForest (s : String) : Option (List (Nat × List Nat)) :=
  if s = "-" then some [] else do
  let gs ← (s.splitOn ";").mapM fun t =>
    match t.splitOn "=" with
    | [ids, cs] => do
      let ids ← parseItem ids
      let cs ← if cs = "" then some [] else parseLabelList cs "."
      if ids.length * (max cs.length 1) > 4 * maxLabels then none else
      pure (ids.map (fun i => (i, cs)))
    | _ => none
  let l := gs.flatten
  if l.length > maxLabels then none else pure l

def parseRoots (s : String) : Option (List Nat) := if s = "-" then some [] else parseLabelList s ","

def insertNat (x : Nat) : List Nat → List Nat
  | [] => [x]
  | y :: ys => if x ≤ y then x :: y :: ys else y :: insertNat x ys

def refCounts (src : String) (nruns : Nat) : String :=
  match Driver.C11.parseSrc src with
  | none => "bad-op"
  | some es =>
    let empty : Driver.C11.Repo := {}
    match Driver.C11.runArchive empty { ignoreCtime := false, ignoreInode := false } [] (Driver.C11.itemsOf es) with
    | none => "model-fail"
    | some a =>
      s!"ok runs={nruns} trees={(a.treeAdds.map (·.1)).eraseDups.length} data={a.dataAdds.eraseDups.length}"

/-- rayon pool field of a run (`<n>` installed pool, `g<n>` child process with a global pool of n, `0` default pool,
    n ≤ 64).  The model result does not depend on it — that is the property; it is only checked for well-formedness. -/
def validPool (s : String) : Bool :=
  let (g, num) := if s.startsWith "g" then (true, s.drop 1) else (false, s)
  match num.toNat? with
  | some n => n ≤ 64 && num.all Char.isDigit && (!g || n ≥ 1)
  | none => false

/-- `r<ms>` (ms ≤ 1000): slow pack writes and a repack-all + fast-repack prune — how the packs are rewritten does not change
    what a snapshot references, so the model ignores it too -/
def validRepack (s : String) : Bool :=
  s.startsWith "r" && (match num? (s.drop 1).toString with | some ms => ms ≤ 1000 | none => false)

def validRun (t : String) : Option Unit :=
  match t.splitOn "." with
  | [a, b, c] => if (num? a).isSome && (num? b).isSome && (num? c).isSome then some () else none
  | [a, b, c, p] =>
    if (num? a).isSome && (num? b).isSome && (num? c).isSome && validPool p then some () else none
  | [a, b, c, p, r] =>
    if (num? a).isSome && (num? b).isSome && (num? c).isSome && validPool p && validRepack r then some () else none
  | _ => none

/-- `seed`, `seed.pool` or `seed.pool.watchdog-seconds` -/
def validSeed (s : String) : Bool :=
  match s.splitOn "." with
  | [a] => a.toNat?.isSome
  | [a, p] => a.toNat?.isSome && validPool p
  | [a, p, w] => a.toNat?.isSome && validPool p && (match w.toNat? with | some n => 1 ≤ n && n ≤ 600 | none => false)
  | _ => false

def validRuns (s : String) : Option Nat :=
  match (s.splitOn ",").mapM validRun with
  | some l => some l.length
  | none => none

/-! ### `rest`: restore under the pack-size settings

The restored bytes are a function of the snapshot's files (blob lists, blob contents) and of the existing destination —
`Props.C13.restore_writes_independent_of_pack_layout`; no pack-size setting enters.  The model line: number and byte size of
the source files, and how many destination files are trusted unread with OTHER content (`add_file`: no `verify_existing`, a
regular file of the node's size whose mtime equals the node's). -/

def safeName (n : List UInt8) : Bool :=
  !n.isEmpty && n.all (fun b => (48 ≤ b && b ≤ 57) || (65 ≤ b && b ≤ 90) || (97 ≤ b && b ≤ 122))

/-- path below the source root -/
def relPath (e : Rustic.Tree.Entry (List Nat)) : List (List UInt8) :=
  (if e.node.kind = .dir then e.path else e.path ++ [e.node.name]).drop 1

/-- what a `rest` case accepts as source / destination: files and directories, alphanumeric components, whole-second mtimes,
    no path twice (as the harness) -/
def restValid (es : List (Rustic.Tree.Entry (List Nat))) : Bool :=
  es.all (fun e =>
    (e.node.kind = .file || e.node.kind = .dir) && (relPath e).all safeName &&
    (match e.node.md.mtime with | some m => 0 ≤ m && m < 4000000000 | none => false)) &&
  (es.map relPath).eraseDups.length = es.length

/-- run tokens of a `rest` case: `seed.dpack.tpack[.pool]`, pool `0` or an installed pool of 2..64 workers -/
def restRun (t : String) : Bool :=
  match t.splitOn "." with
  | [a, b, c] => (num? a).isSome && (num? b).isSome && (num? c).isSome
  | [a, b, c, p] =>
    (num? a).isSome && (num? b).isSome && (num? c).isSome &&
      (match num? p with | some n => n ≤ 64 && n ≠ 1 | none => false)
  | _ => false

def restLine (src dst : List (Rustic.Tree.Entry (List Nat))) (verify : Bool) (nruns : Nat) : String :=
  let files := src.filter (fun e => e.node.kind = .file)
  let dfiles := dst.filter (fun e => e.node.kind = .file)
  let kept := files.filter fun f =>
    !verify && dfiles.any fun d =>
      relPath d = relPath f && d.node.md.size = f.node.md.size && d.node.md.mtime = f.node.md.mtime && d.x ≠ f.x
  s!"ok runs={nruns} files={files.length} bytes={(files.map (·.node.md.size)).sum} kept={kept.length}"

def handle : List String → String
  | ["stream", seed, forest, roots] =>
    match validSeed seed, parseForest forest, parseRoots roots with
    | true, some forest, some roots =>
      let children (id : Nat) : List Nat := ((forest.find? (·.1 = id)).map (·.2)).getD []
      -- any delivery order yields the same set (Props.C13.treeStreamerOnce_any_order); take the oldest first
      let s := runSched children (init roots) (List.replicate (forest.length + roots.length + 2) 0)
      let l := s.yielded.foldr insertNat []
      if !isDone s then "model-fail:not-done" else
      "ok " ++ (if l.isEmpty then "-" else ",".intercalate (l.map toString))
    | _, _, _ => "bad-op"
  | ["run", src, runs] =>
    match validRuns runs with
    | some n => refCounts src n
    | none => "bad-op"
  | ["hist", a, b, runs] =>
    match validRuns runs, Driver.C11.parseSrc a with
    | some n, some _ => refCounts b n
    | _, _ => "bad-op"
  | ["chk", ms] => if ms.toNat?.isSome then "ok errors>0" else "bad-op"
  | ["rest", src, dst, verify, runs] =>
    match Driver.C11.parseSrc src, Driver.C11.parseSrc dst with
    | some s, some d =>
      let rs := runs.splitOn ","
      if (verify = "0" || verify = "1") && restValid s && restValid d && rs.all restRun then
        restLine s d (verify = "1") rs.length
      else "bad-op"
    | _, _ => "bad-op"
  | ["snaps", seed, n] =>
    -- n snapshots with pairwise different, complete root trees: `check` finds nothing, whatever the schedule
    match validSeed seed, num? n with
    | true, some n => if 1 ≤ n && n ≤ 20000 then s!"ok snaps={n}" else "bad-op"
    | _, _ => "bad-op"
  | ["copy", src, runs] =>
    -- backup + `copy` into a second repository: the copy references what the source snapshot references
    match validRuns runs with
    | some n => refCounts src n
    | none => "bad-op"
  | ["order", run, src] =>
    -- one run token without the repack field; the prune is executed twice (index files arriving in either order)
    match validRuns run with
    | some 1 => if (run.splitOn ".").length ≤ 4 then refCounts src 2 else "bad-op"
    | _ => "bad-op"
  | ["big", seed, cmd, dirs, t1, t2, k] =>
    -- n directories with one small file of its own content each (generated by the harness from n): n data blobs, the n
    -- directory trees, the trees of `w`, of `src` and the root — whatever the schedule, the command and the index-write latencies
    match validSeed seed && (seed.splitOn ".").length ≤ 2, num? dirs, num? t1, num? t2, num? k with
    | true, some n, some t1, some t2, some k =>
      if (cmd = "backup" || cmd = "prune" || cmd = "copy") && 1 ≤ n && n ≤ 100000 && t1 ≤ 10000 && t2 ≤ 10000 && k ≤ 100 then
        s!"ok big dirs={n} trees={n + 3} data={n}"
      else "bad-op"
    | _, _, _, _, _ => "bad-op"
  | _ => "bad-op"

end Driver.C13
