import Rustic.Model.Streamer
import Rustic.Model.Archive
import Driver.Util
import Driver.C11
namespace Driver.C13
open Rustic.Streamer Driver

def parseForest (s : String) : Option (List (Nat × List Nat)) :=
  if s = "-" then some [] else
  (s.splitOn ";").mapM fun t =>
    match t.splitOn "=" with
    | [id, cs] => do
      let id ← id.toNat?
      let cs ← if cs = "" then some [] else (cs.splitOn ".").mapM String.toNat?
      pure (id, cs)
    | _ => none

def insertNat (x : Nat) : List Nat → List Nat
  | [] => [x]
  | y :: ys => if x ≤ y then x :: y :: ys else y :: insertNat x ys

def refCounts (src : String) (nruns : Nat) : String :=
  match Driver.C11.parseSrc src with
  | none => "bad-op"
  | some es =>
    let empty : Driver.C11.Repo := {}
    match Driver.C11.runArchive empty { ignoreCtime := false, ignoreInode := false } [] (Driver.C11.itemsOf es) with
    | none => "model-fail"
    | some a =>
      s!"ok runs={nruns} trees={(a.treeAdds.map (·.1)).eraseDups.length} data={a.dataAdds.eraseDups.length}"

/-- rayon pool field of a run (`<n>` installed pool, `g<n>` child process with a global pool of n, `0` default pool,
    n ≤ 64).  The model result does not depend on it — that is the property; it is only checked for well-formedness. -/
def validPool (s : String) : Bool :=
  let (g, num) := if s.startsWith "g" then (true, s.drop 1) else (false, s)
  match num.toNat? with
  | some n => n ≤ 64 && num.all Char.isDigit && (!g || n ≥ 1)
  | none => false

def validRun (t : String) : Option Unit :=
  match t.splitOn "." with
  | [a, b, c] => if a.toNat?.isSome && b.toNat?.isSome && c.toNat?.isSome then some () else none
  | [a, b, c, p] =>
    if a.toNat?.isSome && b.toNat?.isSome && c.toNat?.isSome && validPool p then some () else none
  | _ => none

/-- `seed`, `seed.pool` or `seed.pool.watchdog-seconds` -/
def validSeed (s : String) : Bool :=
  match s.splitOn "." with
  | [a] => a.toNat?.isSome
  | [a, p] => a.toNat?.isSome && validPool p
  | [a, p, w] => a.toNat?.isSome && validPool p && (match w.toNat? with | some n => 1 ≤ n && n ≤ 600 | none => false)
  | _ => false

def validRuns (s : String) : Option Nat :=
  match (s.splitOn ",").mapM validRun with
  | some l => some l.length
  | none => none

def handle : List String → String
  | ["stream", seed, forest, roots] =>
    match validSeed seed, parseForest forest, Driver.C11.parseLabels roots with
    | true, some forest, some roots =>
      let children (id : Nat) : List Nat := ((forest.find? (·.1 = id)).map (·.2)).getD []
      -- any delivery order yields the same set (Props.C13.treeStreamerOnce_any_order); take the oldest first
      let s := runSched children (init roots) (List.replicate (forest.length + roots.length + 2) 0)
      let l := s.yielded.foldr insertNat []
      if !isDone s then "model-fail:not-done" else
      "ok " ++ (if l.isEmpty then "-" else ",".intercalate (l.map toString))
    | _, _, _ => "bad-op"
  | ["run", src, runs] =>
    match validRuns runs with
    | some n => refCounts src n
    | none => "bad-op"
  | ["hist", a, b, runs] =>
    match validRuns runs, Driver.C11.parseSrc a with
    | some n, some _ => refCounts b n
    | _, _ => "bad-op"
  | ["chk", ms] => if ms.toNat?.isSome then "ok errors>0" else "bad-op"
  | _ => "bad-op"

end Driver.C13
