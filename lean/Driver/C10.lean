import Rustic.Model.Interleave
import Driver.C03
/-
C10 driver channel.

  c10 mon <bp|pb|bb|bfp> <spec> <pre> <run> <follow>     (op syntax as in channel c03)
     bfp    = forget + one or two prunes while a backup is parked (run contains the forget's snapshot removals; with another
              complete backup between the two prunes and/or the follow-up prune later than keep-delete after the marking — the
              spec's parameter code; the judgement does not depend on it)
     run    = interleaved storage operations of command A (parked before its k-th operation) and command B
     follow = operations of the follow-up prune
  observation `ok` iff the pre-state is consistent, after EVERY prefix of `run` nothing a visible snapshot needs is lost
  (`Repo.recoverable`: still stored and listed, unmarked or marked) — for `bb` even `Repo.consistent` — and after
  `run ++ follow` the repository is consistent.

  c10 slowprune <seed>    the schedule of theorem `slow_prune_can_lose` on the interleaving model (pruneSpan = none).
-/
namespace Driver.C10
open Rustic.Repo Driver

def firstLost (strict : Bool) (r : Repo) (ops : List Op) : Option Nat :=
  let ok (r : Repo) : Bool := if strict then consistent r else r.snaps.all (recoverable r)
  let rec go (r : Repo) (k : Nat) : List Op → Option Nat
    | [] => if ok r then none else some k
    | o :: ops => if ok r then go (apply r o) (k + 1) ops else some k
  go r 0 ops

def handle : List String → String
  | ["mon", kind, _spec, pre, run, follow] =>
    match Driver.C03.parseOps pre, Driver.C03.parseOps run, Driver.C03.parseOps follow with
    | some pre, some run, some follow =>
      if !(kind == "bp" || kind == "pb" || kind == "bb" || kind == "bfp") then "bad-op" else
      let r0 := applyAll {} pre
      if !consistent r0 then "bad:pre-inconsistent" else
      match firstLost (kind == "bb") r0 run with
      | some k => s!"bad:lost-at-prefix{k}"
      | none =>
        if consistent (applyAll r0 (run ++ follow)) then "ok" else "bad:not-consistent-after-followup-prune"
    | _, _, _ => "bad-op"
  | ["slowprune", _seed] =>
    match (Rustic.Interleave.run (Rustic.Interleave.w0 none) Rustic.Interleave.slowPruneRun).map Rustic.Interleave.noLoss with
    | some false => "model:loss-possible-when-prune-span-unbounded"
    | some true => "model:no-loss"
    | none => "model:schedule-refused"
  | _ => "bad-op"

end Driver.C10
