import Rustic.Model.Archive
import Rustic.Model.Rabin
import Rustic.Gen.Constants
import Driver.Util
import Driver.C06
import Driver.C11
namespace Driver.C07
open Rustic.Tree Rustic.Parent Rustic.Archive Rustic.Chunker Rustic.Rabin Driver

def poly : UInt64 := 0x003DA3358B4DC173

def fnv (bs : List UInt8) : UInt64 :=
  bs.foldl (fun h b => (h ^^^ b.toUInt64) * 0x00000100000001b3) 0xcbf29ce484222325

def splitLens : List UInt8 → List Nat → List (List UInt8)
  | _, [] => []
  | bs, n :: ns => bs.take n :: splitLens (bs.drop n) ns

/-- chunk ids (digest of the chunk bytes) and lengths of a file content, by the chunker model -/
def chunkIds (t : Tables) (avg mn mx : Nat) (bs : List UInt8) : List (Nat × Nat) :=
  let p : Params := { min := mn, max := mx, mask := (avg - 1).toUInt64, win := Rustic.Gen.PREFILL_SLICE }
  let lens := Driver.C06.collect (roll t) p (St.init Rustic.Gen.BUF_SIZE bs []) []
  (splitLens bs lens).map (fun c => ((fnv c).toNat, c.length))

inductive Content where
  | bytes (chunks : List (Nat × Nat))      -- (id, len) of each chunk
  | treeOf (path : List Name)

def parseTable (t : Tables) (avg mn mx : Nat) (s : String) : Option (List Content) :=
  if s = "-" then some [] else
  (s.splitOn ";").mapM fun tok =>
    match tok.toList with
    | 'b' :: h => (unhex (String.ofList h)).map fun bs => .bytes (chunkIds t avg mn mx bs)
    | 'T' :: p => (Driver.C11.parsePath (String.ofList p)).map .treeOf
    | _ => none

structure E where
  path : List Name
  kind : Kind
  mtime : Int
  content : Nat
  /-- the size the node RECORDS when it is not the length of the content (stdin-style nodes: 0; grown / shrunk files) -/
  rsize : Option Nat := none

def parseState (s : String) : Option (List E) :=
  if s = "-" then some [] else
  (s.splitOn ";").mapM fun tok =>
    match tok.splitOn ":" with
    | [path, kind, mtime, content] => do
      let path ← Driver.C11.parsePath path
      let kind ← Driver.C11.parseKind kind
      let mtime ← mtime.toInt?
      let content ← content.toNat?
      if path.isEmpty then none else pure { path, kind, mtime, content }
    | [path, "f", mtime, content, rsize] => do
      let path ← Driver.C11.parsePath path
      let mtime ← mtime.toInt?
      let content ← content.toNat?
      let rsize ← rsize.toNat?
      if path.isEmpty then none else pure { path, kind := .file, mtime, content, rsize := some rsize }
    | _ => none

def srcName : Name := [115, 114, 99]

/-- entries of one state; `coll p` gives the chunk list of a tree-collision file (pass 1: empty) -/
def entriesOf (table : List Content) (coll : List Name → List Nat × Nat) (es : List E) : Option (List (Entry (List Nat))) :=
  es.mapM fun e => do
    let (ids, size) ← (if e.kind = .file then
        match (table[e.content]? : Option Content) with
        | some (Content.bytes cs) => some (cs.map (·.1), (cs.map (·.2)).sum)
        | some (Content.treeOf p) => some (coll p)
        | none => none
      else some (([] : List Nat), 0))
    let name ← e.path.getLast?
    -- the chunk ids come from the CONTENT (`Archive.fileStep`: `chunk x`); the node records whatever size the source reported
    let node : Node := { name, kind := e.kind, md := { size := e.rsize.getD size, mtime := some e.mtime, ctime := some e.mtime, inode := 0 } }
    let full := srcName :: e.path
    pure { path := if e.kind = .dir then full else full.dropLast, node, x := ids }

def pathTok (p : List Name) : String := if p.isEmpty then "." else "/".intercalate (p.map hex)

/-- every directory of a snapshot: (path token, tree id) -/
partial def treePaths (load : Nat → Option (List Node)) (root : Nat) : List (String × Nat) :=
  let rec go (fuel : Nat) (prefix_ : List Name) (id : Nat) : List (String × Nat) :=
    match fuel with
    | 0 => []
    | fuel + 1 =>
      match load id with
      | none => []
      | some ns => (ns.filterMap fun n => n.subtree.map fun st =>
          let p := prefix_ ++ [n.name]
          (pathTok p, st) :: go fuel p st).flatten
  (".", root) :: go 64 [] root

def insertStr (x : String) : List String → List String
  | [] => [x]
  | y :: ys => if x ≤ y then x :: y :: ys else y :: insertStr x ys

def sortStr (l : List String) : List String := l.foldr insertStr []

def minStr : List String → Option String
  | [] => none
  | x :: xs => some (xs.foldl (fun a b => if b < a then b else a) x)

def hex16 (n : Nat) : String := hexU64 n.toUInt64

def joinOr (l : List String) : String := if l.isEmpty then "-" else ",".intercalate l

structure HState where
  repo : Driver.C11.Repo := {}
  roots : List Nat := []
  lens : List (Nat × Nat) := []       -- data id → length
  out : List String := []

def hist (parent : String) (table : List Content) (states : List (List E)) : String :=
  let force : Opts := { ignoreCtime := false, ignoreInode := false }
  let rec go (i : Nat) (sts : List (List E)) (h : HState) : String :=
    match sts with
    | [] => " ".intercalate ("ok" :: h.out.reverse)
    | st :: rest =>
      -- pass 1: tree ids of the directories, collision files empty
      match entriesOf table (fun _ => ([], 0)) st with
      | none => "bad-op"
      | some es1 =>
        let empty : Driver.C11.Repo := {}
        match Driver.C11.runArchive empty force [] (Driver.C11.itemsOf es1) with
        | none => "model-fail:pass1"
        | some a1 =>
          let r1 := empty.add a1
          let coll (p : List Name) : List Nat × Nat :=
            match Driver.C11.lookupPath r1.load a1.root (srcName :: p) with
            | some t => ([t], 1000 + t % 1000)
            | none => ([], 0)
          let collIds : List (Nat × String) := (table.filterMap fun c => match c with
            | .treeOf p => (Driver.C11.lookupPath r1.load a1.root (srcName :: p)).map (fun t => (t, "T" ++ pathTok p))
            | _ => none)
          match entriesOf table coll st with
          | none => "bad-op"
          | some es =>
            let roots := if parent = "1" then (match h.roots.getLast? with | some r => [r] | none => []) else []
            match Driver.C11.runArchive h.repo force roots (Driver.C11.itemsOf es) with
            | none => "model-fail:archive"
            | some a =>
              let evs := a.dataAdds.map (Rustic.Archive.Ev.enter .data) ++ a.treeAdds.map (fun t => Rustic.Archive.Ev.enter .tree t.1)
              let fin := finalizeAll (runEvs { typed := true } evs)
              let keys := keysOf fin.packs
              let dkeys := (keys.filter (·.1 = .data)).map (·.2)
              let tkeys := (keys.filter (·.1 = .tree)).map (·.2)
              let lens := h.lens ++ (table.filterMap fun c => match c with | .bytes cs => some cs | _ => none).flatten
              let lenOf (id : Nat) : Nat := ((lens.find? (·.1 = id)).map (·.2)).getD 0
              let isColl (id : Nat) : Option String := (collIds.find? (·.1 = id)).map (·.2)
              let df := (dkeys.map fun id => if (isColl id).isSome then 0 else lenOf id).sum
              let dtoks := sortStr (dkeys.map fun id => match isColl id with
                | some t => t
                | none => s!"{hex16 id}.{lenOf id}")
              let repo' := h.repo.add a
              let paths := treePaths repo'.load a.root
              let ttoks := sortStr (tkeys.map fun id => (minStr ((paths.filter (·.2 = id)).map (·.1))).getD "?")
              let allRoots := h.roots ++ [a.root]
              let rank := (allRoots.findIdx? (· = a.root)).getD i
              let line := s!"[{i}] tree={rank} d={dkeys.length} t={tkeys.length} df={df} new={joinOr dtoks}|{joinOr ttoks}"
              go (i + 1) rest { repo := repo', roots := allRoots, lens := h.lens, out := line :: h.out }
  go 0 states {}

def parseAdds (s : String) : Option (List Rustic.Archive.Ev) :=
  if s = "-" then some [] else
  (s.splitOn ",").mapM fun tok =>
    match tok.splitOn "." with
    | ["d", l, _] => l.toNat?.map (Rustic.Archive.Ev.enter .data)
    | ["t", l, _] => l.toNat?.map (Rustic.Archive.Ev.enter .tree)
    | _ => none

/-- `i.k,…` (i ≥ 1): a failing read of one index file while the index is reloaded before backup `i`.  The model's answer does not
depend on it: the reload fails (`Props.C07.reload_with_unreadable_index_file_fails`), is repeated, and the backup sees the complete
index (`reloaded_index_has_every_listed_blob`). -/
def faultsOk (s : String) : Bool :=
  s = "-" || (s.splitOn ",").all fun tok =>
    match tok.splitOn "." with
    | [i, k] => (match i.toNat?, k.toNat? with | some i, some _ => i ≥ 1 | _, _ => false)
    | _ => false

def handleHist (parent avg mn mx table states faults : String) : String :=
    match avg.toNat?, mn.toNat?, mx.toNat? with
    | some avg, some mn, some mx =>
      if parent ≠ "0" && parent ≠ "1" then "bad-op" else
      if !faultsOk faults then "bad-op" else
      let t := Tables.mk' Rustic.Gen.WINDOW_BITS poly
      match parseTable t avg mn mx table, (states.splitOn "|").mapM parseState with
      | some table, some states => hist parent table states
      | _, _ => "bad-op"
    | _, _, _ => "bad-op"

def handle : List String → String
  | ["hist", parent, avg, mn, mx, table, states] => handleHist parent avg mn mx table states "-"
  | ["hist", parent, avg, mn, mx, table, states, faults] => handleHist parent avg mn mx table states faults
  | ["many", dsize, n, len, dups] =>
    -- every distinct blob is stored exactly once, whatever the schedule and wherever the indexer flushes its file
    -- (Props.C07 `uploaded_exactly_added`, `settled_blob_is_never_stored_again`): the index lists `n` keys
    match dsize.toNat?, n.toNat?, len.toNat? with
    | some _, some n, some len =>
      let ds : Option (List Nat) := if dups = "-" then some [] else (dups.splitOn ",").mapM (fun (x : String) => x.toNat?)
      match ds with
      | some ds => if n > 400000 || len < 8 || len > 4096 || ds.any (· ≥ n) then "bad-op" else s!"ok keys={n}"
      | none => "bad-op"
    | _, _, _ => "bad-op"
  | ["pack", dsize, tsize, adds] =>
    match dsize.toNat?, tsize.toNat?, parseAdds adds with
    | some _, some _, some evs =>
      let fin := finalizeAll (runEvs { typed := true } evs)
      let toks := (keysOf fin.packs).eraseDups.map fun k => (if k.1 = .data then "d" else "t") ++ toString k.2
      "ok " ++ joinOr (sortStr toks)
    | _, _, _ => "bad-op"
  | _ => "bad-op"

end Driver.C07
