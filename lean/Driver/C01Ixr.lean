/- Model driver, channel `c01 ixr`: the index files an `Indexer` writes (`Rustic.Store.Ixr`, Props.C01
`indexer_files_list_every_pack`), with the regenerated flush threshold `INDEXER_MAX_COUNT`. -/
import Rustic.Model.Store
import Rustic.Gen.Constants
namespace Driver.C01Ixr
open Rustic.Store Rustic.Index

def packOf (label n : Nat) : IndexPack :=
  { id := label, size := none
    blobs := (List.range n).map fun k => { id := k, tpe := .data, loc := { offset := 40 * k, length := 40, ulen := none } } }

def insertSorted (g : List Nat) : List (List Nat) → List (List Nat)
  | [] => [g]
  | h :: t => if g.headD 0 ≤ h.headD 0 then g :: h :: t else h :: insertSorted g t

def handle : List String → String
  | [counts] =>
    let cs : Option (List Nat) := if counts = "-" then some [] else (counts.splitOn ",").mapM (fun (x : String) => x.toNat?)
    match cs with
    | none => "bad-op"
    | some cs =>
      if cs.sum > 400000 then "bad-op" else
      let adds := (cs.zipIdx).map fun (n, label) => (packOf label n, false)
      let r := Ixr.run Rustic.Gen.C01_INDEXER_MAX_COUNT adds
      let groups := (r.saved.map fun f => f.packs.map (·.id)).foldr insertSorted []
      if groups.isEmpty then "ok -" else
      "ok " ++ ";".intercalate (groups.map fun g => ",".intercalate (g.map toString))
  | _ => "bad-op"

end Driver.C01Ixr
