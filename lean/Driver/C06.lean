import Rustic.Model.Rabin
import Rustic.Model.ChunkerErr
import Rustic.Gen.Constants
import Driver.Util
namespace Driver.C06
open Rustic.Chunker Rustic.Rabin Driver

def mkSched (seed : UInt64) (n : Nat) : List Ev :=
  let rec go : Nat → UInt64 → List Ev → List Ev
    | 0, _, acc => acc
    | k + 1, s, acc =>
      let (v, s') := splitmix s
      let ev := if v % 4 = 0 then Ev.intr else Ev.short ((v >>> 8) % 97).toNat
      go k s' (ev :: acc)
  go n seed []

partial def collect (r : Roll σ) (p : Params) (st : St) (acc : List Nat) : List Nat :=
  match next r p st with
  | (none, _) => acc.reverse
  | (some c, st') => collect r p st' (c.length :: acc)

partial def collectLit (poly mask : UInt64) (mn mx : Nat) (bs : Bytes) (acc : List Nat) : List Nat :=
  if bs.isEmpty then acc.reverse else
  let c := litCut poly mask mn mx 64 bs
  if c = 0 then acc.reverse else collectLit poly mask mn mx (bs.drop c) (c :: acc)

partial def collectFixed (size : Nat) (st : FSt) (acc : List Nat) : List Nat :=
  match fixedNext size st with
  | (none, _) => acc.reverse
  | (some c, st') => collectFixed size st' (c.length :: acc)

partial def collectE (r : Roll σ) (p : Params) (st : St) (acc : List Nat) : List Nat × String :=
  match nextE true r p st with
  | (none, _) => (acc.reverse, "none")
  | (some .err, _) => (acc.reverse, "err")
  | (some (.chunk c), st') => collectE r p st' (c.length :: acc)

partial def collectFixedE (size : Nat) (st : FSt) (acc : List Nat) : List Nat × String :=
  match fixedNextE true size st with
  | (none, _) => (acc.reverse, "none")
  | (some .err, _) => (acc.reverse, "err")
  | (some (.chunk c), st') => collectFixedE size st' (c.length :: acc)

def obsE (x : List Nat × String) : String :=
  s!"ok {joinNats x.1}{if x.1.isEmpty then "" else " "}end={x.2}"

def handle : List String → String
  | ["rabin", poly, avg, mn, mx, seed, data] =>
    match parseHexU64 poly, avg.toNat?, mn.toNat?, mx.toNat?, seed.toNat?, unhex data with
    | some poly, some avg, some mn, some mx, some seed, some bs =>
      if !checkRabinParams avg mn mx then "err:Unsupported" else
      let t := Tables.mk' Rustic.Gen.WINDOW_BITS poly
      let p : Params := { min := mn, max := mx, mask := (avg - 1).toUInt64, win := Rustic.Gen.PREFILL_SLICE }
      let st := St.init Rustic.Gen.BUF_SIZE bs (mkSched seed.toUInt64 (seed % 50))
      "ok " ++ joinNats (collect (roll t) p st [])
    | _, _, _, _, _, _ => "bad-op"
  | ["rabinfail", poly, avg, mn, mx, seed, failAt, data] =>
    match parseHexU64 poly, avg.toNat?, mn.toNat?, mx.toNat?, seed.toNat?, failAt.toNat?, unhex data with
    | some poly, some avg, some mn, some mx, some seed, some failAt, some bs =>
      if mn = 0 then "bad-op" else
      let t := Tables.mk' Rustic.Gen.WINDOW_BITS poly
      let p : Params := { min := mn, max := mx, mask := (avg - 1).toUInt64, win := Rustic.Gen.PREFILL_SLICE }
      let st := St.init Rustic.Gen.BUF_SIZE (bs.take failAt) (mkSched seed.toUInt64 (seed % 50))
      obsE (collectE (roll t) p st [])
    | _, _, _, _, _, _, _ => "bad-op"
  | ["fixedfail", size, _seed, failAt, data] =>
    match size.toNat?, failAt.toNat?, unhex data with
    | some size, some failAt, some bs =>
      if size = 0 then "bad-op" else obsE (collectFixedE size { rest := bs.take failAt, finished := false } [])
    | _, _, _ => "bad-op"
  | ["litwin", poly, avg, mn, mx, _seed, data] =>
    match parseHexU64 poly, avg.toNat?, mn.toNat?, mx.toNat?, unhex data with
    | some poly, some avg, some mn, some mx, some bs =>
      if mn = 0 then "nonterminating" else
      "ok " ++ joinNats (collectLit poly (avg - 1).toUInt64 mn mx bs [])
    | _, _, _, _, _ => "bad-op"
  | ["fixed", size, _seed, data] =>
    match size.toNat?, unhex data with
    | some size, some bs => "ok " ++ joinNats (collectFixed size { rest := bs, finished := false } [])
    | _, _ => "bad-op"
  | ["fp", poly, data] =>
    match parseHexU64 poly, unhex data with
    | some poly, some bs =>
      let t := Tables.mk' Rustic.Gen.WINDOW_BITS poly
      "ok " ++ hexU64 (bs.foldl (slide t) (reset t)).hash
    | _, _ => "bad-op"
  | _ => "bad-op"

end Driver.C06
