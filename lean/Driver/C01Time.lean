/- Model driver, channel `c01 time`: the `timespec` `LocalDestination::set_times` writes (`Rustic.Times.toFileTime`). -/
import Rustic.Model.Times
namespace Driver.C01Time
open Rustic.Times

def okT (s n : Int) : Bool := decide (-NS < n ∧ n < NS ∧ (0 < s → 0 ≤ n) ∧ (s < 0 → n ≤ 0))

def handle : List String → String
  | [s, n] =>
    match s.toInt?, n.toInt? with
    | some s, some n =>
      if !okT s n then "bad-op" else
      let (a, b) := toFileTime ⟨s, n⟩
      s!"ok {a} {b} {a} {b}"
    | _, _ => "bad-op"
  | [s, n, a, an] =>
    match s.toInt?, n.toInt?, a.toInt?, an.toInt? with
    | some s, some n, some a, some an =>
      if !okT s n || !okT a an then "bad-op" else
      let (x, y) := toFileTime ⟨s, n⟩
      let (u, v) := toFileTime ⟨a, an⟩
      s!"ok {x} {y} {u} {v}"
    | _, _, _, _ => "bad-op"
  | _ => "bad-op"

end Driver.C01Time
