import Rustic.Model.Parent
import Rustic.Model.Archive
import Driver.Util
namespace Driver.C11
open Rustic.Tree Rustic.Parent Driver

def optInt (s : String) : Option (Option Int) :=
  if s = "n" then some none else s.toInt?.map some

def parseContent (s : String) : Option (Option (List Nat)) :=
  if s = "n" then some none
  else if s = "e" then some (some [])
  else ((s.splitOn ".").mapM String.toNat?).map some

def parseKind (s : String) : Option Kind :=
  match s.toList with
  | ['f'] => some .file
  | ['d'] => some .dir
  | 'l' :: t => (unhex (String.ofList t)).map .symlink
  | 'o' :: k => (String.ofList k).toNat?.map .other
  | _ => none

def parseNode (s : String) : Option Node :=
  match s.splitOn ":" with
  | [name, kind, size, mtime, ctime, inode, content, subtree] => do
    let name ← unhex name
    let kind ← parseKind kind
    let size ← size.toNat?
    let mtime ← optInt mtime
    let ctime ← optInt ctime
    let inode ← inode.toNat?
    let content ← parseContent content
    let subtree ← if subtree = "n" then some none else subtree.toNat?.map some
    pure { name, kind, md := { size, mtime, ctime, inode }, content, subtree }
  | _ => none

def contentTok : Option (List Nat) → String
  | none => "n"
  | some [] => "e"
  | some l => ".".intercalate (l.map toString)

def parseLabels (s : String) : Option (List Nat) :=
  if s = "-" then some [] else (s.splitOn ",").mapM String.toNat?

def parseStore (s : String) : Option (List (Nat × List Node)) :=
  if s = "-" then some [] else
  (s.splitOn ";").mapM fun t =>
    match t.splitOn "=" with
    | [id, ns] => do
      let id ← id.toNat?
      let nodes ← if ns = "" then some [] else (ns.splitOn "|").mapM parseNode
      pure (id, nodes)
    | _ => none

def parseItems (s : String) : Option (List (Item Unit)) :=
  if s = "-" then some [] else
  (s.splitOn ";").mapM fun t =>
    match t.toList with
    | ['E'] => some .endTree
    | 'N' :: n => (parseNode (String.ofList n)).map fun nd => .newTree nd nd.name
    | 'O' :: n => (parseNode (String.ofList n)).map fun nd => .other nd ()
    | _ => none

def loadOf (store : List (Nat × List Node)) (id : Nat) : Option (List Node) :=
  (store.find? (·.1 = id)).map (·.2)

def showOut : Out Unit → String
  | .newTree _ (.matched t) => s!"N:M{t}"
  | .newTree _ .notFound => "N:NF"
  | .newTree _ .notMatched => "N:NM"
  | .endTree => "E"
  | .stackEmpty => "X"
  | .panicNoSubtree => "PANIC"
  | .other n _ (.matched _) => "O:M:" ++ contentTok n.content
  | .other n _ .notFound => "O:NF:" ++ contentTok n.content
  | .other n _ .notMatched => "O:NM:" ++ contentTok n.content

/-! e2e: source specs, a concrete (collision-improbable) tree hash, three archive runs -/

/-- non-linear 64-bit mixing (splitmix64 finaliser): a linear mix lets a node moved between directory levels cancel out -/
def mix (a b : Nat) : Nat :=
  (splitmix ((splitmix (a.toUInt64 * 0x9E3779B97F4A7C15 + 0x1234567)).1 ^^^ (b.toUInt64 * 0xC2B2AE3D27D4EB4F + 1))).1.toNat

def hBytes (bs : List UInt8) : Nat := bs.foldl (fun a c => mix a (c.toNat + 1)) 7

def hKind : Kind → Nat
  | .file => 1
  | .dir => 2
  | .symlink t => mix 3 (hBytes t)
  | .other k => mix 4 k

def hOptInt : Option Int → Nat
  | none => 0
  | some i => 1 + i.toNat

def hNode (n : Node) : Nat :=
  [hBytes n.name, hKind n.kind, n.md.size, hOptInt n.md.mtime, hOptInt n.md.ctime, n.md.inode, n.md.rest,
   (match n.content with | none => 0 | some l => l.foldl mix 1),
   (match n.subtree with | none => 0 | some t => t + 1)].foldl mix 17

def treeHash (ns : List Node) : Nat := ns.foldl (fun a n => mix a (hNode n)) 99

def blockLen (label : Nat) : Nat := if label < 500 then 64 else 8 + label % 50

def rootTime : Int := 1600000000

def parsePath (s : String) : Option (List Name) :=
  if s = "." then some [] else (s.splitOn "/").mapM unhex

/-- `p1/p2:kind:mtime:ctime:inode:content` → entry under the source root `src` -/
def parseSE (s : String) : Option (Entry (List Nat)) :=
  match s.splitOn ":" with
  | [path, kind, mtime, ctime, inode, content] => do
    let path ← parsePath path
    let kind ← parseKind kind
    let mtime ← mtime.toInt?
    let ctime ← ctime.toInt?
    let inode ← inode.toNat?
    let labels ← if content = "n" || content = "e" then some [] else (content.splitOn ".").mapM String.toNat?
    let name ← path.getLast?
    let size := if kind = .file then (labels.map blockLen).sum else 0
    let node : Node := { name, kind, md := { size, mtime := some mtime, ctime := some ctime, inode } }
    let full := [115, 114, 99] :: path
    pure { path := if kind = .dir then full else full.dropLast, node, x := labels }
  | _ => none

def parseSrc (s : String) : Option (List (Entry (List Nat))) :=
  if s = "-" then some [] else (s.splitOn ";").mapM parseSE

def rootEntry : Entry (List Nat) :=
  { path := [[115, 114, 99]], node := { name := [115, 114, 99], kind := .dir, md := { size := 0, mtime := some rootTime, ctime := some rootTime, inode := 0 } }, x := [] }

def itemsOf (es : List (Entry (List Nat))) : List (Item (List Nat)) := treeItems (rootEntry :: es)

def lookupPath (load : Nat → Option (List Node)) : Nat → List Name → Option Nat
  | t, [] => some t
  | t, c :: cs => do
    let ns ← load t
    let n ← ns.find? (fun n => n.name = c)
    let st ← n.subtree
    lookupPath load st cs

structure Repo where
  trees : List (Nat × List Node) := []
  datas : List Nat := []

def Repo.load (r : Repo) (id : Nat) : Option (List Node) := loadOf r.trees id
def Repo.hasTree (r : Repo) (id : Nat) : Bool := r.trees.any (·.1 = id)
def Repo.hasData (r : Repo) (id : Nat) : Bool := r.datas.contains id
def Repo.add (r : Repo) (a : Rustic.Archive.ArchOut) : Repo :=
  { trees := r.trees ++ a.treeAdds, datas := r.datas ++ a.dataAdds }

def runArchive (r : Repo) (o : Opts) (roots : List Nat) (items : List (Item (List Nat))) : Option Rustic.Archive.ArchOut :=
  Rustic.Archive.archive treeHash id (fun l => (l.map blockLen).sum) r.load r.hasData r.hasTree o roots items

def showReads (bItems : List (Entry (List Nat))) (reads : List Node) : String :=
  -- indices (in the source listing) of the files read; nodes are identified by position
  let rec go (es : List (Entry (List Nat))) (i : Nat) (rs : List Node) (acc : List Nat) : List Nat :=
    match es, rs with
    | [], _ => acc.reverse
    | _, [] => acc.reverse
    | e :: es', r :: rs' =>
      if e.node.kind = .file && e.node = r then go es' (i + 1) rs' (i :: acc) else go es' (i + 1) rs acc
  let l := go bItems 0 reads []
  if l.isEmpty then "-" else ".".intercalate (l.map toString)

def e2e (flags pm a a2 rmdata rmtree b : String) : String :=
  match flags.toList, parseSrc a, parseSrc a2, parseLabels rmdata, parseSrc b,
        (if rmtree = "-" then some [] else (rmtree.splitOn ",").mapM parsePath) with
  | [ic, ii, sk], some sa, some sa2, some rmd, some sb, some rmt =>
    if !([ic, ii, sk].all (fun c => c == '0' || c == '1')) || !(["x", "r", "l"].contains pm) then "bad-op" else
    let o : Opts := { ignoreCtime := ic == '1', ignoreInode := ii == '1' }
    let force : Opts := { ignoreCtime := false, ignoreInode := false }
    match runArchive {} force [] (itemsOf sa) with
    | none => "model-fail:A"
    | some outA =>
      let r1 := ({} : Repo).add outA
      let (r2, rootA2) : Repo × Option Nat :=
        if a2 = "-" then (r1, none) else
        match runArchive r1 force [] (itemsOf sa2) with
        | none => (r1, none)
        | some outA2 => (r1.add outA2, some outA2.root)
      -- blobs removed from the index
      let rmTreeIds := rmt.filterMap fun p =>
        match p with
        | [] => some outA.root
        | [[]] => lookupPath r2.load outA.root [[115, 114, 99]]
        | comps => lookupPath r2.load outA.root ([115, 114, 99] :: comps)
      let r3 : Repo := { trees := r2.trees.filter (fun t => !rmTreeIds.contains t.1), datas := r2.datas.filter (fun d => !rmd.contains d) }
      let roots := match pm, rootA2 with
        | "x", some r => [outA.root, r]
        | "r", some r => [r, outA.root]
        | "l", some r => [r]
        | _, _ => [outA.root]
      match runArchive r3 o roots (itemsOf sb) with
      | none => "model-fail:P"
      | some outP =>
        let parentTree := (roots.filter (fun id => (r3.load id).isSome)).head?
        let saved := !(sk == '1' && parentTree == some outP.root)
        let r4 := r3.add outP
        match runArchive r4 force [] (itemsOf sb) with
        | none => "model-fail:F"
        | some outF =>
          let sm := outP.summary
          let d := if rootA2.isSome then "*" else s!"{sm.dirsNew},{sm.dirsChanged},{sm.dirsUnmodified}"
          s!"ok eq={if outP.root = outF.root then 1 else 0} saved={if saved then 1 else 0} f={sm.filesNew},{sm.filesChanged},{sm.filesUnmodified} d={d} reads={showReads sb outP.reads} added={outP.dataAdds.eraseDups.length}"
  | _, _, _, _, _, _ => "bad-op"

def handle : List String → String
  | ["proc", flags, index, store, roots, items] =>
    match flags.toList, parseLabels index, parseStore store, parseLabels roots, parseItems items with
    | [ic, ii], some index, some store, some roots, some items =>
      if (ic != '0' && ic != '1') || (ii != '0' && ii != '1') then "bad-op" else
      let o : Opts := { ignoreCtime := ic == '1', ignoreInode := ii == '1' }
      let load := loadOf store
      let outs := run o load (fun d => index.contains d) (PState.init load roots) items
      " ".intercalate ("ok" :: outs.map showOut)
    | _, _, _, _, _ => "bad-op"
  | ["e2e", flags, pm, a, a2, rmdata, rmtree, b] => e2e flags pm a a2 rmdata rmtree b
  | _ => "bad-op"

end Driver.C11
