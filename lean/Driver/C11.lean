import Rustic.Model.Parent
import Driver.Util
namespace Driver.C11
open Rustic.Tree Rustic.Parent Driver

def optInt (s : String) : Option (Option Int) :=
  if s = "n" then some none else s.toInt?.map some

def parseContent (s : String) : Option (Option (List Nat)) :=
  if s = "n" then some none
  else if s = "e" then some (some [])
  else ((s.splitOn ".").mapM String.toNat?).map some

def parseKind (s : String) : Option Kind :=
  match s.toList with
  | ['f'] => some .file
  | ['d'] => some .dir
  | 'l' :: t => (unhex (String.ofList t)).map .symlink
  | 'o' :: k => (String.ofList k).toNat?.map .other
  | _ => none

def parseNode (s : String) : Option Node :=
  match s.splitOn ":" with
  | [name, kind, size, mtime, ctime, inode, content, subtree] => do
    let name ← unhex name
    let kind ← parseKind kind
    let size ← size.toNat?
    let mtime ← optInt mtime
    let ctime ← optInt ctime
    let inode ← inode.toNat?
    let content ← parseContent content
    let subtree ← if subtree = "n" then some none else subtree.toNat?.map some
    pure { name, kind, md := { size, mtime, ctime, inode }, content, subtree }
  | _ => none

def contentTok : Option (List Nat) → String
  | none => "n"
  | some [] => "e"
  | some l => ".".intercalate (l.map toString)

def parseLabels (s : String) : Option (List Nat) :=
  if s = "-" then some [] else (s.splitOn ",").mapM String.toNat?

def parseStore (s : String) : Option (List (Nat × List Node)) :=
  if s = "-" then some [] else
  (s.splitOn ";").mapM fun t =>
    match t.splitOn "=" with
    | [id, ns] => do
      let id ← id.toNat?
      let nodes ← if ns = "" then some [] else (ns.splitOn "|").mapM parseNode
      pure (id, nodes)
    | _ => none

def parseItems (s : String) : Option (List (Item Unit)) :=
  if s = "-" then some [] else
  (s.splitOn ";").mapM fun t =>
    match t.toList with
    | ['E'] => some .endTree
    | 'N' :: n => (parseNode (String.ofList n)).map fun nd => .newTree nd nd.name
    | 'O' :: n => (parseNode (String.ofList n)).map fun nd => .other nd ()
    | _ => none

def loadOf (store : List (Nat × List Node)) (id : Nat) : Option (List Node) :=
  (store.find? (·.1 = id)).map (·.2)

def showOut : Out Unit → String
  | .newTree _ (.matched t) => s!"N:M{t}"
  | .newTree _ .notFound => "N:NF"
  | .newTree _ .notMatched => "N:NM"
  | .endTree => "E"
  | .stackEmpty => "X"
  | .panicNoSubtree => "PANIC"
  | .other n _ (.matched _) => "O:M:" ++ contentTok n.content
  | .other n _ .notFound => "O:NF:" ++ contentTok n.content
  | .other n _ .notMatched => "O:NM:" ++ contentTok n.content

def handle : List String → String
  | ["proc", flags, index, store, roots, items] =>
    match flags.toList, parseLabels index, parseStore store, parseLabels roots, parseItems items with
    | [ic, ii], some index, some store, some roots, some items =>
      if (ic != '0' && ic != '1') || (ii != '0' && ii != '1') then "bad-op" else
      let o : Opts := { ignoreCtime := ic == '1', ignoreInode := ii == '1' }
      let load := loadOf store
      let outs := run o load (fun d => index.contains d) (PState.init load roots) items
      " ".intercalate ("ok" :: outs.map showOut)
    | _, _, _, _, _ => "bad-op"
  | _ => "bad-op"

end Driver.C11
