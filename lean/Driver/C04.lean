import Rustic.Model.Codec
import Rustic.Model.WriteSites
import Driver.Util
/- Driver channel `c04` — see harness/src/c04.rs for the op-line grammar and the observation formats. -/
namespace Driver.C04
open Rustic.Codec Driver

/-- a concrete `AE`/`Zstd` for the driver (the observations compared with the real code do not depend on it:
they are lengths, accept/reject verdicts that the theorems derive for every `AE`, and codec branch decisions) -/
def xorWith (k : UInt8) (m : Bytes) : Bytes := m.map (· ^^^ k)

def toyAE : AE where
  Key := UInt8
  enc k _ m := xorWith k m
  dec k _ c := xorWith k c
  tag k n c := List.replicate 16 (c.foldl (· + ·) (n.foldl (· + ·) k))
  enc_len _ _ m := by simp [xorWith]
  dec_enc k _ m := by
    simp only [xorWith, List.map_map]
    conv => rhs; rw [← List.map_id m]
    apply List.map_congr_left
    intro a _
    simp only [Function.comp, id]
    rw [UInt8.xor_assoc, UInt8.xor_self, UInt8.xor_zero]
  enc_dec k _ c := by
    simp only [xorWith, List.map_map]
    conv => rhs; rw [← List.map_id c]
    apply List.map_congr_left
    intro a _
    simp only [Function.comp, id]
    rw [UInt8.xor_assoc, UInt8.xor_self, UInt8.xor_zero]
  tag_len _ _ _ := by simp

/-- stands in for zstd: marker byte + data; random bytes do not "decompress" -/
def toyZstd : Zstd where
  compress x := 0xFD :: x
  decompress x := match x with
    | 0xFD :: r => some r
    | _ => none
  round _ := rfl

def key : UInt8 := 0x3C
def nonce : Bytes := List.replicate 16 0x11

def errStr : CodecErr → String
  | .crypto _ => "err:Cryptography"
  | .unsupported => "err:Unsupported"
  | .zstd => "err:Internal"
  | .length => "err:Internal"

/-- `read_encrypted_full` wraps every codec error as kind `Cryptography` -/
def fileObs (z : Bool) (data : Bytes) : String :=
  let stored := encodeFile toyAE toyZstd z key nonce data
  let rt := match decodeFile toyAE toyZstd key stored with
    | .ok d => if d = data then "same" else "diff"
    | .error _ => "err:Cryptography"
  -- uncompressed plaintext starting with the zstd marker byte: error or other bytes, one observation (see harness)
  let rt := if !z && data.head? == some 2 && rt != "same" then "marker-collision" else rt
  let ovh := if z then "z" else toString (stored.length - data.length)
  s!"ok rt={rt} ovh={ovh}"

def blobObs (z : Bool) (data : Bytes) : String :=
  let (stored, dlen, ulen) := encodeBlob toyAE toyZstd z key nonce data
  let rt := match decodeBlob toyAE toyZstd key stored ulen with
    | .ok d => if d = data then "same" else "diff"
    | .error e => errStr e
  let mis := match ulen with
    | none => "na"
    | some u => match decodeBlob toyAE toyZstd key stored (some (u + 1)) with
      | .ok _ => "accepted"
      | .error e => errStr e
  let us := match ulen with
    | none => "-"
    | some u => toString u
  s!"ok ulen={us} dlen={dlen} rt={rt} mis={mis}"

/-- `msg`: the verdict counts are what `tamper_accept_is_forgery` + unforgeability give (everything rejected); the
classification of short prefixes is computed with the model's `decrypt` (it is independent of the `AE`). -/
def msgObs (n : Nat) : String :=
  let len := n + 32
  let ct := encrypt toyAE key nonce (List.replicate n 0)
  let flips := len * 8
  let trunc := len + min len 40
  let ext := 17
  let short := (List.range (min len 32)).map fun l => decrypt toyAE key (ct.take l)
  let nocode := (short.filter fun r => match r with | .error .tooShort => true | _ => false).length
  let c001 := (short.filter fun r => match r with | .error .mac => true | _ => false).length
  let rt := match decrypt toyAE key ct with
    | .ok m => if m = List.replicate n 0 then 1 else 0
    | .error _ => 0
  s!"ok len={ct.length} rt={rt} flips={flips}/{flips} trunc={trunc}/{trunc} ext={ext}/{ext} short={nocode},{c001} fresh=1"

/-- key scripts: the list of key files in listing order = planted-first (id 00…), good ones, planted-last (id ff…) -/
structure KeyState where
  first : Option (KeyEntry Nat Nat) := none
  good : List (Option (KeyEntry Nat Nat)) := []
  last : Option (KeyEntry Nat Nat) := none
  /-- error kinds of the planted files: `x` unparsable JSON -> `Key`; `y` data shorter than 16 bytes -> `Cryptography` (no code C001) -/
  firstKind : String := ""
  lastKind : String := ""

def KeyState.listing (s : KeyState) : List (KeyEntry Nat Nat) :=
  s.first.toList ++ s.good.filterMap id ++ s.last.toList

def keyResStr (s : KeyState) : KeyResult Nat → String
  | .ok _ => "ok"
  | .macFail => "err:Cryptography"
  | .wrongPassword => "err:Credentials"
  | .otherErr => if s.first.isSome then s.firstKind else s.lastKind

def keysObs (script : String) : String :=
  let rec go (ops : List String) (s : KeyState) (out : List String) : Option (List String) :=
    match ops with
    | [] => some out.reverse
    | op :: rest =>
      let c := (op.take 1).toString
      let arg := (op.drop 1).toString
      if c = "a" ∨ c = "A" then
        match arg.toNat? with
        | some p => go rest { s with good := s.good ++ [some (.good s.good.length p 0)] } out
        | none => none
      else if c = "r" then
        match arg.toNat? with
        | some i => go rest { s with good := s.good.set i none } out
        | none => none
      else if c = "x" ∨ c = "y" then
        -- `x`: unparsable JSON -> ErrorKind::Key; `y`: data too short -> ErrorKind::Cryptography without code C001
        let kind := if c = "x" then "err:Key" else "err:Cryptography"
        if arg = "0" then go rest { s with first := some .malformed, firstKind := kind } out
        else if arg = "f" then go rest { s with last := some .malformed, lastKind := kind } out
        else none
      else if c = "o" then
        match arg.toNat? with
        | some p => go rest s (keyResStr s (findKey s.listing p) :: out)
        | none => none
      else if op = "m" then go rest s ("ok" :: out)
      else none
  match go (script.splitOn ",") {} [] with
  | some out => "ok " ++ (if out.isEmpty then "-" else ",".intercalate out)
  | none => "bad-op"

def handle : List String → String
  | ["msg", n, seed] =>
    match n.toNat?, seed.toNat? with
    | some n, some _ => msgObs n
    | _, _ => "bad-op"
  | ["file", z, data] =>
    if z ≠ "z" ∧ z ≠ "-" then "bad-op" else
    match unhex data with
    | some d => fileObs (z = "z") d
    | none => "bad-op"
  | ["blob", z, data] =>
    if z ≠ "z" ∧ z ≠ "-" then "bad-op" else
    match unhex data with
    | some d => blobObs (z = "z") d
    | none => "bad-op"
  | ["keys", script] => keysObs script
  | ["initpw", p, qs] =>
    -- `init` with a password writes one key file for exactly that password (`commands/init.rs` -> `add_key_to_repo`)
    match p.toNat?, (qs.splitOn ",").mapM (·.toNat?) with
    | some p, some qs =>
      let st : KeyState := { good := [some (.good 0 p 0)] }
      "ok " ++ ",".intercalate (qs.map fun q => keyResStr st (findKey st.listing q))
    | _, _ => "bad-op"
  | ["scan", seed] => if seed.toNat?.isSome then "ok" else "bad-op"
  | ["sites"] => "ok " ++ Rustic.WriteSites.render
  | ["hist", seed] => if seed.toNat?.isSome then "ok" else "bad-op"
  | ["tamper", seed] => if seed.toNat?.isSome then "ok" else "bad-op"
  -- packs extended at the front: every read fails or returns the original content (oracle in the harness; `Pack.fromFile`
  -- refuses any file whose length is not the one its header describes: Props/C08 `from_file_rejects_front_extended`)
  | ["tamper", "front", seed] => if seed.toNat?.isSome then "ok" else "bad-op"
  | ["swap", "snapshot", seed] => if seed.toNat?.isSome then "undetected" else "bad-op"
  -- exchanging two index / pack / key files: every read fails or returns what it returned before (oracle in the harness)
  | ["swap", "index", seed] => if seed.toNat?.isSome then "ok" else "bad-op"
  | ["swap", "pack", seed] => if seed.toNat?.isSome then "ok" else "bad-op"
  | ["swap", "key", seed] => if seed.toNat?.isSome then "ok" else "bad-op"
  -- two data packs with identical layout exchanged: the model's blob read (`decodeBlob`) has no id to compare with — the
  -- substituted blob is a valid message and is returned (as `substitution_is_not_detected` for whole files)
  | ["swap", "packtwin", seed] => if seed.toNat?.isSome then "undetected" else "bad-op"
  | _ => "bad-op"

end Driver.C04
