import Rustic.Model.Repo
import Rustic.Model.PackerActor
import Rustic.Gen.Constants
import Driver.Util
/-
C03 driver channel (trace monitor).

  c03 mon <cmd> <spec> <pre> <run> [<repl>]
     repl  = replacement table of a snapshot-replacing run: `<old>><new>` pairs separated by `.` (`-` = none; snapshot file
             numbers of `pre` / `run`): snapshot `new` written by the run is the rewritten / repaired successor of `old`
     cmd   = backup | forget | prune | prune-instant | merge | copy | rewrite | repairsnap | repairidx | repairidx-readall |
             config | key | keyrm   (copy: the repository is the destination)
     spec  = scenario description (only read by the harness)
     pre   = abstract operations that build the state before the command (applied to the empty repository)
     run   = abstract operations the real command issued (decoded from the backend log by the harness)
     ops separated by `;` (`-` = none):
       P<id>:<keys>  writePack      p<id>  removePack     keys = `t1.d2` or `-`
       I<id>:<packs>|<del>  writeIndex, packs separated by `+`, pack = `<id>=<keys>`      i<id>  removeIndex
       S<id>:<keys>  writeSnap (keys = closure)          s<id>  removeSnap         O  other (key/config file)
  c03 big <spec> <pre> <run> <counts>
     the same for a backup with more blobs than the indexer's auto-save threshold (blob keys abstracted to occurrence
     classes by the harness); counts = `<pack>=<number of blobs>` per pack written, separated by `.`.  Additionally
     (a) writer language: every index file lists only packs written before it and listed by no earlier index file of the
     run, and at the end every written pack is listed; (b) the auto-save rule: `Model/PackerActor.lean` is run on the
     packs in the order they were indexed (the order inside the index files) with `maxCount` = the generated
     `C03_INDEXER_MAX_COUNT`; the index files it writes must list the same groups of packs as the observed ones.
  observation: `ok` iff the pre-state is consistent, the state after EVERY prefix of `run` is consistent
  (Repo.firstBad = none), no prefix has LOST a snapshot (Repo.firstLost = none over Repo.mustKeep: every snapshot of the
  pre-state that the run does not remove on purpose — removed without a successor in `repl` — is present as itself or as
  its successor; else `bad:lost<k>`), `run` is in the phase language of the command and — for the commands that publish new packs
  (backup, copy, merge, rewrite, repairsnap) — in the writer language ((a) below); else `bad:…`.
-/
namespace Driver.C03
open Rustic.Repo Driver

def splitList (sep : String) (s : String) : List String := if s = "-" then [] else s.splitOn sep

def parseKey (s : String) : Option Key :=
  match s.toList with
  | 't' :: r => (String.ofList r).toNat?.map (fun n => (BlobType.tree, n))
  | 'd' :: r => (String.ofList r).toNat?.map (fun n => (BlobType.data, n))
  | _ => none

def parseKeys (s : String) : Option (List Key) := (splitList "." s).mapM parseKey

def parseIdxPack (s : String) : Option IdxPack :=
  match s.splitOn "=" with
  | [id, keys] => match id.toNat?, parseKeys keys with
    | some id, some ks => some { id := id, blobs := ks }
    | _, _ => none
  | _ => none

def parseOp (s : String) : Option Op :=
  match s.toList with
  | ['O'] => some .other
  | 'p' :: r => (String.ofList r).toNat?.map Op.removePack
  | 'i' :: r => (String.ofList r).toNat?.map Op.removeIndex
  | 's' :: r => (String.ofList r).toNat?.map Op.removeSnap
  | 'P' :: r => match (String.ofList r).splitOn ":" with
    | [id, keys] => match id.toNat?, parseKeys keys with
      | some id, some ks => some (.writePack { id := id, blobs := ks })
      | _, _ => none
    | _ => none
  | 'S' :: r => match (String.ofList r).splitOn ":" with
    | [id, keys] => match id.toNat?, parseKeys keys with
      | some id, some ks => some (.writeSnap { id := id, needs := ks })
      | _, _ => none
    | _ => none
  | 'I' :: r => match (String.ofList r).splitOn ":" with
    | [id, rest] => match rest.splitOn "|" with
      | [packs, del] => match id.toNat?, (splitList "+" packs).mapM parseIdxPack, (splitList "+" del).mapM parseIdxPack with
        | some id, some ps, some ds => some (.writeIndex { id := id, packs := ps, del := ds })
        | _, _, _ => none
      | _ => none
    | _ => none
  | _ => none

def parseOps (s : String) : Option (List Op) := (splitList ";" s).mapM parseOp

/-- writer language of a fault-free run that adds data (see the header) -/
def writerLang : List Nat → List Op → Bool
  | w, [] => w.isEmpty
  | w, .writePack p :: r => writerLang (p.id :: w) r
  | w, .writeIndex i :: r =>
    i.packs.all (fun p => w.contains p.id) && writerLang (w.filter (fun id => !(i.packs.any (fun p => p.id == id)))) r
  | w, _ :: r => writerLang w r

/-- commands whose new index files list exactly the packs the run wrote (packer → writer → indexer, `publish` protocol) -/
def publishCmds : List String := ["backup", "copy", "merge", "rewrite", "repairsnap"]

def parseRepl (s : String) : Option (List (Nat × Nat)) :=
  (splitList "." s).mapM (fun t => match t.splitOn ">" with
    | [a, b] => match a.toNat?, b.toNat? with
      | some a, some b => some (a, b)
      | _, _ => none
    | _ => none)

def monitor (cmd : String) (pre run : List Op) (succ : List (Nat × Nat) := []) : String :=
  let r0 := applyAll {} pre
  if !consistent r0 then "bad:pre-inconsistent" else
  match phasesOf (if cmd = "keyrm" then "key" else cmd) with
  | none => "bad-op"
  | some phs =>
    match firstBad r0 run with
    | some k => s!"bad:prefix{k}"
    | none =>
      match firstLost succ (mustKeep r0 succ run) r0 run with
      | some k => s!"bad:lost{k}"
      | none =>
      if !matchPhases phs (run.map Op.kind) then "bad:phase"
      else if publishCmds.contains cmd && !writerLang [] run then "bad:writer-language"
      else "ok"

def parseCounts (s : String) : Option (List (Nat × Nat)) :=
  (splitList "." s).mapM (fun t => match t.splitOn "=" with
    | [a, b] => match a.toNat?, b.toNat? with
      | some a, some b => some (a, b)
      | _, _ => none
    | _ => none)

/-- groups of pack ids listed by the index files the actor model writes when the packs (with their blob counts) are
written and indexed in the given order by one writer and the command then finishes -/
def modelGroups (maxCount : Nat) (packs : List (Nat × Nat)) : List (List Nat) :=
  let ps : List Pack := packs.map (fun (id, n) => { id := id, blobs := List.replicate n (BlobType.data, 0) })
  let s := Rustic.PackerActor.run maxCount (Rustic.PackerActor.init {} 1)
    (Rustic.PackerActor.sequential 0 ps ++ [.finish { id := 0, needs := [] } true true])
  s.repo.indexes.reverse.map (fun i => i.packs.map (·.id))

def autosaveRule (run : List Op) (counts : List (Nat × Nat)) : Bool :=
  let groups := run.filterMap (fun o => match o with | .writeIndex i => some (i.packs.map (·.id)) | _ => none)
  match groups.flatten.mapM (fun id => (counts.find? (·.1 == id)).map (fun c => (id, c.2))) with
  | none => false
  | some order => modelGroups Rustic.Gen.C03_INDEXER_MAX_COUNT order == groups

def monitorBig (pre run : List Op) (counts : List (Nat × Nat)) : String :=
  match monitor "backup" pre run with
  | "ok" =>
    if !writerLang [] run then "bad:writer-language"
    else if !autosaveRule run counts then "bad:autosave-rule"
    else if (run.filter (fun o => o.kind == 'I')).length < 2 then "bad:no-auto-saved-index"
    else "ok"
  | other => other

def handle : List String → String
  | ["big", _spec, pre, run, counts] =>
    match parseOps pre, parseOps run, parseCounts counts with
    | some pre, some run, some counts => monitorBig pre run counts
    | _, _, _ => "bad-op"
  | ["mon", cmd, _spec, pre, run] =>
    match parseOps pre, parseOps run with
    | some pre, some run => monitor cmd pre run
    | _, _ => "bad-op"
  | ["mon", cmd, _spec, pre, run, repl] =>
    match parseOps pre, parseOps run, parseRepl repl with
    | some pre, some run, some succ => monitor cmd pre run succ
    | _, _, _ => "bad-op"
  | _ => "bad-op"

end Driver.C03
