import Rustic.Model.Repo
import Driver.Util
/-
C03 driver channel (trace monitor).

  c03 mon <cmd> <spec> <pre> <run>
     cmd   = backup | forget | prune | prune-instant | merge | repairsnap | repairidx | repairidx-readall | config | key
     spec  = scenario description (only read by the harness)
     pre   = abstract operations that build the state before the command (applied to the empty repository)
     run   = abstract operations the real command issued (decoded from the backend log by the harness)
     ops separated by `;` (`-` = none):
       P<id>:<keys>  writePack      p<id>  removePack     keys = `t1.d2` or `-`
       I<id>:<packs>|<del>  writeIndex, packs separated by `+`, pack = `<id>=<keys>`      i<id>  removeIndex
       S<id>:<keys>  writeSnap (keys = closure)          s<id>  removeSnap         O  other (key/config file)
  observation: `ok` iff the pre-state is consistent, the state after EVERY prefix of `run` is consistent
  (Repo.firstBad = none) and `run` is in the phase language of the command; else `bad:…`.
-/
namespace Driver.C03
open Rustic.Repo Driver

def splitList (sep : String) (s : String) : List String := if s = "-" then [] else s.splitOn sep

def parseKey (s : String) : Option Key :=
  match s.toList with
  | 't' :: r => (String.ofList r).toNat?.map (fun n => (BlobType.tree, n))
  | 'd' :: r => (String.ofList r).toNat?.map (fun n => (BlobType.data, n))
  | _ => none

def parseKeys (s : String) : Option (List Key) := (splitList "." s).mapM parseKey

def parseIdxPack (s : String) : Option IdxPack :=
  match s.splitOn "=" with
  | [id, keys] => match id.toNat?, parseKeys keys with
    | some id, some ks => some { id := id, blobs := ks }
    | _, _ => none
  | _ => none

def parseOp (s : String) : Option Op :=
  match s.toList with
  | ['O'] => some .other
  | 'p' :: r => (String.ofList r).toNat?.map Op.removePack
  | 'i' :: r => (String.ofList r).toNat?.map Op.removeIndex
  | 's' :: r => (String.ofList r).toNat?.map Op.removeSnap
  | 'P' :: r => match (String.ofList r).splitOn ":" with
    | [id, keys] => match id.toNat?, parseKeys keys with
      | some id, some ks => some (.writePack { id := id, blobs := ks })
      | _, _ => none
    | _ => none
  | 'S' :: r => match (String.ofList r).splitOn ":" with
    | [id, keys] => match id.toNat?, parseKeys keys with
      | some id, some ks => some (.writeSnap { id := id, needs := ks })
      | _, _ => none
    | _ => none
  | 'I' :: r => match (String.ofList r).splitOn ":" with
    | [id, rest] => match rest.splitOn "|" with
      | [packs, del] => match id.toNat?, (splitList "+" packs).mapM parseIdxPack, (splitList "+" del).mapM parseIdxPack with
        | some id, some ps, some ds => some (.writeIndex { id := id, packs := ps, del := ds })
        | _, _, _ => none
      | _ => none
    | _ => none
  | _ => none

def parseOps (s : String) : Option (List Op) := (splitList ";" s).mapM parseOp

def monitor (cmd : String) (pre run : List Op) : String :=
  let r0 := applyAll {} pre
  if !consistent r0 then "bad:pre-inconsistent" else
  match phasesOf cmd with
  | none => "bad-op"
  | some phs =>
    match firstBad r0 run with
    | some k => s!"bad:prefix{k}"
    | none => if matchPhases phs (run.map Op.kind) then "ok" else "bad:phase"

def handle : List String → String
  | ["mon", cmd, _spec, pre, run] =>
    match parseOps pre, parseOps run with
    | some pre, some run => monitor cmd pre run
    | _, _ => "bad-op"
  | _ => "bad-op"

end Driver.C03
