import Rustic.Model.RoundTrip
import Rustic.Model.Snapshot
import Rustic.Gen.Constants
import Driver.Util
import Driver.C06
import Driver.C01Ixr
import Driver.C01Time
/-! `c01 <esc|unesc|start|coalesce|link|big|e2e|e2el> …` — see harness/src/c01.rs. -/
namespace Driver.C01
open Rustic.RoundTrip Driver

/-- UTF-8 encoding of a scalar value -/
def utf8 (c : Char) : List UInt8 :=
  let n := c.toNat
  if n < 0x80 then [UInt8.ofNat n]
  else if n < 0x800 then [UInt8.ofNat (0xC0 + n / 64), UInt8.ofNat (0x80 + n % 64)]
  else if n < 0x10000 then [UInt8.ofNat (0xE0 + n / 4096), UInt8.ofNat (0x80 + n / 64 % 64), UInt8.ofNat (0x80 + n % 64)]
  else [UInt8.ofNat (0xF0 + n / 262144), UInt8.ofNat (0x80 + n / 4096 % 64), UInt8.ofNat (0x80 + n / 64 % 64),
        UInt8.ofNat (0x80 + n % 64)]

def isCont (b : UInt8) : Bool := 0x80 ≤ b.toNat && b.toNat ≤ 0xBF

/-- one step of `str::from_utf8`'s cutting: a valid scalar at the front, or one invalid byte -/
def decode1 : List UInt8 → Option (Item × List UInt8)
  | [] => none
  | b0 :: rest =>
    let n0 := b0.toNat
    if n0 < 0x80 then some (.ch (Char.ofNat n0), rest) else
    match rest with
    | b1 :: r1 =>
      let n1 := b1.toNat
      if 0xC2 ≤ n0 ∧ n0 ≤ 0xDF ∧ isCont b1 then some (.ch (Char.ofNat ((n0 - 0xC0) * 64 + (n1 - 0x80))), r1) else
      match r1 with
      | b2 :: r2 =>
        let n2 := b2.toNat
        let ok3 := (n0 = 0xE0 ∧ 0xA0 ≤ n1 ∧ n1 ≤ 0xBF) ∨ (0xE1 ≤ n0 ∧ n0 ≤ 0xEC ∧ isCont b1) ∨
          (n0 = 0xED ∧ 0x80 ≤ n1 ∧ n1 ≤ 0x9F) ∨ (0xEE ≤ n0 ∧ n0 ≤ 0xEF ∧ isCont b1)
        if ok3 ∧ isCont b2 then
          some (.ch (Char.ofNat ((n0 - 0xE0) * 4096 + (n1 - 0x80) * 64 + (n2 - 0x80))), r2) else
        match r2 with
        | b3 :: r3 =>
          let n3 := b3.toNat
          let ok4 := (n0 = 0xF0 ∧ 0x90 ≤ n1 ∧ n1 ≤ 0xBF) ∨ (0xF1 ≤ n0 ∧ n0 ≤ 0xF3 ∧ isCont b1) ∨
            (n0 = 0xF4 ∧ 0x80 ≤ n1 ∧ n1 ≤ 0x8F)
          if ok4 ∧ isCont b2 ∧ isCont b3 then
            some (.ch (Char.ofNat ((n0 - 0xF0) * 262144 + (n1 - 0x80) * 4096 + (n2 - 0x80) * 64 + (n3 - 0x80))), r3)
          else some (.bad b0, rest)
        | [] => some (.bad b0, rest)
      | [] => some (.bad b0, rest)
    | [] => some (.bad b0, rest)

partial def decode (bs : List UInt8) (acc : Array Item) : List Item :=
  match decode1 bs with
  | none => acc.toList
  | some (it, rest) => decode rest (acc.push it)

def allChars (items : List Item) : Option (List Char) :=
  items.mapM fun | .ch c => some c | .bad _ => none

/-- `Rng::new(seed).bytes(n)` of the harness -/
def rngBytes (seed : UInt64) (n : Nat) : List UInt8 := Id.run do
  let mut s := seed
  let mut out : Array UInt8 := Array.mkEmpty (n + 8)
  for _ in [0:(n + 7) / 8] do
    let (z, s') := splitmix s
    s := s'
    for k in [0:8] do
      out := out.push (z >>> (8 * k).toUInt64).toUInt8
  return (out.extract 0 n).toList

def content (kind : String) (len : Nat) (seed : Nat) : Option (List UInt8) :=
  if kind = "z" then some (List.replicate len 0)
  else if kind = "c" then some (List.replicate len (UInt8.ofNat (seed % 256)))
  else if kind = "r" then some (rngBytes seed.toUInt64 len)
  else if kind = "p" then
    let period := 1 + seed % 97
    let pat := (rngBytes seed.toUInt64 period).toArray
    some ((List.range len).map (fun i => pat.getD (i % period) 0))
  else none

def cfgVal (cfg : List String) (k : String) : Option String :=
  cfg.findSome? fun t => if t.startsWith (k ++ "=") then some ((t.drop (k.length + 1)).toString) else none

def chunkLens (cfg : List String) (bs : List UInt8) : Option (List Nat) := do
  let avg ← (← cfgVal cfg "avg").toNat?
  let mn ← (← cfgVal cfg "min").toNat?
  let mx ← (← cfgVal cfg "max").toNat?
  let ck ← cfgVal cfg "chunker"
  if ck = "fixed" then
    if avg = 0 then none else
    pure (Driver.C06.collectFixed avg { rest := bs, finished := false } [])
  else if ck = "rabin" then
    if mn = 0 then none else
    let t := Rustic.Rabin.Tables.mk' Rustic.Gen.WINDOW_BITS 0x003DA3358B4DC173
    let p : Rustic.Chunker.Params := { min := mn, max := mx, mask := (avg - 1).toUInt64, win := Rustic.Gen.PREFILL_SLICE }
    let st := Rustic.Chunker.St.init Rustic.Gen.BUF_SIZE bs []
    pure (Driver.C06.collect (Rustic.Rabin.roll t) p st [])
  else none

/-- `gf=<n>`, `nr=<n>`, `ro=<n>`, `as=<0|1>`, `rd=<0|1>`, `hl=<0|1>`: options between the configuration and the entries -/
def isOpt (t : String) : Bool := t.contains '=' && !(t.contains ':')

def optOk (t : String) : Bool :=
  match t.splitOn "=" with
  | [k, v] => (k = "gf" || k = "nr" || k = "ro" || ((k = "as" || k = "rd" || k = "hl") && (v = "0" || v = "1"))) && v.toNat?.isSome
  | _ => false

def fileObs (cfg : List String) (p k l s : String) : Option String := do
  let len ← l.toNat?
  let bs ← content k len (← s.toNat?)
  let lens ← chunkLens cfg bs
  pure s!"{p}:f:{len}:{if lens.isEmpty then "-" else ",".intercalate (lens.map toString)}"

/-- the `F` entry a further name (`H`) refers to -/
def findFile (ents : List String) (path : String) : Option (String × String × String) :=
  ents.findSome? fun t =>
    match t.splitOn ":" with
    | "F" :: q :: k :: l :: s :: _ => if q = path then some (k, l, s) else none
    | _ => none

def entryObs (cfg : List String) (ents : List String) (tok : String) : Option String :=
  match tok.splitOn ":" with
  | ["F", p, k, l, s, _mode, _mtime] => fileObs cfg p k l s
  | ["F", p, k, l, s, _mode, _mtime, x] => do
    let _ ← x.toNat?
    fileObs cfg p k l s
  | ["S", p, k, l, s, _mode, _mtime, r] => do
    -- a node that RECORDS the size `r` (≠ content length: stdin-style nodes, grown / shrunk files): what is read back is the
    -- content, chunked by its bytes (Props.C07 `chunks_independent_of_recorded_size`)
    let r ← r.toNat?
    let l' ← l.toNat?
    if r = l' then none else fileObs cfg p k l s
  | ["H", p, target] => do
    let (k, l, s) ← findFile ents target
    fileObs cfg p k l s
  | ["T", p, _dir, _mode, _mtime] => some s!"{p}:t"
  | ["D", p, _, _] => some s!"{p}:d"
  | ["L", p, _, _] => some s!"{p}:l"
  | _ => none

/-- `e2e` / `e2el`: per entry the kind and, for files, the chunk lengths the chunker model gives for the regenerated content -/
def e2eObs (rest : List String) : String :=
  if rest.length < 10 then "bad-op" else
  let cfg := rest.take 8
  let body := (rest.drop 8).dropLast
  let opts := body.takeWhile isOpt
  let ents := body.dropWhile isOpt
  if !(opts.all optOk) || ents.isEmpty || rest.getLast?.bind String.toNat? = none then "bad-op" else
  match ents.mapM (entryObs cfg ents) with
  | none => "bad-op"
  | some obs => "ok " ++ " ".intercalate obs

/-- strings as the real code makes them: std's cutting, the UTF-8 encoder; the lossy string is not modelled -/
def strOf : Rustic.Snapshot.Str := { cut := fun bs => decode bs #[], enc := utf8, lossy := fun _ => [] }

/-- `c01 lookup`: the directory's nodes are the byte-sorted names stored (`toSNode`: escaped) and read (`fromSNode`: un-escaped);
per query `Snapshot.findNode` — the search of `Tree::node_from_path` -/
def lookupObs (names queries : List (List UInt8)) : String :=
  let sorted := names.mergeSort (fun a b => Rustic.Tree.cmpName a b != .gt)
  let nodes : List Rustic.Tree.Node := sorted.map fun n =>
    Rustic.Snapshot.fromSNode strOf (Rustic.Snapshot.toSNode strOf { name := n, kind := .file, md := default })
  let one (q : List UInt8) : String :=
    match Rustic.Snapshot.findNode nodes q with
    | none => "n"
    | some n => match nodes.findIdx? (· == n) with
      | some i => s!"f{i}"
      | none => "?"
  "ok " ++ " ".intercalate (queries.map one)

def nameOk (c : List UInt8) : Bool :=
  !(c.isEmpty || c.length > 255 || c == [46] || c == [46, 46] || c.contains 47 || c.contains 0)

def handle : List String → String
  | ["lookup", names, queries] =>
    match (names.splitOn ",").mapM unhex, (queries.splitOn ",").mapM unhex with
    | some ns, some qs =>
      if (ns ++ qs).all nameOk && ns.eraseDups.length == ns.length then lookupObs ns qs else "bad-op"
    | _, _ => "bad-op"
  | ["esc", name] =>
    match unhex name with
    | none => "bad-op"
    | some bs =>
      let items := decode bs #[]
      let esc := escape items
      match unescape utf8 esc with
      | none => "err"
      | some back => s!"ok {hex (esc.flatMap utf8)} {hex back}"
  | ["unesc", s] =>
    match unhex s with
    | none => "bad-op"
    | some bs =>
      match allChars (decode bs #[]) with
      | none => "bad-op"
      | some cs =>
        match unescape utf8 cs with
        | none => "err"
        | some b => s!"ok {hex b}"
  | ["start", sizes, offset] =>
    let sz : Option (List Nat) := if sizes = "-" then some [] else (sizes.splitOn ",").mapM (fun (x : String) => x.toNat?)
    match sz, offset.toNat? with
    | some sz, some off =>
      let (i, o) := computeStart (startpoints (2 ^ 64 - 1) sz) off
      s!"ok {i} {o}"
    | _, _ => "bad-op"
  | ["coalesce", locs] =>
    let ls : Option (List Loc) := (locs.splitOn ",").mapM fun (x : String) =>
      match x.splitOn ":" with
      | [a, b] => do pure { offset := ← a.toNat?, length := ← b.toNat? }
      | _ => none
    match ls with
    | none => "bad-op"
    | some ls =>
      let gs := coalesceAll Rustic.Gen.C01_MAX_HOLESIZE Rustic.Gen.C01_LIMIT_PACK_READ ls
      "ok " ++ " ".intercalate (gs.map fun g => s!"{g.offset}:{g.length}:{g.blobs.length}")
  | ["link", t] =>
    match unhex t with
    | none => "bad-op"
    | some bs =>
      match Rustic.Snapshot.fromLink strOf bs with
      | .symlink l raw =>
        let stored := match raw with
          | none => hex (l.flatMap utf8)
          | some _ => "-"
        s!"ok {if raw.isSome then 1 else 0} {hex (raw.getD (l.flatMap utf8))} {stored}"
      | _ => "bad-op"
  | "big" :: rest =>
    -- pure oracle op on the real code; the model side says how many files and chunks the tokens describe
    if rest.length ≠ 11 then "bad-op" else
    let cfg := rest.take 8
    match rest[8]?, (rest[9]?).bind String.toNat?, (rest[10]?).bind String.toNat?, (cfgVal cfg "avg").bind String.toNat? with
    | some shape, some n, some seed, some avg =>
      if cfgVal cfg "chunker" ≠ some "fixed" || avg < 8 || avg > 4096 || n > 400000 then "bad-op"
      else if shape = "files" then s!"ok files {1 + seed % 3} chunks {n}"
      else if shape = "dirs" then s!"ok dirs {n} chunks {n}"
      else "bad-op"
    | _, _, _, _ => "bad-op"
  | "e2e" :: rest => e2eObs rest
  | "e2el" :: rest => e2eObs rest
  | "ixr" :: rest => Driver.C01Ixr.handle rest
  | "time" :: rest => Driver.C01Time.handle rest
  | _ => "bad-op"

end Driver.C01
