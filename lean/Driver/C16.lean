import Rustic.Model.HotCold
import Rustic.Model.WarmUp
import Driver.Util
import Driver.C20
/-! Driver channel `c16` — see `harness/src/c16.rs` for the op-line grammar. -/
namespace Driver.C16
open Rustic.HotCold Driver
open Rustic.Backends hiding Op readFull readPartial remove writeBytes step run
open Driver.C20 (dataOf digest tpeOf joinOr fmtListing)

abbrev BeL := List (Key × Bytes)

def bget (b : BeL) (k : Key) : Option Bytes :=
  match b with
  | [] => none
  | (k', d) :: rest => if k' = k then some d else bget rest k
def bdel (b : BeL) (k : Key) : BeL := b.filter (fun e => e.1 ≠ k)
def bput (b : BeL) (k : Key) (d : Bytes) : BeL := (k, d) :: bdel b k

def tIdx : FileType → Nat
  | .config => 0 | .index => 1 | .key => 2 | .snapshot => 3 | .pack => 4

def storeStr (b : BeL) : String :=
  joinOr (b.map (fun e => toString (tIdx e.1.1) ++ "/" ++ String.ofList e.1.2 ++ ":" ++ digest e.2))

def idOf (s : String) : Option Name :=
  if s.length = 64 then parseSome 64 s.toList else none

/-- concrete stores (enumerable) mirrored into the function-based model state -/
structure D where
  hot : BeL
  cold : BeL

def D.hc (d : D) : HC := { hot := fun k => bget d.hot k, cold := fun k => bget d.cold k }

def applySubD (d : D) : Sub → D
  | .hotW k x => { d with hot := bput d.hot k x }
  | .coldW k x => { d with cold := bput d.cold k x }
  | .coldR k => { d with cold := bdel d.cold k }
  | .hotR k => { d with hot := bdel d.hot k }

def isHotSub : Sub → Bool
  | .hotW _ _ => true | .hotR _ => true | _ => false

/-- number of sub-operations performed when the next mutation of the hot (`h`) / cold (`c`) store fails -/
def prefixLen (l : List Sub) (fl : String) : Option (Nat × Bool) :=
  if fl = "n" then some (l.length, true) else
  if fl ≠ "h" ∧ fl ≠ "c" then none else
  let rec go : List Sub → Nat → Nat × Bool
    | [], n => (n, true)
    | s :: rest, n => if isHotSub s == (fl == "h") then (n, false) else go rest (n + 1)
  some (go l 0)

def resStr : Res Bytes → String
  | .ok b => digest b
  | .err => "err"

def runOp (d : D) (op : Op) (fl : String) : Option (String × D) :=
  match prefixLen (subs op) fl with
  | none => none
  | some (n, ok) => some (if ok then "ok" else "err", ((subs op).take n).foldl applySubD d)

def stepOne (d : D) (s : String) : Option (String × D) :=
  match s.splitOn "," with
  | ["w", t, id, cb, data, fl] =>
    match tpeOf t, idOf id, dataOf data with
    | some t, some id, some x => runOp d (.write t id (cb = "1") x) fl
    | _, _, _ => none
  | ["d", t, id, cb, fl] =>
    match tpeOf t, idOf id with
    | some t, some id => runOp d (.remove t id (cb = "1")) fl
    | _, _ => none
  | ["r", t, id] =>
    match tpeOf t, idOf id with
    | some t, some id => some (resStr (readFull d.hc t id), d)
    | _, _ => none
  | ["p", t, id, cb, off, len] =>
    match tpeOf t, idOf id, off.toNat?, len.toNat? with
    | some t, some id, some off, some len => some (resStr (readPartial d.hc t id (cb = "1") off len), d)
    | _, _, _, _ => none
  | ["l", t] =>
    (tpeOf t).map (fun t =>
      (fmtListing (d.cold.filterMap (fun e => if e.1.1 = t then some (e.1.2, e.2.length) else none)), d))
  | ["o"] => some ("hot[" ++ storeStr d.hot ++ "]cold[" ++ storeStr d.cold ++ "]", d)
  | _ => none

def runSteps (d : D) : List String → List String → Option (List String)
  | [], acc => some acc.reverse
  | s :: rest, acc =>
    match stepOne d s with
    | some (o, d') => runSteps d' rest (o :: acc)
    | none => none

/-- `repairKey` on the concrete stores (same case analysis as the model; checked against it below) -/
def repairKeyD (d : D) (k : Key) : D :=
  let s' := repairKey d.hc k
  { hot := match s'.hot k with | some x => bput d.hot k x | none => d.hot,
    cold := match s'.cold k with | some x => bput d.cold k x | none => d.cold }

def parseItem (d : D) (it : String) : Option (D × Key) :=
  match it.splitOn ":" with
  | [t, id, c, h] =>
    match tpeOf t, idOf id with
    | some t, some id =>
      if t = .pack ∨ t = .config then none else
      let put (b : BeL) (tok : String) : Option BeL :=
        if tok = "~" then some b else (dataOf tok).map (fun x => bput b (t, id) x)
      match put d.cold c, put d.hot h with
      | some c', some h' => some ({ hot := h', cold := c' }, (t, id))
      | _, _ => none
    | _, _ => none
  | _ => none

/-! #### `repairp`: `repair_hotcold_packs` on prepared stores and index files -/

/-- `t<n>` / `d<n>`: pack label `n` listed with a tree / data blob first -/
def parseIdxPack (tok : String) : Option IdxPack :=
  match tok.toList with
  | 't' :: n => if (String.ofList n).toNat?.isSome then some ⟨n, true⟩ else none
  | 'd' :: n => if (String.ofList n).toNat?.isSome then some ⟨n, false⟩ else none
  | _ => none

def parseIdxList (s : String) : Option (List IdxPack) :=
  if s = "-" then some [] else (s.splitOn "+").mapM parseIdxPack

def parseIdxFile (s : String) : Option IndexFileM :=
  match s.splitOn "|" with
  | [a, b] =>
    match parseIdxList a, parseIdxList b with
    | some a, some b => some { packs := a, packsToDelete := b }
    | _, _ => none
  | _ => none

def parsePackItem (d : D) (it : String) : Option (D × Name) :=
  match it.splitOn ":" with
  | [n, c, h] =>
    if n.toNat?.isNone then none else
    let put (b : BeL) (tok : String) : Option BeL :=
      if tok = "~" then some b else (dataOf tok).map (fun x => bput b (.pack, n.toList) x)
    match put d.cold c, put d.hot h with
    | some c', some h' => some ({ hot := h', cold := c' }, n.toList)
    | _, _ => none
  | _ => none

def packStr (b : BeL) : String :=
  joinOr (b.filterMap (fun e => if e.1.1 = .pack then some (String.ofList e.1.2 ++ ":" ++ digest e.2) else none))

def handle : List String → String
  | ["hist", steps] =>
    match runSteps { hot := [], cold := [] } (steps.splitOn ";") [] with
    | some obs => ";".intercalate obs
    | none => "bad-op"
  | ["repair", items] =>
    let rec load (d : D) (keys : List Key) : List String → Option (D × List Key)
      | [] => some (d, keys.reverse)
      | it :: rest =>
        match parseItem d it with
        | some (d', k) => load d' (k :: keys) rest
        | none => none
    match load { hot := [], cold := [] } [] (items.splitOn ";") with
    | some (d, keys) =>
      let d' := keys.foldl repairKeyD d
      "ok;hot[" ++ storeStr d'.hot ++ "]cold[" ++ storeStr d'.cold ++ "]"
    | none => "bad-op"
  | ["repairp", index, packs] =>
    let rec loadP (d : D) (names : List Name) : List String → Option (D × List Name)
      | [] => some (d, names.reverse)
      | it :: rest =>
        match parsePackItem d it with
        | some (d', n) => if names.contains n then none else loadP d' (n :: names) rest
        | none => none
    match (index.splitOn ";").mapM parseIdxFile, loadP { hot := [], cold := [] } [] (packs.splitOn ";") with
    | some idx, some (d, names) =>
      -- `listed` = the pack ids either store lists
      let listed := names.filter (fun n => (bget d.hot (.pack, n)).isSome || (bget d.cold (.pack, n)).isSome)
      let d' := (packKeys idx listed).foldl repairKeyD d
      "ok;hot[" ++ packStr d'.hot ++ "]cold[" ++ packStr d'.cold ++ "]"
    | _, _ => "bad-op"
  | ["repo", seed] => if seed.toNat?.isSome then "ok" else "bad-op"
  | ["repo-hist", steps, seed] =>
    -- `N` (the cold store does not need warm-up) only as the first step
    if seed.toNat?.isSome ∧ (steps.splitOn ",").all (fun s => s.length = 1 ∧ s.toList.all (fun c => "bfFpmkixXIJuwNcyYBr".toList.contains c))
        ∧ ¬ ((steps.splitOn ",").drop 1).contains "N" then "ok"
    else "bad-op"
  | ["repo-read-data", seed] => if seed.toNat?.isSome then "ok" else "bad-op"
  | ["access", seed] => if seed.toNat?.isSome then "ok" else "bad-op"
  | ["warmroute", n, w, h, t] =>
    let flag (s : String) : Option Bool := if s = "0" then some false else if s = "1" then some true else none
    let tpe : Option FileType := match t with
      | "index" => some .index | "key" => some .key | "snapshot" => some .snapshot | "pack" => some .pack | _ => none
    match flag n, flag w, flag h, tpe with
    | some n, some w, some h, some tpe =>
      let evs := Rustic.WarmUp.warmUpRepo (Rustic.WarmUp.repoBe n w h) tpe [7]
      let show1 : Rustic.WarmUp.SEv → String
        | .read .cold _ _ => "cold:read" | .warmReq .cold _ _ => "cold:warm"
        | .read .hot _ _ => "hot:read" | .warmReq .hot _ _ => "hot:warm"
      -- the harness prints the cold store's events first
      let cold := evs.filter (fun e => match e with | .read .cold _ _ | .warmReq .cold _ _ => true | _ => false)
      let hot := evs.filter (fun e => match e with | .read .hot _ _ | .warmReq .hot _ _ => true | _ => false)
      if evs.isEmpty then "-" else "+".intercalate ((cold ++ hot).map show1)
    | _, _, _, _ => "bad-op"
  | _ => "bad-op"

end Driver.C16
