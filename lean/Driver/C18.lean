import Rustic.Model.Config
import Driver.Util
/- Channel `c18` (generator side: harness/src/c18.rs):
   c18 apply <cfg> <opts>            -> ok <cfg'> | err:<Kind> | <cfg as left>   ConfigOptions::apply on its &mut target
   c18 rabin <size> <min> <max>      -> ok | err:Unsupported              check_rabin_params
   c18 getters <cfg>                 -> ok <chunker> <size> <min> <max> <ev> <zstd> <tree packsize> <data packsize> <pcts>
   c18 packsize <cfg> <t|d> <cur>    -> ok <u32>                          PackSizer::from_config(..).pack_size()
   c18 seq <opts>;<opts>;…           -> ok <step>,… | <final cfg> | writes=<n>    init + apply_config sequence
   c18 seq1 <opts>;<opts>;…          -> the same line; every apply_config on ONE open handle (handle_config_follows_store_seq)
   c18 smoke <opts>[;<opts>…] <mu> <mr> <r|-> <seed>  -> ok | err:<Kind>  init (→ apply_config …) → backup → check → restore → prune
   c18 limits <mu> <mr> <flags> <packs>  -> ok <max_unused> <max_repack> <used> <total>   limits computed in decide_repack
   cfg / opts = comma list of key=value ("-" = nothing set); see `cfgKeys`. -/
namespace Driver.C18
open Rustic.Config Driver

def kv (s : String) : Option (List (String × String)) :=
  if s = "-" then some [] else
  (s.splitOn ",").mapM (fun t => match t.splitOn "=" with
    | [k, v] => some (k, v)
    | _ => none)

def pBool (s : String) : Option Bool := if s = "1" then some true else if s = "0" then some false else none
def pChunker (s : String) : Option Chunker := if s = "r" then some .rabin else if s = "f" then some .fixedSize else none

def parseCfg (s : String) : Option ConfigFile := do
  let l ← kv s
  l.foldlM (fun (c : ConfigFile) (kvp : String × String) =>
    let (k, v) := kvp
    match k with
    | "v" => v.toNat?.map (fun n => { c with version := n })
    | "ck" => (pChunker v).map (fun x => { c with chunker := some x })
    | "cs" => v.toNat?.map (fun n => { c with chunkSize := some n })
    | "cmin" => v.toNat?.map (fun n => { c with chunkMinSize := some n })
    | "cmax" => v.toNat?.map (fun n => { c with chunkMaxSize := some n })
    | "hot" => (pBool v).map (fun b => { c with isHot := some b })
    | "ao" => (pBool v).map (fun b => { c with appendOnly := some b })
    | "co" => v.toInt?.map (fun n => { c with compression := some n })
    | "ts" => v.toNat?.map (fun n => { c with treepackSize := some n })
    | "tg" => v.toNat?.map (fun n => { c with treepackGrowfactor := some n })
    | "tl" => v.toNat?.map (fun n => { c with treepackSizeLimit := some n })
    | "ds" => v.toNat?.map (fun n => { c with datapackSize := some n })
    | "dg" => v.toNat?.map (fun n => { c with datapackGrowfactor := some n })
    | "dl" => v.toNat?.map (fun n => { c with datapackSizeLimit := some n })
    | "minp" => v.toNat?.map (fun n => { c with minPackPct := some n })
    | "maxp" => v.toNat?.map (fun n => { c with maxPackPct := some n })
    | "ev" => (pBool v).map (fun b => { c with extraVerify := some b })
    | _ => none) (ConfigFile.new 0 0 0)

def parseOpts (s : String) : Option ConfigOptions := do
  let l ← kv s
  l.foldlM (fun (o : ConfigOptions) (kvp : String × String) =>
    let (k, v) := kvp
    match k with
    | "v" => v.toNat?.map (fun n => { o with setVersion := some n })
    | "ck" => (pChunker v).map (fun x => { o with setChunker := some x })
    | "cs" => v.toNat?.map (fun n => { o with setChunkSize := some n })
    | "cmin" => v.toNat?.map (fun n => { o with setChunkMinSize := some n })
    | "cmax" => v.toNat?.map (fun n => { o with setChunkMaxSize := some n })
    | "ao" => (pBool v).map (fun b => { o with setAppendOnly := some b })
    | "co" => v.toInt?.map (fun n => { o with setCompression := some n })
    | "ts" => v.toNat?.map (fun n => { o with setTreepackSize := some n })
    | "tg" => v.toNat?.map (fun n => { o with setTreepackGrowfactor := some n })
    | "tl" => v.toNat?.map (fun n => { o with setTreepackSizeLimit := some n })
    | "ds" => v.toNat?.map (fun n => { o with setDatapackSize := some n })
    | "dg" => v.toNat?.map (fun n => { o with setDatapackGrowfactor := some n })
    | "dl" => v.toNat?.map (fun n => { o with setDatapackSizeLimit := some n })
    | "minp" => v.toNat?.map (fun n => { o with setMinPackPct := some n })
    | "maxp" => v.toNat?.map (fun n => { o with setMaxPackPct := some n })
    | "ev" => (pBool v).map (fun b => { o with setExtraVerify := some b })
    | _ => none) {}

def sBool (b : Bool) : String := if b then "1" else "0"
def sChunker : Chunker → String
  | .rabin => "r"
  | .fixedSize => "f"

def showCfg (c : ConfigFile) : String :=
  let f {α} (k : String) (x : Option α) (sh : α → String) : List String :=
    match x with
    | some v => [k ++ "=" ++ sh v]
    | none => []
  ",".intercalate (["v=" ++ toString c.version] ++ f "ck" c.chunker sChunker ++ f "cs" c.chunkSize toString
    ++ f "cmin" c.chunkMinSize toString ++ f "cmax" c.chunkMaxSize toString ++ f "hot" c.isHot sBool
    ++ f "ao" c.appendOnly sBool ++ f "co" c.compression toString ++ f "ts" c.treepackSize toString
    ++ f "tg" c.treepackGrowfactor toString ++ f "tl" c.treepackSizeLimit toString ++ f "ds" c.datapackSize toString
    ++ f "dg" c.datapackGrowfactor toString ++ f "dl" c.datapackSizeLimit toString ++ f "minp" c.minPackPct toString
    ++ f "maxp" c.maxPackPct toString ++ f "ev" c.extraVerify sBool)

def showFail : Fail → String
  | .err .unsupported => "err:Unsupported"
  | .err .invalidInput => "err:InvalidInput"
  | .err .internal => "err:Internal"
  | .err .appendOnly => "err:AppendOnly"
  | .panic w => "panic:" ++ w.replace " " "_"

def seqRun (st : Store) : List ConfigOptions → List String → List String × Store
  | [], acc => (acc.reverse, st)
  | o :: os, acc =>
    let (st', r) := applyConfig st o
    let s := match r with
      | .ok true => "changed"
      | .ok false => "same"
      | .error e => showFail e
    seqRun st' os (s :: acc)

def parseLimit (s : String) : Option LimitOption :=
  if s = "u" then some .unlimited
  else if s.startsWith "s" then (s.drop 1).toNat?.map .size
  else if s.startsWith "p" then (s.drop 1).toNat?.map .percentage
  else none

/-- one pack `<t|d><m|-><u|n><len>+…` → (sum of used blob lengths, sum of all blob lengths) -/
def parsePack (s : String) : Option (Nat × Nat) :=
  match s.toList with
  | t :: m :: rest =>
    if (t ≠ 't' ∧ t ≠ 'd') ∨ (m ≠ 'm' ∧ m ≠ '-') then none else
    ((String.ofList rest).splitOn "+").foldlM (fun (acc : Nat × Nat) b =>
      match b.toList with
      | 'u' :: n => (String.ofList n).toNat?.map (fun n => (acc.1 + n, acc.2 + n))
      | 'n' :: n => (String.ofList n).toNat?.map (fun n => (acc.1, acc.2 + n))
      | _ => none) (0, 0)
  | _ => none

def handle : List String → String
  | ["apply", cfg, opts] =>
    match parseCfg cfg, parseOpts opts with
    | some c, some o =>
      -- the `&mut` target as `apply` leaves it: the result on success, partly assigned on `Err`
      match applyMut o c with
      | (c', none) => "ok " ++ showCfg c'
      | (c', some e) => showFail e ++ " | " ++ showCfg c'
    | _, _ => "bad-op"
  | ["rabin", size, mn, mx] =>
    match size.toNat?, mn.toNat?, mx.toNat? with
    | some size, some mn, some mx =>
      match checkRabinParams size mn mx with
      | .ok () => "ok"
      | .error e => showFail e
    | _, _, _ => "bad-op"
  | ["getters", cfg] =>
    match parseCfg cfg with
    | some c =>
      let z := match c.zstd with
        | .ok none => "none"
        | .ok (some l) => toString l
        | .error _ => "err:Unsupported"
      let (t1, t2, t3) := c.packsize true
      let (d1, d2, d3) := c.packsize false
      let (p1, p2) := c.packsizeOkPercents
      s!"ok {sChunker c.chunkerOrDefault} {c.chunkSizeOrDefault} {c.chunkMinSizeOrDefault} {c.chunkMaxSizeOrDefault} {sBool c.extraVerifyOrDefault} {z} {t1}/{t2}/{t3} {d1}/{d2}/{d3} {p1}/{p2}"
    | none => "bad-op"
  | ["packsize", cfg, bt, cur] =>
    match parseCfg cfg, cur.toNat? with
    | some c, some cur =>
      if bt = "t" ∨ bt = "d" then s!"ok {(PackSizer.fromConfig c (bt == "t") cur).packSize}" else "bad-op"
    | _, _ => "bad-op"
  | ["seq", steps] | ["seq1", steps] =>
    match (steps.splitOn ";").mapM parseOpts with
    | some (o0 :: os) =>
      match initConfig 0 0 o0 with
      | .error e => showFail e
      | .ok st =>
        let (rs, st') := seqRun st os []
        "ok " ++ (if rs.isEmpty then "-" else ",".intercalate rs) ++ " | " ++ showCfg st'.config ++ s!" | writes={st'.writes}"
    | _ => "bad-op"
  | ["smoke", steps, _mu, _mr, _flags, _seed] =>
    match (steps.splitOn ";").mapM parseOpts with
    | some (o :: _) =>
      match initConfig 0 0 o with
      | .error e => showFail e
      | .ok _ => "ok"
    | _ => "bad-op"
  | ["limits", mu, mr, flags, packs] =>
    match parseLimit mu, parseLimit mr, (packs.splitOn ",").mapM parsePack with
    | some mu, some mr, some ps =>
      if flags ≠ "-" ∧ ¬ flags.toList.all (fun c => c == 'a' || c == 'u') then "bad-op" else
      let used := (ps.map (·.1)).foldl (· + ·) 0
      let total := (ps.map (·.2)).foldl (· + ·) 0
      -- decide_repack receives `repack_uncompressed || repack_all`
      let rep := flags ≠ "-"
      s!"ok {maxUnusedLimit rep mu used} {maxRepackLimit mr total} {used} {total}"
    | _, _, _ => "bad-op"
  | _ => "bad-op"

end Driver.C18
