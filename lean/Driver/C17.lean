import Rustic.Model.Index
import Rustic.Model.IndexLoad
import Rustic.Model.PackU32
import Driver.Util
/- Driver channel `c17` — see harness/src/c17.rs for the op-line grammar and the observation format. -/
namespace Driver.C17
open Rustic.Pack Rustic.Index Rustic.IndexLoad Driver

/-- 64 hex digits → the big-endian value (order-isomorphic to the byte-wise `Ord` of `Id`). -/
def parseId (s : String) : Option Nat :=
  if s.length ≠ 64 then none else
  s.toList.foldlM (fun acc c => (hexVal c).map (fun v => acc * 16 + v)) 0

def hexId (n : Nat) : String :=
  String.ofList ((List.range 64).map (fun i => hexDigit ((n >>> ((63 - i) * 4)) % 16)))

def parseBlob (s : String) : Option IndexBlob :=
  match s.splitOn "." with
  | [id, t, off, len, ul] =>
    match parseId id, (if t = "t" then some BlobType.tree else if t = "d" then some BlobType.data else none),
          off.toNat?, len.toNat? with
    | some id, some t, some off, some len =>
      if ul = "-" then some { id := id, tpe := t, loc := { offset := off, length := len, ulen := none } }
      else match ul.toNat? with
        | some u => if u = 0 then none else
            some { id := id, tpe := t, loc := { offset := off, length := len, ulen := some u } }
        | none => none
    | _, _, _, _ => none
  | _ => none

def parsePack (s : String) : Option IndexPack :=
  match s.splitOn ":" with
  | [id, size, blobs] =>
    match parseId id with
    | none => none
    | some id =>
      let size? : Option (Option Nat) :=
        if size = "-" then some none else
          match size.toNat? with
          | some n => if n < 4294967296 then some (some n) else none
          | none => none
      let blobs? := if blobs = "-" then some [] else (blobs.splitOn "+").mapM parseBlob
      match size?, blobs? with
      | some size, some blobs => some { id := id, blobs := blobs, size := size }
      | _, _ => none
  | _ => none

def parsePacks (s : String) : Option (List IndexPack) :=
  if s = "-" then some [] else (s.splitOn ",").mapM parsePack

/-- the optional third field of a file token: how fetching this file fails (`repo` source only) -/
def parseFault (s : String) : Option (IndexFile → RepoFile) :=
  let param (n : String) : Bool := n.toNat?.isSome
  match s.splitOn "." with
  | ["read"] => some fun f => { readFails := true, stored := .sealed (.file f) }
  | ["flip", n] => if param n then some fun _ => { readFails := false, stored := .damaged } else none
  | ["trunc", n] => if param n then some fun _ => { readFails := false, stored := .damaged } else none
  | ["junk"] => some fun _ => { readFails := false, stored := .sealed .unsupported }
  | ["badzstd"] => some fun _ => { readFails := false, stored := .sealed .unsupported }
  | ["notjson"] => some fun _ => { readFails := false, stored := .sealed .notIndexJson }
  | ["notindex"] => some fun _ => { readFails := false, stored := .sealed .notIndexJson }
  | _ => none

def dropStr (n : Nat) (s : String) : String := String.ofList (s.toList.drop n)

/-- the `supersedes` part `s=<refs>` of a file token (without the `s=`): `-` = the empty list; ref = `f<k>` (the id of the
k-th index file of the op line — the model names that file `k`; the harness checks `k <` number of files, `parseFiles` too)
or a 64-hex id (any other id). -/
def parseRefs (s : String) : Option (List Nat) :=
  if s = "-" then some [] else
  (s.splitOn ",").mapM fun r =>
    if r.length = 64 then parseId r
    else match r.toList with
      | 'f' :: ds => if !ds.isEmpty && ds.all Char.isDigit then (String.ofList ds).toNat? else none
      | _ => none

/-- is this `supersedes` entry (as parsed) a reference `f<k>` with `k ≥ n`?  (64-hex ids are never below `n` in practice;
the harness rejects the same op lines by looking at the token) -/
def refsOk (n : Nat) (s : String) : Bool :=
  s = "-" || (s.splitOn ",").all fun r => r.length = 64 || (match (dropStr 1 r).toNat? with
    | some k => k < n
    | none => false)

/-- file token → (content, what the repository stores for it, has a fault) -/
def parseFile (s : String) : Option (IndexFile × RepoFile × Bool) :=
  let mk (p d : String) (sup : Option String) (fault : Option String) : Option (IndexFile × RepoFile × Bool) :=
    let sup? : Option (Option (List Nat)) := match sup with
      | none => some none
      | some r => (parseRefs r).map some
    match parsePacks p, parsePacks d, sup? with
    | some p, some d, some sup =>
      let f : IndexFile := { supersedes := sup, packs := p, packsToDelete := d }
      match fault with
      | none => some (f, { readFails := false, stored := .sealed (.file f) }, false)
      | some ft => (parseFault ft).map fun g => (f, g f, true)
    | _, _, _ => none
  match s.splitOn "|" with
  | [p, d] => mk p d none none
  | [p, d, x] => if x.startsWith "s=" then mk p d (some (dropStr 2 x)) none else mk p d none (some x)
  | [p, d, x, ft] => if x.startsWith "s=" then mk p d (some (dropStr 2 x)) (some ft) else none
  | _ => none

/-- every `f<k>` reference names a file of the op line -/
def refsInRange (toks : List String) : Bool :=
  toks.all fun s => match s.splitOn "|" with
    | _ :: _ :: x :: _ => if x.startsWith "s=" then refsOk toks.length (dropStr 2 x) else true
    | _ => true

def parseFiles (s : String) : Option (List (IndexFile × RepoFile × Bool)) :=
  if s = "-" then some [] else
  let toks := s.splitOn "/"
  if refsInRange toks then toks.mapM parseFile else none

/-- the content part `<packs>|<packs_to_delete>` of a file token (equal content = equal index id = one file) -/
def contentPart (s : String) : String :=
  match s.splitOn "|" with
  | p :: d :: _ => p ++ "|" ++ d
  | _ => s

def errName : LoadErr → String
  | .backend => "Backend"
  | .cryptography => "Cryptography"
  | .internal => "Internal"

/-- which error a failed load reports depends on the stream order when several files fail differently: the canonical
observation names the one kind, or all candidate kinds (the harness checks membership on the real result). -/
def errObs (rfs : List RepoFile) : String :=
  let has (k : LoadErr) : Bool := rfs.any fun r => match getFile r with
    | .error e => e == k
    | .ok _ => false
  let kinds := ([LoadErr.backend, .cryptography, .internal].filter has).map errName
  match kinds with
  | [k] => "err:" ++ k
  | _ => "err:one-of:" ++ ",".intercalate kinds

def ulenStr : Option Nat → String
  | none => "-"
  | some n => toString n

def listingStr (e : IndexEntry) : String :=
  s!"{hexId e.pack}:{e.loc.offset}:{e.loc.length}:{ulenStr e.loc.ulen}"

/-- distinct listings of `(t,id)` among the packs filed under type `t`, in the order of the harness
(`BTreeSet<(String,u32,u32,String)>`: pack hex, offset, length, ulen string). -/
def candidates (ps : List IndexPack) (t : BlobType) (id : Nat) : List IndexEntry :=
  let all := (ps.filter (fun p => p.blobType = t)).flatMap fun p =>
    (p.blobs.filter (fun b => b.id = id)).map fun b => ({ tpe := t, pack := p.id, loc := b.loc } : IndexEntry)
  let key (e : IndexEntry) := (hexId e.pack, e.loc.offset, e.loc.length, ulenStr e.loc.ulen)
  let le (a b : IndexEntry) : Bool :=
    let (a1, a2, a3, a4) := key a
    let (b1, b2, b3, b4) := key b
    if a1 ≠ b1 then a1 < b1 else if a2 ≠ b2 then a2 < b2 else if a3 ≠ b3 then a3 < b3 else a4 ≤ b4
  (all.mergeSort le).eraseDups

def getObs (ps : List IndexPack) (idx : Index) (t : BlobType) (id : Nat) : String :=
  match idx.getId t id with
  | none => "n"
  | some e =>
    let c := candidates ps t id
    if c.length > 1 then "amb:" ++ "~".intercalate (c.map listingStr) else "s:" ++ listingStr e

def blobKeyLe (a b : IndexBlob) : Bool :=
  let ka := (hexId a.id, a.loc.offset, a.loc.length, ulenStr a.loc.ulen)
  let kb := (hexId b.id, b.loc.offset, b.loc.length, ulenStr b.loc.ulen)
  if ka.1 ≠ kb.1 then ka.1 < kb.1 else if ka.2.1 ≠ kb.2.1 then ka.2.1 < kb.2.1
  else if ka.2.2.1 ≠ kb.2.2.1 then ka.2.2.1 < kb.2.2.1 else ka.2.2.2 ≤ kb.2.2.2

def iterObs (idx : Index) : String :=
  let packs := idx.intoIter.map fun p =>
    let t := match p.blobs with
      | [] => "e"
      | b :: _ => if b.tpe = BlobType.tree then "t" else "d"
    let bl := p.blobs.mergeSort blobKeyLe
    let bstr := if bl.isEmpty then "-" else
      "~".intercalate (bl.map fun b => s!"{hexId b.id}.{b.loc.offset}.{b.loc.length}.{ulenStr b.loc.ulen}")
    s!"{t}:{hexId p.id}:{bstr}"
  if packs.isEmpty then "-" else ",".intercalate packs

def hasNoDup : List String → Bool
  | [] => true
  | a :: t => !t.contains a && hasNoDup t

def handle : List String → String
  | ["idx", mode, src, files, queries] =>
    let mode? : Option (IndexType × Bool) :=
      if mode = "full" then some (.full, false) else if mode = "ids" then some (.dataIds, false)
      else if mode = "trees" then some (.onlyTrees, false) else if mode = "dropdata" then some (.full, true) else none
    let qs? := if queries = "-" then some [] else (queries.splitOn ",").mapM parseId
    match mode?, parseFiles files, qs? with
    | some (m, dd), some parsed, some qs =>
      let fs := parsed.map (·.1)
      let rfs := parsed.map (·.2.1)
      let faulty := parsed.any (·.2.2)
      if src ≠ "direct" ∧ src ≠ "repo" then "bad-op"
      else if src = "direct" ∧ faulty then "bad-op"
      else if src = "repo" ∧ (mode = "trees" ∨ !hasNoDup ((files.splitOn "/").map contentPart)) then "bad-op" else
      -- `direct`: the collector hook on the given files; `repo`: the load over the per-file fetch results
      match (if src = "repo" then loadRepo m rfs else .ok (load m fs)) with
      | .error _ => errObs rfs
      | .ok idx0 =>
      let idx := if dd then idx0.dropData else idx0
      let ps := unmarked fs
      let q := qs.map fun id =>
        let h (t : BlobType) := if idx.has t id then "1" else "0"
        s!"{h .tree}{h .data},{getObs ps idx .tree id},{getObs ps idx .data id}"
      let qstr := if q.isEmpty then "-" else ";".intercalate q
      let it := if src = "repo" then "na" else iterObs idx
      s!"ok ts={idx.totalSize .tree},{idx.totalSize .data} q={qstr} it={it}"
    | _, _, _ => "bad-op"
  | ["psize", size, blobs] =>
    let size? : Option (Option Nat) := if size = "-" then some none else
      match size.toNat? with
      | some n => if n < 4294967296 then some (some n) else none
      | none => none
    let blobs? := if blobs = "-" then some [] else (blobs.splitOn "+").mapM parseBlob
    match size?, blobs? with
    | some sz, some bl =>
      match Rustic.PackU32.IndexPack.packSizeChecked { id := 0, blobs := bl, size := sz } with
      | some n => s!"ok {n}"
      | none => "ok overflow-panic"
    | _, _ => "bad-op"
  | _ => "bad-op"

end Driver.C17
