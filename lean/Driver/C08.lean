import Rustic.Model.Pack
import Driver.Util
import Driver.C17
/- Driver channel `c08` — see harness/src/c08.rs for the op-line grammar and the observation formats. -/
namespace Driver.C08
open Rustic.Pack Driver

def tStr : BlobType → String
  | .tree => "t"
  | .data => "d"

def ulenStr : Option Nat → String
  | none => "-"
  | some n => toString n

def blobStr (b : IndexBlob) : String :=
  s!"{Driver.C17.hexId b.id}.{tStr b.tpe}.{b.loc.offset}.{b.loc.length}.{ulenStr b.loc.ulen}"

def blobsStr (bs : List IndexBlob) : String :=
  if bs.isEmpty then "-" else "+".intercalate (bs.map blobStr)

/-- toy authenticated encryption for the driver (the theorems only use `|enc x| = |x| + 32`, `dec ∘ enc = id`):
16 × 0xA5, the plaintext, 16 × (0x5A xor sum of the plaintext bytes). -/
def toyTag (x : Bytes) : UInt8 := x.foldl (fun a b => a + b) 0x5A
def toyEnc (x : Bytes) : Bytes := List.replicate 16 0xA5 ++ x ++ List.replicate 16 (toyTag x)
def toyDec (c : Bytes) : Option Bytes :=
  if c.length < 32 then none else
  let x := (c.drop 16).take (c.length - 32)
  if c.take 16 = List.replicate 16 0xA5 ∧ c.drop (c.length - 16) = List.replicate 16 (toyTag x) then some x else none

def parseAdd (s : String) : Option (Bytes × Nat × Option Nat) :=
  match s.splitOn "." with
  | [id, len, ul] =>
    match Driver.C17.parseId id, len.toNat? with
    | some id, some len =>
      if ul = "-" then some (List.replicate len 0, id, none)
      else match ul.toNat? with
        | some u => if u = 0 ∨ u ≥ 4294967296 then none else some (List.replicate len 0, id, some u)
        | none => none
    | _, _ => none
  | _ => none

def parseRead (s : String) : Option (Option Nat × Option Nat) :=
  match s.splitOn ":" with
  | [h, p] =>
    let f (x : String) : Option (Option Nat) :=
      if x = "-" then some none else
        match x.toNat? with
        | some n => if n < 4294967296 then some (some n) else none
        | none => none
    match f h, f p with
    | some h, some p => some (h, p)
    | _, _ => none
  | _ => none

def errStr : FileErr → String
  | .backend => "err:Backend"
  | .decrypt => "err:Cryptography"
  | _ => "err:Internal"

def handle : List String → String
  | ["hdr", blobs] =>
    match (if blobs = "-" then some [] else (blobs.splitOn "+").mapM Driver.C17.parseBlob) with
    | some bs =>
      let bin := toBinary bs
      let parsed := match fromBinary bin with
        | some p => blobsStr p
        | none => "none"
      s!"ok bin={hex bin} size={headerSize bs} psize={packSize bs} parsed={parsed}"
    | none => "bad-op"
  | ["parse", h] =>
    match unhex h with
    | some bytes =>
      match fromBinary bytes with
      | some p => "ok " ++ blobsStr p
      | none => "err"
    | none => "bad-op"
  | ["pack", t, adds, reads] =>
    let t? := if t = "t" then some BlobType.tree else if t = "d" then some BlobType.data else none
    let adds? := if adds = "-" then some [] else (adds.splitOn "+").mapM parseAdd
    let reads? := (reads.splitOn ",").mapM parseRead
    match t?, adds?, reads? with
    | some t, some adds, some reads =>
      let p := (Packer.new t).run adds
      let (file, blobs) := p.finish toyEnc
      let n := file.length
      let ff := reads.map fun (hint, ps) =>
        let trueSize := ps.isNone || ps == some n
        match fromFile toyDec file hint (ps.getD n) with
        | .ok bl => if bl = blobs then "=" else "ne"
        | .error e => if trueSize then errStr e else "e"
      let bl := blobs.map fun b =>
        s!"{(Driver.C17.hexId b.id).take 8}.{tStr b.tpe}.{b.loc.offset}.{b.loc.length}.{ulenStr b.loc.ulen}"
      s!"ok blobs={if bl.isEmpty then "-" else ",".intercalate bl} len={n} ff={",".intercalate ff}"
    | _, _, _ => "bad-op"
  | ["repo", variant, seed] =>
    if ["backup", "prune-fast", "prune-copy", "prune-all", "copy"].contains variant ∧ seed.toNat?.isSome then "ok" else "bad-op"
  | ["repair", variant, seed] =>
    if ["all", "some", "none", "all-readall", "some-readall", "none-readall", "badhint"].contains variant ∧ seed.toNat?.isSome
    then "ok" else "bad-op"
  | _ => "bad-op"

end Driver.C08
