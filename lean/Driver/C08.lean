import Rustic.Model.Pack
import Rustic.Model.Index
import Driver.Util
import Driver.C17
/- Driver channel `c08` — see harness/src/c08.rs for the op-line grammar and the observation formats. -/
namespace Driver.C08
open Rustic.Pack Driver

def tStr : BlobType → String
  | .tree => "t"
  | .data => "d"

def ulenStr : Option Nat → String
  | none => "-"
  | some n => toString n

def blobStr (b : IndexBlob) : String :=
  s!"{Driver.C17.hexId b.id}.{tStr b.tpe}.{b.loc.offset}.{b.loc.length}.{ulenStr b.loc.ulen}"

def blobsStr (bs : List IndexBlob) : String :=
  if bs.isEmpty then "-" else "+".intercalate (bs.map blobStr)

/-- toy authenticated encryption for the driver (the theorems only use `|enc x| = |x| + 32`, `dec ∘ enc = id`):
16 × 0xA5, the plaintext, 16 × (0x5A xor sum of the plaintext bytes). -/
def toyTag (x : Bytes) : UInt8 := x.foldl (fun a b => a + b) 0x5A
def toyEnc (x : Bytes) : Bytes := List.replicate 16 0xA5 ++ x ++ List.replicate 16 (toyTag x)
def toyDec (c : Bytes) : Option Bytes :=
  if c.length < 32 then none else
  let x := (c.drop 16).take (c.length - 32)
  if c.take 16 = List.replicate 16 0xA5 ∧ c.drop (c.length - 16) = List.replicate 16 (toyTag x) then some x else none

def parseAdd (s : String) : Option (Bytes × Nat × Option Nat) :=
  match s.splitOn "." with
  | [id, len, ul] =>
    match Driver.C17.parseId id, len.toNat? with
    | some id, some len =>
      if ul = "-" then some (List.replicate len 0, id, none)
      else match ul.toNat? with
        | some u => if u = 0 ∨ u ≥ 4294967296 then none else some (List.replicate len 0, id, some u)
        | none => none
    | _, _ => none
  | _ => none

def parseRead (s : String) : Option (Option Nat × Option Nat) :=
  match s.splitOn ":" with
  | [h, p] =>
    let f (x : String) : Option (Option Nat) :=
      if x = "-" then some none else
        match x.toNat? with
        | some n => if n < 4294967296 then some (some n) else none
        | none => none
    match f h, f p with
    | some h, some p => some (h, p)
    | _, _ => none
  | _ => none

def errStr : FileErr → String
  | .backend => "err:Backend"
  | .decrypt => "err:Cryptography"
  | _ => "err:Internal"

/-- one stored pack of a `rix` case: label, blobs of its header, stored size, header readable? -/
structure RixPack where
  label : String
  blobs : List IndexBlob
  size : Nat
  readable : Bool

def parseRixPack (s : String) : Option RixPack :=
  match s.splitOn ":" with
  | [label, t, adds, flag] =>
    let t? := if t = "t" then some BlobType.tree else if t = "d" then some BlobType.data else none
    let adds? := if adds = "-" then some [] else (adds.splitOn "+").mapM parseAdd
    let flag? := if flag = "ok" then some true else if flag = "trunc" then some false else none
    match t?, adds?, flag? with
    | some t, some adds, some ok =>
      if label.isEmpty ∨ !label.toList.all (fun c => 'a' ≤ c ∧ c ≤ 'z') then none else
      let blobs := ((Packer.new t).run adds).blobs
      some { label := label, blobs := blobs, size := if ok then packSize blobs else packSize blobs - 1, readable := ok }
    | _, _, _ => none
  | _ => none

def rixEntry (ps : List RixPack) (e : String) : Option Rustic.Index.IndexPack :=
  if e.startsWith "?" then
    match (e.drop 1).toString.toNat? with
    | some k => if k < 256 then some { id := 1000 + k, blobs := [], size := none } else none
    | none => none
  else
    let cut := e.endsWith "~"
    let label := if cut then (e.dropEnd 1).toString else e
    match ps.findIdx? (fun p => p.label = label) with
    | none => none
    | some i =>
      match ps[i]? with
      | none => none
      | some p =>
        if cut then
          if p.blobs.isEmpty then none else some { id := i, blobs := p.blobs.dropLast, size := none }
        else some { id := i, blobs := p.blobs, size := none }

def rixFile (ps : List RixPack) (s : String) : Option Rustic.Index.IndexFile :=
  match s.splitOn "|" with
  | [a, b] =>
    let list (x : String) := if x = "-" then some [] else (x.splitOn ",").mapM (rixEntry ps)
    match list a, list b with
    | some a, some b => if a.isEmpty ∧ b.isEmpty then none else some { packs := a, packsToDelete := b }
    | _, _ => none
  | _ => none

def noDupStr : List String → Bool
  | [] => true
  | a :: t => !t.contains a && noDupStr t

def rixObs (readAll : Bool) (packs files : String) : String :=
  let ps? := if packs = "-" then some [] else (packs.splitOn ";").mapM parseRixPack
  match ps? with
  | none => "bad-op"
  | some ps =>
    if !noDupStr (ps.map (·.label)) then "bad-op" else
    let ftoks := if files = "-" then [] else files.splitOn "/"
    if !noDupStr ftoks then "bad-op" else
    match ftoks.mapM (rixFile ps) with
    | none => "bad-op"
    | some fs =>
      let store := ps.zipIdx.map fun (p, i) => (i, p.size)
      let readHeader (id : Nat) (_hint : Option Nat) (size : Nat) : Option (List IndexBlob) :=
        match ps[id]? with
        | some p => if p.readable ∧ size = p.size then some p.blobs else none
        | none => none
      let r := Rustic.Index.repairIndex readHeader store fs readAll
      let listings (i : Nat) (marked : Bool) : List Rustic.Index.IndexPack :=
        r.flatMap fun f => (if marked then f.packsToDelete else f.packs).filter fun p => p.id = i
      let per := ps.zipIdx.map fun (p, i) =>
        let u := listings i false
        let m := listings i true
        let ok := (u ++ m).all fun q => q.blobs = p.blobs
        s!"{p.label}:u{u.length}m{m.length}{if ok then "=" else "x"}"
      let unknown := (r.flatMap fun f => (f.packs ++ f.packsToDelete).filter fun p => p.id ≥ 1000).length
      s!"ok {if per.isEmpty then "-" else ",".intercalate per} ?{unknown}"

def handle : List String → String
  | ["hdr", blobs] =>
    match (if blobs = "-" then some [] else (blobs.splitOn "+").mapM Driver.C17.parseBlob) with
    | some bs =>
      let bin := toBinary bs
      let parsed := match fromBinary bin with
        | some p => blobsStr p
        | none => "none"
      s!"ok bin={hex bin} size={headerSize bs} psize={packSize bs} parsed={parsed}"
    | none => "bad-op"
  | ["parse", h] =>
    match unhex h with
    | some bytes =>
      match fromBinary bytes with
      | some p => "ok " ++ blobsStr p
      | none => "err"
    | none => "bad-op"
  | ["pack", t, adds, reads] =>
    let t? := if t = "t" then some BlobType.tree else if t = "d" then some BlobType.data else none
    let adds? := if adds = "-" then some [] else (adds.splitOn "+").mapM parseAdd
    let reads? := (reads.splitOn ",").mapM parseRead
    match t?, adds?, reads? with
    | some t, some adds, some reads =>
      let p := (Packer.new t).run adds
      let (file, blobs) := p.finish toyEnc
      let n := file.length
      let ff := reads.map fun (hint, ps) =>
        let trueSize := ps.isNone || ps == some n
        match fromFile toyDec file hint (ps.getD n) with
        | .ok bl => if bl = blobs then "=" else "ne"
        | .error e => if trueSize then errStr e else "e"
      let bl := blobs.map fun b =>
        s!"{(Driver.C17.hexId b.id).take 8}.{tStr b.tpe}.{b.loc.offset}.{b.loc.length}.{ulenStr b.loc.ulen}"
      s!"ok blobs={if bl.isEmpty then "-" else ",".intercalate bl} len={n} ff={",".intercalate ff}"
    | _, _, _ => "bad-op"
  | ["rix", ra, packs, files] =>
    if ra = "0" then rixObs false packs files else if ra = "1" then rixObs true packs files else "bad-op"
  | ["repo", variant, seed] =>
    if ["backup", "prune-fast", "prune-copy", "prune-all", "copy", "merge"].contains variant ∧ seed.toNat?.isSome then "ok" else "bad-op"
  | ["repair", variant, seed] =>
    if ["all", "some", "none", "all-readall", "some-readall", "none-readall", "badhint"].contains variant ∧ seed.toNat?.isSome
    then "ok" else "bad-op"
  | _ => "bad-op"

end Driver.C08
