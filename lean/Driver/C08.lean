import Rustic.Model.Pack
import Rustic.Model.Index
import Rustic.Model.PackWriter
import Driver.Util
import Driver.C17
/- Driver channel `c08` — see harness/src/c08.rs for the op-line grammar and the observation formats. -/
namespace Driver.C08
open Rustic.Pack Driver

def tStr : BlobType → String
  | .tree => "t"
  | .data => "d"

def ulenStr : Option Nat → String
  | none => "-"
  | some n => toString n

def blobStr (b : IndexBlob) : String :=
  s!"{Driver.C17.hexId b.id}.{tStr b.tpe}.{b.loc.offset}.{b.loc.length}.{ulenStr b.loc.ulen}"

def blobsStr (bs : List IndexBlob) : String :=
  if bs.isEmpty then "-" else "+".intercalate (bs.map blobStr)

/-- toy authenticated encryption for the driver (the theorems only use `|enc x| = |x| + 32`, `dec ∘ enc = id`):
16 × 0xA5, the plaintext, 16 × (0x5A xor sum of the plaintext bytes). -/
def toyTag (x : Bytes) : UInt8 := x.foldl (fun a b => a + b) 0x5A
def toyEnc (x : Bytes) : Bytes := List.replicate 16 0xA5 ++ x ++ List.replicate 16 (toyTag x)
def toyDec (c : Bytes) : Option Bytes :=
  if c.length < 32 then none else
  let x := (c.drop 16).take (c.length - 32)
  if c.take 16 = List.replicate 16 0xA5 ∧ c.drop (c.length - 16) = List.replicate 16 (toyTag x) then some x else none

def parseAdd (s : String) : Option (Bytes × Nat × Option Nat) :=
  match s.splitOn "." with
  | [id, len, ul] =>
    match Driver.C17.parseId id, len.toNat? with
    | some id, some len =>
      if ul = "-" then some (List.replicate len 0, id, none)
      else match ul.toNat? with
        | some u => if u = 0 ∨ u ≥ 4294967296 then none else some (List.replicate len 0, id, some u)
        | none => none
    | _, _ => none
  | _ => none

/-- the pack-size part of a read: the stored file with its true size / with a wrong size argument, or a MODIFIED file read with
its own true size (`F<k>` junk in front, `E<k>` junk appended, `FB` copy of the first blob in front, `FP` the pack twice) -/
inductive PsSpec where
  | true_
  | abs (v : Nat)
  | front (k : Nat)
  | endx (k : Nat)
  | frontBlob
  | dup

def parsePs (p : String) : Option PsSpec :=
  if p = "-" then some .true_
  else if p = "FB" then some .frontBlob
  else if p = "FP" then some .dup
  else if p.startsWith "F" then (p.drop 1).toString.toNat?.bind fun k => if k ≤ 1048576 then some (.front k) else none
  else if p.startsWith "E" then (p.drop 1).toString.toNat?.bind fun k => if k ≤ 1048576 then some (.endx k) else none
  else p.toNat?.bind fun v => if v < 4294967296 then some (.abs v) else none

/-- the junk of `F<k>` / `E<k>` (the same bytes as in harness/src/c08.rs `junk`) -/
def junk (k : Nat) : Bytes := (List.range k).map fun i => UInt8.ofNat (i * 37 + 11)

/-- the file that is read and the pack size handed to `from_file` -/
def PsSpec.apply (ps : PsSpec) (file : Bytes) (blobs : List IndexBlob) : Bytes × Nat :=
  match ps with
  | .true_ => (file, file.length)
  | .abs v => (file, v)
  | .front k => (junk k ++ file, k + file.length)
  | .endx k => (file ++ junk k, file.length + k)
  | .frontBlob =>
    let l0 := match blobs with
      | b :: _ => b.loc.length
      | [] => 0
    (file.take l0 ++ file, (file.take l0).length + file.length)
  | .dup => (file ++ file, file.length + file.length)

def parseRead (s : String) : Option (Option Nat × PsSpec) :=
  match s.splitOn ":" with
  | [h, p] =>
    let f (x : String) : Option (Option Nat) :=
      if x = "-" then some none else
        match x.toNat? with
        | some n => if n < 4294967296 then some (some n) else none
        | none => none
    match f h, parsePs p with
    | some h, some p => some (h, p)
    | _, _ => none
  | _ => none

def errStr : FileErr → String
  | .backend => "err:Backend"
  | .decrypt => "err:Cryptography"
  | _ => "err:Internal"

/-- one stored pack of a `rix` case: label, blobs of its header, stored size, header readable? -/
structure RixPack where
  label : String
  blobs : List IndexBlob
  size : Nat
  readable : Bool

def parseRixPack (s : String) : Option RixPack :=
  match s.splitOn ":" with
  | [label, t, adds, flag] =>
    let t? := if t = "t" then some BlobType.tree else if t = "d" then some BlobType.data else none
    let adds? := if adds = "-" then some [] else (adds.splitOn "+").mapM parseAdd
    let flag? := if flag = "ok" then some true else if flag = "trunc" then some false else none
    match t?, adds?, flag? with
    | some t, some adds, some ok =>
      if label.isEmpty ∨ !label.toList.all (fun c => 'a' ≤ c ∧ c ≤ 'z') then none else
      let blobs := ((Packer.new t).run adds).blobs
      some { label := label, blobs := blobs, size := if ok then packSize blobs else packSize blobs - 1, readable := ok }
    | _, _, _ => none
  | _ => none

def rixEntry (ps : List RixPack) (e : String) : Option Rustic.Index.IndexPack :=
  if e.startsWith "?" then
    match (e.drop 1).toString.toNat? with
    | some k => if k < 256 then some { id := 1000 + k, blobs := [], size := none } else none
    | none => none
  else
    let cut := e.endsWith "~"
    let label := if cut then (e.dropEnd 1).toString else e
    match ps.findIdx? (fun p => p.label = label) with
    | none => none
    | some i =>
      match ps[i]? with
      | none => none
      | some p =>
        if cut then
          if p.blobs.isEmpty then none else some { id := i, blobs := p.blobs.dropLast, size := none }
        else some { id := i, blobs := p.blobs, size := none }

def rixFile (ps : List RixPack) (s : String) : Option Rustic.Index.IndexFile :=
  match s.splitOn "|" with
  | [a, b] =>
    let list (x : String) := if x = "-" then some [] else (x.splitOn ",").mapM (rixEntry ps)
    match list a, list b with
    | some a, some b => if a.isEmpty ∧ b.isEmpty then none else some { packs := a, packsToDelete := b }
    | _, _ => none
  | _ => none

def noDupStr : List String → Bool
  | [] => true
  | a :: t => !t.contains a && noDupStr t

def rixObs (readAll : Bool) (packs files : String) (dryFirst : Bool := false) : String :=
  let ps? := if packs = "-" then some [] else (packs.splitOn ";").mapM parseRixPack
  match ps? with
  | none => "bad-op"
  | some ps =>
    if !noDupStr (ps.map (·.label)) then "bad-op" else
    let ftoks := if files = "-" then [] else files.splitOn "/"
    if !noDupStr ftoks then "bad-op" else
    match ftoks.mapM (rixFile ps) with
    | none => "bad-op"
    | some fs =>
      let store := ps.zipIdx.map fun (p, i) => (i, p.size)
      let readHeader (id : Nat) (_hint : Option Nat) (size : Nat) : Option (List IndexBlob) :=
        match ps[id]? with
        | some p => if p.readable ∧ size = p.size then some p.blobs else none
        | none => none
      let obsOf (r : List Rustic.Index.IndexFile) : String :=
        let listings (i : Nat) (marked : Bool) : List Rustic.Index.IndexPack :=
          r.flatMap fun f => (if marked then f.packsToDelete else f.packs).filter fun p => p.id = i
        let per := ps.zipIdx.map fun (p, i) =>
          let u := listings i false
          let m := listings i true
          let ok := (u ++ m).all fun q => q.blobs = p.blobs
          s!"{p.label}:u{u.length}m{m.length}{if ok then "=" else "x"}"
        let unknown := (r.flatMap fun f => (f.packs ++ f.packsToDelete).filter fun p => p.id ≥ 1000).length
        s!"{if per.isEmpty then "-" else ",".intercalate per} ?{unknown}"
      if dryFirst then
        -- `rixd`: `repair_index(opts, dry_run = true)` first (the index files as they are afterwards), then the real run on that
        let r1 := Rustic.Index.repairIndexD true readHeader store fs readAll
        let r2 := Rustic.Index.repairIndexD false readHeader store r1 readAll
        -- `chk`: does `to_indexed_checked` (model `checkedPacks`) succeed on the damaged store?
        let chk := if (Rustic.Index.checkedPacks readHeader store fs).isSome then "ok" else "err"
        s!"ok chk={chk} {obsOf r1} / {obsOf r2}"
      else
        s!"ok {obsOf (Rustic.Index.repairIndex readHeader store fs readAll)}"

/-! ### `pw`: the pack-writer model (`Model/PackWriter.lean`) under the sequential schedule -/
section pw
open Rustic.PackWriter

/-- `<t|d><len>` or `<t|d><len>x<count>` -/
def parsePwAdd (s : String) : Option (BlobType × Nat × Nat) :=
  let t? := if s.startsWith "t" then some BlobType.tree else if s.startsWith "d" then some BlobType.data else none
  match t? with
  | none => none
  | some t =>
    match ((s.drop 1).toString.splitOn "x") with
    | [l] => l.toNat?.map fun l => (t, l, 1)
    | [l, c] => match l.toNat?, c.toNat? with
      | some l, some c => some (t, l, c)
      | _, _ => none
    | _ => none

structure Sim where
  st : St
  /-- backend operations logged so far (pack + index writes) -/
  ops : Nat := 0
  /-- position of the backend operation that fails -/
  failAt : Option Nat

def pwHash (f : Bytes) : Nat := f.foldl (fun a b => (a * 31 + b.toNat) % 1000000007) f.length

def Sim.step (m : Sim) (ev : Ev) : Sim := { m with st := Rustic.PackWriter.step toyEnc pwHash m.st ev }

def backendOps (l : List Log) : Nat := (l.filter fun e => match e with | .indexAdd _ => false | _ => true).length

/-- `process` then `index` for everything queued in lane `t` (the actor keeping up with the packer) -/
def drain (t : BlobType) : Nat → Sim → Sim
  | 0, m => m
  | fuel + 1, m =>
    let l := m.st.lane t
    if !l.chan.isEmpty then
      let fail := m.failAt == some m.ops
      drain t fuel { (m.step (.write t fail)) with ops := m.ops + 1 }
    else if !l.done.isEmpty && !l.failed then
      -- an index write happens iff the log grows by more than the `indexAdd`
      let before := m.st.log.length
      let fail := m.failAt == some m.ops
      let m' := m.step (.index t false fail)
      let wrote := m'.st.log.length > before + 1
      drain t fuel { m' with ops := if wrote then m.ops + 1 else m.ops }
    else m

def packStr (blobs : Option (List IndexBlob)) (len : Nat) (ok : Bool) : String :=
  let b := match blobs with
    | some (x :: xs) => s!"{x.id}+{xs.length + 1}"
    | some [] => "0+0"
    | none => "?"
  s!"{len}/{b}/{if ok then "ok" else "f"}"

def pwObs (dl tl : Nat) (failAt : Option Nat) (adds : List (BlobType × Nat × Nat)) : String :=
  -- expand the adds: ids are the running number of the blob
  let evs : List (BlobType × Nat × Nat) := Id.run do
    let mut out : Array (BlobType × Nat × Nat) := #[]
    let mut k := 0
    for (t, len, c) in adds do
      for _ in [0:c] do
        out := out.push (t, len, k)
        k := k + 1
    return out.toList
  let limit (t : BlobType) := match t with | .tree => tl | .data => dl
  let m0 : Sim := { st := St.init, failAt := failAt }
  let m1 := evs.foldl (fun (m : Sim) (t, len, id) =>
      if (m.st.lane t).failed then m else
      drain t 8 (m.step (.add t (List.replicate (len + 32) 0) id none (limit t) false))) m0
  let fin (t : BlobType) (m : Sim) : Sim := if (m.st.lane t).failed then m else drain t 8 (m.step (.flush t))
  let m2 := fin .data m1
  let dataFailed := (m2.st.lane .data).failed
  let m3 := if dataFailed then m2 else fin .tree m2
  let failed := (m3.st.lane .data).failed || (m3.st.lane .tree).failed
  let m4 := if failed then m3 else
    let fail := m3.failAt == some m3.ops
    m3.step (.finalizeIndexer fail)
  let log := m4.st.log
  let idxFailed := log.any fun e => match e with | .indexWrite _ false => true | _ => false
  let res := if failed || idxFailed then "err" else "ok"
  -- pack writes per lane, up to and including the first failed one; blobs of a failed write are not observable
  -- the model's packs carry their type in the blobs; an empty pack never exists (flush only if count > 0)
  let packs : List (BlobType × String × Bool) := log.filterMap fun e => match e with
    | .packWrite _ file ok =>
      -- find the blobs: the header of the model pack (toy encryption) parses back
      match fromFile toyDec file none file.length with
      | .ok bl =>
        let t := match bl with | b :: _ => b.tpe | [] => BlobType.data
        some (t, packStr (if ok then some bl else none) file.length ok, ok)
      | .error _ => some (BlobType.data, "unparsable", ok)
    | _ => none
  let upto (l : List (String × Bool)) : List String :=
    let rec go : List (String × Bool) → List String
      | [] => []
      | (s, ok) :: r => if ok then s :: go r else [s]
    go l
  let laneStr (t : BlobType) : String :=
    let l := upto ((packs.filter fun x => x.1 == t).map fun x => (x.2.1, x.2.2))
    if l.isEmpty then "-" else ",".intercalate l
  let idx : List String := log.filterMap fun e => match e with
    | .indexWrite ps ok =>
      let names := ps.map fun p => match p.blobs with
        | b :: r => s!"{tStr b.tpe}{b.id}+{r.length + 1}"
        | [] => "e"
      let sorted := (names.toArray.qsort (· < ·)).toList
      some (if ok then s!"{"+".intercalate sorted}/ok" else "?/f")
    | _ => none
  let ordered := orderedFrom [] log
  s!"res={res} D={laneStr .data} T={laneStr .tree} I={if idx.isEmpty then "-" else ",".intercalate idx} ordered={ordered}"

end pw

def handle : List String → String
  | ["hdr", blobs] =>
    match (if blobs = "-" then some [] else (blobs.splitOn "+").mapM Driver.C17.parseBlob) with
    | some bs =>
      let bin := toBinary bs
      let parsed := match fromBinary bin with
        | some p => blobsStr p
        | none => "none"
      s!"ok bin={hex bin} size={headerSize bs} psize={packSize bs} parsed={parsed}"
    | none => "bad-op"
  | ["parse", h] =>
    match unhex h with
    | some bytes =>
      match fromBinary bytes with
      | some p => "ok " ++ blobsStr p
      | none => "err"
    | none => "bad-op"
  | ["pack", t, adds, reads] =>
    let t? := if t = "t" then some BlobType.tree else if t = "d" then some BlobType.data else none
    let adds? := if adds = "-" then some [] else (adds.splitOn "+").mapM parseAdd
    let reads? := (reads.splitOn ",").mapM parseRead
    match t?, adds?, reads? with
    | some t, some adds, some reads =>
      let p := (Packer.new t).run adds
      let (file, blobs) := p.finish toyEnc
      let n := file.length
      let ff := reads.map fun (hint, ps) =>
        let (f', sz) := ps.apply file blobs
        let trueSize := sz == n
        match fromFile toyDec f' hint sz with
        | .ok bl => if bl = blobs then "=" else "ne"
        | .error e => if trueSize then errStr e else "e"
      let bl := blobs.map fun b =>
        s!"{(Driver.C17.hexId b.id).take 8}.{tStr b.tpe}.{b.loc.offset}.{b.loc.length}.{ulenStr b.loc.ulen}"
      s!"ok blobs={if bl.isEmpty then "-" else ",".intercalate bl} len={n} ff={",".intercalate ff}"
    | _, _, _ => "bad-op"
  | ["packn", t, n, len, mode, reads] =>
    -- a pack with many blobs: `n` blobs (ids = running number, `len` bytes each), `max` = as many as the packer's count limit
    -- lets into one pack (`BasicPacker::should_save`: `count >= MAX_COUNT`, regenerated constant); header entries all
    -- compressed / all uncompressed / every third uncompressed; hints `h<±k>` relative to the encrypted header's size
    let t? := if t = "t" then some BlobType.tree else if t = "d" then some BlobType.data else none
    let n? : Option Nat := if n = "max" then some Rustic.Gen.PACKER_MAX_COUNT else n.toNat?.bind fun k => if k ≤ 20000 then some k else none
    let mode? : Option Nat := if mode = "c" then some 0 else if mode = "u" then some 1 else if mode = "m" then some 2 else none
    match t?, n?, len.toNat?, mode? with
    | some t, some n, some len, some mode =>
      if len > 64 then "bad-op" else
      let ulen (k : Nat) : Option Nat :=
        if mode = 0 then some (len + 7) else if mode = 1 then none else if k % 3 = 0 then none else some (len + 7)
      let adds := (List.range n).map fun k => (List.replicate len (0 : UInt8), k, ulen k)
      let p := (Packer.new t).run adds
      let (file, blobs) := p.finish toyEnc
      let flen := file.length
      let hsize := headerSize blobs
      let hint? (x : String) : Option (Option Nat) :=
        if x = "-" then some none
        else if x.startsWith "h" then
          match (x.drop 1).toString.toInt? with
          | some r => if r.natAbs < 1048576 then some (some ((hsize : Int) + r).toNat) else none
          | none => none
        else match x.toNat? with
          | some v => if v < 4294967296 then some (some v) else none
          | none => none
      let read? (r : String) : Option (Option Nat × PsSpec) :=
        match r.splitOn ":" with
        | [h, ps] =>
          match hint? h, parsePs ps with
          | some h, some ps => some (h, ps)
          | _, _ => none
        | _ => none
      match (reads.splitOn ",").mapM read? with
      | none => "bad-op"
      | some reads =>
        let ff := reads.map fun (hint, ps) =>
          let (f', sz) := ps.apply file blobs
          let trueSize := sz == flen
          match fromFile toyDec f' hint sz with
          | .ok bl => if bl = blobs then "=" else "ne"
          | .error e => if trueSize then errStr e else "e"
        let bstr (b : IndexBlob) :=
          s!"{(Driver.C17.hexId b.id).take 8}.{tStr b.tpe}.{b.loc.offset}.{b.loc.length}.{ulenStr b.loc.ulen}"
        let first := match blobs.head? with | some b => bstr b | none => "-"
        let last := match blobs.getLast? with | some b => bstr b | none => "-"
        s!"ok n={blobs.length} hsize={hsize} first={first} last={last} len={flen} ff={",".intercalate ff}"
    | _, _, _, _ => "bad-op"
  | ["rix", ra, packs, files] =>
    if ra = "0" then rixObs false packs files else if ra = "1" then rixObs true packs files else "bad-op"
  | ["rixd", ra, packs, files] =>
    if ra = "0" then rixObs false packs files true else if ra = "1" then rixObs true packs files true else "bad-op"
  | ["cflags", seed] =>
    -- the `cacheable` flag of ranged pack reads, per pack type: header reads (`PackHeader::from_file`) and blob reads
    if seed.toNat?.isNone then "bad-op" else
    let f (b : Bool) := if b then "1" else "0"
    s!"ok hdr=t{f (headerReadCacheable .tree)}d{f (headerReadCacheable .data)} blob=t{f (blobReadCacheable .tree)}d{f (blobReadCacheable .data)}"
  | ["pw", dl, tl, fail, adds] =>
    let fail? : Option (Option Nat) := if fail = "-" then some none else fail.toNat?.map some
    let adds? := if adds = "-" then some [] else (adds.splitOn ",").mapM parsePwAdd
    match dl.toNat?, tl.toNat?, fail?, adds? with
    | some dl, some tl, some f, some adds => pwObs dl tl f adds
    | _, _, _, _ => "bad-op"
  | ["order", variant, seed] =>
    if ["backup", "prune", "copy", "tiny", "tinyfail", "backupfail", "bigbackup"].contains variant ∧ seed.toNat?.isSome then "ok" else "bad-op"
  | ["repo", variant, seed] =>
    if ["backup", "prune-fast", "prune-copy", "prune-all", "copy", "merge", "rewrite", "repair-snapshots"].contains variant ∧ seed.toNat?.isSome then "ok" else "bad-op"
  | ["repair", variant, seed] =>
    -- `[hc-][dry-]<which>[-readall]`: hc = on a hot/cold pair of stores, dry = a dry run first (not for `fullpack`)
    let v1 := if variant.startsWith "hc-" then (variant.drop 3).toString else variant
    let v2 := if v1.startsWith "dry-" then (v1.drop 4).toString else v1
    let plain := ["all", "some", "none", "all-readall", "some-readall", "none-readall", "badhint", "lostpack", "lostpack-readall"]
    if (plain.contains v2 ∨ (v2 = variant ∧ ["fullpack", "fullpack-readall"].contains variant)) ∧ seed.toNat?.isSome
    then "ok" else "bad-op"
  | _ => "bad-op"

end Driver.C08
