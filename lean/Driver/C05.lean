import Rustic.Model.Check
import Rustic.Gen.Constants
import Driver.Util
/-! `c05 chk <label> <abstract repository state…> | <raw store, ignored here>` — see harness/src/c05.rs.
Prints `errs=<sorted finding kinds|none|cmd-err> restore=<ok|bad|->` (`-` when errs ≠ none).
Snapshot tokens carry the delete mark of the snapshot file (`s:<tree>:<auth>:K|A<unix seconds>`); the model of `Repository::check`
walks every listed snapshot whatever the mark (`Props.C05.check_walks_every_listed_snapshot`), so damage below a marked snapshot is
predicted exactly like damage below any other. -/
namespace Driver.C05
open Rustic.Check

inductive RowRes | m | z | ok (h len : Nat)

structure RawFile where
  id : Nat
  size : Nat
  hash : Nat
  trailer : Option Nat
  headerOk : Bool
  header : Array Blob := #[]
  rows : Array (Nat × Nat × Bool × RowRes) := #[]

structure PS where
  snapsOk : Option Bool := none
  indexOk : Option Bool := none
  snaps : Array Snap := #[]
  -- index files; every pack with its to-delete flag
  index : Array (Array (Bool × IPack)) := #[]
  files : Array RawFile := #[]
  trees : Array (Nat × Array Node) := #[]
  /-- what the last structural token opened: 0 nothing, 1 index pack, 2 stored file, 3 tree -/
  ctx : Nat := 0

def optNat (s : String) : Option (Option Nat) :=
  if s = "-" then some none else s.toNat?.map some

def bool01 (s : String) : Option Bool :=
  if s = "1" then some true else if s = "0" then some false else none

def parseBlob : List String → Option Blob
  | [id, t, off, len, ul] => do
    let id ← id.toNat?
    let t ← (if t = "t" then some BT.tree else if t = "d" then some BT.data else none)
    let off ← off.toNat?
    let len ← len.toNat?
    let ul ← optNat ul
    pure { id := id, tpe := t, offset := off, length := len, ulen := ul }
  | _ => none

def parseContent (s : String) : Option (Option (List Nat)) :=
  if s = "-" then some none
  else if s = "e" then some (some [])
  else ((s.splitOn ",").mapM (fun (x : String) => x.toNat?)).map some

def parseMark (s : String) : Option DelMark :=
  if s = "K" then some .never
  else if s.startsWith "A" then (s.drop 1).toInt?.map DelMark.after
  else none

def modifyLast {α} (a : Array α) (f : α → α) : Option (Array α) :=
  if 0 < a.size then some (a.modify (a.size - 1) f) else none

def step (ps : PS) (tok : String) : Option PS :=
  match tok.splitOn ":" with
  | ["S=1"] => some { ps with snapsOk := some true }
  | ["S=0"] => some { ps with snapsOk := some false }
  | ["I=1"] => some { ps with indexOk := some true }
  | ["I=0"] => some { ps with indexOk := some false }
  | ["s", t, a] => do
    let t ← t.toNat?
    let a ← bool01 a
    pure { ps with snaps := ps.snaps.push { tree := t, authentic := a } }
  | ["s", t, a, m] => do
    -- s:<tree>:<authentic>:<delete mark>  (`K` = delete-never, `A<seconds>` = delete-after; snapshots without a mark: 3 fields)
    let t ← t.toNat?
    let a ← bool01 a
    let m ← parseMark m
    pure { ps with snaps := ps.snaps.push { tree := t, authentic := a, mark := m } }
  | ["i"] => some { ps with index := ps.index.push #[], ctx := 0 }
  | [k, id, time, size] =>
    if k = "p" ∨ k = "d" then do
      let id ← id.toNat?
      let time ← bool01 time
      let size ← optNat size
      let idx ← modifyLast ps.index (·.push (k = "d", { id := id, blobs := [], timeSet := time, size := size }))
      pure { ps with index := idx, ctx := 1 }
    else if k = "n" then do
      -- n:<kind>:<subtree>:<content>
      let kind ← (if id = "f" then some NodeKind.file else if id = "d" then some NodeKind.dir
        else if id = "o" then some NodeKind.other else none)
      let st ← optNat time
      let ct ← parseContent size
      if ps.ctx ≠ 3 then none else
      let trees ← modifyLast ps.trees (fun (h, ns) => (h, ns.push { kind := kind, subtree := st, content := ct }))
      pure { ps with trees := trees }
    else none
  | ["n", k, st, ct, size, links, inode, dev] => do
    -- n:<kind>:<subtree>:<content>:<size>:<links>:<inode>:<device>  (file nodes: the metadata `check_trees` must not go by)
    let kind ← (if k = "f" then some NodeKind.file else if k = "d" then some NodeKind.dir
      else if k = "o" then some NodeKind.other else none)
    let st ← optNat st
    let ct ← parseContent ct
    let size ← size.toNat?
    let links ← links.toNat?
    let inode ← inode.toNat?
    let dev ← dev.toNat?
    if ps.ctx ≠ 3 then none else
    let trees ← modifyLast ps.trees (fun (h, ns) =>
      (h, ns.push { kind := kind, subtree := st, content := ct, size := size, links := links, inode := inode, device := dev }))
    pure { ps with trees := trees }
  | "b" :: rest => do
    let b ← parseBlob rest
    if ps.ctx ≠ 1 then none else
    let idx ← modifyLast ps.index (fun packs =>
      packs.modify (packs.size - 1) (fun (d, p) => (d, { p with blobs := p.blobs ++ [b] })))
    pure { ps with index := idx }
  | ["F", id, size, hash, trailer, hx] => do
    let id ← id.toNat?
    let size ← size.toNat?
    let hash ← hash.toNat?
    let trailer ← optNat trailer
    let ok ← (if hx = "H" then some true else if hx = "X" then some false else none)
    pure { ps with files := ps.files.push { id, size, hash, trailer, headerOk := ok }, ctx := 2 }
  | "h" :: rest => do
    let b ← parseBlob rest
    if ps.ctx ≠ 2 then none else
    let files ← modifyLast ps.files (fun f => { f with header := f.header.push b })
    pure { ps with files := files }
  | "r" :: off :: len :: c :: res => do
    let off ← off.toNat?
    let len ← len.toNat?
    let c ← bool01 c
    let res ← (match res with
      | ["M"] => some RowRes.m
      | ["Z"] => some RowRes.z
      | [h, l] => do pure (RowRes.ok (← h.toNat?) (← l.toNat?))
      | _ => none)
    if ps.ctx ≠ 2 then none else
    let files ← modifyLast ps.files (fun f => { f with rows := f.rows.push (off, len, c, res) })
    pure { ps with files := files }
  | ["T", h] => do
    let h ← h.toNat?
    pure { ps with trees := ps.trees.push (h, #[]), ctx := 3 }
  | _ => none

def findRow (f : RawFile) (off len : Nat) (c : Bool) : Option RowRes :=
  (f.rows.find? (fun (o, l, cc, _) => o == off && l == len && cc == c)).map (·.2.2.2)

def mkFile (trees : Array (Nat × Array Node)) (f : RawFile) : PFile :=
  { id := f.id, size := f.size, hash := f.hash, trailer := f.trailer,
    header := if f.headerOk then some f.header.toList else none,
    dec := fun off len c =>
      match findRow f off len c with
      | some (.ok h l) => .ok h l ((trees.find? (·.1 == h)).map (·.2.toList))
      | some .z => .zfail
      | _ => .fail }

/-- every range the model can ask for must be in the table (otherwise the line is ill-formed) -/
def covered (ps : PS) : Bool :=
  ps.index.all fun packs => packs.all fun (_, p) =>
    ps.files.all fun f => f.id != p.id ||
      (let rec go : Nat → List Blob → Bool
        | _, [] => true
        | pos, b :: l =>
          (findRow f b.offset b.length b.ulen.isSome).isSome &&
          (findRow f pos b.length b.ulen.isSome).isSome && go (pos + b.length) l
      go 0 (sortBlobs p.blobs))

def Err.name : Err → String
  | .PackTimeNotSet => "PackTimeNotSet" | .PackBlobTypesMismatch => "PackBlobTypesMismatch"
  | .PackBlobOffsetMismatch => "PackBlobOffsetMismatch" | .PackSizeMismatchIndex => "PackSizeMismatchIndex"
  | .NoPack => "NoPack" | .ErrorCheckingTrees => "ErrorCheckingTrees" | .FileHasNoContent => "FileHasNoContent"
  | .FileBlobHasNullId => "FileBlobHasNullId" | .FileBlobNotInIndex => "FileBlobNotInIndex"
  | .NoSubTree => "NoSubTree" | .NullSubTree => "NullSubTree" | .SubTreeMissingInIndex => "SubTreeMissingInIndex"
  | .ErrorReadingPack => "ErrorReadingPack" | .PackSizeMismatch => "PackSizeMismatch"
  | .PackHashMismatch => "PackHashMismatch" | .PackHeaderLengthMismatch => "PackHeaderLengthMismatch"
  | .PackHeaderMismatchIndex => "PackHeaderMismatchIndex" | .ErrorCheckingPack => "ErrorCheckingPack"
  | .PackBlobLengthMismatch => "PackBlobLengthMismatch" | .PackBlobHashMismatch => "PackBlobHashMismatch"
  | .Panic => "Panic"

def sizes : Sizes :=
  { entryLen := Rustic.Gen.C05_ENTRY_LEN, entryLenComp := Rustic.Gen.C05_ENTRY_LEN_COMPRESSED,
    overhead := Rustic.Gen.C05_COMP_OVERHEAD, lengthLen := Rustic.Gen.C05_LENGTH_LEN }

def showErrs (es : List Err) : String :=
  let names := (es.map Err.name).toArray.qsort (· < ·)
  let names := names.foldl (fun (acc : Array String) n => if acc.back? == some n then acc else acc.push n) #[]
  if names.isEmpty then "none" else ",".intercalate names.toList

/-- some blob key has two different index entries among the live packs: the real lookup is not determined
(see `ambiguous` in harness/src/c05.rs); only the index-level findings are compared then -/
def ambiguous (r : Repo) : Bool :=
  let es := (livePacks r).flatMap (fun p => p.blobs.map (fun b => (packType p, b.id, p.id, b.offset, b.length, b.ulen)))
  es.any (fun (t, id, rest) => es.any (fun (t', id', rest') => t == t' && id == id' && rest != rest'))

def handle : List String → String
  | "chk" :: _label :: rest =>
    let abs := rest.takeWhile (· ≠ "|")
    if abs.length = rest.length then "bad-op" else
    match abs.foldlM step ({} : PS) with
    | none => "bad-op"
    | some ps =>
      match ps.snapsOk, ps.indexOk with
      | some so, some io =>
        if !covered ps then "bad-op" else
        let r : Repo :=
          { snapsOk := so, snaps := ps.snaps.toList, indexOk := io,
            index := ps.index.toList.map (fun packs =>
              { packs := (packs.toList.filter (!·.1)).map (·.2), toDelete := (packs.toList.filter (·.1)).map (·.2) }),
            files := ps.files.toList.map (mkFile ps.trees) }
        -- check's own index: the packs `check_packs` collects; the readers' index: `GlobalIndex::new`
        let lkc := lkOf (checkIndexPacks false r)
        let lk := lkFirst r
        let fuel := (livePacks r).foldl (fun n p => n + p.blobs.length) 0 + r.snaps.length + 1
        if ambiguous r then
          (if !r.snapsOk || !r.indexOk then "ambig errs=cmd-err"
           else s!"ambig errs={showErrs (indexErrs r ++ listErrs sizes r)}") else
        let errs :=
          match checkW false sizes true r lkc fuel with
          | .cmdErr => "cmd-err"
          | .findings es => showErrs es
        -- the restore verdict is compared only when check is clean (see harness/src/c05.rs `exec`)
        if errs != "none" then s!"errs={errs} restore=-" else
        s!"errs={errs} restore={if restoreOk r lk fuel then "ok" else "bad"}"
      | _, _ => "bad-op"
  | _ => "bad-op"

end Driver.C05
