import Rustic.Model.CommandTable
import Driver.Util
/- Channel `c15` (generator side: harness/src/c15.rs):
   c15 ao <cmd,cmd,…>       -> ok <cmd>=<result>:<kinds>,…     sequence on an append-only repository (two snapshots)
   c15 dry <damage> <cmd>   -> ok <cmd>=-                       a dry-run flag issues no storage operation at all -/
namespace Driver.C15
open Rustic.CommandTable

def runSeq : Scen → List String → List String → Option (List String)
  | _, [], acc => some acc.reverse
  | s, c :: cs, acc =>
    match expected s c with
    | none => none
    | some (res, kinds, s') => runSeq s' cs ((c ++ "=" ++ res ++ ":" ++ kinds) :: acc)

def handle : List String → String
  | ["ao", seq] =>
    match runSeq {} (seq.splitOn ",") [] with
    | some out => "ok " ++ ",".intercalate out
    | none => "bad-op"
  | ["dry", damage, cmd] =>
    if damage ≠ "none" ∧ damage ≠ "index" ∧ damage ≠ "pack" then "bad-op" else
    match cmdOfToken cmd with
    | some c =>
      if !c.isDryRun then "bad-op" else
      match run false c with
      | .runs [] => "ok " ++ cmd ++ "=-"
      | _ => "bad-op"
    | none => "bad-op"
  | _ => "bad-op"

end Driver.C15
