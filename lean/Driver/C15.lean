import Rustic.Model.CommandTable
import Driver.Util
/- Channel `c15` (generator side: harness/src/c15.rs):
   c15 ao <cmd,cmd,…>           = c15 aox plain <cmd,…>
   c15 aox <setup> <cmd,cmd,…>  -> ok <cmd>=<result>:<kinds>,…   sequence on an append-only repository (two snapshots);
                                   setup plain | hc (hot/cold) | dmg | hcdmg (damaged: coarse `refused|ran:<kinds>`) | orph | hcorph
                                   (orphan packs = pack files in no index file)
   c15 hnd <setup> <cmd,cmd,…>  -> the same line: config changes applied to ONE open handle, the next command run on that handle
                                   (the table has a single flag: `Props/C15.handle_flag_is_table_flag`)
   c15 dry <damage> <cmd>       -> ok <cmd>=-                     a dry-run flag issues no storage operation at all
   backup tokens `backup[.cmd|.local][.dry].<new|same>`: source kind (none = `Repository::archive` with the harness' ReadSource,
                                   local = `Repository::backup` of a directory, cmd = `Repository::backup` of `-` with a stdin command)
                                   x dry-run flag; `cmdOfToken` maps them to `.backup <BackupSource> <dry>` — the same expectation for
                                   every source kind (`Props/C15.backup_dry_run_no_mutation_for_every_source`)
   c15 dryt <damage> <cmd>      -> ok <cmd>=- twin=<result>:<kinds of the non-dry twin> -/
namespace Driver.C15
open Rustic.CommandTable

def runSeq : Scen → List String → List String → Option (List String)
  | _, [], acc => some acc.reverse
  | s, c :: cs, acc =>
    match observe s c with
    | none => none
    | some (line, s') => runSeq s' cs (line :: acc)

def scenOf : String → Option Scen
  | "plain" => some {}
  | "hc" => some { hotCold := true }
  | "dmg" => some { damaged := true }
  | "hcdmg" => some { hotCold := true, damaged := true }
  -- pack files that no index file lists next to the two snapshots: the table's expectation is the one of plain / hc
  -- (on an append-only repository prune is refused before it looks at them)
  | "orph" => some {}
  | "hcorph" => some { hotCold := true }
  | _ => none

def damages : List String := ["none", "index", "pack", "dmg", "hc", "hcdmg", "hcmiss", "hcmissp", "hcpack", "hcindex",
  "big", "bigindex", "hcbig", "hcbigindex"]

/-- a dry-run flag on a repository that is not append-only: no operation (whatever the result). -/
def dryOk (damage cmd : String) : Bool :=
  damages.contains damage &&
  (match cmdOfToken cmd with
   | some c =>
     c.isDryRun &&
     (match run (isHotColdDamage damage) false c with
      | .runs [] => true
      | .refused _ => true          -- hot/cold repair on a repository without hot part
      | _ => false)
   | none => false)

def handle : List String → String
  | ["ao", seq] =>
    match runSeq {} (seq.splitOn ",") [] with
    | some out => "ok " ++ ",".intercalate out
    | none => "bad-op"
  | ["aox", setup, seq] | ["hnd", setup, seq] =>
    match scenOf setup with
    | none => "bad-op"
    | some s =>
      match runSeq s (seq.splitOn ",") [] with
      | some out => "ok " ++ ",".intercalate out
      | none => "bad-op"
  | ["dry", damage, cmd] => if dryOk damage cmd then "ok " ++ cmd ++ "=-" else "bad-op"
  | ["dryt", damage, cmd] =>
    if !dryOk damage cmd then "bad-op" else
    match dryTwin damage cmd with
    | some (res, ops) => "ok " ++ cmd ++ "=- twin=" ++ res ++ ":" ++ showKinds ops
    | none => "bad-op"
  | _ => "bad-op"

end Driver.C15
