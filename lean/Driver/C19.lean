import Rustic.Model.Cache
import Rustic.Gen.Constants
import Driver.Util
import Driver.C20
/-! Driver channel `c19` — see `harness/src/c19.rs` for the op-line grammar. -/
namespace Driver.C19
open Rustic.Backends Rustic.Cache Driver
open Driver.C20 (dataOf digest tpeOf joinOr sortStrs fmtListing goodPath)

def L : Nat := Rustic.Gen.ID_HEX_LEN

abbrev BeL := List (Key × Bytes)

def bget (b : BeL) (k : Key) : Option Bytes :=
  match b with
  | [] => none
  | (k', d) :: rest => if k' = k then some d else bget rest k

def bdel (b : BeL) (k : Key) : BeL := b.filter (fun e => e.1 ≠ k)
def bput (b : BeL) (k : Key) (d : Bytes) : BeL := (k, d) :: bdel b k
def blist (b : BeL) (t : FileType) : List (Name × Nat) :=
  b.filterMap (fun e => if e.1.1 = t then some (e.1.2, e.2.length) else none)

def idOf (s : String) : Option Name :=
  if s.length = 64 ∧ isCacheName 64 s.toList then some s.toList else none

/-- `-` or `id:size+id:size+…` -/
def listOf (s : String) : Option (List (Name × Nat)) :=
  if s = "-" then some [] else
  (s.splitOn "+").mapM (fun e =>
    match e.splitOn ":" with
    | [id, n] => match idOf id, n.toNat? with
      | some id, some n => if n ≥ 4294967296 then none else some (id, n)
      | _, _ => none
    | _ => none)

def tIdx : FileType → Nat
  | .config => 0 | .index => 1 | .key => 2 | .snapshot => 3 | .pack => 4

/-- `dirs`: every path known to be a directory of the cache dir (planted with `m`, or a parent made for a plant) -/
structure D where
  be : BeL
  cache : FS
  dirs : List Path := []
  /-- symlinks: dangling (`none`: target in a directory that does not exist) or to a regular file outside the cache dir -/
  links : List (Path × Option Bytes) := []

def D.st (d : D) : St := { be := fun k => bget d.be k, cache := { files := d.cache, links := d.links }, dirs := d.dirs }

/-- something that is not a directory sits at `r` (a regular file or a dangling symlink): nothing can be created below -/
def D.nonDirAt (d : D) (r : Path) : Bool := (fget d.cache r).isSome || (lget d.links r).isSome

def pathOf (p : String) : Path := (p.splitOn "/").map String.toList

/-- the non-empty proper prefixes of a path (its parent directories), shortest first -/
def parents (p : Path) : List Path := (List.range p.length).filterMap (fun n => if n = 0 then none else some (p.take n))

def addDirs (dirs : List Path) (ps : List Path) : List Path := ps.foldl (fun acc q => if acc.contains q then acc else acc ++ [q]) dirs

/-- the cache directory after a model step -/
def D.withCache (d : D) (c : CD) : D :=
  -- `create_dir_all(<type>/<xx>)`: the parents of every new file are directories now (and stay)
  let fresh := c.files.filter (fun e => (fget d.cache e.1).isNone)
  { d with cache := c.files, links := c.links, dirs := addDirs d.dirs (fresh.flatMap (fun e => parents e.1)) }

/-- regular files `path:size`, and the directories at depth ≥ 3 (those only plants create) as `path/` -/
def layoutC (d : D) : String :=
  joinOr (d.cache.map (fun e => "/".intercalate (e.1.map String.ofList) ++ ":" ++ toString e.2.length)
    ++ (d.dirs.filter (fun q => q.length ≥ 3)).map (fun q => "/".intercalate (q.map String.ofList) ++ "/")
    ++ d.links.map (fun e => "/".intercalate (e.1.map String.ofList) ++ "@" ++
        (match e.2 with | some b => toString b.length | none => "")))

def resStr : Res Bytes → String
  | .ok b => digest b
  | .err => "err"

def stepOne (d : D) (s : String) : Option (String × D) :=
  match s.splitOn "," with
  | ["w", h, t, id, cb, data] =>
    match tpeOf t, idOf id, dataOf data with
    | some t, some id, some x =>
      if h = "c" then
        let s' := writeBytes d.st t id (cb = "1") x
        some ("ok", { d.withCache s'.cache with be := bput d.be (t, id) x })
      else if h = "u" then some ("ok", { d with be := bput d.be (t, id) x })
      else none
    | _, _, _ => none
  | ["d", h, t, id, cb] =>
    match tpeOf t, idOf id with
    | some t, some id =>
      if h = "c" then
        let s' := remove d.st t id (cb = "1")
        some ("ok", { d.withCache s'.cache with be := bdel d.be (t, id) })
      else if h = "u" then some ("ok", { d with be := bdel d.be (t, id) })
      else none
    | _, _ => none
  | ["r", h, t, id] =>
    match tpeOf t, idOf id with
    | some t, some id =>
      if h = "c" then
        let (r, s') := readFull d.st t id
        some (resStr r, d.withCache s'.cache)
      else if h = "u" then some (resStr (beReadFull d.st.be t id), d)
      else none
    | _, _ => none
  | ["p", h, t, id, cb, off, len] =>
    match tpeOf t, idOf id, off.toNat?, len.toNat? with
    | some t, some id, some off, some len =>
      if off ≥ 4294967296 ∨ len ≥ 4294967296 then none else
      if h = "c" then
        let (r, s') := readPartial d.st t id (cb = "1") off len
        some (resStr r, d.withCache s'.cache)
      else if h = "u" then some (resStr (beReadPartial d.st.be t id off len), d)
      else none
    | _, _, _, _ => none
  | ["l", h, t] =>
    match tpeOf t with
    | some t =>
      let list := blist d.be t
      if h = "c" then
        let s' := listWithSize L d.st t list
        some (fmtListing list, d.withCache s'.cache)
      else if h = "u" then some (fmtListing list, d)
      else none
    | none => none
  | ["q", t, list] =>
    -- `Cache::remove_not_in_list(t, list)` called directly: the pack clean-up of `check` (list = tree packs of the index)
    match tpeOf t, listOf list with
    | some t, some l =>
      some ("ok", d.withCache (removeNotInList L d.dirs d.st.cache t l))
    | _, _ => none
  | ["s", p, data] =>
    if !goodPath p then none else
    (dataOf data).map (fun x =>
      let q := pathOf p
      -- `create_dir_all(parent)` then `fs::write`: fails on a directory, through a dangling symlink, and below a non-directory
      if hasDir d.dirs q || lget d.links q == some none || (parents q).any d.nonDirAt then ("err", d)
      else if (lget d.links q).isSome then ("ok", { d with links := (q, some x) :: ldel d.links q })   -- written through the link
      else ("ok", { d with cache := fput d.cache q x, dirs := addDirs d.dirs (parents q) }))
  | ["m", p] =>
    if !goodPath p then none else
    let q := pathOf p
    -- `create_dir_all`: fails when the path or one of its parents is a regular file or a dangling symlink
    if d.nonDirAt q || (parents q).any d.nonDirAt then some ("err", d)
    else some ("ok", { d with dirs := addDirs d.dirs (parents q ++ [q]) })
  | ["k", p] =>
    if !goodPath p then none else
    let q := pathOf p
    -- `create_dir_all(parent)` then `symlink`: fails when anything is at the path, or a parent is not a directory
    if d.nonDirAt q || hasDir d.dirs q || (parents q).any d.nonDirAt then some ("err", d)
    else some ("ok", { d with links := d.links ++ [(q, none)], dirs := addDirs d.dirs (parents q) })
  | ["y", p, data] =>
    if !goodPath p then none else
    (dataOf data).map (fun x =>
      let q := pathOf p
      -- a symlink to a fresh regular file (outside the cache dir) holding `x`
      if d.nonDirAt q || hasDir d.dirs q || (parents q).any d.nonDirAt then ("err", d)
      else ("ok", { d with links := d.links ++ [(q, some x)], dirs := addDirs d.dirs (parents q) }))
  | ["t", p, n] =>
    if !goodPath p then none else
    match n.toNat? with
    | none => none
    | some n =>
      let q := pathOf p
      match (if hasDir d.dirs q || (lget d.links q).isSome then none else fget d.cache q) with
      | some x => some ("ok", if n < x.length then { d with cache := fput d.cache q (x.take n) } else d)
      | none => some ("ok", d)
  | ["x", p] =>
    if !goodPath p then none else
    some ("ok", { d with cache := fdel d.cache (pathOf p), links := ldel d.links (pathOf p) })
  | ["f"] => some (layoutC d, d)
  | ["b"] =>
    some (joinOr (d.be.map (fun e => toString (tIdx e.1.1) ++ "/" ++ String.ofList e.1.2 ++ ":" ++ digest e.2)), d)
  | _ => none

def runSteps (d : D) : List String → List String → Option (List String)
  | [], acc => some acc.reverse
  | s :: rest, acc =>
    match stepOne d s with
    | some (o, d') => runSteps d' rest (o :: acc)
    | none => none

def handle : List String → String
  | ["hist", steps] =>
    match runSteps { be := [], cache := [] } (steps.splitOn ";") [] with
    | some obs => ";".intercalate obs
    | none => "bad-op"
  | ["repo", seed] =>
    -- repository-level oracle run: the observation is `ok <n>`; the model only echoes well-formedness
    match seed.toNat? with
    | some _ => "ok"
    | none => "bad-op"
  | _ => "bad-op"

end Driver.C19
