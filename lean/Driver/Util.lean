/- Shared helpers of the model driver (line protocol). Import-free. -/
namespace Driver

def hexVal (c : Char) : Option Nat :=
  if '0' ≤ c ∧ c ≤ '9' then some (c.toNat - '0'.toNat)
  else if 'a' ≤ c ∧ c ≤ 'f' then some (c.toNat - 'a'.toNat + 10)
  else if 'A' ≤ c ∧ c ≤ 'F' then some (c.toNat - 'A'.toNat + 10)
  else none

/-- "-" is the empty byte string. -/
def unhex (s : String) : Option (List UInt8) :=
  if s = "-" then some [] else
  let rec go : List Char → List UInt8 → Option (List UInt8)
    | [], acc => some acc.reverse
    | [_], _ => none
    | a :: b :: t, acc =>
      match hexVal a, hexVal b with
      | some x, some y => go t (UInt8.ofNat (x * 16 + y) :: acc)
      | _, _ => none
  go s.toList []

def hexDigit (n : Nat) : Char := if n < 10 then Char.ofNat (48 + n) else Char.ofNat (87 + n)

def hex (bs : List UInt8) : String :=
  if bs.isEmpty then "-" else
  String.ofList (bs.foldr (fun b acc => hexDigit (b.toNat / 16) :: hexDigit (b.toNat % 16) :: acc) [])

def parseHexU64 (s : String) : Option UInt64 :=
  s.toList.foldlM (fun acc c => (hexVal c).map (fun v => acc * 16 + v.toUInt64)) (0 : UInt64)

def hexU64 (x : UInt64) : String :=
  String.ofList ((List.range 16).map (fun i => hexDigit ((x >>> ((15 - i) * 4).toUInt64) &&& 15).toNat))

/-- splitmix64: the single PRNG shared (bit for bit) with the Rust harness. -/
def splitmix (s : UInt64) : UInt64 × UInt64 :=
  let s := s + 0x9E3779B97F4A7C15
  let z := s
  let z := (z ^^^ (z >>> 30)) * 0xBF58476D1CE4E5B9
  let z := (z ^^^ (z >>> 27)) * 0x94D049BB133111EB
  (z ^^^ (z >>> 31), s)

def joinNats (l : List Nat) : String := " ".intercalate (l.map toString)

end Driver
