import Driver.C06
/- `rustic_model`: one operation per input line `<channel> <op> <args…>`, one observation line out. -/
def dispatch (line : String) : String :=
  match line.trimAscii.toString.splitOn " " with
  | "c06" :: rest => Driver.C06.handle rest
  | _ => "bad-op"

partial def loop (h : IO.FS.Stream) (out : IO.FS.Stream) : IO Unit := do
  let line ← h.getLine
  if line.isEmpty then return ()
  out.putStrLn (dispatch line)
  loop h out

def main : IO Unit := do
  let out ← IO.getStdout
  loop (← IO.getStdin) out
  out.flush
