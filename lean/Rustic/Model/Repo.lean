/-
Model/Repo.lean — the abstract repository protocol (DESIGN §3 M11).  Import-free, executable.

What is modelled, and from where:
* `Repo`            — what a storage backend holds, by file type: pack files (`FileType::Pack`), index files
                      (`repofile/indexfile.rs IndexFile { packs, packs_to_delete }`), snapshot files
                      (`repofile/snapshotfile.rs`, abstracted to the blob keys reachable from the snapshot's tree —
                      content addressing makes this closure a function of the snapshot).  Key and config files carry
                      no blob data and are `Op.other`.
* `Op`, `apply`     — one call of `WriteBackend::write_bytes` / `remove` as seen by the storage backend
                      (`backend.rs`), with the decoded abstract content of the file.
* `indexed`         — what `GlobalIndex::new` (`index.rs`, `new_from_collector` uses only `.packs`) can find: a key
                      listed in the *unmarked* section of some stored index file.
* `indexSound`      — every unmarked index entry points to a stored pack that holds the blob (the reader picks *one*
                      entry per key, so every entry must be good).
* `readable`        — every blob key a snapshot needs is indexed;  `consistent` — index sound and all snapshots readable.
* `available`       — weaker: key is listed unmarked *or marked* (`packs_to_delete`) in an index file and that pack is
                      still stored — what the next `prune` can bring back (`Recover`).
-/
namespace Rustic.Repo

inductive BlobType | tree | data
deriving DecidableEq, Repr, Inhabited

/-- A blob key: type and id (ids are abstract naturals). -/
abbrev Key := BlobType × Nat

/-- A stored pack file: its id and the blobs it really holds. -/
structure Pack where
  id : Nat
  blobs : List Key
deriving DecidableEq, Repr, Inhabited

/-- An `IndexPack` entry of an index file. -/
structure IdxPack where
  id : Nat
  blobs : List Key
  time : Option Int := none
deriving DecidableEq, Repr, Inhabited

/-- An index file: `packs` and `packs_to_delete`. -/
structure IndexFile where
  id : Nat
  packs : List IdxPack
  del : List IdxPack := []
deriving DecidableEq, Repr, Inhabited

/-- A snapshot file: id and the closure of blob keys reachable from its root tree. -/
structure Snap where
  id : Nat
  needs : List Key
deriving DecidableEq, Repr, Inhabited

structure Repo where
  packs : List Pack := []
  indexes : List IndexFile := []
  snaps : List Snap := []
deriving Repr, Inhabited

inductive Op
  | writePack (p : Pack)
  | removePack (id : Nat)
  | writeIndex (i : IndexFile)
  | removeIndex (id : Nat)
  | writeSnap (s : Snap)
  | removeSnap (id : Nat)
  | other
deriving Repr, Inhabited

def apply (r : Repo) : Op → Repo
  | .writePack p => { r with packs := p :: r.packs }
  | .removePack id => { r with packs := r.packs.filter (fun q => q.id != id) }
  | .writeIndex i => { r with indexes := i :: r.indexes }
  | .removeIndex id => { r with indexes := r.indexes.filter (fun i => i.id != id) }
  | .writeSnap s => { r with snaps := s :: r.snaps }
  | .removeSnap id => { r with snaps := r.snaps.filter (fun s => s.id != id) }
  | .other => r

def applyAll (r : Repo) (ops : List Op) : Repo := ops.foldl apply r

/-- pack `pid` is stored and really holds `k`. -/
def stored (r : Repo) (pid : Nat) (k : Key) : Bool :=
  r.packs.any (fun q => q.id == pid && q.blobs.contains k)

def hasPack (r : Repo) (pid : Nat) : Bool := r.packs.any (fun q => q.id == pid)

/-- `k` is listed in the unmarked section of some index file. -/
def indexed (r : Repo) (k : Key) : Bool :=
  r.indexes.any (fun i => i.packs.any (fun p => p.blobs.contains k))

def idxPackSound (r : Repo) (p : IdxPack) : Bool := p.blobs.all (fun k => stored r p.id k)

/-- every unmarked index entry points into a stored pack that holds the blob. -/
def indexSound (r : Repo) : Bool :=
  r.indexes.all (fun i => i.packs.all (idxPackSound r))

def readable (r : Repo) (s : Snap) : Bool := s.needs.all (indexed r)

def consistent (r : Repo) : Bool := indexSound r && r.snaps.all (readable r)

/-- `k` is listed (unmarked or marked for deletion) in some index file whose pack is still stored with it. -/
def available (r : Repo) (k : Key) : Bool :=
  r.indexes.any (fun i => (i.packs ++ i.del).any (fun p => p.blobs.contains k && stored r p.id k))

/-- nothing a snapshot needs has been *lost*: it can still be brought back by prune. -/
def recoverable (r : Repo) (s : Snap) : Bool := s.needs.all (available r)

/-- States after every prefix of `ops` (including the empty and the full one). -/
def prefixStates (r : Repo) : List Op → List Repo
  | [] => [r]
  | o :: ops => r :: prefixStates (apply r o) ops

/-! ### classification of operations (phase order) -/
def Op.isWrite : Op → Bool
  | .writePack _ | .writeIndex _ | .writeSnap _ | .other => true
  | _ => false

def Op.isPackOrIndexWrite : Op → Bool
  | .writePack _ | .writeIndex _ | .other => true
  | _ => false

/-! ### step-wise safety (what each storage operation needs in the state it is applied to) -/

/-- The premise under which one operation keeps the repository consistent:
* a pack write, a key/config write and a snapshot removal need nothing;
* an index write may list (unmarked) only packs that are already stored with those blobs;
* a snapshot write needs its whole closure indexed;
* an index removal needs every snapshot to stay readable from the remaining index files;
* a pack removal needs that no remaining index file lists the pack unmarked. -/
def safeOp (r : Repo) : Op → Bool
  | .writePack _ => true
  | .other => true
  | .removeSnap _ => true
  | .writeIndex i => i.packs.all (idxPackSound r)
  | .writeSnap s => readable r s
  | .removeIndex id => r.snaps.all (readable (apply r (.removeIndex id)))
  | .removePack id => r.indexes.all (fun i => i.packs.all (fun p => p.id != id))

def allSafe : Repo → List Op → Bool
  | _, [] => true
  | r, o :: ops => safeOp r o && allSafe (apply r o) ops

/-- first prefix length whose state is not consistent (none = all prefixes consistent). -/
def firstBad (r : Repo) (ops : List Op) : Option Nat :=
  let rec go (r : Repo) (k : Nat) : List Op → Option Nat
    | [] => if consistent r then none else some k
    | o :: ops => if consistent r then go (apply r o) (k + 1) ops else some k
  go r 0 ops

/-- sequential execution with one injected failure: the command stops at the failing operation. -/
def runWithFault (r : Repo) (failAt : Nat) : List Op → Repo × Bool
  | [] => (r, true)
  | o :: ops => if failAt = 0 then (r, false) else runWithFault (apply r o) (failAt - 1) ops

/-! ### snapshot-REPLACING commands (`rewrite --forget`, `repair snapshots --delete`): nothing that existed is lost

`commands/rewrite.rs process_snapshots`: `repo.save_snapshots(snapshots.clone())?` and only then
`repo.delete_snapshots(&old_snap_ids)?`; `commands/repair/snapshots.rs`: `be.save_file(&snap)` for every modified snapshot,
then `be.delete_list(state.delete)`.  `succ` is the replacement table `(old snapshot id, new snapshot id)`. -/

def hasSnap (r : Repo) (id : Nat) : Bool := r.snaps.any (fun s => s.id == id)

/-- snapshot `id` is present as itself or as (one of) its successor(s) -/
def kept (r : Repo) (succ : List (Nat × Nat)) (id : Nat) : Bool :=
  hasSnap r id || succ.any (fun p => p.1 == id && hasSnap r p.2)

/-- none of the snapshots `olds` is lost -/
def noneLost (r : Repo) (succ : List (Nat × Nat)) (olds : List Nat) : Bool := olds.all (kept r succ)

/-- first prefix length of `ops` whose state has lost one of `olds` (none = no prefix loses a snapshot) -/
def firstLost (succ : List (Nat × Nat)) (olds : List Nat) (r : Repo) (ops : List Op) : Option Nat :=
  let rec go (r : Repo) (k : Nat) : List Op → Option Nat
    | [] => if noneLost r succ olds then none else some k
    | o :: ops => if noneLost r succ olds then go (apply r o) (k + 1) ops else some k
  go r 0 ops

/-- the snapshots a run must keep: those of the state before that the run either never removes or replaces
(a snapshot removed without successor is removed on purpose: `forget`, an unrepairable root tree) -/
def mustKeep (r : Repo) (succ : List (Nat × Nat)) (ops : List Op) : List Nat :=
  (r.snaps.map (·.id)).filter (fun id => succ.any (fun p => p.1 == id) ||
    !(ops.any (fun o => match o with | .removeSnap j => j == id | _ => false)))

/-- the snapshot part of a replacing command: the new snapshot files, then the removal of the ones they replace -/
def replaceOps (writes : List Op) (pairs : List (Nat × Snap)) : List Op :=
  writes ++ pairs.map (fun p => Op.writeSnap p.2) ++ pairs.map (fun p => Op.removeSnap p.1)

def Op.isRemoveSnap : Op → Bool
  | .removeSnap _ => true
  | _ => false

/-! ### phase order of the commands (language of operation kinds) -/
def Op.kind : Op → Char
  | .writePack _ => 'P' | .removePack _ => 'p' | .writeIndex _ => 'I' | .removeIndex _ => 'i'
  | .writeSnap _ => 'S' | .removeSnap _ => 's' | .other => 'O'

/-- consume the longest prefix of kinds in `allowed`, phase by phase; accepted iff nothing is left. -/
def matchPhases : List (List Char) → List Char → Bool
  | [], ks => ks.isEmpty
  | ph :: phs, ks => matchPhases phs (ks.dropWhile (fun c => ph.contains c))

/-! ### the storage operations of `prune_repository` (`commands/prune.rs`) as a function of the two options that move
removals -/

/-- `PruneOptions::{instant_delete, early_delete_index}` -/
structure PruneFlags where
  instantDelete : Bool
  earlyDeleteIndex : Bool
deriving DecidableEq, Repr

/-- `let early_delete_index = opts.early_delete_index && opts.instant_delete;` — the option is honoured only together
with `instant_delete` ("Delete index files early if instant-delete is chosen") -/
def PruneFlags.early (f : PruneFlags) : Bool := f.earlyDeleteIndex && f.instantDelete

/-- the tail of `prune_repository`: `if !indexes_remove.is_empty() && early_delete_index { delete index files }`, then the
repack (new packs, `indexer.finalize` = the new index file), then `if … && !early_delete_index { delete index files }`, then
the pack removals.  `ps` / `idx` = what the repack writes, `rmIdx` = `indexes_remove`, `rmPacks` = the packs to delete. -/
def pruneOpsOpt (f : PruneFlags) (ps : List Pack) (idx : IndexFile) (rmIdx rmPacks : List Nat) : List Op :=
  (if f.early then rmIdx.map Op.removeIndex else []) ++ ps.map Op.writePack ++ [Op.writeIndex idx] ++
  (if f.early then [] else rmIdx.map Op.removeIndex) ++ rmPacks.map Op.removePack

/-- all of `prune_repository`: before the tail, the stored packs no index file knows (`prune_plan.existing_packs`) are removed
at once with `instant_delete` (without it they are only marked: entries of the new index file's `packs_to_delete`). -/
def pruneOpsFull (f : PruneFlags) (unindexed : List Nat) (ps : List Pack) (idx : IndexFile) (rmIdx rmPacks : List Nat) :
    List Op :=
  (if f.instantDelete then unindexed.map Op.removePack else []) ++ pruneOpsOpt f ps idx rmIdx rmPacks

/-- the phase language the trace monitor holds a prune run against, from the same two conditions -/
def prunePhases (f : PruneFlags) : List (List Char) :=
  (if f.instantDelete then [['p']] else []) ++ (if f.early then [['i']] else []) ++ [['P', 'I']] ++
  (if f.early then [] else [['i']]) ++ [['p']]

def phasesOf (cmd : String) : Option (List (List Char)) :=
  match cmd with
  | "backup" => some [['P', 'I'], ['S']]
  | "merge" => some [['P', 'I'], ['S'], ['s']]
  | "copy" => some [['P', 'I'], ['S']]
  | "rewrite" => some [['P', 'I'], ['S'], ['s']]
  | "repairsnap" => some [['P', 'I'], ['S'], ['s']]
  | "forget" => some [['s']]
  | "prune" => some (prunePhases ⟨false, false⟩)
  | "prune-instant" => some (prunePhases ⟨true, false⟩)
  -- `early_delete_index` without `instant_delete` is inert: the order of plain prune
  | "prune-early" => some (prunePhases ⟨false, true⟩)
  | "repairidx" => some [['I'], ['i']]
  | "repairidx-readall" => some [['I'], ['i']]
  | "config" => some [['O']]
  | "key" => some [['O']]
  | _ => none

end Rustic.Repo
