/-
Model for C13 — nondeterministic pieces.

Import-free, executable.

Part 1 — `crates/core/src/blob/tree.rs::TreeStreamerOnce` (`new`, `add_pending`, `Iterator::next`):
* `St`          — `visited` (the `BTreeSet<TreeId>`), `pending` (requests sent to the `MAX_TREE_LOADER` loader
                  threads through the unbounded `queue_in` whose answer has not been received from `queue_out` yet,
                  each with the number of the root it belongs to), `counter` (`Vec<usize>`, one per root, here a
                  function on root numbers `< nroots`), `finished` (`finished_ids`), `yielded` (what `next` has
                  returned so far).
* `addPending`  — `add_pending`: `if self.visited.insert(id) { send; counter[count] += 1 }`.
* `init`        — the loop over `ids.into_iter().enumerate()` in `new` (a root already visited counts as finished).
* `isDone`      — `self.counter.len() == self.finished_ids` (then `next` returns `None`; otherwise it blocks in
                  `queue_out.recv()`).
* `deliver k`   — one `next` that receives the answer for the `k`-th outstanding request — the four loader threads
                  answer in any order —: `add_pending` for every sub-tree of the tree, `counter[count] -= 1`,
                  `finished_ids += 1` when it reaches zero, yield the tree.  `children id` = ids of the sub-trees of
                  tree `id` (`node.subtree` of its nodes, in order); trees that cannot be loaded end the stream with
                  an error and are outside this model.

Part 2 — the channel network of `blob/packer.rs` (`Packer::new`, `Actor::new`): a line of bounded buffers
(`bounded(0)` hand-over, `readahead` stages, the filters, `parallel_map`, the `bounded(1)` file-writer queue); a
stage moves its oldest item to the next buffer when that has room (or drops it — a filter), the last stage (the
backend write + `indexer.add`) always consumes.
-/
namespace Rustic.Streamer

abbrev Id := Nat

structure St where
  visited  : List Id := []
  pending  : List (Id × Nat) := []
  counter  : Nat → Nat := fun _ => 0
  nroots   : Nat := 0
  finished : Nat := 0
  yielded  : List Id := []

/-- `add_pending(path, id, count)`; the Boolean is its `Ok(true/false)`. -/
def addPending (s : St) (id : Id) (count : Nat) : St × Bool :=
  if s.visited.contains id then (s, false)
  else
    ({ s with visited := id :: s.visited, pending := s.pending ++ [(id, count)],
              counter := fun r => if r = count then s.counter r + 1 else s.counter r }, true)

def initGo : St → List Id → Nat → St
  | s, [], _ => s
  | s, id :: ids, c =>
    let r := addPending s id c
    initGo (if r.2 then r.1 else { r.1 with finished := r.1.finished + 1 }) ids (c + 1)

/-- `TreeStreamerOnce::new(be, index, ids, p)` -/
def init (roots : List Id) : St := initGo { nroots := roots.length } roots 0

/-- `self.counter.len() == self.finished_ids` -/
def isDone (s : St) : Bool := s.nroots == s.finished

def addChildren (s : St) (cs : List Id) (count : Nat) : St := cs.foldl (fun s c => (addPending s c count).1) s

/-- the `i`-th element and the others (order kept) -/
def pick {α : Type} : List α → Nat → Option (α × List α)
  | [], _ => none
  | x :: xs, 0 => some (x, xs)
  | x :: xs, i + 1 => (pick xs i).map (fun er => (er.1, x :: er.2))

/-- One `next()` that receives the answer to the `k`-th outstanding request (`k` taken modulo their number). -/
def deliver (children : Id → List Id) (s : St) (k : Nat) : St :=
  match pick s.pending (k % s.pending.length) with
  | none => s
  | some (e, rest) =>
    let s2 := addChildren { s with pending := rest } (children e.1) e.2
    let cnt := s2.counter e.2 - 1
    { s2 with counter := fun r => if r = e.2 then cnt else s2.counter r,
              finished := if cnt = 0 then s2.finished + 1 else s2.finished,
              yielded := s2.yielded ++ [e.1] }

/-- The stream under a delivery schedule: `next` is called until it returns `None`. -/
def runSched (children : Id → List Id) : St → List Nat → St
  | s, [] => s
  | s, k :: ks => if isDone s then s else runSched children (deliver children s k) ks

/-- The trees reachable from the roots. -/
inductive Reach (children : Id → List Id) (roots : List Id) : Id → Prop
  | root {id} : id ∈ roots → Reach children roots id
  | child {p c} : Reach children roots p → c ∈ children p → Reach children roots c

/-! ## Part 2: a line of bounded channels -/

/-- buffer content and capacity of each stage, upstream first -/
abbrev Pipe := List (List Nat × Nat)

/-- Stage `i` hands its oldest item on: to the next buffer if that has room (`drop = false`), or nowhere (a
filter rejecting it / the last stage writing it out). `none` = not enabled. -/
def move : Pipe → Nat → Bool → Option Pipe
  | [], _, _ => none
  | [(b, c)], 0, _ => match b with
    | [] => none
    | _ :: t => some [(t, c)]                         -- the sink always consumes
  | (b, c) :: (b', c') :: rest, 0, drop =>
    match b with
    | [] => none
    | x :: t =>
      if drop then some ((t, c) :: (b', c') :: rest)
      else if b'.length < c' then some ((t, c) :: (b' ++ [x], c') :: rest) else none
  | st :: rest, i + 1, drop => (move rest i drop).map (st :: ·)

def allEmpty (p : Pipe) : Bool := p.all (fun s => s.1.isEmpty)

/-- weighted number of hops still to be made -/
def measure : Pipe → Nat
  | [] => 0
  | (b, _) :: rest => b.length * (rest.length + 1) + measure rest

/-! ## Part 3: a network of bounded buffers (the archiver's channel network)

`Archiver::archive` (`archiver.rs`) is not a line: the `parallel_map` workers of the file archiver hand every chunk to
the data packer's channel AND their processed item to the ordered output queue; the main thread (`tree_archiver.add`)
consumes that queue and hands tree blobs to the tree packer's channel; each `Packer` is the line of part 2 ending in
its file-writer actor.  `Net` is any such network: nodes in an order in which every hand-over goes downstream
(`route node item = some later-node`), `none` = the item leaves the network at this node (written to the backend, filtered
out as known, or consumed by the tree archiver).  Items are opaque numbers; a node that turns one item into several
(a file into chunks) is covered because the progress theorem holds for EVERY state. -/

structure Net where
  /-- capacity of every node's buffer, upstream nodes first -/
  caps : List Nat
  /-- where the oldest item of a node goes next -/
  route : Nat → Nat → Option Nat

/-- buffer contents per node -/
abbrev NSt := List (List Nat)

def getBuf (s : NSt) (i : Nat) : List Nat := s[i]?.getD []

/-- node `i` hands its oldest item on (if the receiving buffer has room) or lets it leave the network -/
def moveN (net : Net) (s : NSt) (i : Nat) : Option NSt :=
  match getBuf s i with
  | [] => none
  | x :: t =>
    match net.route i x with
    | none => some (s.set i t)
    | some j =>
      if (getBuf s j).length < net.caps.getD j 0 then some ((s.set i t).set j (getBuf s j ++ [x])) else none

/-- weighted number of hops still possible -/
def measureN : NSt → Nat
  | [] => 0
  | b :: rest => b.length * (rest.length + 1) + measureN rest

/-- every hand-over goes strictly downstream to an existing node; every buffer can hold an item -/
def Net.WF (net : Net) (n : Nat) : Prop :=
  (∀ i x j, net.route i x = some j → i < j ∧ j < n) ∧ ∀ j, j < n → 0 < net.caps.getD j 0

/-- The archiver's network.  Nodes: 0 source → `TreeIterator` → `Parent`; 1 items inside the `parallel_map` workers
(`FileArchiver::process`; even items = processed items, odd items = chunks); 2 ordered output + readahead; 3 main thread
(`tree_archiver.add`; odd = a finished tree blob, even = consumed); 4–9 data packer (`bounded(0)` hand-over + readahead,
early filters + readahead, `process_data` workers, readahead + late filter, `add_raw`/open pack, `bounded(1)` file-writer
queue … write + index); 10–15 tree packer likewise. -/
def archiverNet : Net :=
  { caps := [1, 4, 1, 1, 1, 1, 4, 1, 1, 1, 1, 1, 4, 1, 1, 1]
    route := fun i x =>
      if i = 0 then some 1
      else if i = 1 then (if x % 2 = 1 then some 4 else some 2)
      else if i = 2 then some 3
      else if i = 3 then (if x % 2 = 1 then some 10 else none)
      else if i = 9 ∨ i = 15 then none                      -- the file writers always complete
      else if 4 ≤ i ∧ i < 15 then (if x % 3 = 0 then none else some (i + 1))   -- filters may drop a known blob
      else none }

end Rustic.Streamer
