/-
Model M5b — loading the index files of a repository: `crates/core/src/index.rs` `GlobalIndex::new_from_collector`
(the loop over the stream) and `crates/core/src/backend/decrypt.rs` `DecryptReadBackend::{get_file, stream_all}`,
`DecryptBackend::{read_encrypted_full, decrypt_file}` (the error each stage of fetching ONE file maps to).

Executable; imports only `Model/Index`.

Correspondence with the Rust code:
* `LoadErr`          — the `ErrorKind`s `get_file::<IndexFile>` can return: `Backend` (the backend's `read_full` failed),
                       `Cryptography` (`read_encrypted_full` wraps EVERY `decrypt_file` error: MAC mismatch, data shorter than
                       nonce + MAC, first plaintext byte not `{` / `[` / `2`, zstd decode failure), `Internal`
                       (`serde_json::from_slice` failed: the plaintext is not the JSON of an index file).
* `Plain`, `Stored`, `RepoFile` — what is stored under one listed index id, as far as `get_file` can tell.
* `getFile`          — `get_file`: `read_full(..)?` then `decrypt_file` then `serde_json::from_slice`, first failing stage wins.
* `collectResults`   — `for index in stream { collector.extend(index?.1.packs) }`: the FIRST `Err` item in stream order is
                       returned (the `?`); no item is skipped.
* `loadResults`      — `new_from_collector` on a stream of per-file results: `Ok(into_index)` only after the whole stream.
* `loadRepo`         — the same on the files in the order they are streamed (`stream_all` = `list` + parallel `get_file`,
                       "the result comes in arbitrary order": theorems quantify over every permutation of the listing).
* `firstError`, `oks` — specification helpers.
* `IndexFile.supersedes` (Model/Index) is carried by the files that flow through here and read by NONE of these definitions, as in
  the code (`index?.1.packs` is all the loop uses): a file named in another file's (or its own) list is loaded like any other.
-/
import Rustic.Model.Index
namespace Rustic.IndexLoad
open Rustic.Pack Rustic.Index

inductive LoadErr where
  | backend
  | cryptography
  | internal
  deriving DecidableEq, Repr, Inhabited

/-- the plaintext sealed under a valid MAC -/
inductive Plain where
  /-- not `{`/`[`/`2` first, or undecodable zstd: `decrypt_file` fails -/
  | unsupported
  /-- decodes, but `serde_json::from_slice::<IndexFile>` fails -/
  | notIndexJson
  | file (f : IndexFile)
  deriving Repr, Inhabited

/-- the bytes stored under a listed index id -/
inductive Stored where
  /-- MAC verification fails (bit flip anywhere in nonce / ciphertext / MAC, truncation) -/
  | damaged
  | sealed (p : Plain)
  deriving Repr, Inhabited

structure RepoFile where
  /-- the backend's `read_full` of this file returns an error -/
  readFails : Bool
  stored : Stored
  deriving Repr, Inhabited

/-- `DecryptReadBackend::get_file::<IndexFile>` -/
def getFile (r : RepoFile) : Except LoadErr IndexFile :=
  if r.readFails then .error .backend else
  match r.stored with
  | .damaged => .error .cryptography
  | .sealed .unsupported => .error .cryptography
  | .sealed .notIndexJson => .error .internal
  | .sealed (.file f) => .ok f

/-- `for index in stream { collector.extend(index?.1.packs); }` -/
def collectResults (c : Collector) : List (Except LoadErr IndexFile) → Except LoadErr Collector
  | [] => .ok c
  | .error e :: _ => .error e
  | .ok f :: rest => collectResults (c.extend f.packs) rest

/-- `GlobalIndex::new_from_collector(be, p, IndexCollector::new(m))` on the streamed results -/
def loadResults (m : IndexType) (rs : List (Except LoadErr IndexFile)) : Except LoadErr Index :=
  match collectResults (Collector.new m) rs with
  | .error e => .error e
  | .ok c => .ok c.intoIndex

/-- … on the listed files in stream order -/
def loadRepo (m : IndexType) (stream : List RepoFile) : Except LoadErr Index :=
  loadResults m (stream.map getFile)

/-- the first `Err` of a stream -/
def firstError : List (Except LoadErr IndexFile) → Option LoadErr
  | [] => none
  | .error e :: _ => some e
  | .ok _ :: rest => firstError rest

/-- the `Ok` items of a stream, in order -/
def oks : List (Except LoadErr IndexFile) → List IndexFile
  | [] => []
  | .error _ :: rest => oks rest
  | .ok f :: rest => f :: oks rest

/-- the index files of a repository that can be fetched, in listing order -/
def readable (listed : List RepoFile) : List IndexFile := oks (listed.map getFile)

end Rustic.IndexLoad
