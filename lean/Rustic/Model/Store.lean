/-
Model for C01 — the blob store a backup writes and a restore reads, COMPOSED from the component models:
blob codec (`Model/Codec`, C04) → `BasicPacker` (`Model/Pack`, C08) → pack file bytes → index files
(`Model/Index`, C17; either what the indexer wrote or what `PackHeader::from_file` reads back from the pack,
C08) → `get_id` → partial read of the pack → `read_encrypted_from_partial`.

Import-free beside other Model files; executable once a `Cfg` is supplied.

Definition ↔ Rust:
* `Cfg`                — the repository's crypto/compression setting: `DecryptBackend` (key, `zstd` on/off) and the
                         content hash (`crypto/hasher.rs hash`, ids as big-endian `Nat`s like in `Model/Pack`).
* `Add`                — one blob that reaches `RawPacker::add_raw`: its plaintext and the nonce `encrypt_data` drew.
* `Cfg.raw`            — `Packer::add` → `process_data` (`DecryptBackend::encrypt_data`: compress?, encrypt) →
                         `add_raw(data, id, data_len, uncompressed_length)`; `id = hash(plaintext)` is computed by the
                         callers (`FileArchiver::backup_reader`: `hash(&chunk)`, `Tree::serialize`: `hash(&chunk)`).
* `BuiltPack`          — one pack file: its id, blob type, the adds it received (duplicates included: `add_raw`
                         skips them), the nonce of the header encryption.
* `BuiltPack.packer/file/indexPack` — `RawPacker::save`: `write_header` (`encrypt(header_bytes)` ‖ `u32` length),
                         `take_data`, and the `IndexPack` handed to `indexer.add`.
* `backendGet`         — the backend as a map pack id ↦ file bytes (`be.read_partial` reads from it).
* `readBlob`           — `IndexedBackend::blob_from_backend` / `IndexEntry::read_data`:
                         `index.get_id(tpe, id)` → `be.read_encrypted_partial(Pack, entry.pack, _, offset, length,
                         uncompressed_length)` = `read_partial` then `read_encrypted_from_partial`.
* `rebuiltIndexPack`   — the same pack as `repair index` / `check` see it: blobs parsed back from the file by
                         `PackHeader::from_file` (any size hint).
* `conc`, `Repo.ofPipeline` — the bytes behind a state of the packer pipeline of `Model/Archive` (part 2, the
                         transition system of C07/C13 over ids): every abstract pack `(type, ids)` is the `BuiltPack`
                         holding the plaintexts of those ids; the index file(s) list what `PSt.index` lists.
-/
import Rustic.Model.Codec
import Rustic.Model.Pack
import Rustic.Model.Index
import Rustic.Model.Archive
namespace Rustic.Store
open Rustic.Pack Rustic.Index

abbrev Bytes := List UInt8

structure Cfg where
  ae : Rustic.Codec.AE
  z : Rustic.Codec.Zstd
  key : ae.Key
  zstdOn : Bool
  hash : Bytes → Nat

structure Add where
  data : Bytes
  nonce : Bytes

/-- `process_data` then the arguments of `add_raw` -/
def Cfg.raw (c : Cfg) (a : Add) : Bytes × Nat × Option Nat :=
  ((Rustic.Codec.encodeBlob c.ae c.z c.zstdOn c.key a.nonce a.data).1, c.hash a.data,
   (Rustic.Codec.encodeBlob c.ae c.z c.zstdOn c.key a.nonce a.data).2.2)

structure BuiltPack where
  id : Nat
  tpe : BlobType
  adds : List Add
  hdrNonce : Bytes

def BuiltPack.packer (c : Cfg) (q : BuiltPack) : Packer := (Packer.new q.tpe).run (q.adds.map c.raw)

/-- the pack file as written to the backend -/
def BuiltPack.file (c : Cfg) (q : BuiltPack) : Bytes :=
  ((q.packer c).finish (Rustic.Codec.encrypt c.ae c.key q.hdrNonce)).1

/-- what `indexer.add(pack)` receives -/
def BuiltPack.indexPack (c : Cfg) (q : BuiltPack) : IndexPack :=
  { id := q.id, blobs := (q.packer c).blobs, size := none }

def backendGet (c : Cfg) (packs : List BuiltPack) (id : Nat) : Option Bytes :=
  (packs.find? (fun q => q.id == id)).map (·.file c)

/-- `IndexedBackend::blob_from_backend(tpe, id)` -/
def readBlob (c : Cfg) (idx : Index) (be : Nat → Option Bytes) (t : BlobType) (id : Nat) : Option Bytes :=
  match idx.getId t id with
  | none => none
  | some e =>
    match be e.pack with
    | none => none
    | some file =>
      match readPartial file e.loc.offset e.loc.length with
      | none => none
      | some stored =>
        match Rustic.Codec.decodeBlob c.ae c.z c.key stored e.loc.ulen with
        | .ok d => some d
        | .error _ => none

/-- `be.decrypt` as `PackHeader::from_file` uses it -/
def Cfg.decHeader (c : Cfg) (x : Bytes) : Option Bytes :=
  match Rustic.Codec.decrypt c.ae c.key x with
  | .ok d => some d
  | .error _ => none

/-- the index entry `repair index` rebuilds for a pack from the pack file alone -/
def BuiltPack.rebuiltIndexPack (c : Cfg) (hint : Option Nat) (q : BuiltPack) : IndexPack :=
  { id := q.id, size := none
    blobs := match fromFile c.decHeader (q.file c) hint (q.file c).length with
      | .ok bl => bl
      | .error _ => [] }

/-! ### the bytes behind the packer pipeline of `Model/Archive` -/

def toBlobType : Rustic.Archive.BT → BlobType
  | .data => .data
  | .tree => .tree

/-- what turns a pipeline state over ids into bytes: the plaintext of every key, the nonces drawn, the pack ids -/
structure Conc where
  content : Rustic.Archive.Key → Bytes
  nonce : Rustic.Archive.Key → Bytes
  hdrNonce : Rustic.Archive.BT × List Nat → Bytes
  packId : Rustic.Archive.BT × List Nat → Nat

def Conc.pack (k : Conc) (p : Rustic.Archive.BT × List Nat) : BuiltPack :=
  { id := k.packId p, tpe := toBlobType p.1, hdrNonce := k.hdrNonce p
    adds := p.2.map fun id => { data := k.content (p.1, id), nonce := k.nonce (p.1, id) } }

/-- the pack files on the backend and the packs the index lists, for a pipeline state -/
def packsOf (k : Conc) (s : Rustic.Archive.PSt) : List BuiltPack := s.packs.map k.pack
def indexedOf (c : Cfg) (k : Conc) (s : Rustic.Archive.PSt) : List IndexPack := s.index.map fun p => (k.pack p).indexPack c

/-! ### the index files the `Indexer` writes (`index/indexer.rs`)

* `Ixr`            — `Indexer { file, count, .. }` plus the index files saved so far (`be.save_file(&self.file)`).
* `Ixr.save`       — `save`: nothing is written for an empty file.
* `Ixr.reset`      — `reset`.
* `Ixr.add`        — `add_with(pack, false)`: `count += blobs.len()`, `file.add(pack)`, then
                     `if count >= MAX_COUNT || elapsed >= MAX_AGE { save()?; reset() }` — in this order.  `aged` is the value
                     of `elapsed >= MAX_AGE` at the call (the clock is not modelled: every schedule of flushes is covered).
* `Ixr.run`        — all `indexer.add` calls of a run, then `finalize` (= `save`). -/

structure Ixr where
  file : List IndexPack := []
  count : Nat := 0
  saved : List IndexFile := []

def Ixr.save (s : Ixr) : Ixr :=
  if s.file.isEmpty then s else { s with saved := s.saved ++ [{ packs := s.file, packsToDelete := [] }] }

def Ixr.reset (s : Ixr) : Ixr := { s with file := [], count := 0 }

def Ixr.add (maxCount : Nat) (s : Ixr) (p : IndexPack) (aged : Bool) : Ixr :=
  let s1 : Ixr := { s with count := s.count + p.blobs.length, file := s.file ++ [p] }
  if decide (s1.count ≥ maxCount) || aged then s1.save.reset else s1

def Ixr.run (maxCount : Nat) (adds : List (IndexPack × Bool)) : Ixr :=
  (adds.foldl (fun (s : Ixr) a => s.add maxCount a.1 a.2) {}).save

end Rustic.Store
