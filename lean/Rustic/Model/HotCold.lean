/-
Model M15c — hot/cold repositories (`crates/core/src/backend/hotcold.rs`, `commands/repair/hotcold.rs`), with
sub-operation granularity.  Executable; imports `Model/Backends.lean` (`FileType`, `Key`, `SpecMap`, `Res`).
`repairKey` models `get_missing_files`/`correct_missing_files` **as repaired** (see known_findings.d/C16.json): a file
present in both stores with different sizes is re-copied cold → hot only.

Correspondence with the Rust code:
* `writesHot`   — `write_bytes`: `tpe != FileType::Config && (cacheable || tpe != FileType::Pack)`.
* `usesHot`     — `remove` and `read_partial`: `cacheable || tpe != FileType::Pack`.
* `subs`        — the storage operations of one call, in the code's order: write hot **then** cold; remove cold **then**
                  hot.  Each `?` makes a failing sub-operation end the call: a call performs a *prefix* of `subs`.
* `runPrefixes` — a history in which every call may stop after any number of its sub-operations (failed write /
                  remove, or the process dying there — then the rest of the list is empty).
* `readFull`    — always the hot store;  `readPartial` — hot iff `usesHot`;  listings come from the cold store.
* `repairKey`   — per id of a file type: only in hot ⇒ copied to cold; in cold and (absent from hot or of another size
                  there) ⇒ copied to hot; same size in both ⇒ left alone.
* `treePacks`/`packKeys`/`repairPacks`/`repairRepo` — `get_tree_packs` (over `IndexFile::all_packs`: `packs` AND
                  `packs_to_delete`), the relevance filter of `repair_hotcold_packs`, and the whole `repair hotcold`.
-/
import Rustic.Model.Backends
namespace Rustic.HotCold
open Rustic.Backends

structure HC where
  hot : SpecMap
  cold : SpecMap

def writesHot (t : FileType) (cb : Bool) : Bool := t != .config && (cb || t != .pack)
def usesHot (t : FileType) (cb : Bool) : Bool := cb || t != .pack

inductive Sub where
  | hotW (k : Key) (d : Bytes)
  | coldW (k : Key) (d : Bytes)
  | coldR (k : Key)
  | hotR (k : Key)

inductive Op where
  | write (t : FileType) (id : Name) (cb : Bool) (d : Bytes)
  | remove (t : FileType) (id : Name) (cb : Bool)

def subs : Op → List Sub
  | .write t id cb d => (if writesHot t cb then [Sub.hotW (t, id) d] else []) ++ [Sub.coldW (t, id) d]
  | .remove t id cb => [Sub.coldR (t, id)] ++ (if usesHot t cb then [Sub.hotR (t, id)] else [])

def applySub (s : HC) : Sub → HC
  | .hotW k d => { s with hot := s.hot.write k d }
  | .coldW k d => { s with cold := s.cold.write k d }
  | .coldR k => { s with cold := s.cold.remove k }
  | .hotR k => { s with hot := s.hot.remove k }

def applySubs (s : HC) (l : List Sub) : HC := l.foldl applySub s

/-- every call performs the first `n` of its sub-operations (`n ≥` their number: the call completes) -/
def runPrefixes (s : HC) : List (Op × Nat) → HC
  | [] => s
  | (op, n) :: rest => runPrefixes (applySubs s ((subs op).take n)) rest

def resOf : Option Bytes → Res Bytes
  | some d => .ok d
  | none => .err

def readFull (s : HC) (t : FileType) (id : Name) : Res Bytes := resOf (s.hot (t, id))

def slice (o : Option Bytes) (off len : Nat) : Res Bytes :=
  match o with
  | some d => if off + len ≤ d.length then .ok ((d.drop off).take len) else .err
  | none => .err

def readPartial (s : HC) (t : FileType) (id : Name) (cb : Bool) (off len : Nat) : Res Bytes :=
  if usesHot t cb then slice (s.hot (t, id)) off len else slice (s.cold (t, id)) off len

/-- what a single-store repository (the cold store alone) answers -/
def singleReadFull (s : HC) (t : FileType) (id : Name) : Res Bytes := resOf (s.cold (t, id))
def singleReadPartial (s : HC) (t : FileType) (id : Name) (off len : Nat) : Res Bytes := slice (s.cold (t, id)) off len

def repairKey (s : HC) (k : Key) : HC :=
  match s.cold k with
  | some c =>
    match s.hot k with
    | some h => if h.length = c.length then s else { s with hot := s.hot.write k c }
    | none => { s with hot := s.hot.write k c }
  | none =>
    match s.hot k with
    | some h => { s with cold := s.cold.write k h }
    | none => s

def repair (s : HC) (keys : List Key) : HC := keys.foldl repairKey s

/-! #### `repair_hotcold_packs`: which pack files are repaired

`get_tree_packs` streams every index file and collects the ids of `index.all_packs()` — the packs listed under `packs`
**and** those listed under `packs_to_delete` (marked by a prune without `instant_delete`, still present in both stores
until `keep_delete` has passed) — whose `blob_type()` (type of the first blob) is `Tree`.
`correct_missing_files(Pack, |id| tree_packs.contains(id))` then treats exactly the ids listed by the hot or the cold
store that pass this filter (`listed`); all other pack files are left alone. -/

structure IdxPack where
  id : Name
  isTree : Bool
  deriving DecidableEq, Repr

structure IndexFileM where
  packs : List IdxPack
  packsToDelete : List IdxPack
  deriving Repr

/-- `IndexFile::all_packs` -/
def IndexFileM.allPacks (f : IndexFileM) : List IdxPack := f.packs ++ f.packsToDelete

/-- `get_tree_packs` -/
def treePacks (idx : List IndexFileM) : List Name :=
  ((idx.flatMap IndexFileM.allPacks).filter (fun p => p.isTree)).map (fun p => p.id)

/-- the keys `repair_hotcold_packs` works on: listed pack ids that pass the relevance filter -/
def packKeys (idx : List IndexFileM) (listed : List Name) : List Key :=
  (listed.filter (fun id => (treePacks idx).contains id)).map (fun id => (FileType.pack, id))

def repairPacks (s : HC) (idx : List IndexFileM) (listed : List Name) : HC := repair s (packKeys idx listed)

/-- `repair hotcold`: `repair_hotcold_except_packs` on the listed ids of the other file types, then `repair_hotcold_packs` -/
def repairRepo (s : HC) (keys : List Key) (idx : List IndexFileM) (listed : List Name) : HC :=
  repairPacks (repair s keys) idx listed

end Rustic.HotCold
