/-
Model M6' — the pack WRITER side of `crates/core/src/blob/packer.rs` and `crates/core/src/index/indexer.rs`
(C08 order theorem: a pack reaches the indexer, and hence any index file, only after its bytes were written).

Executable; imports only `Model/Pack`, `Model/Index` (the `IndexPack` type and `pack_size`) and the generated constants
(`blob/packer.rs constants::MAX_COUNT` = blobs per pack, `index/indexer.rs constants::MAX_COUNT` = blobs per index file).

Correspondence with the Rust code (as it is):
* `Lane`            — one `RawPacker` with its `Actor`: `basic` = `BasicPacker`, `chan` = the bounded crossbeam channel
                      `Actor.sender → rx` (packs sent by `RawPacker::save`, FIFO), `done` = what the `process` stage has
                      produced and `try_for_each(|index| fwh.index(index?))` has not consumed yet (`none` = `Err`),
                      `failed` = the actor's `status` is an error (`try_for_each` stopped).
* `St`              — the two packers of `Archiver::new` / `Repacker` / `copy` (one per `BlobType`) sharing ONE `Indexer`
                      (`SharedIndexer`), plus `log`: what the backend saw (`write_bytes` of packs / index files, in the order
                      of the calls — this is what `MemBackend.log` records) and, as a model-only event, every `indexer.add`.
* `shouldSave`      — `BasicPacker::should_save`: `count >= MAX_COUNT || size >= pack_sizer.pack_size() || elapsed >= MAX_AGE`;
                      the size limit and the clock are parameters of the event (so EVERY flush point is covered).
* `save`            — `RawPacker::save`: `header_bytes`, `encrypt_data`, `write_header`, `take_data` (packer reset), `send`.
* `Ev.add`          — `RawPacker::add_raw`: `basic.add_raw`, then `save` if `should_save`.
* `Ev.flush`        — `RawPacker::finalize`: `save` unless `basic.is_empty()`.
* `Ev.write`        — the first two `map` stages of `Actor::new` on the oldest queued pack: `id = hash_reader(file)`, then
                      `FileWriterHandle::process`: `be.write_bytes(FileType::Pack, id, file)?` and only on success
                      `Ok(index)` with `index.id = id` (`fail` = the backend call fails).  These stages run in their own
                      threads (`readahead_scoped`), so writes may run ahead of the indexing stage and may still happen after
                      the last stage stopped with an error.
* `Ev.index`        — the last stage, `fwh.index(index?)`: an `Err` stops the actor; else `Indexer::add` = `add_with(pack, false)`:
                      `count += blobs.len()`, `file.add(pack)`, and if `count >= MAX_COUNT || elapsed >= MAX_AGE` then
                      `save()?` (`be.save_file(&file)` when the file lists anything; `fail` = that call fails, then the `?`
                      returns before `reset`) and `reset()`.
* `Ev.finalizeIndexer` — `Indexer::finalize` = `save`.
The order inside `FileWriterHandle::process` / `Actor::new` — `write_bytes` BEFORE the pack is handed to `Indexer::add` — is
what the theorem is about; a model with the two swapped has the `decide`d counter-witness in `Props/C08`.
-/
import Rustic.Model.Index
import Rustic.Gen.Constants
namespace Rustic.PackWriter
open Rustic.Pack
open Rustic.Index (IndexPack)

/-- what the storage backend (and the indexer) saw, in call order -/
inductive Log where
  /-- `be.write_bytes(FileType::Pack, id, file)`; `ok = false`: the call returned an error and stored nothing -/
  | packWrite (id : Nat) (file : Bytes) (ok : Bool)
  /-- `indexer.add(pack)` — not a backend operation; model-only -/
  | indexAdd (p : IndexPack)
  /-- `be.save_file(&IndexFile { packs, .. })` -/
  | indexWrite (packs : List IndexPack) (ok : Bool)
  deriving DecidableEq, Repr

/-- `Indexer`: `file.packs` and `count` (`indexed` is the dedup set of C07; `created` is the `aged` parameter) -/
structure Indexer where
  packs : List IndexPack := []
  count : Nat := 0
  deriving Repr

/-- one `RawPacker` + `Actor` -/
structure Lane where
  basic : Packer
  chan : List (Bytes × List IndexBlob) := []
  done : List (Option IndexPack) := []
  failed : Bool := false
  deriving Repr

structure St where
  tree : Lane
  data : Lane
  indexer : Indexer := {}
  log : List Log := []
  deriving Repr

def St.lane (s : St) : BlobType → Lane
  | .tree => s.tree
  | .data => s.data

def St.setLane (s : St) (t : BlobType) (l : Lane) : St :=
  match t with
  | .tree => { s with tree := l }
  | .data => { s with data := l }

/-- `Archiver::new`: a fresh tree packer, a fresh data packer, a fresh indexer -/
def St.init : St := { tree := { basic := Packer.new .tree }, data := { basic := Packer.new .data } }

inductive Ev where
  /-- `RawPacker::add_raw(data, id, _, ulen)` on the packer of type `t`; `limit` = `pack_sizer.pack_size()` now,
  `aged` = `elapsed >= MAX_AGE` now -/
  | add (t : BlobType) (data : Bytes) (id : Nat) (ulen : Option Nat) (limit : Nat) (aged : Bool)
  /-- `RawPacker::finalize`'s `save` -/
  | flush (t : BlobType)
  /-- stages 1+2 of the actor of packer `t` on its oldest queued pack -/
  | write (t : BlobType) (fail : Bool)
  /-- stage 3 of the actor of packer `t` on the oldest result; `aged` = the indexer's `elapsed >= MAX_AGE`,
  `fail` = an index file write triggered by this step fails -/
  | index (t : BlobType) (aged : Bool) (fail : Bool)
  /-- `Indexer::finalize` -/
  | finalizeIndexer (fail : Bool)
  deriving Repr

/-- `BasicPacker::should_save` -/
def shouldSave (p : Packer) (limit : Nat) (aged : Bool) : Bool :=
  decide (p.count ≥ Rustic.Gen.PACKER_MAX_COUNT) || decide (p.size ≥ limit) || aged

/-- `RawPacker::save` (+ `BasicPacker::take_data`: the packer starts over) -/
def save (enc : Bytes → Bytes) (l : Lane) : Lane :=
  { l with basic := Packer.new l.basic.blobType, chan := l.chan ++ [l.basic.finish enc] }

/-- `Indexer::add` → `add_with(pack, false)`; returns the indexer, the log entries and whether it failed -/
def Indexer.add (ix : Indexer) (p : IndexPack) (aged fail : Bool) : Indexer × List Log × Bool :=
  let count := ix.count + p.blobs.length
  let packs := ix.packs ++ [p]
  if decide (count ≥ Rustic.Gen.INDEXER_MAX_COUNT) || aged then
    -- `save`: the file lists at least `p`
    if fail then ({ packs := packs, count := count }, [.indexAdd p, .indexWrite packs false], true)
    else ({}, [.indexAdd p, .indexWrite packs true], false)
  else ({ packs := packs, count := count }, [.indexAdd p], false)

def step (enc : Bytes → Bytes) (hash : Bytes → Nat) (s : St) : Ev → St
  | .add t data id ulen limit aged =>
    let l := s.lane t
    let l1 := { l with basic := l.basic.addRaw data id ulen }
    s.setLane t (if shouldSave l1.basic limit aged then save enc l1 else l1)
  | .flush t =>
    let l := s.lane t
    if l.basic.count = 0 then s else s.setLane t (save enc l)
  | .write t fail =>
    let l := s.lane t
    match l.chan with
    | [] => s
    | (file, blobs) :: rest =>
      let id := hash file
      if fail then
        { s.setLane t { l with chan := rest, done := l.done ++ [none] } with log := s.log ++ [.packWrite id file false] }
      else
        { s.setLane t { l with chan := rest, done := l.done ++ [some { id := id, blobs := blobs, size := none }] } with
          log := s.log ++ [.packWrite id file true] }
  | .index t aged fail =>
    let l := s.lane t
    if l.failed then s else
    match l.done with
    | [] => s
    | none :: rest => s.setLane t { l with done := rest, failed := true }
    | some p :: rest =>
      let r := s.indexer.add p aged fail
      { s.setLane t { l with done := rest, failed := r.2.2 } with indexer := r.1, log := s.log ++ r.2.1 }
  | .finalizeIndexer fail =>
    if s.indexer.packs.isEmpty then s else { s with log := s.log ++ [.indexWrite s.indexer.packs (!fail)] }

def run (enc : Bytes → Bytes) (hash : Bytes → Nat) (s : St) (evs : List Ev) : St := evs.foldl (step enc hash) s

/-! ### the property, as a predicate on a log -/

/-- `p` is backed by a successful pack write in `log`: the file stored under `p.id` has the length the index entry
computes (`IndexPack::pack_size`, no `size` field) -/
def WrittenIn (log : List Log) (p : IndexPack) : Prop :=
  ∃ file, Log.packWrite p.id file true ∈ log ∧ file.length = p.packSize

instance (log : List Log) (p : IndexPack) : Decidable (WrittenIn log p) :=
  decidable_of_iff (log.any fun e => match e with
    | .packWrite id file true => id == p.id && file.length == p.packSize
    | _ => false) (by
      simp only [WrittenIn, List.any_eq_true]
      constructor
      · rintro ⟨e, he, h⟩
        cases e with
        | packWrite id file ok =>
          cases ok with
          | false => simp at h
          | true =>
            simp only [Bool.and_eq_true, beq_iff_eq] at h
            exact ⟨file, h.1 ▸ he, h.2⟩
        | indexAdd _ => simp at h
        | indexWrite _ _ => simp at h
      · rintro ⟨file, he, h⟩
        exact ⟨_, he, by simp [h]⟩)

/-- what must have happened before entry `e` -/
def After (pre : List Log) : Log → Prop
  | .packWrite _ _ _ => True
  | .indexAdd p => WrittenIn pre p
  | .indexWrite packs _ => ∀ p ∈ packs, WrittenIn pre p

instance (pre : List Log) (e : Log) : Decidable (After pre e) := by
  cases e <;> simp only [After] <;> infer_instance

/-- executable form of `Ordered` (for the driver and for `decide`d witnesses) -/
def orderedFrom (pre : List Log) : List Log → Bool
  | [] => true
  | e :: rest => decide (After pre e) && orderedFrom (pre ++ [e]) rest

/-- every `indexer.add` and every index file write comes after the successful write of every pack it names -/
def Ordered (log : List Log) : Prop := ∀ pre e post, log = pre ++ e :: post → After pre e

/-! ### the end of a command, nothing failing (for the completeness theorem) -/

/-- the event injects no failure -/
def Ev.faultFree : Ev → Bool
  | .write _ fail => !fail
  | .index _ _ fail => !fail
  | .finalizeIndexer fail => !fail
  | _ => true

/-- the actor of lane `t` works off its queue: `n` rounds of `process` + `index` -/
def drainLane (enc : Bytes → Bytes) (hash : Bytes → Nat) (t : BlobType) : Nat → St → St
  | 0, s => s
  | n + 1, s => drainLane enc hash t n (step enc hash (step enc hash s (.write t false)) (.index t false false))

/-- `data_packer.finalize()`, `tree_packer.finalize()` (each: `save` what is left, then wait for the actor), then
`indexer.finalize()` — the end of `Archiver::finalize_snapshot`, `Repacker::finalize`, `copy`, the `pack_blobs` hook. -/
def finalizeAll (enc : Bytes → Bytes) (hash : Bytes → Nat) (s : St) : St :=
  let s1 := step enc hash s (.flush .data)
  let s2 := drainLane enc hash .data ((s1.lane .data).chan.length + (s1.lane .data).done.length) s1
  let s3 := step enc hash s2 (.flush .tree)
  let s4 := drainLane enc hash .tree ((s3.lane .tree).chan.length + (s3.lane .tree).done.length) s3
  step enc hash s4 (.finalizeIndexer false)

/-! ### the counter-model: `process` hands the pack to the indexer BEFORE `write_bytes` (seeded change C08-2) -/

/-- stages 2+3 fused in the wrong order: `index(pack)` then `write_bytes` -/
def stepSwapped (enc : Bytes → Bytes) (hash : Bytes → Nat) (s : St) : Ev → St
  | .write t fail =>
    let l := s.lane t
    match l.chan with
    | [] => s
    | (file, blobs) :: rest =>
      let id := hash file
      let r := s.indexer.add { id := id, blobs := blobs, size := none } false false
      { s.setLane t { l with chan := rest } with indexer := r.1, log := s.log ++ r.2.1 ++ [.packWrite id file (!fail)] }
  | ev => step enc hash s ev

end Rustic.PackWriter
