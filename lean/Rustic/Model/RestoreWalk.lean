/-
Model M13 (part 2) — the merge-walk of `collect_and_prepare` and the pack bookkeeping of `RestorePlan`
(`crates/core/src/commands/restore.rs`).  Import-free, executable.

### merge-walk (`collect_and_prepare`, the `loop { match (&next_dst, &next_node) … }`)
* `DEnt` — one entry of the destination listing (`WalkDir::new(dest).follow_links(false).sort_by_file_name()`), WITHOUT the
  root entry (depth 0: it compares `Less` than every joined node path and `process_existing` passes over it without any
  action).  The listing is a pre-order walk, so the contents of a directory follow it contiguously; `skip_current_dir()`
  is therefore `dropWhile (under dir)` (`skipSplit`).  `DKind` = what `DirEntry::file_type()` says (symlinks are not followed).
* `NEnt` — one item of the node stream (`NodeStreamer`): path and `NodeType` collapsed to dir / file / special
  (`Node::is_dir`, `is_file`, `is_special`).
* `Cfg.cmp` is `Path::cmp` on `destination.path()` vs `dest.path(path)`; `Cfg.under d p` is "p lies below directory d".
  Both are parameters: the theorems hold for every comparison function (the semantic ones need it to be a strict total
  order); the driver instantiates them with component-wise byte comparison.
* `walk` — the loop; one event per call of `process_existing` (`additional`, with the `removed` flag = `delete && !dry_run`:
  `remove_dir`/`remove_file` is called exactly then), per entry hidden by `skip_current_dir` (`skipped`), per destination
  entry consumed as the counterpart of a node (`matched`: `next_dst = next_entry(..)` in the `Equal` arm) and per call of
  `process_node(path, node, exists)` (`node`).  In the `Equal` arm with mismatching types the code calls
  `process_existing` first and then `process_node(.., exists = false)` (as repaired: the unrepaired code passed `true`,
  so a directory node whose place was taken by a file was never created — known_findings.d/C14.json).
* `Stats`/`statsOf` — `RestoreStats` as counted by `process_existing` / `process_node` (`addRes` = what `add_file` answers).

### RestorePlan (`add_file` → `r: BTreeMap<(PackId, BlobLocation), SmallVec<FileLocation>>`, `to_packs`, the `PackInfo`
list of `restore_contents` with itertools `coalesce(PackInfo::coalesce)`)
* `RInfo` — the map as an association list kept sorted by the key order: `(PackId, BlobLocation)` where
  `BlobLocation: Ord` compares the offset only (`blob.rs`) — so the key is `(pack, offset)` (`rInsert`).
* `addFileR` — the `for id in file.content` loop of `add_file` (`entry(..).or_default().push(FileLocation{..})`).
* `toPacks` — `to_packs`: entries none of whose locations matches, their pack ids, consecutive duplicates removed.
* `packInfoOf`, `canCoalesce`, `merge`, `coalesceAll` — the `packs` list of `restore_contents`; `coalesce` tests
  `self.from_file.is_none()` only — an entry WITH a matching location is absorbed by a preceding group of the same pack
  and is then read from the pack (kept as it is).
* `readsOf` — what the reader threads read: `read_partial(Pack, pack_id, false, offset, length)` iff `from_file` is `None`,
  else `dest.read_at(file, ..)`; nothing if the group has no blobs.
-/
namespace Rustic.RestoreWalk

/-! ### merge-walk -/

inductive DKind where
  | dir | file | other
  deriving DecidableEq, Repr

inductive NKind where
  | dir | file | special
  deriving DecidableEq, Repr

structure DEnt (P : Type) where
  path : P
  kind : DKind

structure NEnt (P : Type) where
  path : P
  kind : NKind

structure Cfg (P : Type) where
  cmp : P → P → Ordering
  under : P → P → Bool
  delete : Bool
  dryRun : Bool

inductive Ev (P : Type) where
  | matched (p : P)
  | additional (p : P) (isDir : Bool) (removed : Bool)
  | skipped (p : P)
  | node (p : P) (k : NKind) (exist : Bool)
  deriving DecidableEq, Repr

/-- `(node.is_dir() && !dst.is_dir()) || (node.is_file() && !dst.is_file()) || node.is_special()` -/
def mismatch (n : NKind) (d : DKind) : Bool :=
  (n == .dir && d != .dir) || (n == .file && d != .file) || n == .special

/-- `skip_current_dir()` after a directory entry: (entries never visited, rest of the listing) -/
def skipSplit {P : Type} (c : Cfg P) (d : DEnt P) (rest : List (DEnt P)) : List (DEnt P) × List (DEnt P) :=
  if d.kind = .dir then (rest.takeWhile (fun e => c.under d.path e.path), rest.dropWhile (fun e => c.under d.path e.path))
  else ([], rest)

/-- the events of one `process_existing(entry)` -/
def existingEvs {P : Type} (c : Cfg P) (d : DEnt P) (rest : List (DEnt P)) : List (Ev P) :=
  Ev.additional d.path (decide (d.kind = .dir)) (c.delete && !c.dryRun) ::
    (skipSplit c d rest).1.map (fun e => Ev.skipped e.path)

theorem dropWhile_length_le {α : Type} (p : α → Bool) (l : List α) : (l.dropWhile p).length ≤ l.length := by
  induction l with
  | nil => exact Nat.le_refl _
  | cons a l ih =>
    simp only [List.dropWhile_cons]
    split
    · simp only [List.length_cons]; omega
    · exact Nat.le_refl _

theorem skipSplit_length {P : Type} (c : Cfg P) (d : DEnt P) (rest : List (DEnt P)) :
    (skipSplit c d rest).2.length ≤ rest.length := by
  unfold skipSplit
  split
  · exact dropWhile_length_le _ _
  · exact Nat.le_refl _

def walk {P : Type} (c : Cfg P) : List (DEnt P) → List (NEnt P) → List (Ev P)
  | [], [] => []
  | d :: ds, [] => existingEvs c d ds ++ walk c (skipSplit c d ds).2 []
  | [], n :: ns => Ev.node n.path n.kind false :: walk c [] ns
  | d :: ds, n :: ns =>
    match c.cmp d.path n.path with
    | .lt => existingEvs c d ds ++ walk c (skipSplit c d ds).2 (n :: ns)
    | .eq =>
      if mismatch n.kind d.kind then
        existingEvs c d ds ++ Ev.node n.path n.kind false :: walk c (skipSplit c d ds).2 ns
      else Ev.matched d.path :: Ev.node n.path n.kind true :: walk c ds ns
    | .gt => Ev.node n.path n.kind false :: walk c (d :: ds) ns
termination_by ds ns => ds.length + ns.length
decreasing_by
  all_goals simp only [List.length_cons, List.length_nil]
  all_goals first
    | omega
    | (refine Nat.lt_of_le_of_lt (Nat.add_le_add_right (skipSplit_length _ _ _) _) ?_; omega)

/-- destination entries in the order the walk disposes of them -/
def dstOf {P : Type} : List (Ev P) → List P
  | [] => []
  | .matched p :: l => p :: dstOf l
  | .additional p _ _ :: l => p :: dstOf l
  | .skipped p :: l => p :: dstOf l
  | .node _ _ _ :: l => dstOf l

/-- the `process_node` calls in order -/
def nodesOf {P : Type} : List (Ev P) → List (P × NKind)
  | [] => []
  | .node p k _ :: l => (p, k) :: nodesOf l
  | _ :: l => nodesOf l

/-- paths handed to `remove_dir` / `remove_file` -/
def removedOf {P : Type} : List (Ev P) → List P
  | [] => []
  | .additional p _ true :: l => p :: removedOf l
  | _ :: l => removedOf l

/-- directories handed to `create_dir` (`process_node` of a Dir with `exists = false`, unless `dry_run`) -/
def createdDirsOf {P : Type} (dryRun : Bool) : List (Ev P) → List P
  | [] => []
  | .node p .dir false :: l => if dryRun then createdDirsOf dryRun l else p :: createdDirsOf dryRun l
  | _ :: l => createdDirsOf dryRun l

/-- `AddFileResult` -/
inductive AddRes where
  | existing | verified | modify
  deriving DecidableEq, Repr

/-- `RestoreStats`: (restore, unchanged, verified, modify, additional) for files and for dirs -/
structure Stats where
  fRestore : Nat := 0
  fUnchanged : Nat := 0
  fVerified : Nat := 0
  fModify : Nat := 0
  fAdditional : Nat := 0
  dRestore : Nat := 0
  dModify : Nat := 0
  dAdditional : Nat := 0
  deriving DecidableEq, Repr

def statsStep {P : Type} (addRes : P → AddRes) (s : Stats) : Ev P → Stats
  | .additional _ true _ => { s with dAdditional := s.dAdditional + 1 }
  | .additional _ false _ => { s with fAdditional := s.fAdditional + 1 }
  | .node _ .dir true => { s with dModify := s.dModify + 1 }
  | .node _ .dir false => { s with dRestore := s.dRestore + 1 }
  | .node p .file ex =>
    match addRes p, ex with
    | .existing, _ => { s with fUnchanged := s.fUnchanged + 1 }
    | .verified, _ => { s with fVerified := s.fVerified + 1 }
    | .modify, true => { s with fModify := s.fModify + 1 }
    | .modify, false => { s with fRestore := s.fRestore + 1 }
  | _ => s

def statsOf {P : Type} (addRes : P → AddRes) (evs : List (Ev P)) : Stats := evs.foldl (statsStep addRes) {}

/-! ### RestorePlan -/

/-- `BlobLocation` (offset and length within the pack; `dataLen` = `data_length()`) -/
structure BlobLoc where
  offset : Nat
  length : Nat
  dataLen : Nat
  deriving DecidableEq, Repr

/-- `FileLocation` -/
structure FileLoc where
  fileIdx : Nat
  fileStart : Nat
  hit : Bool
  deriving DecidableEq, Repr

/-- one entry of `RestoreInfo` -/
structure REntry where
  pack : Nat
  loc : BlobLoc
  fls : List FileLoc
  deriving Repr

abbrev RInfo := List REntry

/-- `(pack, offset) < key of e` in the order of the `BTreeMap` -/
def keyLt (pack offset : Nat) (e : REntry) : Bool := pack < e.pack || (pack == e.pack && offset < e.loc.offset)

/-- `self.r.entry((ie.pack, bl)).or_default().push(fl)` -/
def rInsert : RInfo → Nat → BlobLoc → FileLoc → RInfo
  | [], pack, loc, fl => [{ pack := pack, loc := loc, fls := [fl] }]
  | e :: rest, pack, loc, fl =>
    if e.pack = pack ∧ e.loc.offset = loc.offset then { e with fls := e.fls ++ [fl] } :: rest
    else if keyLt pack loc.offset e then { pack := pack, loc := loc, fls := [fl] } :: e :: rest
    else e :: rInsert rest pack loc fl

/-- one content blob of a file as `add_file` sees it: index entry and whether the existing file matches there -/
structure Blob where
  pack : Nat
  loc : BlobLoc
  hit : Bool
  deriving Repr

/-- the content loop of `add_file` for the file with index `fileIdx`, starting at `pos` -/
def addFileR (r : RInfo) (fileIdx : Nat) : Nat → List Blob → RInfo
  | _, [] => r
  | pos, b :: bs =>
    addFileR (rInsert r b.pack b.loc { fileIdx := fileIdx, fileStart := pos, hit := b.hit }) fileIdx
      (pos + b.loc.dataLen) bs

/-- all files handed to `add_file` that were not accepted as `Existing`, in order (`file_idx` = position) -/
def buildFrom (r : RInfo) : Nat → List (List Blob) → RInfo
  | _, [] => r
  | i, f :: fs => buildFrom (addFileR r i 0 f) (i + 1) fs

def build (files : List (List Blob)) : RInfo := buildFrom [] 0 files

/-- itertools `dedup` -/
def dedup : List Nat → List Nat
  | [] => []
  | [a] => [a]
  | a :: b :: l => if a = b then dedup (b :: l) else a :: dedup (b :: l)

def needsPack (e : REntry) : Bool := e.fls.all (fun fl => !fl.hit)

/-- `RestorePlan::to_packs` -/
def toPacks (r : RInfo) : List Nat := dedup ((r.filter needsPack).map (·.pack))

/-- `PackInfo` of `restore_contents` -/
structure PackInfo where
  pack : Nat
  fromFile : Option (Nat × Nat × Nat)
  offset : Nat
  length : Nat
  blobs : List (BlobLoc × List (Nat × Nat))
  deriving Repr

def packInfoOf (e : REntry) : PackInfo :=
  { pack := e.pack
    fromFile := (e.fls.find? (·.hit)).map (fun fl => (fl.fileIdx, fl.fileStart, e.loc.dataLen))
    offset := e.loc.offset
    length := e.loc.length
    blobs := [(e.loc, (e.fls.filter (fun fl => !fl.hit)).map (fun fl => (fl.fileIdx, fl.fileStart)))] }

/-- `PackInfo::coalesce` (with `BlobLocations::can_coalesce`); `hole` = MAX_HOLESIZE, `limit` = LIMIT_PACK_READ -/
def canCoalesce (hole limit : Nat) (a b : PackInfo) : Bool :=
  a.pack == b.pack && a.fromFile.isNone &&
    (b.offset ≤ a.offset + a.length + hole && b.offset ≥ a.offset + a.length && b.offset + b.length - a.offset ≤ limit)

def merge (a b : PackInfo) : PackInfo :=
  { pack := a.pack, fromFile := a.fromFile, offset := a.offset, length := b.offset + b.length - a.offset,
    blobs := a.blobs ++ b.blobs }

def coalesceFrom (hole limit : Nat) (cur : PackInfo) : List PackInfo → List PackInfo
  | [] => [cur]
  | o :: l =>
    if canCoalesce hole limit cur o then coalesceFrom hole limit (merge cur o) l
    else cur :: coalesceFrom hole limit o l

def coalesceAll (hole limit : Nat) : List PackInfo → List PackInfo
  | [] => []
  | o :: l => coalesceFrom hole limit o l

def packInfos (hole limit : Nat) (r : RInfo) : List PackInfo := coalesceAll hole limit (r.map packInfoOf)

inductive Read where
  | pack (pack offset length : Nat)
  | file (idx start len : Nat)
  deriving DecidableEq, Repr

def readOf (pi : PackInfo) : Option Read :=
  if pi.blobs.isEmpty then none
  else match pi.fromFile with
    | some (i, s, l) => some (Read.file i s l)
    | none => some (Read.pack pi.pack pi.offset pi.length)

/-- the reads of the reader threads of `restore_contents` (one per group, any thread order) -/
def readsOf (pis : List PackInfo) : List Read := pis.filterMap readOf

/-- the pack ids read from the repository by `restore_contents` -/
def packReads (hole limit : Nat) (r : RInfo) : List Nat :=
  (readsOf (packInfos hole limit r)).filterMap (fun rd => match rd with | .pack p _ _ => some p | .file _ _ _ => none)

end Rustic.RestoreWalk
