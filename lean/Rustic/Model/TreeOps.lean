/-
Models of the tree operations behind copy / merge / rewrite / repair (rustic_core).

Node names are `Nat`s: merge only *compares* names, so the harness hands over the rank of each name in the
order trees are sorted by (the unescaped name, `Node::name()`); `key` is what merge's `cmp` compares (mtime for
`last_modified_node`); `tag` identifies everything else in a node (type, content ids, metadata, link target).

Definition ↔ Rust:
* `heads`, `takeGroup`, `dropGroup`, `groups`  — the k-way merge loop of `blob/tree.rs merge_trees` (a `BinaryHeap`
  ordered by name holding the next node of every tree; all popped nodes of one name form a group).  The heap is
  abstracted to "minimum over the heads"; the order inside a group (heap pop order in the code, tree order here)
  only matters for `cmp` ties.
* `lastMax`, `mergeNodes`                      — `merge_nodes`: `max_by(cmp)` (last maximum), directories merged
  recursively over *all* directories of the group, other nodes taken as they are
* `mergeTrees`                                 — `merge_trees` (fuel = depth)
* `rwNode`, `rwList`, `rewrite`                — `blob/tree/rewrite.rs RewriteVisitor::process_node` driven by
  `blob/tree/modify.rs TreeModifier::modify_tree`; `rewrite` = `Rewriter::rewrite_tree` + the snapshot update of
  `commands/rewrite.rs` (a root that is itself excluded leaves the snapshot as it is)
* `repNode`, `repList`, `repairRoot`           — `commands/repair/snapshots.rs RepairState` driven by `modify_tree`
  (a tree is re-saved only if some node reports a change; file size corrections alone do not)
* `blobStep`, `blobLoop`                       — the `for blob in node.content` loop of `RepairState::process_node` as written:
  state `(file_changed, new_content, new_size)`; a missing blob SETS the flag (it is never cleared again), an indexed
  one is kept and its `data_length` added (`Lemmas.repNode_file_loop`: `repNode` on a file is exactly this loop).
  `blobStepLastOnly` / `blobLoopLastOnly`: the variant that ASSIGNS the flag for every blob (seeded change C12-4) —
  only the last blob decides; kept for the witness in `Props.C12`
* `copyStep`                                   — `commands/copy.rs copy`: needed blobs = reachable and not in the
  destination index; data copied first, then trees, through packers sharing one typed `Indexer.indexed` set
  (`copyStepUntyped`: the code before the repair 17c26ec)
-/
namespace Rustic.TreeOps

inductive Tr where
  | node (name key : Nat) (isDir : Bool) (tag : Nat) (sub : List Tr)
  deriving Repr

def Tr.name : Tr → Nat | .node n _ _ _ _ => n
def Tr.key : Tr → Nat | .node _ k _ _ _ => k
def Tr.isDir : Tr → Bool | .node _ _ d _ _ => d
def Tr.tag : Tr → Nat | .node _ _ _ t _ => t
def Tr.sub : Tr → List Tr | .node _ _ _ _ s => s

/-! ### merge -/

def find (n : Nat) : List Tr → Option Tr
  | [] => none
  | t :: l => if t.name = n then some t else find n l

def headName : List Tr → Option Nat
  | [] => none
  | t :: _ => some t.name

def heads (ts : List (List Tr)) : List Nat := ts.filterMap headName

def takeHead (m : Nat) : List Tr → Option Tr
  | [] => none
  | x :: _ => if x.name = m then some x else none

def dropHead (m : Nat) : List Tr → List Tr
  | [] => []
  | x :: r => if x.name = m then r else x :: r

def takeGroup (m : Nat) (ts : List (List Tr)) : List Tr := ts.filterMap (takeHead m)
def dropGroup (m : Nat) (ts : List (List Tr)) : List (List Tr) := ts.map (dropHead m)

def total (ts : List (List Tr)) : Nat := (ts.map List.length).sum

def minList : List Nat → Option Nat
  | [] => none
  | x :: l =>
    match minList l with
    | none => some x
    | some m => some (if x ≤ m then x else m)

def groups : Nat → List (List Tr) → List (List Tr)
  | 0, _ => []
  | f + 1, ts =>
    match minList (heads ts) with
    | none => []
    | some m => takeGroup m ts :: groups f (dropGroup m ts)

/-- `Iterator::max_by`: the last of several equally maximal elements -/
def lastMax : Tr → List Tr → Tr
  | w, [] => w
  | w, x :: l => lastMax (if w.key > x.key then w else x) l

def mergeNodes (rec : List (List Tr) → List Tr) : List Tr → Option Tr
  | [] => none
  | x :: l =>
    let w := lastMax x l
    some (if w.isDir then .node w.name w.key true w.tag (rec (((x :: l).filter (·.isDir)).map (·.sub))) else w)

def mergeTrees : Nat → List (List Tr) → List Tr
  | 0, _ => []
  | d + 1, ts => (groups (total ts) ts).filterMap (mergeNodes (mergeTrees d))

/-! ### rewrite -/

mutual
def rwNode (ex : List Nat → Bool → Bool) (path : List Nat) : Tr → Option Tr
  | .node name key isDir tag sub =>
    if ex (path ++ [name]) isDir then none
    else if isDir then some (.node name key isDir tag (rwList ex (path ++ [name]) sub))
    else some (.node name key isDir tag sub)
def rwList (ex : List Nat → Bool → Bool) (path : List Nat) : List Tr → List Tr
  | [] => []
  | t :: l =>
    match rwNode ex path t with
    | none => rwList ex path l
    | some t' => t' :: rwList ex path l
end

def rewrite (ex : List Nat → Bool → Bool) (root : List Tr) : List Tr :=
  if ex [] true then root else rwList ex [] root

/- pre-order listing with relative paths: (path, isDir, key, tag) -/
mutual
def listNode : Tr → List (List Nat × Bool × Nat × Nat)
  | .node name key isDir tag sub =>
    ([name], isDir, key, tag) :: (if isDir then (listList sub).map (fun e => (name :: e.1, e.2)) else [])
def listList : List Tr → List (List Nat × Bool × Nat × Nat)
  | [] => []
  | t :: l => listNode t ++ listList l
end

/-- is some component of the path `pre ++ rest` below `pre` excluded?  (`d` = is the last one a directory) -/
def blocked (ex : List Nat → Bool → Bool) : List Nat → List Nat → Bool → Bool
  | _, [], _ => false
  | pre, [n], d => ex (pre ++ [n]) d
  | pre, n :: m :: r, d => ex (pre ++ [n]) true || blocked ex (pre ++ [n]) (m :: r) d

/-! ### repair snapshots -/

/-- `st`: 0 = subtree readable (`sub`), 1 = directory node without subtree id, 2 = subtree cannot be read,
3 = subtree cannot be read and its id is the id of the empty tree -/
inductive RT where
  | file (name key tag : Nat) (size : Nat) (content : List Nat) (sfx : Bool)
  | other (name key tag : Nat)
  | dir (name key tag : Nat) (st : Nat) (sub : List RT)
  deriving Repr

/-- the index: data id ↦ `data_length` of its entry -/
abbrev Idx := Nat → Option Nat

mutual
def repNode (ix : Idx) : RT → RT × Bool
  | .file n k t _ content sfx =>
    let kept := content.filter (fun d => (ix d).isSome)
    let changed := kept.length != content.length
    let size := (kept.map (fun d => (ix d).getD 0)).sum
    (.file n k t size kept (sfx || changed), changed)
  | .other n k t => (.other n k t, false)
  | .dir n k t st sub =>
    if st = 0 then
      let r := repList ix sub
      (.dir n k t 0 r.1, r.2)
    -- unreadable subtree: processed as an empty *changed* tree and saved; `(new_id != id).then_some(..)` reports
    -- `Unchanged` when the lost tree was the empty tree (the blob is simply written again)
    else if st = 3 then (.dir n k t 0 [], false)
    else (.dir n k t 0 [], true)
def repNodes (ix : Idx) : List RT → List RT × Bool
  | [] => ([], false)
  | x :: l =>
    let a := repNode ix x
    let b := repNodes ix l
    (a.1 :: b.1, a.2 || b.2)
/-- one tree: re-saved (with the processed nodes) only when a node reported a change (then it differs from
the old one: a reported change always alters a content list or a subtree id) -/
def repList (ix : Idx) (l : List RT) : List RT × Bool :=
  let r := repNodes ix l
  if r.2 then (r.1, true) else (l, false)
end

/-- one pass of the blob loop of `process_node` (`NodeType::File`): `(file_changed, new_content, new_size)` -/
def blobStep (ix : Idx) (st : Bool × List Nat × Nat) (d : Nat) : Bool × List Nat × Nat :=
  match ix d with
  | none => (true, st.2.1, st.2.2)
  | some len => (st.1, st.2.1 ++ [d], st.2.2 + len)

def blobLoop (ix : Idx) (content : List Nat) : Bool × List Nat × Nat :=
  content.foldl (blobStep ix) (false, [], 0)

/-- NOT the code: the flag is assigned on every blob instead of accumulated (only the last blob decides) -/
def blobStepLastOnly (ix : Idx) (st : Bool × List Nat × Nat) (d : Nat) : Bool × List Nat × Nat :=
  match ix d with
  | none => (true, st.2.1, st.2.2)
  | some len => (false, st.2.1 ++ [d], st.2.2 + len)

def blobLoopLastOnly (ix : Idx) (content : List Nat) : Bool × List Nat × Nat :=
  content.foldl (blobStepLastOnly ix) (false, [], 0)

/-- the snapshot: `none` = left as it is ("snapshot is ok"), `some t` = replaced by a snapshot with tree `t` -/
def repairRoot (ix : Idx) (readable : Bool) (root : List RT) : Option (List RT) :=
  if !readable then some [] else  -- (an unreadable root whose id is the empty tree's is left as it is: driver)
  let r := repList ix root
  if r.2 then some r.1 else none

/-! ### copy -/

structure CTree where
  id : Nat
  kids : List Nat
  data : List Nat

structure Dest where
  trees : List Nat
  data : List Nat

/-- one `copy` run for the snapshots with the given root trees; `reach` = the trees the streamer yields.
Data blobs are copied first, then trees, through packers sharing one `Indexer.indexed` set — keyed by
(blob type, id) since the repair 17c26ec, so data ids never make the tree packer skip a tree. -/
def copyStep (dst : Dest) (roots : List Nat) (reach : List CTree) : Dest :=
  let needTrees := (roots ++ reach.flatMap (·.kids)).filter (fun t => !dst.trees.contains t)
  let needData := (reach.flatMap (·.data)).filter (fun d => !dst.data.contains d)
  { trees := dst.trees ++ needTrees, data := dst.data ++ needData }

/-- the same run with the *untyped* `Indexer.indexed` id set of the code before 17c26ec: after the data blobs
are copied their ids are in the set and the tree packer skips every tree with such an id -/
def copyStepUntyped (dst : Dest) (roots : List Nat) (reach : List CTree) : Dest :=
  let needTrees := (roots ++ reach.flatMap (·.kids)).filter (fun t => !dst.trees.contains t)
  let needData := (reach.flatMap (·.data)).filter (fun d => !dst.data.contains d)
  let copiedTrees := needTrees.filter (fun t => !needData.contains t)
  { trees := dst.trees ++ copiedTrees, data := dst.data ++ needData }

def destComplete (dst : Dest) (roots : List Nat) (reach : List CTree) : Bool :=
  roots.all dst.trees.contains && reach.all (fun t => t.kids.all dst.trees.contains && t.data.all dst.data.contains)

/-! #### the walk: which trees the streamer yields

`copy` starts `TreeStreamerOnce` from `snap_trees` = the root trees of ALL snapshots it was given — whether or not the
destination already has a root tree — and collects the needed blobs from every tree the walk yields; only the
NEEDED sets are filtered by the destination index.  The source is a term here (a snapshot's tree with its sub-trees;
shared sub-trees simply occur more than once — the streamer yields each tree once, which makes no difference to the
membership questions `copyStep` asks). -/

inductive STree where
  | node (id : Nat) (data : List Nat) (kids : List STree)

def STree.id : STree → Nat
  | .node i _ _ => i

mutual
/-- every tree at or below `s`, as the streamer yields it: id, ids of the sub-trees, chunk ids of the files -/
def STree.flatten : STree → List CTree
  | .node i d ks => ⟨i, ks.map STree.id, d⟩ :: STree.flattenL ks
def STree.flattenL : List STree → List CTree
  | [] => []
  | k :: ks => k.flatten ++ STree.flattenL ks
end

mutual
/-- the snapshot tree can be read completely from the destination: the tree blob, every chunk, every sub-tree -/
def STree.present (d : Dest) : STree → Bool
  | .node i dat ks => d.trees.contains i && dat.all d.data.contains && STree.presentL d ks
def STree.presentL (d : Dest) : List STree → Bool
  | [] => true
  | k :: ks => k.present d && STree.presentL d ks
end

/-- `copy(snapshots)`: the walk starts from ALL snapshot roots. -/
def copyRun (dst : Dest) (snaps : List STree) : Dest :=
  copyStep dst (snaps.map STree.id) (STree.flattenL snaps)

/-- the tempting shortcut (seeded change C12-3): walk only the snapshots whose root tree is missing in the destination -/
def copyRunMissingRootsOnly (dst : Dest) (snaps : List STree) : Dest :=
  copyStep dst (snaps.map STree.id) (STree.flattenL (snaps.filter (fun s => !dst.trees.contains s.id)))

/-! #### copy when writes to the destination fail

`copy.rs copy`: `copy_blobs(data)?` → `copy_blobs(trees)?` → `indexer.finalize()?` → `save_list(snapshots)?`.  `copy_blobs` runs
`copier.copy(..)` over the blobs (`try_for_each(..)?`) and then `copier.finalize()?`: the packer hands full packs to a writer thread;
a pack the backend fails to store makes that thread stop, which a LATER `copy()` of the same phase notices (closed channel) — for the
pack still open when the loop ends (for small copies: the only one) the failure surfaces ONLY as the result of `finalize()`. -/

/-- which writes of one `copy` run the destination backend fails: `data b` / `tree b` — the pack blob `b` was put in is not stored
(so `b` is not indexed either); `lastData b` / `lastTree b` — that pack is the one flushed by `copier.finalize()`; `index` / `snapshot`
— the index file / a snapshot file is not stored. -/
structure CopyFaults where
  data : Nat → Bool
  tree : Nat → Bool
  lastData : Nat → Bool
  lastTree : Nat → Bool
  index : Bool
  snapshot : Bool

/-- one `copy_blobs` phase over the needed blobs: (blobs stored and indexed, the phase returns an error).
`finalizeChecked = true` is copy.rs as it is (`_ = copier.finalize()?;`); `false` drops that result (seeded change C12-7). -/
def copyPhase (finalizeChecked : Bool) (fail last : Nat → Bool) (need : List Nat) : List Nat × Bool :=
  (need.filter (fun b => !fail b), need.any (fun b => fail b && (finalizeChecked || !last b)))

/-- `copy(snapshots)` under write faults: `none` = `copy` returned an error — the `?` after each step: nothing later runs, in
particular NO snapshot is saved; `some d` = `copy` returned Ok: the snapshots ARE saved, the destination index lists `d`. -/
def copyRunFaulty (finalizeChecked : Bool) (f : CopyFaults) (dst : Dest) (snaps : List STree) : Option Dest :=
  let roots := snaps.map STree.id
  let reach := STree.flattenL snaps
  let pd := copyPhase finalizeChecked f.data f.lastData ((reach.flatMap (·.data)).filter (fun d => !dst.data.contains d))
  if pd.2 then none else
  let pt := copyPhase finalizeChecked f.tree f.lastTree
    ((roots ++ reach.flatMap (·.kids)).filter (fun t => !dst.trees.contains t))
  if pt.2 then none else
  if f.index || f.snapshot then none else
  some { trees := dst.trees ++ pt.1, data := dst.data ++ pd.1 }

end Rustic.TreeOps
