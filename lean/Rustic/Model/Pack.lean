/-
Model M4 — `crates/core/src/repofile/packfile.rs`, `crates/core/src/blob/packer.rs` (C08; the index model
of C17 uses the blob / size part through `IndexPack::pack_size`).

Executable, imports only the generated constants (`HeaderEntry::ENTRY_LEN`, `ENTRY_LEN_COMPRESSED`,
`constants::COMP_OVERHEAD`, `constants::LENGTH_LEN` — regenerated from the Rust source on every run).

Correspondence with the Rust code:
* `BlobType`, `Location`, `IndexBlob`     — `blob.rs BlobType / BlobLocation`, `indexfile.rs IndexBlob`.
   Ids are `Nat`s: the big-endian value of the 32 id bytes, so `<` on `Nat` is the derived `Ord` of
   `Id([u8; 32])` (lexicographic on equal-length arrays).  `ulen = some n` is `Some(NonZeroU32)`.
* `entryLen`        — `HeaderEntry::from_blob(blob).length()`.
* `headerSize`      — `PackHeaderRef::size`      (fold from `COMP_OVERHEAD`).
* `packSize`        — `PackHeaderRef::pack_size` (fold from `COMP_OVERHEAD + LENGTH_LEN`).
   The Rust arithmetic is `u32`; the model is in `Nat` (no wrap) — `FitsU32` names the side condition.
* `le32`/`beId`, `encodeEntry`, `toBinary`   — binrw little-endian `HeaderEntry::write` / `PackHeaderRef::to_binary`.
* `decodeEntry`, `fromBinaryAux`, `fromBinary` — `HeaderEntry::read` / `PackHeader::from_binary` (offsets recomputed
   cumulatively, `NonZeroU32::new(len_data)`, EOF rule of `binrw::Error::is_eof`).
* `fromFile`        — `PackHeader::from_file` incl. the size-hint guess, the re-read and the three checks.
* `Packer`, `addRaw`, `writeHeader`, `finish` — `BasicPacker::{add_raw, write_header, take_data}` bookkeeping.
-/
import Rustic.Gen.Constants
namespace Rustic.Pack

abbrev Bytes := List UInt8

inductive BlobType where
  | tree
  | data
  deriving DecidableEq, Repr, Inhabited

/-- `BlobLocation` -/
structure Location where
  offset : Nat
  length : Nat
  /-- `uncompressed_length: Option<NonZeroU32>` -/
  ulen : Option Nat
  deriving DecidableEq, Repr, Inhabited

/-- `IndexBlob` -/
structure IndexBlob where
  id : Nat
  tpe : BlobType
  loc : Location
  deriving DecidableEq, Repr, Inhabited

/-- `HeaderEntry::from_blob(blob).length()`: 37 for uncompressed, 41 for compressed entries. -/
def entryLen (b : IndexBlob) : Nat :=
  match b.loc.ulen with
  | none => Rustic.Gen.PACK_ENTRY_LEN
  | some _ => Rustic.Gen.PACK_ENTRY_LEN_COMPRESSED

/-- `PackHeaderRef::size` -/
def headerSize (bs : List IndexBlob) : Nat :=
  bs.foldl (fun acc b => acc + entryLen b) Rustic.Gen.PACK_COMP_OVERHEAD

/-- `PackHeaderRef::pack_size` -/
def packSize (bs : List IndexBlob) : Nat :=
  bs.foldl (fun acc b => acc + b.loc.length + entryLen b)
    (Rustic.Gen.PACK_COMP_OVERHEAD + Rustic.Gen.PACK_LENGTH_LEN)

/-! ### binary header format (`HeaderEntry`, binrw little-endian) -/

/-- a `u32` in little-endian byte order (`#[brw(little)]`) -/
def le32 (n : Nat) : Bytes :=
  [UInt8.ofNat n, UInt8.ofNat (n / 256), UInt8.ofNat (n / 65536), UInt8.ofNat (n / 16777216)]

/-- value of (the first) four little-endian bytes; a shorter slice is treated like the caller never passes it -/
def le32Val : Bytes → Nat
  | a :: b :: c :: d :: _ => a.toNat + 256 * b.toNat + 65536 * c.toNat + 16777216 * d.toNat
  | _ => 0

/-- `k` bytes, big-endian (`Id` is written as its 32 raw bytes; as a number that is big-endian) -/
def beBytes : Nat → Nat → Bytes
  | 0, _ => []
  | k + 1, n => beBytes k (n / 256) ++ [UInt8.ofNat n]

def beVal (bs : Bytes) : Nat := bs.foldl (fun acc b => acc * 256 + b.toNat) 0

/-- length of the id field -/
def ID_LEN : Nat := 32

/-- `HeaderEntry::from_blob(blob)` followed by `.write()`:
magic 0 = Data, 1 = Tree, 2 = CompData, 3 = CompTree; `len`, (`len_data`,) `id`. -/
def encodeEntry (b : IndexBlob) : Bytes :=
  match b.loc.ulen, b.tpe with
  | none, .data => 0 :: (le32 b.loc.length ++ beBytes ID_LEN b.id)
  | none, .tree => 1 :: (le32 b.loc.length ++ beBytes ID_LEN b.id)
  | some u, .data => 2 :: (le32 b.loc.length ++ le32 u ++ beBytes ID_LEN b.id)
  | some u, .tree => 3 :: (le32 b.loc.length ++ le32 u ++ beBytes ID_LEN b.id)

/-- `PackHeaderRef::to_binary` -/
def toBinary (bs : List IndexBlob) : Bytes := bs.flatMap encodeEntry

/-- result of one `HeaderEntry::read` -/
inductive Decoded where
  /-- clean end of input (`err.is_eof()`: no byte left for the magic) -/
  | eof
  /-- unknown magic, or input ends inside an entry -/
  | bad
  /-- `(type, len, NonZeroU32::new(len_data), id)` and the unread rest -/
  | entry (tpe : BlobType) (len : Nat) (ulen : Option Nat) (id : Nat) (rest : Bytes)

def nonZero (n : Nat) : Option Nat := if n = 0 then none else some n

/-- fewer than `k` bytes left (looks at the first `k` bytes only, so that parsing a header of n entries is linear) -/
def shorterThan (r : Bytes) (k : Nat) : Bool := (r.take k).length < k

theorem shorterThan_iff (r : Bytes) (k : Nat) : shorterThan r k = true ↔ r.length < k := by
  simp only [shorterThan, List.length_take, decide_eq_true_eq]; omega

/-- `HeaderEntry::read` -/
def decodeEntry (bs : Bytes) : Decoded :=
  match bs with
  | [] => .eof
  | m :: r =>
    if m = 0 ∨ m = 1 then
      if shorterThan r (4 + ID_LEN) then .bad else
      .entry (if m = 0 then .data else .tree) (le32Val r) none (beVal ((r.drop 4).take ID_LEN)) (r.drop (4 + ID_LEN))
    else if m = 2 ∨ m = 3 then
      if shorterThan r (8 + ID_LEN) then .bad else
      .entry (if m = 2 then .data else .tree) (le32Val r) (nonZero (le32Val (r.drop 4)))
        (beVal ((r.drop 8).take ID_LEN)) (r.drop (8 + ID_LEN))
    else .bad

/-- the loop of `PackHeader::from_binary` (`offset += blob.location.length`); the first argument is fuel. -/
def fromBinaryAux : Nat → Bytes → Nat → Option (List IndexBlob)
  | 0, _, _ => none
  | fuel + 1, bs, offset =>
    match decodeEntry bs with
    | .eof => some []
    | .bad => none
    | .entry tpe len ulen id rest =>
      match fromBinaryAux fuel rest (offset + len) with
      | none => none
      | some blobs => some ({ id := id, tpe := tpe, loc := { offset := offset, length := len, ulen := ulen } } :: blobs)

/-- `PackHeader::from_binary` (`none` = `Err(ReadingBinaryRepresentationFailed)`) -/
def fromBinary (bs : Bytes) : Option (List IndexBlob) := fromBinaryAux (bs.length + 1) bs 0

/-- offsets recomputed cumulatively from `off` (what `from_binary` does with the lengths it reads) -/
def reoffset (off : Nat) : List IndexBlob → List IndexBlob
  | [] => []
  | b :: bs => { b with loc := { b.loc with offset := off } } :: reoffset (off + b.loc.length) bs

/-! ### `BasicPacker` (bookkeeping only, no I/O) -/

/-- `BasicPacker`: `blob_type`, `file` (the chunks written so far), `size`, `count`, `index.blobs`. -/
structure Packer where
  blobType : BlobType
  file : List Bytes := []
  size : Nat := 0
  count : Nat := 0
  blobs : List IndexBlob := []
  deriving Repr

/-- `BasicPacker::has` -/
def Packer.has (p : Packer) (id : Nat) : Bool := p.blobs.any (fun b => b.id == id)

/-- `BasicPacker::write_data` -/
def Packer.writeData (p : Packer) (data : Bytes) : Packer :=
  { p with file := p.file ++ [data], size := p.size + data.length }

/-- `BasicPacker::add_raw`: a blob already in this pack is skipped; `offset = self.size` before the write,
`len = data.len()`, type = the packer's type. -/
def Packer.addRaw (p : Packer) (data : Bytes) (id : Nat) (ulen : Option Nat) : Packer :=
  if p.has id then p else
  let offset := p.size
  let p' := p.writeData data
  { p' with blobs := p'.blobs ++ [{ id := id, tpe := p.blobType, loc := { offset := offset, length := data.length, ulen := ulen } }]
            count := p'.count + 1 }

/-- `BasicPacker::new` -/
def Packer.new (t : BlobType) : Packer := { blobType := t }

/-- any sequence of `add_raw(data, id, _, uncompressed_length)` calls -/
def Packer.run (p : Packer) (adds : List (Bytes × Nat × Option Nat)) : Packer :=
  adds.foldl (fun p a => p.addRaw a.1 a.2.1 a.2.2) p

/-- `BasicPacker::header_bytes` -/
def Packer.headerBytes (p : Packer) : Bytes := toBinary p.blobs

/-- `BasicPacker::write_header(header)`: the (already encrypted) header, then its length as `u32` LE. -/
def Packer.writeHeader (p : Packer) (header : Bytes) : Packer :=
  (p.writeData header).writeData (le32 header.length)

/-- `RawPacker::save` up to `take_data`: the pack file bytes and the blob list that goes to the index
(`enc` = `key.encrypt_data`). -/
def Packer.finish (enc : Bytes → Bytes) (p : Packer) : Bytes × List IndexBlob :=
  (((p.writeHeader (enc p.headerBytes)).file).flatten, p.blobs)

/-! ### `PackHeader::from_file` -/

inductive FileErr where
  /-- `read_partial` failed (range outside the file) -/
  | backend
  /-- pack smaller than the length field / header length field larger than the pack -/
  | tooLarge
  /-- `be.decrypt` failed -/
  | decrypt
  /-- `from_binary` failed -/
  | parse
  /-- "Read header length doesn't match header contents" -/
  | headerSize
  /-- "pack size computed from header doesn't match real pack file size" -/
  | packSize
  deriving DecidableEq, Repr

/-- `be.read_partial(FileType::Pack, &id, false, offset, length)` on a store holding `file` -/
def readPartial (file : Bytes) (offset length : Nat) : Option Bytes :=
  if offset + length ≤ file.length then some ((file.drop offset).take length) else none

/-- `PackHeader::from_file(be, id, size_hint, pack_size)` (as repaired by the `fix:` commit: the guess is clamped
to the pack, a pack shorter than the length field and an oversized length field are errors instead of
`u32` underflow/overflow). -/
def fromFile (dec : Bytes → Option Bytes) (file : Bytes) (sizeHint : Option Nat) (packSz : Nat) :
    Except FileErr (List IndexBlob) :=
  if packSz < Rustic.Gen.PACK_LENGTH_LEN then .error .tooLarge else
  let sizeGuess := min (sizeHint.getD 0) (packSz - Rustic.Gen.PACK_LENGTH_LEN)
  let readSize := sizeGuess + Rustic.Gen.PACK_LENGTH_LEN
  let offset := packSz - readSize
  match readPartial file offset readSize with
  | none => .error .backend
  | some data =>
    let sizeReal := le32Val (data.drop sizeGuess)
    if sizeReal + Rustic.Gen.PACK_LENGTH_LEN > packSz then .error .tooLarge else
    let hdr? :=
      if sizeReal ≤ sizeGuess then some ((data.take sizeGuess).drop (sizeGuess - sizeReal))
      else readPartial file (packSz - sizeReal - Rustic.Gen.PACK_LENGTH_LEN) sizeReal
    match hdr? with
    | none => .error .backend
    | some hdr =>
      match dec hdr with
      | none => .error .decrypt
      | some plain =>
        match fromBinary plain with
        | none => .error .parse
        | some blobs =>
          if headerSize blobs ≠ sizeReal then .error .headerSize
          else if packSize blobs ≠ packSz then .error .packSize
          else .ok blobs

/-! ### the `cacheable` flag of ranged pack reads (C08 round 3)

* `headerReadCacheable` — the third argument of BOTH `be.read_partial(FileType::Pack, &id, false, ..)` calls in
  `PackHeader::from_file` (the guessed tail and the re-read): `false`, whatever kind of pack it is (the function does not
  know the pack's blob type).
* `blobReadCacheable`   — blob reads (`IndexEntry::read_data`, the repacker): `self.blob_type.is_cacheable()`
  (`blob.rs BlobType::is_cacheable`: `Tree => true, Data => false`).
On a hot/cold repository a `cacheable` pack read is served by the HOT part (`Model/HotCold.lean usesHot`), which holds
tree packs only. -/
def headerReadCacheable (_t : BlobType) : Bool := false

def blobReadCacheable : BlobType → Bool
  | .tree => true
  | .data => false

end Rustic.Pack
