/-
Model M4 — `crates/core/src/repofile/packfile.rs`, `crates/core/src/blob/packer.rs` (C08; the index model
of C17 uses the blob / size part through `IndexPack::pack_size`).

Executable, imports only the generated constants (`HeaderEntry::ENTRY_LEN`, `ENTRY_LEN_COMPRESSED`,
`constants::COMP_OVERHEAD`, `constants::LENGTH_LEN` — regenerated from the Rust source on every run).

Correspondence with the Rust code:
* `BlobType`, `Location`, `IndexBlob`     — `blob.rs BlobType / BlobLocation`, `indexfile.rs IndexBlob`.
   Ids are `Nat`s: the big-endian value of the 32 id bytes, so `<` on `Nat` is the derived `Ord` of
   `Id([u8; 32])` (lexicographic on equal-length arrays).  `ulen = some n` is `Some(NonZeroU32)`.
* `entryLen`        — `HeaderEntry::from_blob(blob).length()`.
* `headerSize`      — `PackHeaderRef::size`      (fold from `COMP_OVERHEAD`).
* `packSize`        — `PackHeaderRef::pack_size` (fold from `COMP_OVERHEAD + LENGTH_LEN`).
   The Rust arithmetic is `u32`; the model is in `Nat` (no wrap) — `FitsU32` names the side condition.
* `le32`/`beId`, `encodeEntry`, `toBinary`   — binrw little-endian `HeaderEntry::write` / `PackHeaderRef::to_binary`.
* `decodeEntry`, `fromBinaryAux`, `fromBinary` — `HeaderEntry::read` / `PackHeader::from_binary` (offsets recomputed
   cumulatively, `NonZeroU32::new(len_data)`, EOF rule of `binrw::Error::is_eof`).
* `fromFile`        — `PackHeader::from_file` incl. the size-hint guess, the re-read and the three checks.
* `Packer`, `addRaw`, `writeHeader`, `finish` — `BasicPacker::{add_raw, write_header, take_data}` bookkeeping.
-/
import Rustic.Gen.Constants
namespace Rustic.Pack

abbrev Bytes := List UInt8

inductive BlobType where
  | tree
  | data
  deriving DecidableEq, Repr, Inhabited

/-- `BlobLocation` -/
structure Location where
  offset : Nat
  length : Nat
  /-- `uncompressed_length: Option<NonZeroU32>` -/
  ulen : Option Nat
  deriving DecidableEq, Repr, Inhabited

/-- `IndexBlob` -/
structure IndexBlob where
  id : Nat
  tpe : BlobType
  loc : Location
  deriving DecidableEq, Repr, Inhabited

/-- `HeaderEntry::from_blob(blob).length()`: 37 for uncompressed, 41 for compressed entries. -/
def entryLen (b : IndexBlob) : Nat :=
  match b.loc.ulen with
  | none => Rustic.Gen.PACK_ENTRY_LEN
  | some _ => Rustic.Gen.PACK_ENTRY_LEN_COMPRESSED

/-- `PackHeaderRef::size` -/
def headerSize (bs : List IndexBlob) : Nat :=
  bs.foldl (fun acc b => acc + entryLen b) Rustic.Gen.PACK_COMP_OVERHEAD

/-- `PackHeaderRef::pack_size` -/
def packSize (bs : List IndexBlob) : Nat :=
  bs.foldl (fun acc b => acc + b.loc.length + entryLen b)
    (Rustic.Gen.PACK_COMP_OVERHEAD + Rustic.Gen.PACK_LENGTH_LEN)

end Rustic.Pack
