/-
Model/Interleave.lean — two kinds of actors (backups, prunes) interleaving single steps on one repository, with
ghost fields (DESIGN §6 C10).  Import-free except for the protocol model.

The storage is abstracted to what the invariant is about: for every pack whether it is stored, and how the index
files list it — `unmarked` (visible to `GlobalIndex::new`, index.rs `new_from_collector` reads only `.packs`),
`marked t` (in `packs_to_delete` with mark time `t`, invisible to new index loads but still present) or not at all.

* `Backup`  — ghost state of a running backup: `t0` = time of its index load (`Repository::to_indexed_ids`),
              `relied` = blob keys it does not upload because its loaded index had them (dedup filters in
              `blob/packer.rs`), `written` = packs it wrote itself.
* `Prune`   — a running prune: its plan was computed from one read of index files + snapshots at plan time `pn`
              (`PrunePlan::from_prune_options`): `toDelete` ⊆ packs that were marked with `t + keep_delete ≤ pn` and
              hold no used blob (`decide_packs (true, 0, _)`), `toMark` = unmarked packs without used blob.
* `Step`    — one storage-visible step of an actor (backup, prune, forget) or a clock tick.
-/
import Rustic.Model.Repo
namespace Rustic.Interleave
open Rustic.Repo (Key)

inductive Status | unmarked | marked (t : Int) | unlisted
deriving DecidableEq, Repr, Inhabited

structure PackSt where
  id : Nat
  blobs : List Key
  stored : Bool
  status : Status
deriving Repr, Inhabited

structure Backup where
  t0 : Int
  relied : List Key
  written : List Nat
deriving Repr, Inhabited

structure Prune where
  pn : Int
  toDelete : List Nat
  toMark : List Nat
deriving Repr, Inhabited

structure St where
  now : Int
  keepDelete : Int
  /-- bound on the time between a prune's plan (`pn`, which is also the time its marks carry: `prune_time =
      plan.time`) and the moment its new index is written; `none` = no bound (the property as literally stated) -/
  pruneSpan : Option Nat := some 0
  packs : List PackSt
  snaps : List (List Key)        -- closures of the visible snapshots
  backups : List Backup          -- running backups
  prunes : List Prune            -- running prunes
deriving Repr, Inhabited

/-- `k` can be read through a freshly loaded index. -/
def visible (s : St) (k : Key) : Bool :=
  s.packs.any (fun p => p.stored && p.status == .unmarked && p.blobs.contains k)

/-- `k` is not lost: some stored pack holds it and the index still lists that pack — unmarked, or marked at `t ≥ since`
(so it stays until `t + keep_delete`, and the next prune recovers it). -/
def kept (s : St) (since : Int) (k : Key) : Bool :=
  s.packs.any (fun p => p.stored && p.blobs.contains k &&
    (match p.status with
     | .unmarked => true
     | .marked t => decide (since ≤ t)
     | .unlisted => false))

/-- marked packs that a prune whose plan is computed now (time `pn`) may delete: marked long enough ago, no blob used
by a visible snapshot. -/
def deletable (s : St) (pn : Int) (p : PackSt) : Bool :=
  (match p.status with
   | .marked t => decide (t + s.keepDelete ≤ pn)
   | _ => false) && !(s.snaps.any (fun c => c.any (fun k => p.blobs.contains k)))

def unusedUnmarked (s : St) (p : PackSt) : Bool :=
  p.status == .unmarked && !(s.snaps.any (fun c => c.any (fun k => p.blobs.contains k)))

inductive Step
  | tick (d : Nat)
  /-- a backup loads the index (`t0 := now`) and decides which keys it will not upload -/
  | backupStart (relied : List Key)
  /-- backup `i` writes a pack and (later) an index file listing it: the pack becomes stored + unmarked -/
  | backupWrite (i : Nat) (id : Nat) (blobs : List Key)
  /-- backup `i` saves its snapshot (closure ⊆ relied ∪ own packs) and ends -/
  | backupFinish (i : Nat) (closure : List Key)
  /-- a prune reads index + snapshots and plans (plan time = now) -/
  | pruneStart (toDelete toMark : List Nat)
  /-- prune `j`'s rebuilt index takes effect (new index file written AND the old index files, which still list the packs
      unmarked, removed): planned packs become marked with time `pn` and stop being visible to new index loads -/
  | pruneRewrite (j : Nat)
  /-- prune `j` removes a pack file of its plan -/
  | pruneRemove (j : Nat) (id : Nat)
  | pruneEnd (j : Nat)
  /-- `forget`: the i-th visible snapshot file is removed (what only it used becomes unused for later plans) -/
  | forget (i : Nat)
deriving Repr, Inhabited

def setAt {α} (l : List α) (i : Nat) (a : α) : List α := l.set i a

/-- the span of `s` as a number (`none` is only used by the negative witness) -/
def spanOf (s : St) : Nat := s.pruneSpan.getD 0

/-- what `pruneRewrite` of plan `pr` does to one pack: planned unmarked packs get marked with the PLAN time, packs planned
for deletion leave the index; every other pack — in particular a marked pack that stays marked (`KeepMarked`:
`prune_repository` writes it to the rebuilt index with `into_index_pack`, i.e. WITH its blob list and its old mark time) — is
listed in the rebuilt index exactly as before.  No branch touches `blobs`. -/
def rewritePack (pr : Prune) (p : PackSt) : PackSt :=
  if pr.toMark.contains p.id && p.status == .unmarked then { p with status := .marked pr.pn }
  else if pr.toDelete.contains p.id then { p with status := .unlisted }
  else p

def removePack (id : Nat) (p : PackSt) : PackSt := if p.id == id then { p with stored := false } else p

/-- guards follow the code: a backup only relies on keys visible in the index it loaded; a plan only deletes packs
that are `deletable` and only marks packs that are unused at plan time; the snapshot is saved while
`now + pruneSpan < t0 + keep_delete` (the property's hypothesis "keep-delete exceeds the backup's duration", plus
the time a prune may take between planning and writing its index — its marks carry the *plan* time). -/
def step (s : St) : Step → Option St
  | .tick d => some { s with now := s.now + d }
  | .backupStart relied =>
    if relied.all (visible s) then some { s with backups := s.backups ++ [{ t0 := s.now, relied := relied, written := [] }] }
    else none
  | .backupWrite i id blobs =>
    match s.backups[i]? with
    | none => none
    | some b =>
      if s.packs.any (fun p => p.id == id) then none else
      some { s with packs := s.packs ++ [{ id := id, blobs := blobs, stored := true, status := .unmarked }],
                    backups := setAt s.backups i { b with written := id :: b.written } }
  | .backupFinish i closure =>
    match s.backups[i]? with
    | none => none
    | some b =>
      let own := s.packs.filter (fun p => b.written.contains p.id)
      if closure.all (fun k => b.relied.contains k || own.any (fun p => p.blobs.contains k))
          && decide (s.now + (spanOf s : Nat) < b.t0 + s.keepDelete) then
        some { s with snaps := closure :: s.snaps, backups := s.backups.eraseIdx i }
      else none
  | .pruneStart toDelete toMark =>
    if toDelete.all (fun id => s.packs.any (fun p => p.id == id && deletable s s.now p))
        && toMark.all (fun id => s.packs.any (fun p => p.id == id && unusedUnmarked s p)) then
      some { s with prunes := s.prunes ++ [{ pn := s.now, toDelete := toDelete, toMark := toMark }] }
    else none
  | .pruneRewrite j =>
    match s.prunes[j]? with
    | none => none
    | some pr =>
      if !(match s.pruneSpan with | some d => decide (s.now ≤ pr.pn + (d : Nat)) | none => true) then none else
      some { s with packs := s.packs.map (rewritePack pr) }
  | .pruneRemove j id =>
    match s.prunes[j]? with
    | none => none
    | some pr =>
      if pr.toDelete.contains id then
        some { s with packs := s.packs.map (removePack id) }
      else none
  | .pruneEnd j => if j < s.prunes.length then some { s with prunes := s.prunes.eraseIdx j } else none
  | .forget i => if i < s.snaps.length then some { s with snaps := s.snaps.eraseIdx i } else none

def run (s : St) : List Step → Option St
  | [] => some s
  | a :: as => match step s a with
    | none => none
    | some s' => run s' as

/-- **nothing is lost**: every key of every visible snapshot is in a stored pack that the index still lists (unmarked, or
marked — then the next prune recovers it); every key a running backup relies on is `kept` since `t0 - span` (a prune that
planned up to `span` before the backup's index load may still mark the pack with its plan time) for as long as the backup
is within the hypothesis `now + span < t0 + keep_delete`. -/
def noLoss (s : St) : Bool :=
  s.snaps.all (fun c => c.all (fun k => s.packs.any (fun p => p.stored && p.blobs.contains k && p.status != .unlisted)))
  && s.backups.all (fun b => !decide (s.now + (spanOf s : Nat) < b.t0 + s.keepDelete) || b.relied.all (kept s (b.t0 - (spanOf s : Nat))))

/-- The follow-up prune in a quiescent state (no running actor), as one atomic step (C02 decision table): marked packs
holding a blob some snapshot uses are recovered (`Recover`), marked unused packs that are old enough are deleted,
unmarked unused packs are marked.  The ORDER of the tests is the code's (`decide_packs`: `(true, 1.., _) => Recover` looks at
the use only; the age `t + keep_delete ≤ plan time` is tested in the arm `(true, 0, _)`, i.e. for unused packs only): a needed
marked pack is recovered however old its mark is. -/
def followupPrune (s : St) : St :=
  { s with packs := s.packs.map (fun p =>
      let used := s.snaps.any (fun c => c.any (fun k => p.blobs.contains k))
      match p.status with
      | .marked t => if used then { p with status := .unmarked }
                     else if decide (t + s.keepDelete ≤ s.now) then { p with status := .unlisted, stored := false } else p
      | .unmarked => if used then p else { p with status := .marked s.now }
      | .unlisted => p) }

/-- every key of every visible snapshot can be read through a freshly loaded index -/
def allVisible (s : St) : Bool := s.snaps.all (fun c => c.all (visible s))

/-! ### witness schedule (used by Props/C10 and replayed on the real code by `c10 slowprune`) -/

def k1 : Key := (Rustic.Repo.BlobType.data, 1)
/-- pack 1 holds `k1`; only a forgotten snapshot used it. keep-delete = 23 h (82800 s). -/
def w0 (span : Option Nat) : St :=
  { now := 0, keepDelete := 82800, pruneSpan := span, snaps := [], backups := [], prunes := [],
    packs := [{ id := 1, blobs := [k1], stored := true, status := .unmarked }] }

/-- **The literal hypothesis is not enough** (`pruneSpan = none`): prune A plans at 0 and intends to mark pack 1;
a backup starts at 59 min and relies on `k1` (pack 1 is still unmarked); A writes its index at 1 h — the mark carries
the plan time 0; prune C plans at 23 h 10 and deletes pack 1 (0 + 23 h ≤ 23 h 10); the backup finishes at 23 h 11
after running 22 h 12 < keep-delete — and its snapshot needs a blob that is gone. -/
def slowPruneRun : List Step :=
  [.pruneStart [] [1], .tick 3540, .backupStart [k1], .tick 60, .pruneRewrite 0, .pruneEnd 0,
   .tick 79800, .pruneStart [1] [], .pruneRewrite 0, .pruneRemove 0 1, .pruneEnd 0, .tick 60, .backupFinish 0 [k1]]

/-- backup A relies on `k1` (pack 1), the only snapshot using it is forgotten, prune 1 marks pack 1 (time 100); ANOTHER backup
writes pack 2 and finishes; prune 2 rewrites the index 10 min after prune 1 (pack 1 stays marked); A finishes; 25 h pass.
(Props/C10 `two_prunes_with_backup_between_keeps`; harness: `bfp` with `Fp.mid_backup` and `Fp.late_followup`.) -/
def twoPrunesBackupBetween : List Step :=
  [.tick 100, .backupStart [k1], .forget 0, .pruneStart [] [1], .pruneRewrite 0, .pruneEnd 0, .tick 300, .backupStart [],
   .backupWrite 1 2 [(Rustic.Repo.BlobType.data, 2)], .backupFinish 1 [(Rustic.Repo.BlobType.data, 2)], .tick 300,
   .pruneStart [] [], .pruneRewrite 0, .pruneEnd 0, .tick 60, .backupFinish 0 [k1], .tick 90000]

end Rustic.Interleave
