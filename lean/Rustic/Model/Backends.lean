/-
Model M15a — local storage backends (`crates/backend/src/local.rs`, `crates/backend/src/opendal.rs`,
`crates/core/src/id.rs`).  Import-free, executable.

The directory backend is modelled over a *file-system state* `FS` (regular files only: relative path ↦
bytes), so that stray / temporary files, the two-step publish (`<name>-tmp-` then `rename`) and the
recursive listing filter are all in the model.

Correspondence with the Rust code:
* `FileType.dirname`      — `FileType::dirname` (`crates/core/src/backend.rs`).
* `isHexChar`/`lowerHex`/`parseSome L` — `Id::parse_some` = `hex::decode_to_slice(name, &mut [0; LEN])` followed by the
                            lower-case `Id::to_hex` every caller prints: accepted iff exactly `L = 2·LEN` characters,
                            all hex digits **of either case** (the `hex` crate accepts `A-F`); the result is the
                            lower-cased name.  `L` is a parameter (regenerated constant `ID_HEX_LEN`).
* `baseDir`/`fileName`/`path` — `LocalBackend::{base_path, filename, path}` (and `OpenDALBackend::path`).
* `tmpPath`               — `parent.join(Self::filename(tpe, id) + "-tmp-")` in `write_bytes`.
* `writeTmp`              — `write_local_file(&filename_tmp, …)` (create+truncate, set_len, copy, sync_all): the state
                            at the crash point / at the `verif_hooks::pre_publish` callback.
* `publish`               — `fs::rename(&filename_tmp, &filename)`.
* `writeBytes`            — `write_bytes` = `publish ∘ writeTmp`.
* `remove`                — `fs::remove_file` (error when the file does not exist; `flavor.removeMissingOk` for OpenDAL
                            whose `delete` is idempotent).
* `readFull`              — `fs::read`.
* `readPartial`           — `File::open; seek(offset); read_exact(vec![0; length])`: fails iff fewer than `length`
                            bytes remain (a zero-length read succeeds at any offset); OpenDAL (`read_options` with a
                            range): same, except that an empty range is answered without opening the file.
* `listWithSize`/`list`   — `WalkDir::new(path.join(tpe.dirname()))` (recursive, any depth), `is_file`, last path
                            component through `Id::parse_some`, `metadata.len()` converted to `u32` (entry dropped when
                            it does not fit); `Config`: existence / size of `<root>/config` under `Id::default()`.
-/
namespace Rustic.Backends

abbrev Bytes := List UInt8
abbrev Name := List Char
abbrev Path := List Name

inductive FileType where
  | config | index | key | snapshot | pack
  deriving DecidableEq, Repr

def nConfig : Name := ['c', 'o', 'n', 'f', 'i', 'g']
def nSnapshots : Name := ['s', 'n', 'a', 'p', 's', 'h', 'o', 't', 's']
def nIndex : Name := ['i', 'n', 'd', 'e', 'x']
def nKeys : Name := ['k', 'e', 'y', 's']
def nData : Name := ['d', 'a', 't', 'a']

def FileType.dirname : FileType → Name
  | .config => nConfig
  | .snapshot => nSnapshots
  | .index => nIndex
  | .key => nKeys
  | .pack => nData

/-! ### `Id::parse_some` -/

/-- The characters `hex::decode_to_slice` accepts (`b'0'..=b'9' | b'a'..=b'f' | b'A'..=b'F'`). -/
def hexDigits : List Char :=
  ['0', '1', '2', '3', '4', '5', '6', '7', '8', '9', 'a', 'b', 'c', 'd', 'e', 'f', 'A', 'B', 'C', 'D', 'E', 'F']

def isHexChar (c : Char) : Bool := hexDigits.contains c

/-- decode (either case) then `to_hex` (lower case) -/
def lowerHex (c : Char) : Char :=
  if c = 'A' then 'a' else if c = 'B' then 'b' else if c = 'C' then 'c' else if c = 'D' then 'd'
  else if c = 'E' then 'e' else if c = 'F' then 'f' else c

/-- `Id::parse_some(name).map(|id| id.to_hex())` with `L` hex characters per id. -/
def parseSome (L : Nat) (name : Name) : Option Name :=
  if name.length = L && name.all isHexChar then some (name.map lowerHex) else none

/-- `Id::default().to_hex()`. -/
def zeroId (L : Nat) : Name := List.replicate L '0'

/-! ### file-system state -/

abbrev FS := List (Path × Bytes)

def fget (fs : FS) (p : Path) : Option Bytes :=
  match fs with
  | [] => none
  | (q, b) :: rest => if q = p then some b else fget rest p

def fdel : FS → Path → FS
  | [], _ => []
  | (q, b) :: rest, p => if q = p then fdel rest p else (q, b) :: fdel rest p

def fput (fs : FS) (p : Path) (b : Bytes) : FS := (p, b) :: fdel fs p

/-! ### `LocalBackend` paths -/

def baseDir (t : FileType) (id : Name) : Path :=
  match t with
  | .config => []
  | .pack => [nData, id.take 2]
  | _ => [t.dirname]

def fileName (t : FileType) (id : Name) : Name :=
  match t with
  | .config => nConfig
  | _ => id

def path (t : FileType) (id : Name) : Path := baseDir t id ++ [fileName t id]

def tmpSuffix : Name := ['-', 't', 'm', 'p', '-']

def tmpPath (t : FileType) (id : Name) : Path := baseDir t id ++ [fileName t id ++ tmpSuffix]

/-! ### operations -/

inductive Res (α : Type) where
  | ok (a : α)
  | err
  deriving DecidableEq, Repr

/-- State after the temporary file has been written and synced, before the rename (crash point). -/
def writeTmp (fs : FS) (t : FileType) (id : Name) (c : Bytes) : FS := fput fs (tmpPath t id) c

/-- `fs::rename(tmp, final)`. -/
def publish (fs : FS) (t : FileType) (id : Name) : FS :=
  match fget fs (tmpPath t id) with
  | some c => fput (fdel fs (tmpPath t id)) (path t id) c
  | none => fs

def writeBytes (fs : FS) (t : FileType) (id : Name) (c : Bytes) : FS :=
  publish (writeTmp fs t id c) t id

/-- Behavioural differences between the directory backend and the object-store adapter. -/
structure Flavor where
  /-- removing a file that does not exist is `Ok` (OpenDAL `delete`), not an error (`fs::remove_file`) -/
  removeMissingOk : Bool
  /-- a zero-length ranged read is answered without opening the file (OpenDAL), so it succeeds on absent files -/
  emptyRangeNoOpen : Bool
  /-- `write_bytes` goes through `<name>-tmp-` + rename (directory backend); OpenDAL writes the final path directly -/
  tmpPublish : Bool
  deriving Repr

def Flavor.local : Flavor := { removeMissingOk := false, emptyRangeNoOpen := false, tmpPublish := true }
def Flavor.opendal : Flavor := { removeMissingOk := true, emptyRangeNoOpen := true, tmpPublish := false }

/-- `write_bytes` of either backend. -/
def writeBytesFl (fl : Flavor) (fs : FS) (t : FileType) (id : Name) (c : Bytes) : FS :=
  if fl.tmpPublish then writeBytes fs t id c else fput fs (path t id) c

def remove (fl : Flavor) (fs : FS) (t : FileType) (id : Name) : Res Unit × FS :=
  match fget fs (path t id) with
  | some _ => (.ok (), fdel fs (path t id))
  | none => (if fl.removeMissingOk then .ok () else .err, fs)

def readFull (fs : FS) (t : FileType) (id : Name) : Res Bytes :=
  match fget fs (path t id) with
  | some c => .ok c
  | none => .err

def readPartial (fl : Flavor) (fs : FS) (t : FileType) (id : Name) (off len : Nat) : Res Bytes :=
  match fget fs (path t id) with
  | none => if fl.emptyRangeNoOpen && len == 0 then .ok [] else .err
  | some c => if len = 0 ∨ off + len ≤ c.length then .ok ((c.drop off).take len) else .err

/-- `x :: _ :: _` with `x = d`: a file somewhere below the directory `d`. -/
def underDir (d : Name) (p : Path) : Bool :=
  match p with
  | x :: _ :: _ => x == d
  | _ => false

def u32Bound : Nat := 4294967296

def listEntry (L : Nat) (t : FileType) (e : Path × Bytes) : Option (Name × Nat) :=
  if underDir t.dirname e.1 then
    match parseSome L (e.1.getLast?.getD []) with
    | some id => if e.2.length < u32Bound then some (id, e.2.length) else none
    | none => none
  else none

/-- `list_with_size` (order = directory order, canonicalised by the caller). -/
def listWithSize (L : Nat) (fs : FS) (t : FileType) : List (Name × Nat) :=
  match t with
  | .config =>
    match fget fs [nConfig] with
    | some c => [(zeroId L, if c.length < u32Bound then c.length else 0)]
    | none => []
  | _ => fs.filterMap (listEntry L t)

def listIdEntry (L : Nat) (t : FileType) (e : Path × Bytes) : Option Name :=
  if underDir t.dirname e.1 then parseSome L (e.1.getLast?.getD []) else none

/-- `list` (no size conversion, hence no size filter). -/
def list (L : Nat) (fs : FS) (t : FileType) : List Name :=
  match t with
  | .config => if (fget fs [nConfig]).isSome then [zeroId L] else []
  | _ => fs.filterMap (listIdEntry L t)

/-! ### the map specification -/

abbrev Key := FileType × Name

/-- A key the repository code can produce: `L` lower-case hex characters; `Config` only under the null id. -/
def CanonId (L : Nat) (id : Name) : Prop := parseSome L id = some id

def WFKey (L : Nat) (k : Key) : Prop := CanonId L k.2 ∧ (k.1 = .config → k.2 = zeroId L)

instance (L : Nat) (id : Name) : Decidable (CanonId L id) := by unfold CanonId; exact inferInstance
instance (L : Nat) (k : Key) : Decidable (WFKey L k) := by unfold WFKey; exact inferInstance

/-- The abstraction function: what the file-system state means as a map. -/
def abs (fs : FS) (k : Key) : Option Bytes := fget fs (path k.1 k.2)

abbrev SpecMap := Key → Option Bytes

def SpecMap.write (m : SpecMap) (k : Key) (c : Bytes) : SpecMap := fun k' => if k' = k then some c else m k'
def SpecMap.remove (m : SpecMap) (k : Key) : SpecMap := fun k' => if k' = k then none else m k'

/-- Histories: API calls, interrupted writes, and foreign files appearing. -/
inductive Op where
  | write (k : Key) (c : Bytes)
  | crashWrite (k : Key) (c : Bytes)
  | remove (k : Key)
  | plant (p : Path) (c : Bytes)

def step (fs : FS) : Op → FS
  | .write k c => writeBytes fs k.1 k.2 c
  | .crashWrite k c => writeTmp fs k.1 k.2 c
  | .remove k => (remove Flavor.local fs k.1 k.2).2
  | .plant p c => fput fs p c

def specStep (m : SpecMap) : Op → SpecMap
  | .write k c => m.write k c
  | .crashWrite _ _ => m
  | .remove k => m.remove k
  | .plant _ _ => m

def run (fs : FS) (ops : List Op) : FS := ops.foldl step fs
def specRun (m : SpecMap) (ops : List Op) : SpecMap := ops.foldl specStep m

end Rustic.Backends
