/-
Model M6 + the archiver pipeline (`archive` of DESIGN §6 C01/C07/C11/C13).

Import-free (other Model files only), executable.

Part 1 — `crates/core/src/archiver.rs::Archiver::archive`, sequential semantics of
  `TreeIterator → Parent::process → FileArchiver::process → TreeArchiver::add … finalize`:
* `fileStep`  — `archiver/file_archiver.rs::process` + `backup_reader`: a `Matched` item keeps the node
                (its content was copied from the parent by `Parent::process`); otherwise a file is read:
                `content := chunk ids`, every chunk with `!index.has_data(id)` goes to `data_packer.add`;
                other node types pass unchanged.  `Err` items (`TreeStackEmptyError`) are dropped by the
                `filter_map` in `archive`.
* `archive`   — the composition, then `tree_archiver.finalize(parent.tree_id())`; `parent.tree_id()` is the
                first root tree that could be *loaded* (`Parent::new` keeps ids of loaded trees only).
                Result: root tree id, the `tree_packer.add` and `data_packer.add` call sequences, the files
                read, the summary counters.  `none` = the command fails (`Tree stack is empty`) or panics.

Part 2 — the packer pipeline as a transition system (`blob/packer.rs`, `index/indexer.rs`):
* `PSt`       — `Indexer.indexed` (keys; `typed = false` is the code before the C07 repair: a
                `BTreeSet<BlobId>` shared by the tree and the data packer), per blob type the raw packer's
                open pack (`BasicPacker.index.blobs`), the blobs that passed the early filters and wait for
                `add_raw` (`pending`), the packs handed to the file-writer actor (`inflight`, FIFO), the
                packs written to the backend, the packs listed by the indexer's `IndexFile`.
* `Ev`        — `enter` (`Packer::add` … the two early `filter`s), `commit` (third `filter` +
                `RawPacker::add_raw` → `BasicPacker::add_raw` with its own `has` test), `flush`
                (`should_save() → save()`: any pack boundary — all pack-size settings at once), `write`
                (file writer: `be.write_bytes(Pack)` then `indexer.add(pack)`).
* `finalize`  — `Packer::finalize` for both packers (drain `pending`, flush, drain the writer), then
                `indexer.finalize()`.
-/
import Rustic.Model.Tree
import Rustic.Model.Parent
namespace Rustic.Archive
open Rustic.Tree Rustic.Parent

/-! ## Part 1: the archiver -/

/-- What `FileArchiver::process` does with one output of `Parent::process`.
`chunk x` = ids of the chunks of the file content `x`, `len x` its length.
Returns the item for the tree archiver, the ids handed to `data_packer.add`, and whether the file was read. -/
def fileStep {γ} (chunk : γ → List Id) (len : γ → Nat) (hasData : Id → Bool) :
    Out γ → Option (TItem × List Id × Option Node)
  | .newTree node r => some (.newTree node r, [], none)
  | .endTree => some (.endTree, [], none)
  | .other node x r =>
    if r.isMatched then some (.other node r node.md.size, [], none)
    else if node.kind = .file then
      let ids := chunk x
      some (.other { node with content := some ids } r (len x), ids.filter (fun i => !hasData i), some node)
    else some (.other node r 0, [], none)
  | .stackEmpty => none
  | .panicNoSubtree => none

structure ArchOut where
  root     : Id
  treeAdds : List (Id × List Node)
  dataAdds : List Id
  reads    : List Node
  summary  : Summary
  deriving Repr

def hasPanic {γ} : List (Out γ) → Bool
  | [] => false
  | .panicNoSubtree :: _ => true
  | _ :: t => hasPanic t

/-- `Archiver::archive` up to (not including) the packers' and the indexer's `finalize`. -/
def archive {γ} (H : List Node → Id) (chunk : γ → List Id) (len : γ → Nat)
    (load : Id → Option (List Node)) (hasData hasTree : Id → Bool) (o : Opts) (roots : List Id)
    (items : List (Item γ)) : Option ArchOut :=
  let outs := run o load hasData (PState.init load roots) items
  if hasPanic outs then none else
  let steps := outs.filterMap (fileStep chunk len hasData)
  match TA.addAll H hasTree {} (steps.map (·.1)) with
  | none => none
  | some ta =>
    let parentTree := (roots.filter (fun id => (load id).isSome)).head?
    let (ta', root) := ta.finalize H hasTree parentTree
    some { root := root, treeAdds := ta'.adds, dataAdds := (steps.map (·.2.1)).flatten,
           reads := steps.filterMap (·.2.2), summary := ta'.summary }

/-! ## Part 2: the packer pipeline as a transition system -/

inductive BT where
  | data
  | tree
  deriving DecidableEq, Repr

abbrev Key := BT × Id

/-- One `Packer` (there is one per blob type). -/
structure Pk where
  /-- passed the two early `filter`s, on their way through `process_data` to `add_raw` (FIFO: `readahead` and
  `parallel_map` keep the order) -/
  pending   : List Id := []
  /-- `BasicPacker.index.blobs` of the open pack -/
  cur       : List Id := []
  /-- packs handed to the file-writer `Actor` (`bounded(1)` queue and its `readahead` stages), not yet written -/
  inflight  : List (List Id) := []
  /-- packs written to the backend (`FileWriterHandle::process`), `indexer.add` not yet run -/
  unindexed : List (List Id) := []
  deriving Repr

structure PSt where
  /-- `true`: `Indexer.indexed` is keyed by (type, id) — the code after the C07 repair; `false`: the set is a
  `BTreeSet<BlobId>` shared by the tree and the data packer (the code as found) -/
  typed   : Bool
  indexed : List Key := []                  -- `Indexer.indexed`
  data    : Pk := {}
  tree    : Pk := {}
  packs   : List (BT × List Id) := []       -- pack files on the backend, in write order
  index   : List (BT × List Id) := []       -- packs listed by the indexer (`IndexFile.packs`)
  deriving Repr

def PSt.pk (s : PSt) : BT → Pk
  | .data => s.data
  | .tree => s.tree

def PSt.setPk (s : PSt) (t : BT) (p : Pk) : PSt :=
  match t with
  | .data => { s with data := p }
  | .tree => { s with tree := p }

/-- the key under which the indexer remembers a blob -/
def ikey (typed : Bool) (t : BT) (id : Id) : Key := if typed then (t, id) else (.data, id)

/-- `Indexer::has` as called by the packer of type `t` -/
def PSt.indexerHas (s : PSt) (t : BT) (id : Id) : Bool := s.indexed.contains (ikey s.typed t id)

inductive Ev where
  /-- `Packer::add(data, id)` and the early filters `!indexer.has(id)`, `!raw_packer.has(id)` -/
  | enter (t : BT) (id : Id)
  /-- the late filter `!indexer.has(id)` and `RawPacker::add_raw` (→ `BasicPacker::add_raw`: `if self.has(id) return`) for
  the oldest pending blob -/
  | commit (t : BT)
  /-- `should_save()` held (size, count or age — any pack boundary): `save()` hands the open pack to the writer -/
  | flush (t : BT)
  /-- file writer: `be.write_bytes(FileType::Pack, …)` of the oldest pack in flight -/
  | write (t : BT)
  /-- file writer: `indexer.add(pack)` for the oldest written pack -/
  | idx (t : BT)
  deriving Repr

def commitOne (s : PSt) (t : BT) : PSt :=
  let p := s.pk t
  match p.pending with
  | [] => s
  | id :: rest =>
    if s.indexerHas t id then s.setPk t { p with pending := rest }
    else if p.cur.contains id then s.setPk t { p with pending := rest }
    else s.setPk t { p with pending := rest, cur := p.cur ++ [id] }

def flushOne (s : PSt) (t : BT) : PSt :=
  let p := s.pk t
  if p.cur.isEmpty then s else s.setPk t { p with cur := [], inflight := p.inflight ++ [p.cur] }

def writeOne (s : PSt) (t : BT) : PSt :=
  let p := s.pk t
  match p.inflight with
  | [] => s
  | pack :: rest =>
    ({ s with packs := s.packs ++ [(t, pack)] }).setPk t { p with inflight := rest, unindexed := p.unindexed ++ [pack] }

def idxOne (s : PSt) (t : BT) : PSt :=
  let p := s.pk t
  match p.unindexed with
  | [] => s
  | pack :: rest =>
    ({ s with indexed := s.indexed ++ pack.map (ikey s.typed t), index := s.index ++ [(t, pack)] }).setPk t
      { p with unindexed := rest }

def step (s : PSt) : Ev → PSt
  | .enter t id =>
    let p := s.pk t
    if s.indexerHas t id then s
    else if p.cur.contains id then s
    else s.setPk t { p with pending := p.pending ++ [id] }
  | .commit t => commitOne s t
  | .flush t => flushOne s t
  | .write t => writeOne s t
  | .idx t => idxOne s t

def runEvs (s : PSt) (evs : List Ev) : PSt := evs.foldl step s

/-- repeat `f` `n` times -/
def iter (f : PSt → PSt) : Nat → PSt → PSt
  | 0, s => s
  | n + 1, s => iter f n (f s)

/-- `Packer::finalize`: the channel is closed, the pipeline drains (`commit`s), `RawPacker::finalize` saves a
non-empty open pack, `Actor::finalize` waits until every pack is written and indexed. -/
def finalizePk (s : PSt) (t : BT) : PSt :=
  let s := iter (commitOne · t) (s.pk t).pending.length s
  let s := flushOne s t
  let s := iter (writeOne · t) (s.pk t).inflight.length s
  iter (idxOne · t) (s.pk t).unindexed.length s

/-- `file_archiver.finalize()`, `tree_archiver.finalize()`, `indexer.finalize()` (the index file is saved with
every pack the indexer holds). -/
def finalizeAll (s : PSt) : PSt := finalizePk (finalizePk s .data) .tree

def keysOf (packs : List (BT × List Id)) : List Key := (packs.map (fun p => p.2.map (fun id => (p.1, id)))).flatten

def entered : List Ev → List Key
  | [] => []
  | .enter t id :: r => (t, id) :: entered r
  | _ :: r => entered r

end Rustic.Archive
