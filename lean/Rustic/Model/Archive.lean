/-
Model M6 + the archiver pipeline (`archive` of DESIGN §6 C01/C07/C11/C13).

Import-free (other Model files only), executable.

Part 1 — `crates/core/src/archiver.rs::Archiver::archive`, sequential semantics of
  `TreeIterator → Parent::process → FileArchiver::process → TreeArchiver::add … finalize`:
* `fileStep`  — `archiver/file_archiver.rs::process` + `backup_reader`: a `Matched` item keeps the node
                (its content was copied from the parent by `Parent::process`); otherwise a file is read:
                `content := chunk ids`, every chunk with `!index.has_data(id)` goes to `data_packer.add`;
                other node types pass unchanged.  `Err` items (`TreeStackEmptyError`) are dropped by the
                `filter_map` in `archive`.
* `archive`   — the composition, then `tree_archiver.finalize(parent.tree_id())`; `parent.tree_id()` is the
                first root tree that could be *loaded* (`Parent::new` keeps ids of loaded trees only).
                Result: root tree id, the `tree_packer.add` and `data_packer.add` call sequences, the files
                read, the summary counters.  `none` = the command fails (`Tree stack is empty`) or panics.

Part 2 — the packer pipeline as a transition system (`blob/packer.rs`, `index/indexer.rs`):
* `PSt`       — `Indexer.indexed` (keys; `typed = false` is the code before the C07 repair: a
                `BTreeSet<BlobId>` shared by the tree and the data packer), per blob type the raw packer's
                open pack (`BasicPacker.index.blobs`), the blobs that passed the early filters and wait for
                `add_raw` (`pending`), the packs handed to the file-writer actor (`inflight`, FIFO), the
                packs written to the backend, the packs listed by the indexer's `IndexFile`.
* `Ev`        — `enter` (`Packer::add` … the two early `filter`s), `commit` (third `filter` +
                `RawPacker::add_raw` → `BasicPacker::add_raw` with its own `has` test), `flush`
                (`should_save() → save()`: any pack boundary — all pack-size settings at once), `write`
                (file writer: `be.write_bytes(Pack)` then `indexer.add(pack)`).
* `finalize`  — `Packer::finalize` for both packers (drain `pending`, flush, drain the writer), then
                `indexer.finalize()`.
-/
import Rustic.Model.Tree
import Rustic.Model.Parent
namespace Rustic.Archive
open Rustic.Tree Rustic.Parent

/-! ## Part 1: the archiver -/

/-- What `FileArchiver::process` does with one output of `Parent::process`.
`chunk x` = ids of the chunks of the file content `x`, `len x` its length.
Returns the item for the tree archiver, the ids handed to `data_packer.add`, and whether the file was read. -/
def fileStep {γ} (chunk : γ → List Id) (len : γ → Nat) (hasData : Id → Bool) :
    Out γ → Option (TItem × List Id × Option Node)
  | .newTree node r => some (.newTree node r, [], none)
  | .endTree => some (.endTree, [], none)
  | .other node x r =>
    if r.isMatched then some (.other node r node.md.size, [], none)
    else if node.kind = .file then
      let ids := chunk x
      some (.other { node with content := some ids } r (len x), ids.filter (fun i => !hasData i), some node)
    else some (.other node r 0, [], none)
  | .stackEmpty => none
  | .panicNoSubtree => none

structure ArchOut where
  root     : Id
  treeAdds : List (Id × List Node)
  dataAdds : List Id
  reads    : List Node
  summary  : Summary
  deriving Repr

def hasPanic {γ} : List (Out γ) → Bool
  | [] => false
  | .panicNoSubtree :: _ => true
  | _ :: t => hasPanic t

/-- `Archiver::archive` up to (not including) the packers' and the indexer's `finalize`. -/
def archive {γ} (H : List Node → Id) (chunk : γ → List Id) (len : γ → Nat)
    (load : Id → Option (List Node)) (hasData hasTree : Id → Bool) (o : Opts) (roots : List Id)
    (items : List (Item γ)) : Option ArchOut :=
  let outs := run o load hasData (PState.init load roots) items
  if hasPanic outs then none else
  let steps := outs.filterMap (fileStep chunk len hasData)
  match TA.addAll H hasTree {} (steps.map (·.1)) with
  | none => none
  | some ta =>
    let parentTree := (roots.filter (fun id => (load id).isSome)).head?
    let (ta', root) := ta.finalize H hasTree parentTree
    some { root := root, treeAdds := ta'.adds, dataAdds := (steps.map (·.2.1)).flatten,
           reads := steps.filterMap (·.2.2), summary := ta'.summary }

end Rustic.Archive
