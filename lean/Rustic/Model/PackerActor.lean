/-
Model/PackerActor.lean — the packer / file-writer / indexer actor model (DESIGN §3 M6, the part C03 needs).
Import-free apart from Model/Repo.lean (storage, `Op`, `apply`).  Executable.

What is modelled, and from where (crates/core/src):
* `Wr`              — one file-writer actor, `blob/packer.rs Actor::new`:
                        rx.into_iter().readahead().map(hash).readahead().map(|l| fwh.process(l)).readahead()
                          .try_for_each(|index| fwh.index(index?))
                      `queue`  = packs handed over by `RawPacker::save` → `Actor::send` on which `process` has not run yet
                                 (the bounded channel and the read-ahead buffers);
                      `stream` = results of `FileWriterHandle::process` (= `be.write_bytes(FileType::Pack, …)`; `some p` =
                                 `Ok(index)`, `none` = `Err`) that `try_for_each` has not consumed yet (read-ahead: `process` of
                                 the next packs may run — and write — before an earlier result is consumed);
                      `dead`   = `try_for_each` stopped at an `Err` (a failed pack write, or a failed index save inside
                                 `indexer.add`): the thread's status is `Err`, nothing is consumed any more.
* `St.file/count`   — `index/indexer.rs Indexer { file, count }`, shared by all writers; `addToIndexer` is
                      `Indexer::add_with`: push the pack, `count += blobs`, and **save an index file when
                      `count >= MAX_COUNT` (or the indexer is older than `MAX_AGE` — the `age` flag of the event)**, then `reset`.
                      A failed save returns before `reset` (`self.save()?`).
* `Ev.finish`       — the tail of a command that adds data (`archiver.rs Archiver::finalize_snapshot`, likewise copy / merge /
                      rewrite / prune's repacker): `packer.finalize()?` for every packer (waits for the writer's status, an `Err`
                      is returned), `indexer.finalize()?` (saves the remaining index file if it lists anything), then the
                      snapshot file is saved.  `result = some true` iff the command returned `Ok`.
* `faults`, `sent`  — ghost fields: number of storage operations that were made to fail; packs handed to a writer.

The schedule (`List Ev`) decides every interleaving of the packers, the writer stages of every actor and the command's
tail, and which storage operations fail.  A step that is not enabled is a no-op, so every list is a schedule.
-/
import Rustic.Model.Repo
namespace Rustic.PackerActor
open Rustic.Repo

structure Wr where
  queue : List Pack := []
  stream : List (Option Pack) := []
  dead : Bool := false
deriving Repr, Inhabited

structure St where
  repo : Repo
  /-- number of writer actors of the command (backup: data packer and tree packer) -/
  n : Nat
  wr : Nat → Wr := fun _ => {}
  file : List IdxPack := []
  count : Nat := 0
  nextIdx : Nat := 0
  faults : Nat := 0
  sent : List Pack := []
  result : Option Bool := none

inductive Ev
  /-- `RawPacker::save` → `Actor::send`: the packer hands a finished pack to writer `w` -/
  | send (w : Nat) (p : Pack)
  /-- `FileWriterHandle::process` on the oldest queued pack of writer `w`; `ok = false`: `write_bytes` fails -/
  | write (w : Nat) (ok : Bool)
  /-- `try_for_each(|index| fwh.index(index?))` consumes the oldest result of writer `w`; `age`: the indexer is older than
  `MAX_AGE`; `ok = false`: the index write of an auto-save (if one is due) fails -/
  | index (w : Nat) (age ok : Bool)
  /-- the command's tail: packers finalized, `indexer.finalize()` (`okIdx`), snapshot file saved (`okSnap`) -/
  | finish (snap : Snap) (okIdx okSnap : Bool)
deriving Repr

def init (r : Repo) (n : Nat) : St := { repo := r, n := n }

def setWr (s : St) (w : Nat) (x : Wr) : St := { s with wr := fun v => if v = w then x else s.wr v }

def idxPackOf (p : Pack) : IdxPack := { id := p.id, blobs := p.blobs }

def Wr.drained (x : Wr) : Bool := x.queue.isEmpty && x.stream.isEmpty

def anyDead (s : St) : Bool := (List.range s.n).any (fun w => (s.wr w).dead)
def allDrained (s : St) : Bool := (List.range s.n).all (fun w => (s.wr w).drained)

/-- `Indexer::add_with(pack, false)` called by writer `w` (already taken off its stream) -/
def addToIndexer (maxCount : Nat) (s : St) (w : Nat) (p : Pack) (age ok : Bool) : St :=
  if decide (s.count + p.blobs.length ≥ maxCount) || age then
    if ok then
      { s with repo := apply s.repo (.writeIndex { id := s.nextIdx, packs := s.file ++ [idxPackOf p] }), file := [], count := 0,
               nextIdx := s.nextIdx + 1 }
    else
      setWr { s with file := s.file ++ [idxPackOf p], count := s.count + p.blobs.length, faults := s.faults + 1 } w
        { s.wr w with dead := true }
  else { s with file := s.file ++ [idxPackOf p], count := s.count + p.blobs.length }

/-- `Indexer::finalize` = `save`: the remaining index file is written if it lists anything -/
def idxFinal (s : St) : Repo :=
  if s.file.isEmpty then s.repo else apply s.repo (.writeIndex { id := s.nextIdx, packs := s.file })

def step (maxCount : Nat) (s : St) : Ev → St
  | .send w p =>
    if s.result.isSome || decide (s.n ≤ w) then s
    else setWr { s with sent := p :: s.sent } w { s.wr w with queue := (s.wr w).queue ++ [p] }
  | .write w ok =>
    if decide (s.n ≤ w) then s else
    match (s.wr w).queue with
    | [] => s
    | p :: rest =>
      if ok then
        setWr { s with repo := apply s.repo (.writePack p) } w { s.wr w with queue := rest, stream := (s.wr w).stream ++ [some p] }
      else
        setWr { s with faults := s.faults + 1 } w { s.wr w with queue := rest, stream := (s.wr w).stream ++ [none] }
  | .index w age ok =>
    if decide (s.n ≤ w) || (s.wr w).dead then s else
    match (s.wr w).stream with
    | [] => s
    | none :: rest => setWr s w { s.wr w with stream := rest, dead := true }
    | some p :: rest => addToIndexer maxCount (setWr s w { s.wr w with stream := rest }) w p age ok
  | .finish snap okIdx okSnap =>
    if s.result.isSome then s
    else if anyDead s then { s with result := some false }
    else if !allDrained s then s
    else if !s.file.isEmpty && !okIdx then { s with faults := s.faults + 1, result := some false }
    else if okSnap then { s with repo := apply (idxFinal s) (.writeSnap snap), file := [], result := some true }
    else { s with repo := idxFinal s, file := [], faults := s.faults + 1, result := some false }

def run (maxCount : Nat) (s : St) (evs : List Ev) : St := evs.foldl (step maxCount) s

/-- every pack an index file lists (unmarked) is a stored pack file with exactly those blobs -/
def listedWritten (r : Repo) : Bool :=
  r.indexes.all (fun i => i.packs.all (fun p => r.packs.any (fun q => q.id == p.id && q.blobs == p.blobs)))

/-- the sequential schedule of one writer for packs `ps` with the `k`-th storage write failing is not needed: faults are
part of the events.  `sequential ps` = send, write, index for every pack in turn (one writer, no fault). -/
def sequential (w : Nat) : List Pack → List Ev
  | [] => []
  | p :: ps => .send w p :: .write w true :: .index w false true :: sequential w ps

end Rustic.PackerActor
