/-
Model — the `u32` arithmetic of `IndexPack::pack_size` / `PackHeaderRef::pack_size`
(`crates/core/src/repofile/indexfile.rs`, `packfile.rs`), as the code does it (C17 overflow corner).

`Model/Pack.lean packSize` and `Model/Index.lean IndexPack.packSize` compute in `Nat`.  The Rust fold is
`acc + blob.location.length + HeaderEntry::from_blob(blob).length()` on `u32`, starting at `COMP_OVERHEAD + LENGTH_LEN`:
* with overflow checks (debug builds; the verification harness) an overflowing `+` panics
  (`attempt to add with overflow`) — `packSizeChecked`, `none` = panic;
* without (release builds) it wraps modulo 2^32 — `packSizeWrapping`.
The blob lengths come from index files (any `u32` each), so the sum is not bounded by what a pack file can hold.
-/
import Rustic.Model.Index
namespace Rustic.PackU32
open Rustic.Pack
open Rustic.Index (IndexPack)

def U32 : Nat := 4294967296

/-- `u32 + u32` with overflow checks -/
def addChecked (a b : Nat) : Option Nat := if a + b < U32 then some (a + b) else none

/-- one step of the fold, checked: `(acc + length) + entry_len` -/
def stepChecked (acc : Option Nat) (b : IndexBlob) : Option Nat :=
  acc.bind fun a => (addChecked a b.loc.length).bind fun a' => addChecked a' (entryLen b)

/-- `PackHeaderRef::pack_size` in a build with overflow checks (`none` = panic) -/
def packSizeChecked (bs : List IndexBlob) : Option Nat :=
  bs.foldl stepChecked (some (Rustic.Gen.PACK_COMP_OVERHEAD + Rustic.Gen.PACK_LENGTH_LEN))

/-- `PackHeaderRef::pack_size` in a release build (wrapping arithmetic) -/
def packSizeWrapping (bs : List IndexBlob) : Nat :=
  bs.foldl (fun acc b => ((acc + b.loc.length) % U32 + entryLen b) % U32)
    (Rustic.Gen.PACK_COMP_OVERHEAD + Rustic.Gen.PACK_LENGTH_LEN)

/-- `IndexPack::pack_size`: the `size` field if present, else computed -/
def IndexPack.packSizeChecked (p : IndexPack) : Option Nat :=
  match p.size with
  | some s => some s
  | none => Rustic.PackU32.packSizeChecked p.blobs

def IndexPack.packSizeWrapping (p : IndexPack) : Nat :=
  match p.size with
  | some s => s
  | none => Rustic.PackU32.packSizeWrapping p.blobs

/-- the side condition under which the `Nat` model is the code: the computed size fits `u32` -/
def FitsU32 (p : IndexPack) : Prop := p.packSize < U32

instance (p : IndexPack) : Decidable (FitsU32 p) := by unfold FitsU32; infer_instance

end Rustic.PackU32
