/-
Model/Prune.lean — executable model of `crates/core/src/commands/prune.rs` (DESIGN §3 M10).

Definition                      models
------------------------------  ------------------------------------------------------------------------------
`keyOf`                         key of `PrunePlan.used_ids`: `(blob.tpe, blob.id)` after `fix:` (typed = true);
                                `typed = false` is the code before the fix (`BTreeMap<BlobId,u8>`, type dropped)
`packSize`, `blobType`          `IndexPack::pack_size` / `PackHeaderRef::pack_size`, `IndexPack::blob_type`
`dedup`, `newPlan`              `PrunePlan::new` (de-dup of packs listed twice / listed as used *and* marked)
`countUsed`                     `PrunePlan::count_used_blobs` (u8 saturating)
`checkCounts`                   `PrunePlan::check`
`scan`, `markUsed`, `fromPack`  `PackInfo::from_pack` (search for the first needed blob; re-mark before; mark after)
`Sizer.*`                       `blob/packer.rs PackSizer::{pack_size,is_too_small,is_too_large,size_ok}`
`decideOne`, `pass`,            `PrunePlan::decide_packs` (marked packs first, then unmarked; candidates collected)
`decidePacks`
`cmpInfo`, `insertSorted`,      `PackInfo::cmp`, `sort_unstable_by_key` (insertion sort for ≤ 20 elements: stable),
`loop1`, `loop2`,               `PrunePlan::decide_repack` (limits, resize packs)
`decideRepack`
`checkExisting`                 `PrunePlan::check_existing_packs`
`filterIndexes`                 `PrunePlan::filter_index_files`
`plan`                          `PrunePlan::from_prune_options` after the repository has been read
`retainRepack`, `execute`       `prune_repository`: new index content, repacked blobs, removals → abstract `Repo.Op`s
`stats`                         `PruneStats` (sums that `set_todo` / `decide_packs` accumulate)

Times are integer seconds; spans are seconds.  Pack and index ids are naturals.
-/
import Rustic.Model.Repo
namespace Rustic.Prune
open Rustic.Repo (BlobType Key)

structure Consts where
  compOverhead : Nat
  lengthLen : Nat
  entryLen : Nat
  entryLenComp : Nat
  minIndexLen : Nat
  maxPackSize : Nat
deriving Repr

structure Blob where
  tpe : BlobType
  id : Nat
  offset : Nat
  length : Nat
  compressed : Bool
deriving DecidableEq, Repr, Inhabited

structure IndexPack where
  id : Nat
  time : Option Int
  size : Option Nat
  blobs : List Blob
deriving Repr, Inhabited

structure IndexFile where
  id : Nat
  packs : List IndexPack
  del : List IndexPack
deriving Repr, Inhabited

inductive ToDo
  | undecided | keep | repack | markDelete | keepMarked | keepMarkedAndCorrect | recover | delete
deriving DecidableEq, Repr, Inhabited

inductive Reason | partlyUsed | toCompress | sizeMismatch
deriving DecidableEq, Repr, Inhabited

/-- key under which a blob is looked up in `used_ids`. -/
def keyOf (typed : Bool) (b : Blob) : Key := (if typed then b.tpe else BlobType.data, b.id)

def normKey (typed : Bool) (k : Key) : Key := (if typed then k.1 else BlobType.data, k.2)

def IndexPack.blobType (p : IndexPack) : BlobType :=
  match p.blobs with
  | [] => .data
  | b :: _ => b.tpe

def entryLen (c : Consts) (b : Blob) : Nat := if b.compressed then c.entryLenComp else c.entryLen

def IndexPack.packSize (c : Consts) (p : IndexPack) : Nat :=
  match p.size with
  | some s => s
  | none => p.blobs.foldl (fun acc b => acc + b.length + entryLen c b) (c.compOverhead + c.lengthLen)

structure PackInfo where
  blobType : BlobType := .data
  usedBlobs : Nat := 0
  unusedBlobs : Nat := 0
  usedSize : Nat := 0
  unusedSize : Nat := 0
deriving DecidableEq, Repr, Inhabited

/-- A pack of the plan (`PrunePack`) together with what `decide_packs` computed for it. -/
structure PPack where
  pos : Nat                 -- position in the flattened plan (identifies the pack for `decide_repack`)
  index : Nat               -- `index_num`: position of its index file
  id : Nat
  blobType : BlobType
  size : Nat
  mark : Bool               -- `delete_mark`
  time : Option Int
  blobs : List Blob
  info : PackInfo := {}
  todo : ToDo := .undecided
  cand : Option Reason := none
deriving Repr, Inhabited

structure PIndex where
  id : Nat
  modified : Bool
deriving Repr, Inhabited

/-! ### `PrunePlan::new` -/

/-- keep the packs whose id has not been seen; returns (kept, seen', some dropped). -/
def dedup : List Nat → List IndexPack → List IndexPack × List Nat × Bool
  | seen, [] => ([], seen, false)
  | seen, p :: ps =>
    if seen.contains p.id then
      let r := dedup seen ps
      (r.1, r.2.1, true)
    else
      let r := dedup (p.id :: seen) ps
      (p :: r.1, r.2.1, r.2.2)

def mkPack (c : Consts) (index : Nat) (mark : Bool) (p : IndexPack) : PPack :=
  { pos := 0, index := index, id := p.id, blobType := p.blobType, size := p.packSize c, mark := mark,
    time := p.time, blobs := p.blobs }

/-- first pass of `new`: per index file the de-duplicated unmarked and marked packs. -/
def newPass1 (c : Consts) : Nat → List Nat → List Nat → List IndexFile →
    List (PIndex × List PPack) × List Nat
  | _, seen, _, [] => ([], seen)
  | n, seen, seenDel, f :: fs =>
    let u := dedup seen f.packs
    let d := dedup seenDel f.del
    let rest := newPass1 c (n + 1) u.2.1 d.2.1 fs
    (({ id := f.id, modified := u.2.2 || d.2.2 },
      u.1.map (mkPack c n false) ++ d.1.map (mkPack c n true)) :: rest.1, rest.2)

/-- second pass: marked packs that are also "normally" indexed are dropped. -/
def newPass2 (processed : List Nat) (x : PIndex × List PPack) : PIndex × List PPack :=
  let kept := x.2.filter (fun p => !p.mark || !processed.contains p.id)
  ({ x.1 with modified := x.1.modified || x.2.any (fun p => p.mark && processed.contains p.id) }, kept)

def renumber : Nat → List PPack → List PPack
  | _, [] => []
  | n, p :: ps => { p with pos := n } :: renumber (n + 1) ps

structure Plan where
  indexes : List PIndex
  packs : List PPack          -- flattened, in index-file order then pack order
deriving Repr, Inhabited

def newPlan (c : Consts) (files : List IndexFile) : Plan :=
  let r := newPass1 c 0 [] [] files
  let xs := r.1.map (newPass2 r.2)
  { indexes := xs.map (·.1), packs := renumber 0 (xs.flatMap (·.2)) }

/-! ### used-id counters -/

/-- `used_ids`: `get k = none` = `k` is not a key of the map.  (A structure, not a bare function type, so that
definitions returning `Counts` are evaluated eagerly by the compiler.) -/
structure Counts where
  get : Key → Option Nat

instance : Inhabited Counts := ⟨⟨fun _ => none⟩⟩

def Counts.set (c : Counts) (k : Key) (v : Nat) : Counts := ⟨fun k' => if k' = k then some v else c.get k'⟩
def Counts.erase (c : Counts) (k : Key) : Counts := ⟨fun k' => if k' = k then none else c.get k'⟩
def Counts.ofKeys (ks : List Key) : Counts := ⟨fun k => if ks.contains k then some 0 else none⟩

def satAdd1 (n : Nat) : Nat := if n < 255 then n + 1 else 255

def countBlobs (typed : Bool) (c : Counts) (bs : List Blob) : Counts :=
  bs.foldl (fun c b => match c.get (keyOf typed b) with
    | some n => c.set (keyOf typed b) (satAdd1 n)
    | none => c) c

def countUsed (typed : Bool) (c : Counts) (ps : List PPack) : Counts :=
  ps.foldl (fun c p => countBlobs typed c p.blobs) c

def checkCounts (keys : List Key) (c : Counts) : Bool := keys.all (fun k => c.get k != some 0)

/-! ### `PackInfo::from_pack` -/

/-- search for the first needed blob: returns `(before, needed, after)` if some counter reaches 0. -/
def scan (typed : Bool) : List Blob → Counts → Option (List Blob × Blob × List Blob) × Counts
  | [], c => (none, c)
  | b :: bs, c =>
    match c.get (keyOf typed b) with
    | none => match scan typed bs c with
      | (some (pre, x, post), c') => (some (b :: pre, x, post), c')
      | (none, c') => (none, c')
    | some 0 => match scan typed bs c with
      | (some (pre, x, post), c') => (some (b :: pre, x, post), c')
      | (none, c') => (none, c')
    | some (n + 1) =>
      if n = 0 then (some ([], b, bs), c.set (keyOf typed b) 0)
      else match scan typed bs (c.set (keyOf typed b) n) with
        | (some (pre, x, post), c') => (some (b :: pre, x, post), c')
        | (none, c') => (none, c')

/-- blobs whose counter is still positive are used *in this pack*; their counter is set to 0. -/
def markUsed (typed : Bool) : List Blob → Counts → List (Blob × Bool) × Counts
  | [], c => ([], c)
  | b :: bs, c =>
    match c.get (keyOf typed b) with
    | some (_ + 1) =>
      let r := markUsed typed bs (c.set (keyOf typed b) 0)
      ((b, true) :: r.1, r.2)
    | _ =>
      let r := markUsed typed bs c
      ((b, false) :: r.1, r.2)

def sumLen (l : List (Blob × Bool)) (used : Bool) : Nat :=
  (l.filter (fun x => x.2 == used)).foldl (fun a x => a + x.1.length) 0

def cntFlag (l : List (Blob × Bool)) (used : Bool) : Nat := (l.filter (fun x => x.2 == used)).length

/-- classification of every blob of the pack (used in this pack or not) and the updated counters. -/
def classify (typed : Bool) (bs : List Blob) (c : Counts) : List (Blob × Bool) × Counts :=
  match scan typed bs c with
  | (none, c') => (bs.map (fun b => (b, false)), c')
  | (some (pre, x, post), c1) =>
    let r1 := markUsed typed pre c1
    let r2 := markUsed typed post r1.2
    (r1.1 ++ (x, true) :: r2.1, r2.2)

def fromPack (typed : Bool) (tpe : BlobType) (bs : List Blob) (c : Counts) : PackInfo × Counts :=
  let r := classify typed bs c
  ({ blobType := tpe, usedBlobs := cntFlag r.1 true, unusedBlobs := cntFlag r.1 false,
     usedSize := sumLen r.1 true, unusedSize := sumLen r.1 false }, r.2)

/-! ### `PackSizer` -/
structure Sizer where
  defaultSize : Nat
  growFactor : Nat
  sizeLimit : Nat
  currentSize : Nat
  minPct : Nat
  maxPct : Nat
deriving Repr, Inhabited

def Sizer.packSize (k : Consts) (s : Sizer) : Nat :=
  let size := if s.growFactor = 0 then s.defaultSize else Nat.sqrt s.currentSize * s.growFactor + s.defaultSize
  min (min size s.sizeLimit) k.maxPackSize

def Sizer.tooSmall (k : Consts) (s : Sizer) (size : Nat) : Bool := size * 100 < s.packSize k * s.minPct
def Sizer.tooLarge (k : Consts) (s : Sizer) (size : Nat) : Bool := size * 100 > s.packSize k * s.maxPct
def Sizer.sizeOk (k : Consts) (s : Sizer) (size : Nat) : Bool := !s.tooSmall k size && !s.tooLarge k size

inductive Limit | size (n : Nat) | percent (p : Nat) | unlimited
deriving Repr, Inhabited

structure Opts where
  now : Int
  keepPack : Int
  keepDelete : Int
  repackCacheableOnly : Bool
  repackUncompressed : Bool
  repackAll : Bool
  noResize : Bool
  instantDelete : Bool
  earlyDeleteIndex : Bool
  maxRepack : Limit
  maxUnused : Limit
  treeSizer : Sizer
  dataSizer : Sizer
deriving Repr, Inhabited

def Opts.sizer (o : Opts) : BlobType → Sizer
  | .tree => o.treeSizer
  | .data => o.dataSizer

def isCacheable : BlobType → Bool
  | .tree => true
  | .data => false

/-! ### `decide_packs` -/

/-- `pack.time > Some(now - keep_pack)` (`None < Some _`). -/
def tooYoung (o : Opts) (t : Option Int) : Bool :=
  match t with
  | some t => decide (t > o.now - o.keepPack)
  | none => false

/-- the decision for one pack from its `PackInfo`: a final `ToDo` or a repack candidate. -/
def decideOne (k : Consts) (o : Opts) (p : PPack) (pi : PackInfo) : ToDo × Option Reason :=
  let young := tooYoung o p.time
  let keepUncacheable := o.repackCacheableOnly && !isCacheable p.blobType
  let toCompress := o.repackUncompressed && !p.blobs.all (·.compressed)
  let sizeMismatch := !(o.sizer p.blobType).sizeOk k p.size
  match p.mark, pi.usedBlobs, pi.unusedBlobs with
  | false, 0, _ => if young then (.keep, none) else (.markDelete, none)
  | false, _ + 1, 0 =>
    if young || keepUncacheable then (.keep, none)
    else if toCompress || o.repackAll then (.undecided, some .toCompress)
    else if sizeMismatch then (.undecided, some .sizeMismatch)
    else (.keep, none)
  | false, _ + 1, _ + 1 =>
    if young || keepUncacheable then (.keep, none) else (.undecided, some .partlyUsed)
  | true, 0, _ =>
    match p.time with
    | some t => if o.now - o.keepDelete ≥ t then (.delete, none) else (.keepMarked, none)
    | none => (.keepMarkedAndCorrect, none)
  | true, _ + 1, _ => (.recover, none)

/-- one pass of `decide_packs` over all packs, touching those with `delete_mark == m`. -/
def pass (typed : Bool) (k : Consts) (o : Opts) (m : Bool) : Counts → List PPack → List PPack × Counts
  | c, [] => ([], c)
  | c, p :: ps =>
    if p.mark = m then
      let r := fromPack typed p.blobType p.blobs c
      let d := decideOne k o p r.1
      let rest := pass typed k o m r.2 ps
      ({ p with info := r.1, todo := d.1, cand := d.2 } :: rest.1, rest.2)
    else
      let rest := pass typed k o m c ps
      (p :: rest.1, rest.2)

def decidePacks (typed : Bool) (k : Consts) (o : Opts) (c : Counts) (ps : List PPack) : List PPack × Counts :=
  let r1 := pass typed k o true c ps
  pass typed k o false r1.2 r1.1

/-! ### `decide_repack` -/

def tpeLt : BlobType → BlobType → Bool
  | .tree, .data => true
  | _, _ => false

/-- `PackInfo::cmp a b == Less`. -/
def infoLt (a b : PackInfo) : Bool :=
  tpeLt a.blobType b.blobType ||
    (a.blobType == b.blobType && decide (b.unusedSize * a.usedSize < a.unusedSize * b.usedSize))

def insertSorted (a : PPack) : List PPack → List PPack
  | [] => [a]
  | b :: l => if infoLt a.info b.info then a :: b :: l else b :: insertSorted a l

def sortCands (l : List PPack) : List PPack := l.foldl (fun acc a => insertSorted a acc) []

structure RState where
  repTree : Nat := 0          -- repack_size[Tree]
  repData : Nat := 0
  doTree : Bool := false      -- do_repack[Tree]
  doData : Bool := false
  repackrm : Nat := 0         -- Σ size[*].repackrm so far
deriving Repr, Inhabited

inductive Inter | keep | repack | resize
deriving DecidableEq, Repr, Inhabited

def limitRepack (total : Nat) : Limit → Option Nat
  | .unlimited => none
  | .size n => some n
  | .percent p => some (p * total / 100)

def limitUnused (repackUncompressed : Bool) (used : Nat) : Limit → Option Nat
  | l => if repackUncompressed then some 0 else
    match l with
    | .unlimited => none
    | .size n => some n
    | .percent p => some (p * used / (100 - p))

/-- `a ≥ limit` / `a < limit` with `none` = `u64::MAX`. -/
def geLimit (a : Nat) : Option Nat → Bool
  | none => false
  | some l => decide (a ≥ l)

def ltLimit (a : Nat) : Option Nat → Bool
  | none => true
  | some l => decide (a < l)

/-- first loop of `decide_repack` over the sorted candidates. `unusedBase = Σ unused − Σ remove`. -/
def loop1 (o : Opts) (maxRepack maxUnused : Option Nat) (unusedBase : Nat) :
    RState → List PPack → List (Nat × BlobType × Inter) × RState
  | st, [] => ([], st)
  | st, p :: ps =>
    let total := st.repTree + st.repData
    let reason := p.cand.getD .partlyUsed
    let tpe := p.info.blobType
    if geLimit (total + p.info.usedSize) maxRepack
        || (ltLimit (unusedBase - st.repackrm) maxUnused && reason == .partlyUsed && tpe == .data)
        || (reason == .sizeMismatch && o.noResize) then
      let r := loop1 o maxRepack maxUnused unusedBase st ps
      ((p.pos, tpe, .keep) :: r.1, r.2)
    else
      let st1 := match tpe with
        | .tree => { st with repTree := st.repTree + p.info.usedSize }
        | .data => { st with repData := st.repData + p.info.usedSize }
      if reason == .sizeMismatch then
        let r := loop1 o maxRepack maxUnused unusedBase st1 ps
        ((p.pos, tpe, .resize) :: r.1, r.2)
      else
        let st2 := match tpe with
          | .tree => { st1 with doTree := true, repackrm := st1.repackrm + p.info.unusedSize }
          | .data => { st1 with doData := true, repackrm := st1.repackrm + p.info.unusedSize }
        let r := loop1 o maxRepack maxUnused unusedBase st2 ps
        ((p.pos, tpe, .repack) :: r.1, r.2)

/-- second loop: resize packs follow their blob type. -/
def loop2 (k : Consts) (o : Opts) (st : RState) (x : Nat × BlobType × Inter) : Nat × ToDo :=
  match x.2.2 with
  | .keep => (x.1, .keep)
  | .repack => (x.1, .repack)
  | .resize =>
    let yes := match x.2.1 with
      | .tree => st.doTree || decide (st.repTree > (o.sizer .tree).packSize k)
      | .data => st.doData || decide (st.repData > (o.sizer .data).packSize k)
    (x.1, if yes then .repack else .keep)

def sumBy (f : PPack → Nat) (ps : List PPack) : Nat := ps.foldl (fun a p => a + f p) 0

def lookupTodo (pos : Nat) : List (Nat × ToDo) → ToDo
  | [] => .undecided
  | x :: xs => if x.1 = pos then x.2 else lookupTodo pos xs

def repackDecisions (k : Consts) (o : Opts) (ps : List PPack) : List (Nat × ToDo) :=
  let usedSize := sumBy (·.info.usedSize) ps
  let unusedSize := sumBy (·.info.unusedSize) ps
  let removeSize := sumBy (fun p => if p.todo = .markDelete then p.info.unusedSize else 0) ps
  let maxUnused := limitUnused (o.repackUncompressed || o.repackAll) usedSize o.maxUnused
  let maxRepack := limitRepack (usedSize + unusedSize) o.maxRepack
  let cands := sortCands (ps.filter (fun p => p.cand.isSome))
  let r := loop1 o maxRepack maxUnused (unusedSize - removeSize) {} cands
  r.1.map (loop2 k o r.2)

def decideRepack (k : Consts) (o : Opts) (ps : List PPack) : List PPack :=
  let ds := repackDecisions k o ps
  ps.map (fun p => if p.cand.isSome then { p with todo := lookupTodo p.pos ds } else p)

/-! ### `check_existing_packs` -/

def lookupSize (id : Nat) : List (Nat × Nat) → Option Nat
  | [] => none
  | x :: xs => if x.1 = id then some x.2 else lookupSize id xs

def eraseKeys (typed : Bool) (c : Counts) (bs : List Blob) : Counts :=
  bs.foldl (fun c b => c.erase (keyOf typed b)) c

/-- returns `none` on error, else (remaining existing packs, remaining used ids). -/
def checkExisting (typed : Bool) : List PPack → List (Nat × Nat) → Counts → Option (List (Nat × Nat) × Counts)
  | [], ex, c => some (ex, c)
  | p :: ps, ex, c =>
    let sz := lookupSize p.id ex
    let ex' := ex.filter (fun x => x.1 != p.id)
    let sizeOk := sz == some p.size
    match p.todo with
    | .undecided => none
    | .keep | .recover =>
      if sizeOk then checkExisting typed ps ex' (eraseKeys typed c p.blobs) else none
    | .repack => if sizeOk then checkExisting typed ps ex' c else none
    | _ => checkExisting typed ps ex' c

/-! ### `filter_index_files` -/

def indexPacks (ps : List PPack) (n : Nat) : List PPack := ps.filter (fun p => p.index == n)

def mustModify (instant : Bool) (ix : PIndex) (ps : List PPack) : Bool :=
  ix.modified || ps.any (fun p => p.todo != .keep && (instant || p.todo != .keepMarked))

def indexLen (ps : List PPack) : Nat := sumBy (·.blobs.length) ps

def enumFrom {α} : Nat → List α → List (Nat × α)
  | _, [] => []
  | n, a :: l => (n, a) :: enumFrom (n + 1) l

/-- positions of the index files that are rebuilt. -/
def filterIndexes (k : Consts) (instant : Bool) (ixs : List PIndex) (ps : List PPack) : List Nat :=
  let e := enumFrom 0 ixs
  let kept := e.filter (fun x =>
    mustModify instant x.2 (indexPacks ps x.1) || decide (indexLen (indexPacks ps x.1) < k.minIndexLen))
  let anyMust := e.any (fun x => mustModify instant x.2 (indexPacks ps x.1))
  if !anyMust && kept.length == 1 then [] else kept.map (·.1)

/-! ### the finished plan -/
structure Decided where
  indexes : List PIndex
  packs : List PPack
  rebuild : List Nat                 -- positions of index files to rebuild
  unreferenced : List (Nat × Nat)    -- existing packs not in any index
  usedLeft : Counts
  usedKeys : List Key
deriving Inhabited

/-- `PrunePlan::from_prune_options` once index files, used ids and existing packs are known. -/
def plan (typed : Bool) (k : Consts) (o : Opts) (files : List IndexFile) (used : List Key)
    (existing : List (Nat × Nat)) : Option Decided :=
  let p0 := newPlan k files
  let keys := used.map (normKey typed)
  let c0 := countUsed typed (Counts.ofKeys keys) p0.packs
  if !checkCounts keys c0 then none else
  let r := decidePacks typed k o c0 p0.packs
  let ps := decideRepack k o r.1
  match checkExisting typed ps existing r.2 with
  | none => none
  | some (ex, c) =>
    some { indexes := p0.indexes, packs := ps, rebuild := filterIndexes k o.instantDelete p0.indexes ps,
           unreferenced := ex, usedLeft := c, usedKeys := keys }

/-! ### execution -/

/-- `pack.blobs.retain(|blob| used_ids.remove(&blob.id).is_some())` over the packs to repack, in order. -/
def retainBlobs (typed : Bool) : List Blob → Counts → List Blob × Counts
  | [], c => ([], c)
  | b :: bs, c =>
    match c.get (keyOf typed b) with
    | some _ =>
      let r := retainBlobs typed bs (c.erase (keyOf typed b))
      (b :: r.1, r.2)
    | none => retainBlobs typed bs c

def retainRepack (typed : Bool) : List PPack → Counts → List Blob
  | [], _ => []
  | p :: ps, c =>
    if p.todo = .repack then
      let r := retainBlobs typed p.blobs c
      r.1 ++ retainRepack typed ps r.2
    else retainRepack typed ps c

def blobKey (b : Blob) : Key := (b.tpe, b.id)

def toIdx (p : PPack) (time : Option Int) : Repo.IdxPack :=
  { id := p.id, blobs := p.blobs.map blobKey, time := time }

structure Exec where
  /-- unreferenced packs removed first (instant-delete) -/
  removeFirst : List Nat
  /-- blobs copied into new packs -/
  repacked : List Blob
  newUnmarked : List Repo.IdxPack
  newMarked : List Repo.IdxPack
  removeIndexes : List Nat
  removePacks : List Nat
  nothing : Bool              -- "nothing to do!" (no index file to rebuild)
deriving Repr, Inhabited

/-- ids of new packs are not modelled: the repacked blobs go to one abstract pack per blob type. -/
def newPackId (t : BlobType) : Nat := match t with | .tree => 1000001 | .data => 1000002

def execute (typed : Bool) (o : Opts) (d : Decided) : Exec :=
  let proc := d.packs.filter (fun p => d.rebuild.contains p.index)
  let unrefMarked : List Repo.IdxPack :=
    if o.instantDelete then [] else d.unreferenced.map (fun x => { id := x.1, blobs := [], time := some o.now })
  if d.rebuild.isEmpty then
    { removeFirst := if o.instantDelete then d.unreferenced.map (·.1) else [], repacked := [], newUnmarked := [],
      newMarked := [], removeIndexes := [], removePacks := [], nothing := true }
  else
    let repacked := retainRepack typed proc d.usedLeft
    let keepU := proc.filterMap (fun p => match p.todo with
      | .keep => some (toIdx p (some (p.time.getD o.now)))
      | .recover => some (toIdx p (some o.now))
      | _ => none)
    let newPacks : List Repo.IdxPack := [BlobType.tree, BlobType.data].filterMap (fun t =>
      let bs := repacked.filter (fun b => b.tpe == t)
      if bs.isEmpty then none else some { id := newPackId t, blobs := bs.map blobKey, time := some o.now })
    let marked := if o.instantDelete then [] else proc.filterMap (fun p => match p.todo with
      | .repack | .markDelete => some (toIdx p (some o.now))
      | .keepMarked | .keepMarkedAndCorrect => some (toIdx p (some (p.time.getD o.now)))
      | _ => none)
    let removePacks := proc.filterMap (fun p => match p.todo with
      | .delete => some p.id
      | .repack | .markDelete | .keepMarked | .keepMarkedAndCorrect => if o.instantDelete then some p.id else none
      | _ => none)
    { removeFirst := if o.instantDelete then d.unreferenced.map (·.1) else [], repacked := repacked,
      newUnmarked := keepU ++ newPacks, newMarked := unrefMarked ++ marked,
      removeIndexes := (enumFrom 0 d.indexes).filterMap (fun x => if d.rebuild.contains x.1 then some x.2.id else none),
      removePacks := removePacks, nothing := false }

def newIndexId : Nat := 2000001

/-- the storage operations of `prune_repository` (one canonical linearisation; new packs before the new index,
old index files before old packs; `early_delete_index` moves the index removals to the front). -/
def Exec.ops (o : Opts) (e : Exec) : List Repo.Op :=
  let early := o.earlyDeleteIndex && o.instantDelete
  let newPacks := e.newUnmarked.filter (fun p => p.id == newPackId .tree || p.id == newPackId .data)
  let writes : List Repo.Op := if e.nothing then [] else
    newPacks.map (fun p => Repo.Op.writePack { id := p.id, blobs := p.blobs }) ++
    (if e.newUnmarked.isEmpty && e.newMarked.isEmpty then [] else
      [Repo.Op.writeIndex { id := newIndexId, packs := e.newUnmarked, del := e.newMarked }])
  let rmIdx := e.removeIndexes.map Repo.Op.removeIndex
  e.removeFirst.map Repo.Op.removePack ++ (if early then rmIdx else []) ++ writes ++
    (if early then [] else rmIdx) ++ e.removePacks.map Repo.Op.removePack

/-! ### statistics (`PruneStats`) -/
structure SizeStats where
  used : Nat := 0
  unused : Nat := 0
  remove : Nat := 0
  repack : Nat := 0
  repackrm : Nat := 0
deriving Repr, DecidableEq, Inhabited

def blobStats (ps : List PPack) (t : BlobType) : SizeStats :=
  let l := ps.filter (fun p => p.info.blobType == t)
  { used := sumBy (·.info.usedBlobs) l, unused := sumBy (·.info.unusedBlobs) l,
    remove := sumBy (fun p => if p.todo = .markDelete then p.info.unusedBlobs else 0) l,
    repack := sumBy (fun p => if p.todo = .repack then p.info.usedBlobs + p.info.unusedBlobs else 0) l,
    repackrm := sumBy (fun p => if p.todo = .repack then p.info.unusedBlobs else 0) l }

def sizeStats (ps : List PPack) (t : BlobType) : SizeStats :=
  let l := ps.filter (fun p => p.info.blobType == t)
  { used := sumBy (·.info.usedSize) l, unused := sumBy (·.info.unusedSize) l,
    remove := sumBy (fun p => if p.todo = .markDelete then p.info.unusedSize else 0) l,
    repack := sumBy (fun p => if p.todo = .repack then p.info.usedSize + p.info.unusedSize else 0) l,
    repackrm := sumBy (fun p => if p.todo = .repack then p.info.unusedSize else 0) l }

/-! ### `find_used_blobs` (what becomes `used_ids`) -/

inductive TNodeType | file | dir | other
deriving DecidableEq, Repr, Inhabited

/-- A tree node as `find_used_blobs` looks at it: `node_type`, the size RECORDED in `meta.size` (the size `stat` reported when the
node was created — 0 for `backup -` / `--stdin-command` nodes and `/proc`-like files, stale for files written during the backup;
NOT the length of the content), `content`, `subtree`. -/
structure TNode where
  type : TNodeType
  size : Nat := 0
  content : Option (List Nat) := none
  subtree : Option Nat := none
deriving DecidableEq, Repr, Inhabited

/-- one iteration of `for node in tree.nodes { match node.node_type … }`: a file node contributes ALL its content ids as data keys
(`node.content.iter().flatten()`; `meta.size` is not looked at), a dir node its subtree as tree key (`subtree.unwrap()`), other
node types nothing. -/
def nodeUsed (n : TNode) : List Key :=
  match n.type with
  | .file => (n.content.getD []).map (fun c => (BlobType.data, c))
  | .dir => match n.subtree with
    | some t => [(BlobType.tree, t)]
    | none => []
  | .other => []

/-- `find_used_blobs`: the key set starts with the root trees of the snapshots; `streamed` is what `TreeStreamerOnce` yields
(every tree reachable from the roots, once, in completion order). -/
def findUsed (snapTrees : List Nat) (streamed : List (Nat × List TNode)) : List Key :=
  snapTrees.map (fun t => (BlobType.tree, t)) ++ streamed.flatMap (fun x => x.2.flatMap nodeUsed)

/-- NOT the code: `find_used_blobs` with the arm `NodeType::File if node.meta.size > 0` (seeded change C02-8). -/
def nodeUsedSizeGuard (n : TNode) : List Key :=
  if n.type = .file ∧ n.size = 0 then [] else nodeUsed n

def findUsedSizeGuard (snapTrees : List Nat) (streamed : List (Nat × List TNode)) : List Key :=
  snapTrees.map (fun t => (BlobType.tree, t)) ++ streamed.flatMap (fun x => x.2.flatMap nodeUsedSizeGuard)

end Rustic.Prune
