/-
Models of the components a backup → restore round trip is made of (rustic_core), beside the chunker
(`Model/Chunker.lean`).

Definition ↔ Rust:
* `Item`, `escChar`, `hex2`, `escape`          — `backend/node.rs escape_filename`: the name is cut by `str::from_utf8`
                                               into valid characters and invalid bytes (`Item`; the cutting itself is
                                               std's and not modelled — theorems hold for every item list)
* `St`, `step`, `finishHex`, `parseRadix16`, `unescape` — `backend/node.rs unescape_filename` as a state machine over
                                               the characters (`take` pads with NUL at the end of input, which fails to
                                               parse: the machine simply ends in a non-`norm` state)
* `startpoints`, `computeStart`, `readLoop`, `readAt` — `vfs.rs ContentStartpoints::{from_sizes, compute_start}`,
                                               `OpenFile::read_at` (`maxv` = `usize::MAX`, the sentinel entry)
* `Loc`, `Group`, `canCoalesce`, `append`, `coalesceAll`, `sliceOf` — `blob.rs BlobLocations::{can_coalesce, append,
                                               coalesce}` under itertools' `coalesce`, and the sub-slice
                                               `read_data[bl.offset - offset .. bl.offset + bl.length - offset]` taken in
                                               `commands/restore.rs restore_contents`, `commands/copy.rs`, prune repack
* `File`, `writeAt`, `applyWrites`, `positions` — `restore_contents`: `set_length` then `write_at(start, data)` per
                                               (blob, file position), scheduled in any order on a thread pool
* `archiveFile`, `restoreFile`                — content path of one file: chunks → ids in the node's `content`,
                                               blobs in a store; restore looks every id up and writes at the running
                                               position (`add_file` accumulates `file_pos`)
-/
namespace Rustic.RoundTrip

abbrev Bytes := List UInt8

/-! ### file names -/

inductive Item
  | ch (c : Char)
  | bad (b : UInt8)

def hexDigit (n : Nat) : Char := if n < 10 then Char.ofNat (48 + n) else Char.ofNat (87 + n)

def hexVal (c : Char) : Option Nat :=
  let n := c.toNat
  if 48 ≤ n ∧ n ≤ 57 then some (n - 48)
  else if 97 ≤ n ∧ n ≤ 102 then some (n - 87)
  else if 65 ≤ n ∧ n ≤ 70 then some (n - 55)
  else none

def escChar (c : Char) : List Char :=
  if c = '\\' then ['\\', '\\']
  else if c = '"' then ['\\', '"']
  else if c = Char.ofNat 7 then ['\\', 'a']
  else if c = Char.ofNat 8 then ['\\', 'b']
  else if c = Char.ofNat 12 then ['\\', 'f']
  else if c = Char.ofNat 10 then ['\\', 'n']
  else if c = Char.ofNat 13 then ['\\', 'r']
  else if c = Char.ofNat 9 then ['\\', 't']
  else if c = Char.ofNat 11 then ['\\', 'v']
  else [c]

def hex2 (b : UInt8) : List Char := [hexDigit (b.toNat / 16), hexDigit (b.toNat % 16)]

def escItem : Item → List Char
  | .ch c => escChar c
  | .bad b => '\\' :: 'x' :: hex2 b

def escape (items : List Item) : List Char := items.flatMap escItem

def itemBytes (enc : Char → Bytes) : Item → Bytes
  | .ch c => enc c
  | .bad b => [b]

inductive St
  | norm
  | esc
  | hex (total : Nat) (cs : List Char)
  | bad

def digits16 : List Char → Option Nat
  | [] => some 0
  | c :: l => do
    let rest ← digits16 l
    let v ← hexVal c
    pure (v * 16 ^ l.length + rest)

/-- `uN::from_str_radix(s, 16)` on a non-empty string of 2, 4 or 8 characters (a leading `+` is accepted) -/
def parseRadix16 (cs : List Char) : Option Nat :=
  match cs with
  | [] => none
  | c :: l => if c = '+' ∧ l ≠ [] then digits16 l else digits16 (c :: l)

def escByte? (c : Char) : Option UInt8 :=
  if c = '\\' then some 0x5c else if c = '"' then some 0x22 else if c = '\'' then some 0x27
  else if c = '`' then some 0x60 else if c = 'a' then some 7 else if c = 'b' then some 8
  else if c = 'f' then some 12 else if c = 'n' then some 10 else if c = 'r' then some 13
  else if c = 't' then some 9 else if c = 'v' then some 11 else none

def finishHex (enc : Char → Bytes) (total : Nat) (cs : List Char) (out : Bytes) : St × Bytes :=
  match parseRadix16 cs with
  | none => (.bad, out)
  | some n =>
    if total = 2 then (.norm, out ++ [UInt8.ofNat n])
    else if n.isValidChar then (.norm, out ++ enc (Char.ofNat n)) else (.bad, out)

def step (enc : Char → Bytes) (s : St × Bytes) (c : Char) : St × Bytes :=
  match s.1 with
  | .bad => s
  | .norm => if c = '\\' then (.esc, s.2) else (.norm, s.2 ++ enc c)
  | .esc =>
    match escByte? c with
    | some b => (.norm, s.2 ++ [b])
    | none =>
      if c = 'x' then (.hex 2 [], s.2) else if c = 'u' then (.hex 4 [], s.2)
      else if c = 'U' then (.hex 8 [], s.2) else (.bad, s.2)
  | .hex total cs =>
    if (cs ++ [c]).length = total then finishHex enc total (cs ++ [c]) s.2 else (.hex total (cs ++ [c]), s.2)

def unescape (enc : Char → Bytes) (s : List Char) : Option Bytes :=
  match s.foldl (step enc) (.norm, []) with
  | (.norm, out) => some out
  | _ => none

/-! ### ranged reads of a file (`OpenFile::read_at`) -/

def startsFrom (start : Nat) : List Nat → List Nat
  | [] => []
  | s :: l => start :: startsFrom (start + s) l

/-- cumulative start offsets plus the `usize::MAX` sentinel -/
def startpoints (maxv : Nat) (sizes : List Nat) : List Nat :=
  if sizes.isEmpty then [] else startsFrom 0 sizes ++ [maxv]

/-- `partition_point(|o| o <= offset)` on a sorted list -/
def partitionLe (offset : Nat) : List Nat → Nat
  | [] => 0
  | o :: l => if o ≤ offset then 1 + partitionLe offset l else 0

def computeStart (sp : List Nat) (offset : Nat) : Nat × Nat :=
  if sp.isEmpty then (0, 0) else
  let i := partitionLe offset sp - 1
  (i, offset - sp.getD i 0)

def readLoop : List Bytes → Nat → Nat → Bytes
  | [], _, _ => []
  | d :: rest, off, len =>
    if len = 0 then [] else
    if off > d.length then [] else
    let n := min (d.length - off) len
    (d.drop off).take n ++ readLoop rest 0 (len - n)

/-- `sizes` are the `data_length`s the index reports for the blobs -/
def readAt (maxv : Nat) (sizes : List Nat) (blobs : List Bytes) (offset len : Nat) : Bytes :=
  let (i, off) := computeStart (startpoints maxv sizes) offset
  readLoop (blobs.drop i) off len

/-! ### coalesced pack reads -/

structure Loc where
  offset : Nat
  length : Nat
  deriving DecidableEq, Repr

structure Group where
  offset : Nat
  length : Nat
  blobs : List Loc
  deriving Repr

def canCoalesce (hole limit : Nat) (g : Group) (o : Loc) : Bool :=
  o.offset ≤ g.offset + g.length + hole && o.offset ≥ g.offset + g.length &&
    o.offset + o.length - g.offset ≤ limit

def Group.append (g : Group) (o : Loc) : Group :=
  { offset := g.offset, length := o.offset + o.length - g.offset, blobs := g.blobs ++ [o] }

def Group.single (o : Loc) : Group := { offset := o.offset, length := o.length, blobs := [o] }

/-- itertools `coalesce` with `BlobLocations::coalesce`: the running group absorbs the next location or is emitted -/
def coalesceFrom (hole limit : Nat) (cur : Group) : List Loc → List Group
  | [] => [cur]
  | o :: l =>
    if canCoalesce hole limit cur o then coalesceFrom hole limit (cur.append o) l
    else cur :: coalesceFrom hole limit (Group.single o) l

def coalesceAll (hole limit : Nat) : List Loc → List Group
  | [] => []
  | o :: l => coalesceFrom hole limit (Group.single o) l

/-- the bytes handed to `read_encrypted_from_partial` for blob `bl` of a group read -/
def sliceOf (pack : Bytes) (g : Group) (bl : Loc) : Bytes :=
  let read := (pack.drop g.offset).take g.length
  (read.drop (bl.offset - g.offset)).take (bl.offset + bl.length - g.offset - (bl.offset - g.offset))

/-! ### restore: positional writes in any order -/

/-- a file being restored: its length and its bytes by position -/
structure File where
  len : Nat
  byte : Nat → UInt8

structure Write where
  start : Nat
  data : Bytes

def writeAt (f : File) (w : Write) : File :=
  { len := max f.len (w.start + w.data.length),
    byte := fun p => if w.start ≤ p ∧ p < w.start + w.data.length then w.data.getD (p - w.start) 0 else f.byte p }

def applyWrites (f : File) (ws : List Write) : File := ws.foldl writeAt f

/-- `set_length(path, size)` on a fresh file: zeros -/
def zeros (size : Nat) : File := { len := size, byte := fun _ => 0 }

/-- `add_file`: blob `i` of the content goes to file position Σ_{j<i} length_j -/
def positions (start : Nat) : List Bytes → List Write
  | [] => []
  | c :: l => { start := start, data := c } :: positions (start + c.length) l

def File.bytes (f : File) : Bytes := (List.range f.len).map f.byte

/-! ### content path of one file -/

/-- archive: the chunker's chunks become blobs (store) and the node's content list (ids) -/
def archiveFile (hash : Bytes → Nat) (chunks : List Bytes) (store : Nat → Option Bytes) :
    List Nat × (Nat → Option Bytes) :=
  (chunks.map hash, fun id => match chunks.find? (fun c => hash c == id) with
    | some c => some c
    | none => store id)

/-- restore: every id looked up, written at the running position, in the order `order` schedules them -/
def restoreFile (store : Nat → Option Bytes) (content : List Nat) (order : List Write → List Write) : Option File :=
  (content.mapM store).map fun blobs =>
    applyWrites (zeros (blobs.map List.length).sum) (order (positions 0 blobs))

end Rustic.RoundTrip
