import Rustic.Model.CommandTable
import Rustic.Gen.Constants
/-
Statement order inside two commands of the command table (C15), for the two places where "refused before touching
storage" / "a dry run performs no write" depend on WHERE a guard stands and not only on its presence:

  commands/prune.rs  `prune_repository`   guard (append-only) — warm-up — unindexed packs (`prune_plan.existing_packs`:
                     pack files listed by the backend that no index file lists): `instant_delete` → `be.delete_list`
                     (removals, at once), else `indexer.add_remove` (in memory) — `index_files.is_empty()` → return Ok —
                     `early_delete_index && instant_delete` → old index files removed — the remainder (repack, new index
                     files, removal of old index files and of packs)
  commands/repair/index.rs `repair_index` guard (append-only) — per streamed index file: `changed && !dry_run` → the new
                     index file is saved (unless empty) and the old one queued for removal — per pack whose header is
                     read: a failed read is only a warning; `if !dry_run { indexer.add_with(pack, false) }` — `finalize`
                     (saves only a non-empty file) — queued removals
  index/indexer.rs   `Indexer::add_with`: `count += blobs`; the pack is added; `count >= MAX_COUNT || elapsed >= MAX_AGE`
                     → `save` (an index file is WRITTEN, now) and `reset`;  `finalize` = `save` (only if non-empty)

`…GuardLate` / `…FinalizeGuardOnly` are NOT the code: they are the two seeded variants (guard below the unindexed-pack
block; `!dry_run` moved from `add_with` to `finalize`), kept to show that the theorems of `Props/C15` separate them.
Core Lean + other Model files + generated constants only.
-/
namespace Rustic.CommandSteps
open Rustic.CommandTable

/-! ### `prune_repository` -/

structure PruneRun where
  appendOnly : Bool
  instantDelete : Bool
  earlyDeleteIndex : Bool
  /-- `prune_plan.existing_packs`: ids of the pack files in the backend that no index file lists -/
  unindexed : List Nat
  /-- `prune_plan.index_files`: ids of the index files the plan processes -/
  indexFiles : List Nat
  /-- what the remainder issues (new packs and index files written, old index files and packs removed) -/
  rest : List ConcreteOp
  deriving Repr

def packRemovals (ids : List Nat) : List ConcreteOp := ids.map (fun id => .remove ⟨.pack, id⟩)
def indexRemovals (ids : List Nat) : List ConcreteOp := ids.map (fun id => .remove ⟨.index, id⟩)

/-- the storage operations issued, in order, and the error returned (if any). -/
def pruneRepository (r : PruneRun) : List ConcreteOp × Option ErrKind :=
  if r.appendOnly then ([], some .appendOnly) else
  let a := if r.instantDelete then packRemovals r.unindexed else []
  if r.indexFiles.isEmpty then (a, none) else
  let b := if r.earlyDeleteIndex && r.instantDelete then indexRemovals r.indexFiles else []
  (a ++ b ++ r.rest, none)

/-- NOT the code — the seeded variant C15-4: the guard stands below the unindexed-pack block. -/
def pruneRepositoryGuardLate (r : PruneRun) : List ConcreteOp × Option ErrKind :=
  let a := if r.instantDelete then packRemovals r.unindexed else []
  if r.appendOnly then (a, some .appendOnly) else
  if r.indexFiles.isEmpty then (a, none) else
  let b := if r.earlyDeleteIndex && r.instantDelete then indexRemovals r.indexFiles else []
  (a ++ b ++ r.rest, none)

/-- the remainder only issues what the table's `prune` row allows. -/
def PruneRun.restOk (r : PruneRun) : Bool :=
  r.rest.all (fun o => (dataWrites ++ [Op.remove .index, Op.remove .pack]).contains o.kind)

/-! ### `Indexer::add_with` / `finalize` and the header loop of `repair_index` -/

structure IndexerSt where
  /-- `file.packs.len()` -/
  packs : Nat := 0
  /-- `count` (blobs indexed since the last save) -/
  count : Nat := 0
  deriving Repr, DecidableEq

/-- `Indexer::add_with`: the new state and whether an index file was written (`aged` = `elapsed >= MAX_AGE` now). -/
def addWith (ix : IndexerSt) (blobs : Nat) (aged : Bool) : IndexerSt × Bool :=
  let count := ix.count + blobs
  if decide (count ≥ Rustic.Gen.C15_INDEXER_MAX_COUNT) || aged then ({}, true)    -- the file holds at least this pack
  else ({ packs := ix.packs + 1, count := count }, false)

/-- `Indexer::finalize` = `save`: writes iff the file lists a pack. -/
def finalizeWrites (ix : IndexerSt) : Bool := decide (ix.packs > 0)

/-- one pack whose header `repair_index` reads: `blobs = none` — the read failed (a warning; the pack is dropped from
the index), `some n` — the header lists `n` blobs; `aged` — the indexer is older than MAX_AGE at that moment. -/
structure PackRead where
  blobs : Option Nat
  aged : Bool := false
  deriving Repr

/-- the "reading pack headers" loop: `if !dry_run { indexer.add_with(pack, false) }`. -/
def headerLoop (dry : Bool) : List PackRead → IndexerSt → List Op → IndexerSt × List Op
  | [], ix, acc => (ix, acc)
  | p :: ps, ix, acc =>
    match p.blobs with
    | none => headerLoop dry ps ix acc
    | some n =>
      if dry then headerLoop dry ps ix acc
      else
        let r := addWith ix n p.aged
        headerLoop dry ps r.1 (if r.2 then acc ++ [.write .index] else acc)

/-- NOT the code — the seeded variant C15-5: every pack is added, only `finalize` is guarded. -/
def headerLoopNoGuard : List PackRead → IndexerSt → List Op → IndexerSt × List Op
  | [], ix, acc => (ix, acc)
  | p :: ps, ix, acc =>
    match p.blobs with
    | none => headerLoopNoGuard ps ix acc
    | some n =>
      let r := addWith ix n p.aged
      headerLoopNoGuard ps r.1 (if r.2 then acc ++ [.write .index] else acc)

/-- an index file as `repair_index` streams it: did `check_pack` change it, and is what remains empty. -/
structure IdxFile where
  changed : Bool
  newEmpty : Bool := false
  deriving Repr

def repairIndex (appendOnly dry : Bool) (idx : List IdxFile) (packs : List PackRead) : List Op × Option ErrKind :=
  if appendOnly then ([], some .appendOnly) else
  let saved := idx.flatMap (fun f => if f.changed && !dry && !f.newEmpty then [Op.write .index] else [])
  let removed := idx.flatMap (fun f => if f.changed && !dry then [Op.remove .index] else [])
  let r := headerLoop dry packs {} []
  (saved ++ r.2 ++ (if finalizeWrites r.1 then [.write .index] else []) ++ removed, none)

/-- NOT the code — the seeded variant C15-5. -/
def repairIndexFinalizeGuardOnly (appendOnly dry : Bool) (idx : List IdxFile) (packs : List PackRead) :
    List Op × Option ErrKind :=
  if appendOnly then ([], some .appendOnly) else
  let saved := idx.flatMap (fun f => if f.changed && !dry && !f.newEmpty then [Op.write .index] else [])
  let removed := idx.flatMap (fun f => if f.changed && !dry then [Op.remove .index] else [])
  let r := headerLoopNoGuard packs {} []
  (saved ++ r.2 ++ (if !dry && finalizeWrites r.1 then [.write .index] else []) ++ removed, none)

end Rustic.CommandSteps
