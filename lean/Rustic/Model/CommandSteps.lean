import Rustic.Model.CommandTable
import Rustic.Gen.Constants
/-
Statement order inside two commands of the command table (C15), for the two places where "refused before touching
storage" / "a dry run performs no write" depend on WHERE a guard stands and not only on its presence:

  commands/prune.rs  `prune_repository`   guard (append-only) — warm-up — unindexed packs (`prune_plan.existing_packs`:
                     pack files listed by the backend that no index file lists): `instant_delete` → `be.delete_list`
                     (removals, at once), else `indexer.add_remove` (in memory) — `index_files.is_empty()` → return Ok —
                     `early_delete_index && instant_delete` → old index files removed — the remainder (repack, new index
                     files, removal of old index files and of packs)
  commands/repair/index.rs `repair_index` guard (append-only) — per streamed index file: `changed && !dry_run` → the new
                     index file is saved (unless empty) and the old one queued for removal — per pack whose header is
                     read: a failed read is only a warning; `if !dry_run { indexer.add_with(pack, false) }` — `finalize`
                     (saves only a non-empty file) — queued removals
  index/indexer.rs   `Indexer::add_with`: `count += blobs`; the pack is added; `count >= MAX_COUNT || elapsed >= MAX_AGE`
                     → `save` (an index file is WRITTEN, now) and `reset`;  `finalize` = `save` (only if non-empty)

  commands/backup.rs `backup`: `*source == "-"` → `let mut opts = opts.clone(); opts.parent_opts.force = true;` →
                     `opts.stdin_command` set → `ChildStdoutSource` → `archive(repo, &opts, …)`, else `StdinSource` →
                     `archive(repo, &opts, …)`; any other source → `LocalSource` → `archive(repo, opts, …)`;
                     `archive`: `DryRunBackend::new(repo.dbe().clone(), opts.dry_run)` is the backend of the archiver
  backend/dry_run.rs `DryRunBackend`: `write_bytes` / `remove` return Ok without reaching the backend when `dry_run`

`…GuardLate` / `…FinalizeGuardOnly` / `…FreshStdinOpts` are NOT the code: they are the seeded variants (guard below the
unindexed-pack block; `!dry_run` moved from `add_with` to `finalize`; options for a stdin source built afresh from the
stdin-relevant fields), kept to show that the theorems of `Props/C15` separate them.
Core Lean + other Model files + generated constants only.
-/
namespace Rustic.CommandSteps
open Rustic.CommandTable

/-! ### `prune_repository` -/

structure PruneRun where
  appendOnly : Bool
  instantDelete : Bool
  earlyDeleteIndex : Bool
  /-- `prune_plan.existing_packs`: ids of the pack files in the backend that no index file lists -/
  unindexed : List Nat
  /-- `prune_plan.index_files`: ids of the index files the plan processes -/
  indexFiles : List Nat
  /-- what the remainder issues (new packs and index files written, old index files and packs removed) -/
  rest : List ConcreteOp
  deriving Repr

def packRemovals (ids : List Nat) : List ConcreteOp := ids.map (fun id => .remove ⟨.pack, id⟩)
def indexRemovals (ids : List Nat) : List ConcreteOp := ids.map (fun id => .remove ⟨.index, id⟩)

/-- the storage operations issued, in order, and the error returned (if any). -/
def pruneRepository (r : PruneRun) : List ConcreteOp × Option ErrKind :=
  if r.appendOnly then ([], some .appendOnly) else
  let a := if r.instantDelete then packRemovals r.unindexed else []
  if r.indexFiles.isEmpty then (a, none) else
  let b := if r.earlyDeleteIndex && r.instantDelete then indexRemovals r.indexFiles else []
  (a ++ b ++ r.rest, none)

/-- NOT the code — the seeded variant C15-4: the guard stands below the unindexed-pack block. -/
def pruneRepositoryGuardLate (r : PruneRun) : List ConcreteOp × Option ErrKind :=
  let a := if r.instantDelete then packRemovals r.unindexed else []
  if r.appendOnly then (a, some .appendOnly) else
  if r.indexFiles.isEmpty then (a, none) else
  let b := if r.earlyDeleteIndex && r.instantDelete then indexRemovals r.indexFiles else []
  (a ++ b ++ r.rest, none)

/-- the remainder only issues what the table's `prune` row allows. -/
def PruneRun.restOk (r : PruneRun) : Bool :=
  r.rest.all (fun o => (dataWrites ++ [Op.remove .index, Op.remove .pack]).contains o.kind)

/-! ### `Indexer::add_with` / `finalize` and the header loop of `repair_index` -/

structure IndexerSt where
  /-- `file.packs.len()` -/
  packs : Nat := 0
  /-- `count` (blobs indexed since the last save) -/
  count : Nat := 0
  deriving Repr, DecidableEq

/-- `Indexer::add_with`: the new state and whether an index file was written (`aged` = `elapsed >= MAX_AGE` now). -/
def addWith (ix : IndexerSt) (blobs : Nat) (aged : Bool) : IndexerSt × Bool :=
  let count := ix.count + blobs
  if decide (count ≥ Rustic.Gen.C15_INDEXER_MAX_COUNT) || aged then ({}, true)    -- the file holds at least this pack
  else ({ packs := ix.packs + 1, count := count }, false)

/-- `Indexer::finalize` = `save`: writes iff the file lists a pack. -/
def finalizeWrites (ix : IndexerSt) : Bool := decide (ix.packs > 0)

/-- one pack whose header `repair_index` reads: `blobs = none` — the read failed (a warning; the pack is dropped from
the index), `some n` — the header lists `n` blobs; `aged` — the indexer is older than MAX_AGE at that moment. -/
structure PackRead where
  blobs : Option Nat
  aged : Bool := false
  deriving Repr

/-- the "reading pack headers" loop: `if !dry_run { indexer.add_with(pack, false) }`. -/
def headerLoop (dry : Bool) : List PackRead → IndexerSt → List Op → IndexerSt × List Op
  | [], ix, acc => (ix, acc)
  | p :: ps, ix, acc =>
    match p.blobs with
    | none => headerLoop dry ps ix acc
    | some n =>
      if dry then headerLoop dry ps ix acc
      else
        let r := addWith ix n p.aged
        headerLoop dry ps r.1 (if r.2 then acc ++ [.write .index] else acc)

/-- NOT the code — the seeded variant C15-5: every pack is added, only `finalize` is guarded. -/
def headerLoopNoGuard : List PackRead → IndexerSt → List Op → IndexerSt × List Op
  | [], ix, acc => (ix, acc)
  | p :: ps, ix, acc =>
    match p.blobs with
    | none => headerLoopNoGuard ps ix acc
    | some n =>
      let r := addWith ix n p.aged
      headerLoopNoGuard ps r.1 (if r.2 then acc ++ [.write .index] else acc)

/-- an index file as `repair_index` streams it: did `check_pack` change it, and is what remains empty. -/
structure IdxFile where
  changed : Bool
  newEmpty : Bool := false
  deriving Repr

def repairIndex (appendOnly dry : Bool) (idx : List IdxFile) (packs : List PackRead) : List Op × Option ErrKind :=
  if appendOnly then ([], some .appendOnly) else
  let saved := idx.flatMap (fun f => if f.changed && !dry && !f.newEmpty then [Op.write .index] else [])
  let removed := idx.flatMap (fun f => if f.changed && !dry then [Op.remove .index] else [])
  let r := headerLoop dry packs {} []
  (saved ++ r.2 ++ (if finalizeWrites r.1 then [.write .index] else []) ++ removed, none)

/-- NOT the code — the seeded variant C15-5. -/
def repairIndexFinalizeGuardOnly (appendOnly dry : Bool) (idx : List IdxFile) (packs : List PackRead) :
    List Op × Option ErrKind :=
  if appendOnly then ([], some .appendOnly) else
  let saved := idx.flatMap (fun f => if f.changed && !dry && !f.newEmpty then [Op.write .index] else [])
  let removed := idx.flatMap (fun f => if f.changed && !dry then [Op.remove .index] else [])
  let r := headerLoopNoGuard packs {} []
  (saved ++ r.2 ++ (if !dry && finalizeWrites r.1 then [.write .index] else []) ++ removed, none)

/-! ### `Repository::backup` / `Repository::archive`: from the caller's options to the `DryRunBackend` -/

/-- `BackupOptions` (commands/backup.rs), field by field; values that only matter for WHAT is read are abstract numbers. -/
structure BackupOpts where
  stdinFilename : Nat := 0
  /-- `stdin_command: Option<CommandInput>` -/
  stdinCommand : Option Nat := none
  asPath : Option Nat := none
  noScan : Bool := false
  dryRun : Bool := false
  /-- `parent_opts.force` -/
  parentForce : Bool := false
  /-- the other fields of `parent_opts` -/
  parentRest : Nat := 0
  /-- `ignore_save_opts`, `excludes`, `ignore_filter_opts` (options of a local source) -/
  localOpts : Nat := 0
  deriving Repr, DecidableEq

/-- `DryRunBackend` (backend/dry_run.rs): what reaches the repository's backend of the operations issued on it. -/
def dryRunBackend (dry : Bool) (ops : List ConcreteOp) : List ConcreteOp := if dry then [] else ops

/-- what the archiver issues on ITS backend for a source of a kind under given options (packs, index files, the
snapshot): any function — the theorems quantify over it. -/
abbrev Archiver := BackupSource → BackupOpts → List ConcreteOp

/-- commands/backup.rs `archive`: the archiver runs on `DryRunBackend::new(repo.dbe(), opts.dry_run)`. -/
def archive (o : BackupOpts) (src : BackupSource) (a : Archiver) : List ConcreteOp :=
  dryRunBackend o.dryRun (a src o)

/-- the options `backup` hands to `archive` (`dash`: `*source == "-"`): a clone with `parent_opts.force` set for a
stdin source, the caller's options themselves otherwise. -/
def optsForArchive (dash : Bool) (o : BackupOpts) : BackupOpts :=
  if dash then { o with parentForce := true } else o

/-- the source `backup` builds. -/
def sourceOf (dash : Bool) (o : BackupOpts) : BackupSource :=
  if dash then (if o.stdinCommand.isSome then .stdinCommand else .stdin) else .localPaths

/-- commands/backup.rs `backup` (= `Repository::backup`): the operations that reach the repository. -/
def backup (dash : Bool) (o : BackupOpts) (a : Archiver) : List ConcreteOp :=
  let o' := optsForArchive dash o
  archive o' (sourceOf dash o') a

/-- NOT the code — the seeded variant C15-7: for a stdin source the options are built afresh from the fields that
"matter for stdin" (`stdin_filename`, `stdin_command`, `as_path`, `no_scan`, `parent_opts` with `force`), everything
else is `BackupOptions::default()` — `dry_run` among it. -/
def optsForArchiveFreshStdinOpts (dash : Bool) (o : BackupOpts) : BackupOpts :=
  if dash then
    { stdinFilename := o.stdinFilename, stdinCommand := o.stdinCommand, asPath := o.asPath, noScan := o.noScan,
      parentForce := true, parentRest := o.parentRest }
  else o

def backupFreshStdinOpts (dash : Bool) (o : BackupOpts) (a : Archiver) : List ConcreteOp :=
  let o' := optsForArchiveFreshStdinOpts dash o
  archive o' (sourceOf dash o') a

/-- the public call that backs up from a source of kind `src` with the caller's options `o`:
`Repository::archive(o, src, …)` for a caller-supplied `ReadSource`; `Repository::backup(o, <paths>, …)` for local paths;
`Repository::backup(o, "-", …)` with `o.stdin_command` unset (`stdin`) or set to `cmd` (`stdinCommand`). -/
def backupFrom (src : BackupSource) (cmd : Nat) (o : BackupOpts) (a : Archiver) : List ConcreteOp :=
  match src with
  | .readSource => archive o .readSource a
  | .localPaths => backup false o a
  | .stdin => backup true { o with stdinCommand := none } a
  | .stdinCommand => backup true { o with stdinCommand := some cmd } a

/-- the same calls on the seeded variant. -/
def backupFromFreshStdinOpts (src : BackupSource) (cmd : Nat) (o : BackupOpts) (a : Archiver) : List ConcreteOp :=
  match src with
  | .readSource => archive o .readSource a
  | .localPaths => backupFreshStdinOpts false o a
  | .stdin => backupFreshStdinOpts true { o with stdinCommand := none } a
  | .stdinCommand => backupFreshStdinOpts true { o with stdinCommand := some cmd } a

/-- the archiver only issues what the table's `backup` row allows. -/
def Archiver.ok (a : Archiver) : Prop :=
  ∀ src o, ∀ op ∈ a src o, op.kind ∈ dataWrites ++ [Op.write .snapshot]

end Rustic.CommandSteps
