/-
Model M7 (part) — nodes, trees, `TreeIterator`, `TreeArchiver`.

Import-free, executable.  Sources modelled (line by line where a property is about the line):
* `Name`, `cmpName`    — `OsStr` names and their `Ord` (byte-wise lexicographic), as used by
                         `archiver/parent.rs::p_node` (`(*p_node.name()).cmp(name)`).
* `Kind`, `Meta`, `Node` — `backend/node.rs` `NodeType`, `Metadata`, `Node` (the fields the archiver reads:
                         type incl. link target, size, mtime, ctime, inode; `rest` stands for every other
                         metadata field — it only takes part in the tree hash).
* tree ids            — `blob/tree.rs::Tree::serialize`: the id is a function `H` of the node list (hash of
                         the JSON of `nodes` in insertion order; `Tree::add` pushes, nothing sorts).
* `TIter.next`        — `archiver/tree.rs::TreeIterator::next` incl. `pop`; paths are lists of normal
                         components (root/prefix components are skipped by `comp_to_osstr`).
* `TA.add`, `TA.backupTree`, `TA.finalize` — `archiver/tree_archiver.rs` (`add`, `add_file`, `backup_tree`,
                         `finalize`) and the summary counters.
Blob / tree ids are `Nat` (abstract ids; the theorems quantify over the hash function).
-/
namespace Rustic.Tree

abbrev Name := List UInt8
abbrev Id := Nat

/-- `Ord for OsStr` (= `[u8]`): byte-wise lexicographic. -/
def cmpName : Name → Name → Ordering
  | [], [] => .eq
  | [], _ :: _ => .lt
  | _ :: _, [] => .gt
  | a :: as, b :: bs => if a < b then .lt else if b < a then .gt else cmpName as bs

inductive Kind where
  | file
  | dir
  | symlink (target : List UInt8)
  | other (tag : Nat)          -- dev / chardev / fifo / socket
  deriving DecidableEq, Repr, Inhabited

structure Meta where
  size  : Nat
  mtime : Option Int
  ctime : Option Int
  inode : Nat
  /-- every other metadata field (mode, uid, gid, links, xattrs …), opaque -/
  rest  : Nat := 0
  deriving DecidableEq, Repr, Inhabited

structure Node where
  name    : Name
  kind    : Kind
  md      : Meta
  content : Option (List Id) := none
  subtree : Option Id := none
  deriving DecidableEq, Repr, Inhabited

def Node.isDir (n : Node) : Bool := n.kind = .dir

/-- Result of the parent search (`archiver/parent.rs::ParentResult`). -/
inductive PRes (α : Type) where
  | matched (a : α)
  | notFound
  | notMatched
  deriving DecidableEq, Repr

def PRes.map {α β} (f : α → β) : PRes α → PRes β
  | .matched a => .matched (f a)
  | .notFound => .notFound
  | .notMatched => .notMatched

def PRes.isMatched {α} : PRes α → Bool
  | .matched _ => true
  | _ => false

/-- `TreeType<T, U>` after `TreeIterator`: `γ` is what `Other` carries besides path and node. -/
inductive Item (γ : Type) where
  | newTree (node : Node) (name : Name)
  | endTree
  | other (node : Node) (x : γ)
  deriving Repr

/-! ### `TreeIterator` -/

/-- One source entry as `Archiver::archive` hands it to `TreeIterator`: directories come with their own
path, everything else with the path of its parent directory. -/
structure Entry (γ : Type) where
  path : List Name
  node : Node
  x    : γ

/-- `path.strip_prefix(base)` on component lists. -/
def stripPrefix : (base path : List Name) → Option (List Name)
  | [], p => some p
  | _ :: _, [] => none
  | b :: bs, c :: cs => if b = c then stripPrefix bs cs else none

structure TIter (γ : Type) where
  rest : List (Entry γ)      -- `iter`
  path : List Name           -- `self.path`
  item : Option (Entry γ)    -- `self.item`

def TIter.new {γ} : List (Entry γ) → TIter γ
  | [] => { rest := [], path := [], item := none }
  | e :: es => { rest := es, path := [], item := some e }

/-- `self.item.take(); self.item = self.iter.next()` -/
def TIter.advance {γ} (t : TIter γ) : TIter γ :=
  match t.rest with
  | [] => { t with item := none }
  | e :: es => { t with item := some e, rest := es }

/-- `TreeIterator::next`.  `pop` on a list of normal components: false iff empty. -/
def TIter.next {γ} (t : TIter γ) : Option (Item γ × TIter γ) :=
  match t.item with
  | none => if t.path.isEmpty then none else some (.endTree, { t with path := t.path.dropLast })
  | some e =>
    match stripPrefix t.path e.path with
    | none => some (.endTree, { t with path := t.path.dropLast })
    | some [] => some (.other e.node e.x, t.advance)
    | some (comp :: _) =>
      let path' := t.path ++ [comp]
      if e.node.isDir && e.path = path' then
        some (.newTree e.node e.node.name, { t.advance with path := path' })
      else
        -- "Use mode 755 for missing dirs": a synthesised directory node with default metadata
        some (.newTree { name := comp, kind := .dir, md := { size := 0, mtime := none, ctime := none, inode := 0, rest := 1 } } comp,
              { t with path := path' })

/-- All items the iterator yields (fuel: every step consumes an entry, pushes or pops a component). -/
def TIter.run {γ} : Nat → TIter γ → List (Item γ)
  | 0, _ => []
  | fuel + 1, t =>
    match t.next with
    | none => []
    | some (it, t') => it :: TIter.run fuel t'

def entriesFuel {γ} (es : List (Entry γ)) : Nat :=
  es.foldl (fun acc e => acc + 2 * e.path.length + 3) 4

def treeItems {γ} (es : List (Entry γ)) : List (Item γ) := (TIter.new es).run (entriesFuel es)

/-! ### `TreeArchiver` -/

/-- The counters of `SnapshotSummary` the tree archiver maintains. -/
structure Summary where
  filesNew : Nat := 0
  filesChanged : Nat := 0
  filesUnmodified : Nat := 0
  dirsNew : Nat := 0
  dirsChanged : Nat := 0
  dirsUnmodified : Nat := 0
  totalFiles : Nat := 0
  totalBytes : Nat := 0
  deriving DecidableEq, Repr

/-- Item after `FileArchiver::process`: `Other` carries `(ParentResult<()>, filesize)`, `NewTree` the
`ParentResult<TreeId>`. -/
inductive TItem where
  | newTree (node : Node) (parent : PRes Id)
  | endTree
  | other (node : Node) (parent : PRes Unit) (size : Nat)
  deriving Repr

structure TA where
  tree    : List Node := []
  stack   : List (Node × PRes Id × List Node) := []
  /-- `tree_packer.add(chunk, id)` calls, in order: (id, serialised tree = its node list) -/
  adds    : List (Id × List Node) := []
  summary : Summary := {}
  deriving Repr

/-- `backup_tree`: `H` is `Tree::serialize`'s id, `hasTree` the global index.  (After the C11 repair the
`Matched(p_id) if id == *p_id` arm only counts; it no longer returns before the `index.has_tree` test.) -/
def TA.backupTree (H : List Node → Id) (hasTree : Id → Bool) (s : TA) (parent : PRes Id) : TA × Id :=
  let id := H s.tree
  let sm := s.summary
  let sm := match parent with
    | .matched p =>
      if id = p then { sm with dirsUnmodified := sm.dirsUnmodified + 1 }
      else { sm with dirsChanged := sm.dirsChanged + 1 }
    | .notFound => { sm with dirsNew := sm.dirsNew + 1 }
    | .notMatched => { sm with dirsChanged := sm.dirsChanged + 1 }
  let s := { s with summary := sm }
  -- `if !self.index.has_tree(&id) { self.tree_packer.add(chunk, id) }`
  (if hasTree id then s else { s with adds := s.adds ++ [(id, s.tree)] }, id)

/-- `add_file`: counters, then `self.tree.add(node)`. -/
def TA.addFile (s : TA) (node : Node) (parent : PRes Unit) (size : Nat) : TA :=
  let sm := s.summary
  let sm := match parent with
    | .matched _ => { sm with filesUnmodified := sm.filesUnmodified + 1 }
    | .notMatched => { sm with filesChanged := sm.filesChanged + 1 }
    | .notFound => { sm with filesNew := sm.filesNew + 1 }
  let sm := { sm with totalFiles := sm.totalFiles + 1, totalBytes := sm.totalBytes + size }
  { s with summary := sm, tree := s.tree ++ [node] }

/-- `TreeArchiver::add`; `none` = `Err("Tree stack is empty")`. -/
def TA.add (H : List Node → Id) (hasTree : Id → Bool) (s : TA) : TItem → Option TA
  | .newTree node parent => some { s with tree := [], stack := (node, parent, s.tree) :: s.stack }
  | .endTree =>
    match s.stack with
    | [] => none
    | (node, parent, tree) :: st =>
      let (s', id) := s.backupTree H hasTree parent
      some { s' with stack := st, tree := tree ++ [{ node with subtree := some id }] }
  | .other node parent size => some (s.addFile node parent size)

def TA.addAll (H : List Node → Id) (hasTree : Id → Bool) : TA → List TItem → Option TA
  | s, [] => some s
  | s, it :: its => match s.add H hasTree it with
    | none => none
    | some s' => TA.addAll H hasTree s' its

/-- `finalize(parent_tree)`: the root tree. -/
def TA.finalize (H : List Node → Id) (hasTree : Id → Bool) (s : TA) (parentTree : Option Id) : TA × Id :=
  s.backupTree H hasTree (match parentTree with | none => .notFound | some p => .matched p)

end Rustic.Tree
