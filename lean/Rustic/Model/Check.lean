/-
Model of `crates/core/src/commands/check.rs` (rustic_core) over an abstract repository state.

What is abstracted: ids are `Nat` (0 = the null id); a stored pack file is its listing size, the sha256 of
its bytes, the 4-byte trailer, the result of decrypting + parsing the header region the trailer names, and
a *decrypt table* `dec off len compressed` giving, for a byte range, whether the MAC verifies, whether zstd
decodes, and the hash / length / tree parse of the plaintext.  Index files are what they say (possibly
damaged, duplicated, incomplete).  The in-memory index is a parameter `lk : Lookup` (see `LkSound` in
`Props/C05.lean`; its implementation is property C17).

Definition ↔ Rust:
* `packType`, `IPack.packSize`                 — `IndexPack::{blob_type, pack_size}` (repofile/indexfile.rs)
* `headerSize`, `computedPackSize`            — `PackHeaderRef::{size, pack_size}` (repofile/packfile.rs)
* `sortBlobs`                                 — `blobs.sort_unstable()` (`Ord for IndexBlob` = by offset)
* `offsetErrs`, `indexPackErrs`, `indexErrs`  — loop body of `check_packs`
* `listErrs`, `missing`                       — `check_packs_list` (NoPack / PackSizeMismatchIndex; the map left over)
* `readBlob`, `readTree`                      — `IndexEntry::read_data` + `read_encrypted_from_partial`
                                                 (backend/decrypt.rs) + `Tree::from_backend` (blob/tree.rs)
* `walk`, `newIds`, `subtreesOf`              — `TreeStreamerOnce` (visited set; any node with a subtree is queued)
* `snapTrees`, `DelMark`, `mustDelete`        — `Repository::check` (repository.rs: the trees handed to `check_repository`),
                                                 `DeleteOption`, `SnapshotFile::must_delete` (repofile/snapshotfile.rs)
* `nodeErrs`, `nodePacks`, `rootPacks`        — `check_trees` (`rootPacks` = the root-tree packs inserted since the
                                                 repair of DESIGN §7 #11; `rootFix := false` is the code before it)
* `checkIndexPacks`                            — which packs enter check's *own* index in `check_packs`:
                                                 `index_collector.extend(index.packs.clone())`, i.e. the unmarked
                                                 sections only — the pack list `GlobalIndex::new` gives every reader.
                                                 `withMarked := true` = the variant where `packs_to_delete` enter too.
* `reconstructed`, `retype`                   — `index_be.into_index().into_iter()` (index/binarysorted.rs `PackIndexes`:
                                                 one `IndexPack` per pack of check's index, tree packs first, every
                                                 blob typed by the pack, `size: None`)
* `checkW`, `check`                           — `check_repository`; `check = checkW false` is the code
* `checkPack`, `blobErrs`                     — `check_pack`
* `check`                                     — `Repository::check` + `check_repository` with `read_data = true`,
                                                 `ReadSubsetOption::All`, no cache, no hot repository
* `restoreOk`                                 — executable restorability verdict printed by the driver
-/
namespace Rustic.Check

abbrev Id := Nat
def nullId : Id := 0

inductive BT | tree | data
  deriving DecidableEq, Repr, Inhabited

structure Blob where
  id : Id
  tpe : BT
  offset : Nat
  length : Nat
  ulen : Option Nat
  deriving DecidableEq, Repr

structure IPack where
  id : Id
  blobs : List Blob
  timeSet : Bool
  size : Option Nat
  deriving Repr

structure IFile where
  packs : List IPack
  toDelete : List IPack
  deriving Repr

inductive NodeKind | file | dir | other
  deriving DecidableEq, Repr

/-- a node of a stored tree.  `size`, `links`, `inode`, `device` are `Metadata::{size, links, inode, device_id}` as recorded
by the archiver — what `stat` said (stdin / stdin-command snapshots: `Metadata::default()`, i.e. size 0 with real content; a
file that grew while it was read; hardlinks share an inode, which identifies a file only WITHIN one snapshot).  `check_trees`
never looks at them (neither do restore / dump, which go by `content`); they are in the model so that this can be stated. -/
structure Node where
  kind : NodeKind
  subtree : Option Id
  content : Option (List Id)
  size : Nat := 0
  links : Nat := 1
  inode : Nat := 0
  device : Nat := 0
  deriving DecidableEq, Repr

/-- Outcome of decrypting (and, if `compressed`, zstd-decoding) a byte range of a stored pack file. -/
inductive Res
  | fail                                                   -- range outside the file / MAC does not verify
  | zfail                                                  -- MAC fine, zstd decoding fails
  | ok (hash : Id) (len : Nat) (nodes : Option (List Node)) -- plaintext: sha256, length, JSON parse as a tree

structure PFile where
  id : Id
  size : Nat
  hash : Id
  trailer : Option Nat
  header : Option (List Blob)
  dec : Nat → Nat → Bool → Res

/-- `SnapshotFile::delete` (`DeleteOption`): `after t` = "remove this snapshot after `t`" (seconds; set by
`backup --delete-after`), `never` = remove-protection.  Only `forget` looks at it (`must_delete` / `must_keep`). -/
inductive DelMark
  | notSet
  | never
  | after (t : Int)
  deriving DecidableEq, Repr

structure Snap where
  tree : Id
  /-- the file's name is the sha256 of its bytes (nothing in `check` or in the read path looks at this) -/
  authentic : Bool
  /-- the delete mark of the snapshot file.  `Repository::check` hands `check_repository` the root tree of EVERY snapshot
  `get_all_snapshots` lists and never looks at it; it is in the model so that this can be stated
  (`Props.C05.check_walks_every_listed_snapshot`). -/
  mark : DelMark := .notSet
  deriving DecidableEq, Repr

structure Repo where
  snapsOk : Bool
  snaps : List Snap
  indexOk : Bool
  index : List IFile
  files : List PFile

structure Entry where
  pack : Id
  offset : Nat
  length : Nat
  ulen : Option Nat

abbrev Lookup := BT → Id → Option Entry

structure Sizes where
  entryLen : Nat
  entryLenComp : Nat
  overhead : Nat
  lengthLen : Nat

inductive Err
  | PackTimeNotSet | PackBlobTypesMismatch | PackBlobOffsetMismatch | PackSizeMismatchIndex | NoPack
  | ErrorCheckingTrees | FileHasNoContent | FileBlobHasNullId | FileBlobNotInIndex | NoSubTree | NullSubTree
  | SubTreeMissingInIndex | ErrorReadingPack | PackSizeMismatch | PackHashMismatch | PackHeaderLengthMismatch
  | PackHeaderMismatchIndex | ErrorCheckingPack | PackBlobLengthMismatch | PackBlobHashMismatch | Panic
  deriving DecidableEq, Repr

inductive Verdict
  | cmdErr
  | findings (errs : List Err)
  deriving DecidableEq, Repr

/-! ### index files -/

def packType (p : IPack) : BT :=
  match p.blobs with
  | [] => .data
  | b :: _ => b.tpe

def entryLen (z : Sizes) (b : Blob) : Nat := if b.ulen.isSome then z.entryLenComp else z.entryLen

def headerSize (z : Sizes) (bs : List Blob) : Nat := bs.foldl (fun acc b => acc + entryLen z b) z.overhead

def computedPackSize (z : Sizes) (bs : List Blob) : Nat :=
  bs.foldl (fun acc b => acc + b.length + entryLen z b) (z.overhead + z.lengthLen)

def IPack.packSize (z : Sizes) (p : IPack) : Nat := p.size.getD (computedPackSize z p.blobs)

def insertByOffset (x : Blob) : List Blob → List Blob
  | [] => [x]
  | y :: l => if x.offset ≤ y.offset then x :: y :: l else y :: insertByOffset x l

def sortBlobs : List Blob → List Blob
  | [] => []
  | x :: l => insertByOffset x (sortBlobs l)

def offsetErrs (pt : BT) : Nat → List Blob → List Err
  | _, [] => []
  | exp, b :: l =>
    (if b.tpe = pt then [] else [Err.PackBlobTypesMismatch]) ++
    (if b.offset = exp then [] else [Err.PackBlobOffsetMismatch]) ++ offsetErrs pt (exp + b.length) l

def indexPackErrs (p : IPack) (toDelete : Bool) : List Err :=
  (if toDelete && !p.timeSet then [Err.PackTimeNotSet] else []) ++
    offsetErrs (packType p) 0 (sortBlobs p.blobs)

def livePacks (r : Repo) : List IPack := r.index.flatMap (·.packs)

/-- `check_packs`: per index file `index_collector.extend(index.packs.clone())` — the packs whose blobs enter
check's private index (used by the tree walk, by every look-up of `check_trees`, and, through
`index_be.into_index()`, by the pack read).  In the code (`withMarked = false`) these are the packs of the
*unmarked* sections only: exactly what `GlobalIndex::new` (`livePacks`) offers to restore / dump / ls.
`withMarked = true` models a collector that is also fed the packs of `packs_to_delete` (e.g. moving each pack of
the `all_packs()` loop into the collector instead of cloning `index.packs`). -/
def checkIndexPacks (withMarked : Bool) (r : Repo) : List IPack :=
  r.index.flatMap (fun f => f.packs ++ (if withMarked then f.toDelete else []))

def allIndexPacks (r : Repo) : List (IPack × Bool) :=
  r.index.flatMap (fun f => f.packs.map (·, false) ++ f.toDelete.map (·, true))

def indexErrs (r : Repo) : List Err := (allIndexPacks r).flatMap (fun pd => indexPackErrs pd.1 pd.2)

def findFile (r : Repo) (id : Id) : Option PFile := r.files.find? (fun f => f.id == id)

/-- `packs.insert(p.id, (pack_size, to_delete))`: the last entry of an id wins. -/
def lastSize (z : Sizes) (r : Repo) (id : Id) : Option Nat :=
  ((allIndexPacks r).reverse.find? (fun pd => pd.1.id == id)).map (fun pd => pd.1.packSize z)

def listErrs (z : Sizes) (r : Repo) : List Err :=
  (allIndexPacks r).flatMap fun pd =>
    match findFile r pd.1.id with
    | none => [Err.NoPack]
    | some f => if lastSize z r pd.1.id = some f.size then [] else [Err.PackSizeMismatchIndex]

def missing (r : Repo) : List Id :=
  ((allIndexPacks r).map (·.1.id)).filter (fun id => (findFile r id).isNone)

/-! ### reading blobs through the index -/

def lenOk : Option Nat → Nat → Bool
  | none, _ => true
  | some n, len => len == n

def readBlob (r : Repo) (lk : Lookup) (t : BT) (id : Id) : Option (Id × Option (List Node)) :=
  match lk t id with
  | none => none
  | some e =>
    match findFile r e.pack with
    | none => none
    | some f =>
      match f.dec e.offset e.length e.ulen.isSome with
      | .ok h len nodes => if lenOk e.ulen len then some (h, nodes) else none
      | _ => none

def readTree (r : Repo) (lk : Lookup) (id : Id) : Option (List Node) :=
  match readBlob r lk .tree id with
  | some (_, some nodes) => some nodes
  | _ => none

/-! ### the tree walk (`TreeStreamerOnce`) -/

def subtreesOf (nodes : List Node) : List Id := nodes.filterMap (·.subtree)

/-- ids of `l` not yet visited (and not repeated), in order: what `add_pending` lets through -/
def newIds (vis : List Id) : List Id → List Id
  | [] => []
  | s :: l => if s ∈ vis then newIds vis l else s :: newIds (s :: vis) l

/-- Processes the queue; `none` = a tree could not be loaded (or the fuel ran out): `check_trees` fails. -/
def walk (rd : Id → Option (List Node)) : Nat → List Id → List Id → Option (List (Id × List Node))
  | _, [], _ => some []
  | 0, _ :: _, _ => none
  | n + 1, t :: q, vis =>
    match rd t with
    | none => none
    | some nodes =>
      let new := newIds vis (subtreesOf nodes)
      (walk rd n (q ++ new) (vis ++ new)).map ((t, nodes) :: ·)

def contentErrs (lk : Lookup) : List Id → List Err
  | [] => []
  | d :: l =>
    (if d = nullId then [Err.FileBlobHasNullId] else []) ++
    (match lk .data d with
      | none => [Err.FileBlobNotInIndex]
      | some _ => []) ++ contentErrs lk l

/-- the subtree of a node that is not a directory: the tree streamers (`TreeStreamerOnce`, the node streamer of
ls / restore) follow the subtree of *any* node, so — since `fix: check ignored subtrees of non-directory nodes` —
`check_trees` looks at it as well (null id, missing in the index, else its pack joins the read set). -/
def subtreeErrs (lk : Lookup) : Option Id → List Err
  | none => []
  | some id =>
    if id = nullId then [Err.NullSubTree] else
    match lk .tree id with
    | none => [Err.SubTreeMissingInIndex]
    | some _ => []

def subtreePacks (lk : Lookup) : Option Id → List Id
  | none => []
  | some id => if id = nullId then [] else ((lk .tree id).map (·.pack)).toList

def nodeErrs (lk : Lookup) (n : Node) : List Err :=
  match n.kind with
  | .file =>
    (match n.content with
      | none => [Err.FileHasNoContent]
      | some ids => contentErrs lk ids) ++ subtreeErrs lk n.subtree
  | .dir =>
    match n.subtree with
    | none => [Err.NoSubTree]
    | some id => subtreeErrs lk (some id)
  | .other => subtreeErrs lk n.subtree

def nodePacks (lk : Lookup) (n : Node) : List Id :=
  match n.kind with
  | .file => (n.content.getD []).filterMap (fun d => (lk .data d).map (·.pack)) ++ subtreePacks lk n.subtree
  | .dir => subtreePacks lk n.subtree
  | .other => subtreePacks lk n.subtree

/-- `Repository::check`: `self.get_all_snapshots()?.into_iter().map(|snap| snap.tree).collect()` — the root tree of every
listed snapshot, in listing order, whatever its delete mark and whatever the time is.  (`roots` / `rootPacks` below are
`TreeStreamerOnce::new` resp. the root-pack loop of `check_trees` over this list.) -/
def snapTrees (r : Repo) : List Id := r.snaps.map (·.tree)

def roots (r : Repo) : List Id := newIds [] (r.snaps.map (·.tree))

/-- `SnapshotFile::must_delete(now)`: `matches!(&self.delete, DeleteOption::After(time) if time < now)` -/
def mustDelete (now : Int) (s : Snap) : Bool :=
  match s.mark with
  | .after t => decide (t < now)
  | _ => false

/-- NOT the code: the repository as a `check` sees it that first drops the snapshots whose delete-after time has passed
("the next forget removes them anyway").  Such a snapshot is still listed and restorable until somebody runs `forget`;
`Props.C05.expired_snapshot_skipped_unsound` is the witness that a check over `dropExpired now r` is unsound for `r`. -/
def dropExpired (now : Int) (r : Repo) : Repo :=
  { r with snaps := r.snaps.filter (fun s => !mustDelete now s) }

/-- the same repository with other delete marks on its snapshot files -/
def remark (f : Snap → DelMark) (r : Repo) : Repo :=
  { r with snaps := r.snaps.map (fun s => { s with mark := f s }) }

def rootPacks (r : Repo) (lk : Lookup) : List Id :=
  (r.snaps.map (·.tree)).filterMap (fun t => (lk .tree t).map (·.pack))

/-! ### reading pack data -/

def retype (p : IPack) : IPack :=
  { p with blobs := p.blobs.map (fun b => { b with tpe := packType p }), size := none }

def reconstructedOf (ps : List IPack) : List IPack :=
  ((ps.filter (fun p => packType p == .tree)) ++ (ps.filter (fun p => packType p == .data))).map retype

def reconstructed (r : Repo) : List IPack := reconstructedOf (checkIndexPacks false r)

def blobErrs (f : PFile) : Nat → List Blob → List Err
  | _, [] => []
  | pos, b :: l =>
    match f.dec pos b.length b.ulen.isSome with
    | .fail => [Err.ErrorCheckingPack]
    | .zfail => [Err.Panic]
    | .ok h len _ =>
      (if lenOk b.ulen len then [] else [Err.PackBlobLengthMismatch]) ++
      (if h = b.id then [] else [Err.PackBlobHashMismatch]) ++ blobErrs f (pos + b.length) l

def checkPack (z : Sizes) (r : Repo) (p : IPack) : List Err :=
  match findFile r p.id with
  | none => [Err.ErrorReadingPack]
  | some f =>
    if f.size ≠ computedPackSize z p.blobs then [Err.PackSizeMismatch] else
    if f.hash ≠ p.id then [Err.PackHashMismatch] else
    match f.trailer with
    | none => [Err.Panic]
    | some t =>
      if t ≠ headerSize z p.blobs then [Err.PackHeaderLengthMismatch] else
      match f.header with
      | none => [Err.ErrorCheckingPack]
      | some hb =>
        if hb ≠ sortBlobs p.blobs then [Err.PackHeaderMismatchIndex] else
        blobErrs f 0 (sortBlobs p.blobs)

def walkErrs (lk : Lookup) (out : List (Id × List Node)) : List Err :=
  out.flatMap (fun tn => tn.2.flatMap (nodeErrs lk))

def walkPacks (lk : Lookup) (out : List (Id × List Node)) : List Id :=
  out.flatMap (fun tn => tn.2.flatMap (nodePacks lk))

def readSet (rootFix : Bool) (r : Repo) (lk : Lookup) (out : List (Id × List Node)) : List Id :=
  (if rootFix then rootPacks r lk else []) ++ walkPacks lk out

def packErrsOf (z : Sizes) (r : Repo) (ps : List IPack) (packs : List Id) : List Err :=
  ((reconstructedOf ps).filter (fun p => !(missing r).contains p.id && packs.contains p.id)).flatMap
    (checkPack z r)

def packErrs (z : Sizes) (r : Repo) (packs : List Id) : List Err := packErrsOf z r (checkIndexPacks false r) packs

/-- `Repository::check(CheckOptions { read_data: true, .. })`: Error-level findings (as a list; the
driver prints the set), or the command itself failing.  `lk` is the look-up of check's own index, whose packs
are `checkIndexPacks withMarked r`. -/
def checkW (withMarked : Bool) (z : Sizes) (rootFix : Bool) (r : Repo) (lk : Lookup) (fuel : Nat) : Verdict :=
  if !r.snapsOk || !r.indexOk then .cmdErr else
  match walk (readTree r lk) fuel (roots r) (roots r) with
  | none => .findings (indexErrs r ++ listErrs z r ++ [Err.ErrorCheckingTrees])
  | some out =>
    .findings (indexErrs r ++ listErrs z r ++ walkErrs lk out ++
      packErrsOf z r (checkIndexPacks withMarked r) (readSet rootFix r lk out))

/-- the code: check's own index holds the unmarked packs only. -/
def check (z : Sizes) (rootFix : Bool) (r : Repo) (lk : Lookup) (fuel : Nat) : Verdict :=
  checkW false z rootFix r lk fuel

/-! ### restorability, executable (what reading every snapshot back needs) -/

def blobOkB (r : Repo) (lk : Lookup) (t : BT) (id : Id) : Bool :=
  match readBlob r lk t id with
  | some (h, _) => h == id
  | none => false

def treeOkB (r : Repo) (lk : Lookup) (t : Id) (nodes : List Node) : Bool :=
  blobOkB r lk .tree t &&
  nodes.all (fun n => n.kind != .file ||
    match n.content with
    | none => false
    | some ids => ids.all (blobOkB r lk .data))

def restoreOk (r : Repo) (lk : Lookup) (fuel : Nat) : Bool :=
  r.snapsOk && r.indexOk && r.snaps.all (·.authentic) &&
  match walk (readTree r lk) fuel (roots r) (roots r) with
  | none => false
  | some out => out.all (fun tn => treeOkB r lk tn.1 tn.2)

/-- The driver's index: first matching entry in index-file order (any choice satisfying `LkSound` is
allowed by the theorems; the real one is a binary search over an unstable sort). -/
def lkOf (ps : List IPack) : Lookup := fun t id =>
  ps.findSome? fun p =>
    if packType p = t then
      (p.blobs.find? (fun b => b.id == id)).map
        (fun b => { pack := p.id, offset := b.offset, length := b.length, ulen := b.ulen })
    else none

/-- the readers' index (`GlobalIndex::new`: unmarked sections only) -/
def lkFirst (r : Repo) : Lookup := lkOf (livePacks r)

end Rustic.Check
