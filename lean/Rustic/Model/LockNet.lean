/-
Model/LockNet.lean — the lock / queue net of `prune --fast-repack`'s concurrent `Packer::add_raw` calls.
Import-free, executable, total.  Only the synchronisation skeleton is modelled (who holds which lock, how full the
file-writer queue is); pack contents are in Model/PackerActor.lean.

What is modelled, and from where (crates/core/src/blob/packer.rs):
* `W`  — one rayon worker that calls `Packer::add_raw(blob)` for `left` more blobs.  `pc` is where it is inside the call:
           `out`     not inside `add_raw`;
           `chk`     `self.indexer.read().unwrap().has(..)` — it holds the shared indexer's READ guard (`rd = true`);
           `wantPk`  the check said "not present"; it waits for `self.raw_packer.write().unwrap()` (a mutex among the workers);
           `inPk`    it holds the raw_packer lock and runs `RawPacker::add_raw` (`basic.add_raw`, then `should_save`);
           `send`    the pack is full: `RawPacker::save` → `Actor::send` = a BLOCKING `sender.send` into the file-writer's
                     bounded channel, still holding the raw_packer lock.
         `rd` = the worker holds the indexer READ guard.  In the code as it is the guard is a temporary of the `if`
         condition and is dropped before the `else` branch runs (`keep = false`); the seeded variant binds it to a
         local that lives until the end of `add_raw` (`keep = true`).
* `LSt.queue` — packs in the file-writer's bounded channel and read-ahead stages (`Actor::new`: `bounded(queue_len)`,
         `readahead_scoped`); `cap ≥ 1` is their total capacity.
* `LSt.idx`   — a written pack sits in the actor's last stage `FileWriterHandle::index`, which needs
         `self.indexer.write()`: exclusive (waits until there is no reader), and std's `RwLock` is writer-preferring:
         while the writer waits NEW readers block — hence `begin` needs `idx = false`.
* `Act` / `step` — one atomic step of one thread:
           `begin i`      worker i enters `add_raw` and gets the READ guard          (blocked while a writer waits);
           `checked i`    `has` returned false; the guard is dropped unless `keep`;
           `lockPk i`     worker i gets the raw_packer lock                           (blocked while another worker holds it);
           `added i full` `RawPacker::add_raw`: blob added; `full = should_save()`; if not full `add_raw` returns;
           `sent i`       `Actor::send` returns                                       (blocked while the queue is full);
                          `add_raw` returns, every guard is dropped;
           `take`         the actor takes a pack from the queue and writes it (`FileWriterHandle::process`); the pack
                          now waits in the index stage                                (blocked while that stage is occupied);
           `index`        `FileWriterHandle::index`: `indexer.write()` obtained       (blocked while there is a reader).
* `runActs` — a schedule: a list of actions, those that are not enabled are skipped.
* `measure` — a variant that every enabled step decreases (no livelock); `final` — all blobs added, all packs indexed;
  `stuck`   — executable check that no action is enabled (deadlock when not `final`).
-/
namespace Rustic.LockNet

inductive PC | out | chk | wantPk | inPk | send
deriving DecidableEq, Repr

structure W where
  left : Nat
  pc : PC := .out
  rd : Bool := false
deriving DecidableEq, Repr

structure LSt where
  ws : List W
  queue : Nat := 0
  idx : Bool := false
deriving DecidableEq, Repr

inductive Act
  | begin (i : Nat) | checked (i : Nat) | lockPk (i : Nat) | added (i : Nat) (full : Bool) | sent (i : Nat)
  | take | index
deriving DecidableEq, Repr

/-- number of workers that hold the indexer READ guard -/
def readers (s : LSt) : Nat := s.ws.countP (·.rd)

def holdsPk (w : W) : Bool := w.pc == .inPk || w.pc == .send

/-- some worker holds the raw_packer lock -/
def pkHeld (s : LSt) : Bool := s.ws.any holdsPk

/-- worker `i` becomes `w` -/
def upd (s : LSt) (i : Nat) (w : W) : LSt := { s with ws := s.ws.set i w }

/-- `add_raw` returns: the blob is done, every guard is dropped -/
def done (w : W) : W := { left := w.left - 1, pc := .out, rd := false }

def step (keep : Bool) (cap : Nat) (s : LSt) : Act → Option LSt
  | .begin i =>
    match s.ws[i]? with
    | some w => if w.pc = .out ∧ 0 < w.left ∧ s.idx = false then some (upd s i { w with pc := .chk, rd := true }) else none
    | none => none
  | .checked i =>
    match s.ws[i]? with
    | some w => if w.pc = .chk then some (upd s i { w with pc := .wantPk, rd := keep }) else none
    | none => none
  | .lockPk i =>
    match s.ws[i]? with
    | some w => if w.pc = .wantPk ∧ pkHeld s = false then some (upd s i { w with pc := .inPk }) else none
    | none => none
  | .added i full =>
    match s.ws[i]? with
    | some w =>
      if w.pc = .inPk then some (upd s i (if full then { w with pc := .send } else done w)) else none
    | none => none
  | .sent i =>
    match s.ws[i]? with
    | some w => if w.pc = .send ∧ s.queue < cap then some { upd s i (done w) with queue := s.queue + 1 } else none
    | none => none
  | .take => if 0 < s.queue ∧ s.idx = false then some { s with queue := s.queue - 1, idx := true } else none
  | .index => if s.idx = true ∧ readers s = 0 then some { s with idx := false } else none

def isDone (w : W) : Bool := w.pc == .out && w.left == 0

/-- every blob is added, every pack is written and indexed -/
def final (s : LSt) : Bool := s.queue == 0 && !s.idx && s.ws.all isDone

def off : PC → Nat
  | .out => 0 | .chk => 1 | .wantPk => 2 | .inPk => 3 | .send => 4

/-- steps worker `w` still has to make, ×⅓ (a worker inside `add_raw` has `left > 0`, see `WF`) -/
def cost (w : W) : Nat := 5 * w.left - off w.pc

def sumCost : List W → Nat
  | [] => 0
  | w :: ws => cost w + sumCost ws

def measure (s : LSt) : Nat := 3 * sumCost s.ws + 2 * s.queue + s.idx.toNat

def init (lefts : List Nat) : LSt := { ws := lefts.map fun n => { left := n } }

def runActs (keep : Bool) (cap : Nat) (s : LSt) : List Act → LSt
  | [] => s
  | a :: as =>
    match step keep cap s a with
    | some s' => runActs keep cap s' as
    | none => runActs keep cap s as

/-- number of actions of a schedule that were enabled when their turn came (the steps actually made) -/
def executed (keep : Bool) (cap : Nat) : LSt → List Act → Nat
  | _, [] => 0
  | s, a :: as =>
    match step keep cap s a with
    | some s' => executed keep cap s' as + 1
    | none => executed keep cap s as

/-- no action is enabled -/
def stuck (keep : Bool) (cap : Nat) (s : LSt) : Bool :=
  (List.range s.ws.length).all (fun i =>
    [Act.begin i, .checked i, .lockPk i, .added i true, .added i false, .sent i].all fun a => (step keep cap s a).isNone)
  && (step keep cap s .take).isNone && (step keep cap s .index).isNone

end Rustic.LockNet
