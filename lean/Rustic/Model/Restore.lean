/-
Model M13 (part) — restore of one file's contents and destination path joining
(`crates/core/src/commands/restore.rs`: `RestorePlan::add_file`, `restore_contents` as repaired by the sparse fix
(`file_truncate`), the path check added to `collect_and_prepare` by fix a7b2d5a;
`crates/core/src/backend/local_destination.rs`: `path`, `get_matching_file`, `set_length`, `write_at`).  Import-free,
executable.  The merge-walk and the pack bookkeeping of `RestorePlan` are in `Model/RestoreWalk.lean`.

* `matchingFile`  — `get_matching_file(name, size)`: the existing file iff it is a regular file of exactly `size` bytes.
* `restoreFile`   — `add_file` + `restore_contents` for one file:
    - size 0 and an empty file exists ⇒ `Existing`, nothing is done;
    - `!verify_existing` and a matching file whose mtime equals the node's ⇒ `Existing`, file accepted unread.  The
      comparison is `Option<Timestamp> == Option<Timestamp>` (`mtimeEq`): whole seconds AND the nanosecond part
      (`MTime`); a node without mtime never equals a readable file mtime;
    - otherwise every blob is compared with the bytes at its position in the matching file (`blob_matches_reader`,
      hash equality = byte equality).  `file_truncate[file_idx] = open_file.is_none()` (`fresh`): when there is no
      matching file the destination is `set_length(0)` and then `set_length(size)` (all zeros, whatever was there);
      a matching file (same size) is only `set_length(size)` (old bytes stay).  Every non-matching blob is written at
      its offset — **unless `sparse`, the file was truncated (`fresh`) and the blob is all zero, then nothing is
      written there** (`seg`).  Writes are to disjoint ranges covering the file, so the result is the concatenation
      of the per-blob segments (`segs`), whatever the thread order.
* `comps`/`joinPath`/`resolve` — `Path::components`, `Path::join` (an absolute item replaces the base) and the lexical
  effect of `..`;  `refused` — the repaired `collect_and_prepare` rejects a snapshot path with a non-`Normal` component.
-/
namespace Rustic.Restore

abbrev Bytes := List UInt8

structure Opts where
  verify : Bool
  sparse : Bool

def allZero (b : Bytes) : Bool := b.all (fun x => x == 0)

/-- `File::set_len`: truncate or extend with zeros; existing bytes stay -/
def setLength (f : Bytes) (n : Nat) : Bytes := f.take n ++ List.replicate (n - f.length) 0

def matchingFile (old : Option Bytes) (size : Nat) : Option Bytes :=
  match old with
  | some f => if f.length = size then some f else none
  | none => none

def blobMatches (matching : Option Bytes) (pos : Nat) (b : Bytes) : Bool :=
  match matching with
  | some f => (f.drop pos).take b.length == b
  | none => false

/-- bytes at `[pos, pos + |b|)` after the restore -/
def seg (o : Opts) (fresh : Bool) (base : Bytes) (matching : Option Bytes) (pos : Nat) (b : Bytes) : Bytes :=
  if blobMatches matching pos b then b
  else if o.sparse && fresh && allZero b then (base.drop pos).take b.length
  else b

def segs (o : Opts) (fresh : Bool) (base : Bytes) (matching : Option Bytes) : Nat → List Bytes → List Bytes
  | _, [] => []
  | pos, b :: rest => seg o fresh base matching pos b :: segs o fresh base matching (pos + b.length) rest

/-- the file after the allocation step of `restore_contents`: truncated first iff `fresh` -/
def allocate (old : Bytes) (fresh : Bool) (size : Nat) : Bytes :=
  if fresh then setLength (setLength old 0) size else setLength old size

/-- `jiff::Timestamp` — what `Metadata::mtime` stores and what `fs::Metadata::modified()` is converted to: whole seconds
since the epoch and the nanosecond part within the second (`0 ≤ nanos < 10^9` for a real timestamp) -/
structure MTime where
  secs : Int
  nanos : Nat
  deriving DecidableEq, Repr

/-- `mtime == file.meta.mtime` in `add_file`: equality of two `Option<Timestamp>` at FULL resolution (seconds and
nanoseconds).  `dm` = mtime of the existing destination file (`none`: `modified()` not available), `nm` = the node's -/
def mtimeEq (dm nm : Option MTime) : Bool := dm == nm

/-- final content of the destination file (`none` = no file); `old` = what was there, `dm` = its mtime, `nm` = the
snapshot node's mtime -/
def restoreFile (o : Opts) (old : Option Bytes) (dm nm : Option MTime) (blobs : List Bytes) : Option Bytes :=
  let size := blobs.flatten.length
  let matching := matchingFile old size
  if size = 0 ∧ matching.isSome then old
  else if o.verify = false ∧ matching.isSome ∧ mtimeEq dm nm = true then old
  else
    let fresh := matching.isNone
    some (segs o fresh (allocate (old.getD []) fresh size) matching 0 blobs).flatten

/-- fixed-size chunker (`chunker/fixed_size.rs`), used by the correspondence channel to control the blobs -/
def chunksOf (n : Nat) (bs : Bytes) : List Bytes :=
  let rec go : Nat → Bytes → List Bytes
    | 0, _ => []
    | fuel + 1, bs => if bs.isEmpty then [] else bs.take n :: go fuel (bs.drop n)
  if n = 0 then [] else go bs.length bs

/-! ### paths -/

inductive Comp where
  | root
  | parent
  | cur
  | normal (n : List Char)
  deriving DecidableEq, Repr

def splitOnSlash (s : List Char) : List (List Char) :=
  let rec go : List Char → List Char → List (List Char)
    | [], acc => [acc.reverse]
    | c :: rest, acc => if c = '/' then acc.reverse :: go rest [] else go rest (c :: acc)
  go s []

/-- `Path::components` (unix): leading `/` ⇒ `RootDir`; empty segments and interior `.` vanish; a leading `.` is `CurDir` -/
def comps (s : List Char) : List Comp :=
  let isAbs := s.head? == some '/'
  let parts := splitOnSlash s
  let rec go : List (List Char) → Bool → List Comp
    | [], _ => []
    | p :: rest, first =>
      if p.isEmpty then go rest first
      else if p = ['.'] then (if first && !isAbs then Comp.cur :: go rest false else go rest false)
      else if p = ['.', '.'] then Comp.parent :: go rest false
      else Comp.normal p :: go rest false
  (if isAbs then [Comp.root] else []) ++ go parts true

/-- `base.join(item)` -/
def joinPath (base item : List Comp) : List Comp :=
  if item.head? = some Comp.root then item else base ++ item

/-- the directory entries the OS walks (lexically): `..` pops, root resets -/
def resolve (p : List Comp) : List (List Char) :=
  (p.foldl (fun (st : List (List Char)) c =>
    match c with
    | .root => []
    | .parent => st.drop 1
    | .cur => st
    | .normal n => n :: st) []).reverse

def isPrefix : List (List Char) → List (List Char) → Bool
  | [], _ => true
  | _ :: _, [] => false
  | a :: as, b :: bs => a == b && isPrefix as bs

def confined (base item : List Comp) : Bool := isPrefix (resolve base) (resolve (joinPath base item))

def isNormal : Comp → Bool
  | .normal _ => true
  | _ => false

/-- the check of the repaired `collect_and_prepare` -/
def refused (path : List Comp) : Bool := path.any (fun c => !isNormal c)

end Rustic.Restore
