import Rustic.Model.Calendar
/-
Model of the retention logic, line by line:

  crates/core/src/commands/forget.rs
    `always_false`, `equal_year … equal_minute`      -> `alwaysFalse`, `equalYear … equalMinute`
        (`equalWeek`, `equalMinute` model the code AFTER the two `fix:` commits; the predicates of the
         code before the repair are kept as `equalWeekOld`, `equalMinuteOld` for the defect witnesses)
    `KeepOptions::is_valid`                          -> `isValid`
    `KeepOptions::matches` (ids, tags, the 9-entry `keep_checks` table, counters) -> `keepMatches`
        (`rules` is the table: check function, reason, within-reason; `KeepOptions.slots` holds, in the
         same order last/minutely/hourly/daily/weekly/monthly/quarter-yearly/half-yearly/yearly, the
         `keep_X: Option<i32>` counter and the `keep_within_X: Option<Span>` of each entry)
    `KeepOptions::apply` (validity, empty input, sort newest first, `latest_time`, the `while` loop with
        `last`, `iter.peek()`, must_keep / must_delete / delete_unchanged / matches)   -> `apply`, `loop`
  crates/core/src/repofile/snapshotfile.rs
    `SnapshotFile::must_delete`, `must_keep`         -> `mustDelete`, `mustKeep`
    `Ord for SnapshotFile` (time only)               -> `Snap.time` (instant, ns), `sortDesc`, `isSortedDesc`
    `StringList::contains_all`, `matches`            -> `containsAll`, `tagsMatch`

A snapshot carries its instant, its zone offset and the civil fields the predicates read (computed by
`Calendar.Civil.ofInstant` in the driver; plain given fields for the theorems).
-/
namespace Rustic.Forget
open Rustic.Calendar

inductive DeleteOpt where
  | notSet
  | never
  | after (t : Int)
  deriving Repr, DecidableEq

structure Snap where
  time : Int          -- instant in ns (what `Zoned: Ord` compares)
  off : Int           -- zone offset in seconds (used by `saturating_add` of calendar spans)
  year : Int
  month : Nat
  doy : Nat
  hour : Nat
  minute : Nat
  isoYear : Int
  isoWeek : Nat
  id : String         -- `sn.id.to_hex()`
  tags : List String  -- `sn.tags` (a set)
  tree : Nat          -- label of `sn.tree`
  delete : DeleteOpt
  deriving Repr, DecidableEq

/-- a snapshot whose civil fields are read off its `Zoned` (instant + fixed offset), as `forget.rs` does -/
def Snap.ofInstant (t off : Int) (id : String) (tree : Nat) (tags : List String) (del : DeleteOpt) : Snap :=
  let c := Civil.ofInstant t off
  { time := t, off := off, year := c.year, month := c.month, doy := c.doy, hour := c.hour, minute := c.minute,
    isoYear := c.isoYear, isoWeek := c.isoWeek, id := id, tags := tags, tree := tree, delete := del }

/-! ### period predicates -/
def alwaysFalse (_ _ : Snap) : Bool := false
def equalYear (a b : Snap) : Bool := a.year == b.year
def equalHalfYear (a b : Snap) : Bool := equalYear a b && (a.month - 1) / 6 == (b.month - 1) / 6
def equalQuarterYear (a b : Snap) : Bool := equalYear a b && (a.month - 1) / 3 == (b.month - 1) / 3
def equalMonth (a b : Snap) : Bool := equalYear a b && a.month == b.month
/-- after `fix: equal_week …`: ISO week-year and ISO week number. -/
def equalWeek (a b : Snap) : Bool := a.isoYear == b.isoYear && a.isoWeek == b.isoWeek
def equalDay (a b : Snap) : Bool := equalYear a b && a.doy == b.doy
def equalHour (a b : Snap) : Bool := equalDay a b && a.hour == b.hour
/-- after `fix: equal_minute …`: built on `equal_hour`. -/
def equalMinute (a b : Snap) : Bool := equalHour a b && a.minute == b.minute

/-- the code before the repair: calendar year + ISO week number. -/
def equalWeekOld (a b : Snap) : Bool := equalYear a b && a.isoWeek == b.isoWeek
/-- the code before the repair: built on `equal_half_year`. -/
def equalMinuteOld (a b : Snap) : Bool := equalHalfYear a b && a.minute == b.minute

/-! ### snapshotfile.rs -/
def mustDelete (sn : Snap) (now : Int) : Bool :=
  match sn.delete with
  | .after t => t < now
  | _ => false

def mustKeep (sn : Snap) (now : Int) : Bool :=
  match sn.delete with
  | .never => true
  | .after t => t ≥ now
  | .notSet => false

/-- `StringList::contains_all`: `sl ⊆ self`. -/
def containsAll (self sl : List String) : Bool := sl.all (fun s => self.contains s)

/-- `StringList::matches`. -/
def tagsMatch (self : List String) (sls : List (List String)) : Bool :=
  sls.isEmpty || sls.any (fun sl => containsAll self sl)

/-! ### KeepOptions -/
structure Rule where
  eq : Snap → Snap → Bool
  reason1 : String
  reason2 : String

/-- the `keep_checks` array of `matches`. -/
def rules : List Rule :=
  [ ⟨alwaysFalse, "last", "within"⟩,
    ⟨equalMinute, "minutely", "within minutely"⟩,
    ⟨equalHour, "hourly", "within hourly"⟩,
    ⟨equalDay, "daily", "within daily"⟩,
    ⟨equalWeek, "weekly", "within weekly"⟩,
    ⟨equalMonth, "monthly", "within monthly"⟩,
    ⟨equalQuarterYear, "quarter-yearly", "within quarter-yearly"⟩,
    ⟨equalHalfYear, "half-yearly", "within half-yearly"⟩,
    ⟨equalYear, "yearly", "within yearly"⟩ ]

structure Slot where
  count : Option Int       -- keep_X (i32; only decremented while positive, so no wrap-around)
  within : Option Span     -- keep_within_X
  deriving Repr, DecidableEq

structure KeepOptions where
  keepTags : List (List String)
  keepIds : List String
  slots : List Slot        -- aligned with `rules`
  keepNone : Bool
  deleteUnchanged : Bool
  deriving Repr, DecidableEq

def isValid (o : KeepOptions) : Bool :=
  !o.keepTags.isEmpty || !o.keepIds.isEmpty
    || o.slots.any (fun s => s.count.isSome || s.within.isSome) || o.keepNone

/-- `!has_next || last.is_none() || !check_fun(sn, last.unwrap())` -/
def isHead (eq : Snap → Snap → Bool) (sn : Snap) (last : Option Snap) (hasNext : Bool) : Bool :=
  !hasNext || match last with
    | none => true
    | some l => !eq sn l

/-- `if let Some(counter) = counter && *counter != 0 { push; if *counter > 0 { *counter -= 1 } }` -/
def stepCount (c : Option Int) : Bool × Option Int :=
  match c with
  | some n => if n != 0 then (true, some (if n > 0 then n - 1 else n)) else (false, some n)
  | none => (false, none)

/-- `if let Some(within) = within && sn.time.saturating_add(within) > *latest_time` -/
def withinHit (w : Option Span) (sn : Snap) (latest : Int) : Bool :=
  match w with
  | some w => addSpan sn.time sn.off w > latest
  | none => false

/-- one iteration of the `for … in keep_checks` loop. -/
def stepSlot (r : Rule) (s : Slot) (sn : Snap) (last : Option Snap) (hasNext : Bool) (latest : Int) :
    List String × Slot :=
  if isHead r.eq sn last hasNext then
    let (hit, c') := stepCount s.count
    ((if hit then [r.reason1] else []) ++ (if withinHit s.within sn latest then [r.reason2] else []),
     { s with count := c' })
  else ([], s)

def matchSlots : List Rule → List Slot → Snap → Option Snap → Bool → Int → List String × List Slot
  | r :: rs, s :: ss, sn, last, hasNext, latest =>
    let (a, s') := stepSlot r s sn last hasNext latest
    let (b, ss') := matchSlots rs ss sn last hasNext latest
    (a ++ b, s' :: ss')
  | _, _, _, _, _, _ => ([], [])

def idHit (o : KeepOptions) (sn : Snap) : Bool := o.keepIds.any (fun id => id.toList.isPrefixOf sn.id.toList)
def tagHit (o : KeepOptions) (sn : Snap) : Bool := !o.keepTags.isEmpty && tagsMatch sn.tags o.keepTags

/-- `KeepOptions::matches` (`&mut self` = returned options). -/
def keepMatches (o : KeepOptions) (sn : Snap) (last : Option Snap) (hasNext : Bool) (latest : Int) :
    List String × KeepOptions :=
  let (rs, ss) := matchSlots rules o.slots sn last hasNext latest
  ((if idHit o sn then ["id"] else []) ++ (if tagHit o sn then ["tags"] else []) ++ rs,
   { o with slots := ss })

structure Out where
  snap : Snap
  keep : Bool
  reasons : List String
  deriving Repr, DecidableEq

/-- `self.delete_unchanged && iter.peek().is_some_and(|sn_next| sn_next.tree == sn.tree)` -/
def unchanged (self : KeepOptions) (sn : Snap) (rest : List Snap) : Bool :=
  self.deleteUnchanged && match rest with
    | nx :: _ => nx.tree == sn.tree
    | [] => false

/-- the `while let Some(sn) = iter.next()` loop of `apply`; `gk` = `group_keep`. -/
def loop (self : KeepOptions) (now latest : Int) : KeepOptions → Option Snap → List Snap → List Out
  | _, _, [] => []
  | gk, last, sn :: rest =>
    if mustKeep sn now then ⟨sn, true, ["snapshot"]⟩ :: loop self now latest gk (some sn) rest
    else if mustDelete sn now then ⟨sn, false, ["snapshot"]⟩ :: loop self now latest gk (some sn) rest
    else if unchanged self sn rest then ⟨sn, false, ["unchanged"]⟩ :: loop self now latest gk (some sn) rest
    else
      let (reasons, gk') := keepMatches gk sn last (!rest.isEmpty) latest
      ⟨sn, !reasons.isEmpty, reasons⟩ :: loop self now latest gk' (some sn) rest

/-- `apply` after the sort: `sorted` is what `sort_unstable_by(|a, b| a.cmp(b).reverse())` left. -/
def applySorted (self : KeepOptions) (sorted : List Snap) (now : Int) : List Out :=
  match sorted with
  | [] => []
  | first :: _ => loop self now first.time self none sorted

def isSortedDesc : List Snap → Bool
  | a :: b :: t => a.time ≥ b.time && isSortedDesc (b :: t)
  | _ => true

def insertDesc (x : Snap) : List Snap → List Snap
  | [] => [x]
  | y :: t => if y.time ≥ x.time then y :: insertDesc x t else x :: y :: t

/-- a stable newest-first sort (one of the results an unstable sort may produce). -/
def sortDesc (l : List Snap) : List Snap := l.foldr insertDesc []

inductive Err where
  | invalidInput
  deriving Repr, DecidableEq

/-- `KeepOptions::apply`; the order among equal instants is the sort's choice (`order`). -/
def applyWith (order : List Snap → List Snap) (self : KeepOptions) (snaps : List Snap) (now : Int) :
    Except Err (List Out) :=
  if !isValid self then .error .invalidInput
  else .ok (applySorted self (order snaps) now)

def apply := applyWith sortDesc

end Rustic.Forget
