/-
Model M1 — `rustic_cdc::{polynom, rolling_hash}` (Rabin64 with a 64-byte window) as used by
`crates/core/src/chunker.rs` (`Rabin64::new_with_polynom(6, &poly)`).  Import-free, executable.
-/
import Rustic.Model.Chunker
namespace Rustic.Rabin
open Rustic.Chunker

/-- `Polynom64::degree`: `63 - leading_zeros`, `-1` for 0. -/
def degree (p : UInt64) : Int := if p = 0 then -1 else (p.toNat.log2 : Int)

/-- `Polynom64::modulo` (the `while p.degree() >= m.degree()` loop; at most 64 rounds for `m ≠ 0`). -/
def moduloLoop (m : UInt64) : Nat → UInt64 → UInt64
  | 0, p => p
  | f + 1, p =>
    if degree p ≥ degree m then
      moduloLoop m f (p ^^^ (m <<< (degree p - degree m).toNat.toUInt64))
    else p

def modulo (p m : UInt64) : UInt64 := moduloLoop m 64 p

/-- `Rabin64::calculate_out_table` entry for byte `b`. -/
def outEntry (windowSize : Nat) (poly : UInt64) (b : Nat) : UInt64 :=
  (List.range (windowSize - 1)).foldl (fun h _ => modulo (h <<< 8) poly) (modulo b.toUInt64 poly)

/-- `Rabin64::calculate_mod_table` entry for byte `b`. -/
def modEntry (poly : UInt64) (b : Nat) : UInt64 :=
  let k := (degree poly).toNat.toUInt64
  let p := b.toUInt64 <<< k
  modulo p poly ||| p

structure Tables where
  outT  : Array UInt64
  modT  : Array UInt64
  shift : UInt64          -- polynom_shift = degree - 8
  wsize : Nat             -- window_size (a power of two)

def Tables.mk' (windowBits : Nat) (poly : UInt64) : Tables :=
  let ws := 1 <<< windowBits
  { outT := (Array.range 256).map (outEntry ws poly)
    modT := (Array.range 256).map (modEntry poly)
    shift := ((degree poly) - 8).toNat.toUInt64
    wsize := ws }

structure R64 where
  win  : Array UInt8       -- window_data
  idx  : Nat               -- window_index
  hash : UInt64

def reset (t : Tables) : R64 := { win := Array.replicate t.wsize 0, idx := 0, hash := 0 }

/-- `Rabin64::slide`. -/
def slide (t : Tables) (s : R64) (b : UInt8) : R64 :=
  let out := s.win.getD s.idx 0
  let h := s.hash ^^^ t.outT.getD out.toNat 0
  let mi := (h >>> t.shift) &&& 255
  let h := ((h <<< 8) ||| b.toUInt64) ^^^ t.modT.getD mi.toNat 0
  { win := s.win.setIfInBounds s.idx b, idx := (s.idx + 1) % t.wsize, hash := h }

def roll (t : Tables) : Roll R64 := { reset := reset t, slide := slide t, hash := fun s => s.hash }

/-- Reference fingerprint: the remainder of the byte string read as a polynomial over GF(2)
(`Rabin64::hash_block` of the crate's own tests). -/
def hashBlock (poly : UInt64) (bs : Bytes) : UInt64 :=
  bs.foldl (fun h v => modulo ((h <<< 8) ||| v.toUInt64) poly) 0

/-- The *literal* reading of the property text: a cut at the first length `L ≥ min` at which `L ≥ max`,
or the fingerprint of the most recent `win` bytes of the chunk has zero low bits, or the input ends.
(The code's window differs from this for `min ≤ L < min + win`, see DESIGN §7 #16.) -/
def litCutFrom (poly mask : UInt64) (mx win : Nat) (bs : Bytes) : Nat → Nat → Nat
  | 0, L => L
  | fuel + 1, L =>
    if L ≥ bs.length then bs.length
    else if L ≥ mx then L
    else if hashBlock poly ((bs.take L).drop (L - win)) &&& mask = 0 then L
    else litCutFrom poly mask mx win bs fuel (L + 1)

def litCut (poly mask : UInt64) (mn mx win : Nat) (bs : Bytes) : Nat :=
  if bs.length < mn then bs.length else litCutFrom poly mask mx win bs (bs.length + 1) mn

end Rustic.Rabin
