/-
Model M2' — reader ERRORS in `crates/core/src/chunker/rabin.rs` (`ChunkIter::next`), on top of `Model/Chunker.lean`.

A reader that fails: it delivers some prefix of the stream (fragmented in any way: short reads, `Interrupted`) and then,
instead of `Ok(0)`, answers the next `read` with an error other than `Interrupted`.  The two places where `next` can meet
the end of the reader's data are exactly the two places where it handles `Err`:
* first phase: `(&mut self.reader).take(min_size).read_to_end(&mut vec)` — `Err(err) => return Some(Err(..))`
  (the model's `fp.1.length < p.min` branch: the reader ran dry before `min_size` bytes);
* hash loop: `self.reader.read(&mut self.buf[..])` — `Err(err) => return Some(Err(..))` (the model's `nextByte = none`).
In both cases `vec` (everything collected for the current chunk) is dropped and `finished` is NOT set.  In
`Model/Chunker.next` both places set `finished := true`; `nextE` turns that into the error item when the reader is a
failing one.  `Interrupted` is retried in both places (`read_to_end` of std does it; the loop's `continue`).

* `Item`      — `Option<RusticResult<Vec<u8>>>` payloads: a chunk or an error.
* `nextE`     — one call of `Iterator::next` on a (possibly) failing reader.
* `runE`      — the consumer `for chunk in iter { let chunk = chunk?; … }` (archiver/file_archiver.rs): collect until `None`
                or the first `Err`.
-/
import Rustic.Model.Chunker
namespace Rustic.Chunker

inductive Item where
  | chunk (c : Bytes)
  | err
  deriving DecidableEq, Repr

inductive Outcome where
  /-- the iterator returned `None` -/
  | done
  /-- the iterator returned `Some(Err(..))` -/
  | error
  /-- model artefact: out of fuel -/
  | fuel
  deriving DecidableEq, Repr

/-- One call of `next`; `failing`: when its data is exhausted the reader returns an error instead of `Ok(0)`. -/
def nextE (failing : Bool) (r : Roll σ) (p : Params) (st : St) : Option Item × St :=
  if st.finished then (none, st) else
  let res := next r p st
  if failing && res.2.finished then (some .err, { res.2 with finished := false })
  else (res.1.map .chunk, res.2)

/-- Collect chunks until `None` or the first error. -/
def runE (failing : Bool) (r : Roll σ) (p : Params) : Nat → St → List Bytes × Outcome
  | 0, _ => ([], .fuel)
  | fuel + 1, st =>
    match nextE failing r p st with
    | (none, _) => ([], .done)
    | (some .err, _) => ([], .error)
    | (some (.chunk c), st') => (c :: (runE failing r p fuel st').1, (runE failing r p fuel st').2)

/-! ### fixed-size chunker (`chunker/fixed_size.rs`): the only read is `take(size).read_to_end`, `Err => return Some(Err(..))` -/

def fixedNextE (failing : Bool) (size : Nat) (st : FSt) : Option Item × FSt :=
  if st.finished then (none, st) else
  let res := fixedNext size st
  if failing && res.2.finished then (some .err, { res.2 with finished := false })
  else (res.1.map .chunk, res.2)

def fixedRunE (failing : Bool) (size : Nat) : Nat → FSt → List Bytes × Outcome
  | 0, _ => ([], .fuel)
  | fuel + 1, st =>
    match fixedNextE failing size st with
    | (none, _) => ([], .done)
    | (some .err, _) => ([], .error)
    | (some (.chunk c), st') => (c :: (fixedRunE failing size fuel st').1, (fixedRunE failing size fuel st').2)

end Rustic.Chunker
