/-
Model M15d — warm-up before cold reads: what the cold store of a hot/cold repository sees from the commands that read
pack files.  Executable; imports `Model/RestoreWalk.lean` (the `RestorePlan` bookkeeping: `toPacks`, `packReads`).

Each command is modelled as the code is written: ONE call of `warm_up_wait(ids)` (`repository/warm_up.rs`: a warm-up
request per id — `ReadBackend::warm_up` or the warm-up command — and then the wait), followed by the reads the command
issues, each routed as `HotColdBackend` routes it (`backend/hotcold.rs`): `read_full` → hot store; `read_partial` → hot
store iff `cacheable || tpe != Pack`, else cold store.  `Layout.single` is a repository without a hot store: every read
goes to the one (cold) store.  Reads run on thread pools (`rayon`): the theorems quantify over every order of the reads.

* restore (`commands/restore.rs restore_repository`): `warm_up_wait(file_infos.to_packs())`, then `restore_contents`:
  `read_partial(Pack, pack_id, false, ..)` for every coalesced group without `from_file` (`RestoreWalk.packReads`).
* prune (`commands/prune.rs prune_repository`): `warm_up_wait(prune_plan.repack_packs())` = ids of packs with
  `to_do == Repack` over all index files; then for every such pack (same loop filter) the `BlobCopier` reads each
  coalesced chunk of the retained blobs: `read_partial(Pack, pack.id, blob_type.is_cacheable(), ..)` — `chunks` = their
  number (0 when `retain` kept nothing).
* repair index (`commands/repair/index.rs`): `warm_up_wait(pack_read_header ids)`, then `PackHeader::from_file` per
  pack: `read_partial(Pack, id, false, ..)` once, and once more when the size hint was too small (`reads` ∈ {1, 2}).
  `pack_read_header = checker.into_pack_to_read()` (`packReadHeader`, on the `PackChecker` model of `Model/Index.lean`:
  `repairFile` / `checkOne` = the loop over the index files with `check_pack`) is, in this order,
    `fromIndex`  — the packs queued by `check_pack`: listed by the repository AND by an index file whose size for the pack
                   differs from the listed size, or any such pack with `read_all`;  followed by
    `unindexed`  — the packs the repository lists that NO index entry claimed (`self.packs` after all `remove`s): lost /
                   removed index files, packs of an interrupted backup.  They are appended only by `into_pack_to_read()`;
  the warm-up argument is the WHOLE list (`repairIndexRun`), so also the un-indexed packs are requested before their read.
* check --read-data (`commands/check.rs`): `warm_up_wait(packs)` (after the subset filter), then `read_full(Pack, id)` each.
* repair hotcold (`commands/repair/hotcold.rs correct_missing_files`): `warm_up_wait(missing_hot)`, then `read_full` of each
  from `repo.be_cold` directly.
-/
import Rustic.Model.RestoreWalk
import Rustic.Model.Index
namespace Rustic.WarmUp

/-- what the stores see -/
inductive Ev where
  | warm (p : Nat)
  | coldRead (p : Nat)
  | hotRead (p : Nat)
  deriving DecidableEq, Repr

inductive Layout where
  | hotcold | single
  deriving DecidableEq, Repr

/-- a pack read as the command issues it -/
inductive Call where
  | full (p : Nat)
  | partialRead (p : Nat) (cacheable : Bool)
  | coldDirect (p : Nat)
  deriving DecidableEq, Repr

def Call.pack : Call → Nat
  | .full p => p
  | .partialRead p _ => p
  | .coldDirect p => p

/-- `HotColdBackend::read_full` / `read_partial` for `FileType::Pack`; `be_cold.read_full` directly -/
def route (l : Layout) : Call → Ev
  | .full p => match l with | .hotcold => .hotRead p | .single => .coldRead p
  | .partialRead p cb => match l with | .hotcold => (if cb then .hotRead p else .coldRead p) | .single => .coldRead p
  | .coldDirect p => .coldRead p

/-- `warm_up_wait(ids)` -/
def warmUpWait (ids : List Nat) : List Ev := ids.map Ev.warm

/-- a command: the argument of its `warm_up_wait` and the reads it issues afterwards (in some order) -/
structure Cmd where
  warm : List Nat
  reads : List Call

def trace (l : Layout) (warm : List Nat) (reads : List Call) : List Ev := warmUpWait warm ++ reads.map (route l)

/-! #### the commands -/

def restoreCmd (hole limit : Nat) (r : Rustic.RestoreWalk.RInfo) : Cmd :=
  { warm := Rustic.RestoreWalk.toPacks r
    reads := (Rustic.RestoreWalk.packReads hole limit r).map (fun p => Call.partialRead p false) }

/-- a pack of the prune plan -/
structure PPack where
  id : Nat
  isTree : Bool
  repack : Bool
  chunks : Nat
  deriving Repr

def pruneCmd (indexFiles : List (List PPack)) : Cmd :=
  { warm := (indexFiles.flatten.filter (·.repack)).map (·.id)
    reads := (indexFiles.flatten.filter (·.repack)).flatMap (fun p => List.replicate p.chunks (Call.partialRead p.id p.isTree)) }

/-- `pack_read_header`: (pack id, number of header reads 1 or 2) -/
def repairIndexCmd (toRead : List (Nat × Nat)) : Cmd :=
  { warm := toRead.map (·.1)
    reads := toRead.flatMap (fun x => List.replicate x.2 (Call.partialRead x.1 false)) }

/-- the `PackChecker` after the loop over all index files of `repair_index` (`check_pack` per file); `store` = the pack
listing `be.list_with_size(Pack)` as (id, size) -/
def checkerAfter (store : List (Nat × Nat)) (files : List Rustic.Index.IndexFile) (readAll : Bool) : Rustic.Index.RepairAcc :=
  files.foldl (Rustic.Index.repairFile readAll) { remaining := store, toRead := [], out := [] }

/-- `checker.packs_to_read` BEFORE `into_pack_to_read()`: (id, size hint, listed size) of the packs an index entry sent to a
header re-read (size mismatch, or `read_all`) -/
def fromIndex (store : List (Nat × Nat)) (files : List Rustic.Index.IndexFile) (readAll : Bool) : List (Nat × Option Nat × Nat) :=
  (checkerAfter store files readAll).toRead

/-- the packs the repository lists that no index entry claimed (`self.packs` when `into_pack_to_read` runs) -/
def unindexed (store : List (Nat × Nat)) (files : List Rustic.Index.IndexFile) (readAll : Bool) : List (Nat × Nat) :=
  (checkerAfter store files readAll).remaining

/-- `pack_read_header = checker.into_pack_to_read()`: the packs from the index needing a re-read, then the packs in the
repository but in no index (no size hint) -/
def packReadHeader (store : List (Nat × Nat)) (files : List Rustic.Index.IndexFile) (readAll : Bool) : List (Nat × Option Nat × Nat) :=
  fromIndex store files readAll ++ (unindexed store files readAll).map (fun e => (e.1, none, e.2))

/-- `repair_index` on a repository state: warm-up of all of `pack_read_header`, then `nreads x` (1 or 2) header reads of each -/
def repairIndexRun (store : List (Nat × Nat)) (files : List Rustic.Index.IndexFile) (readAll : Bool)
    (nreads : Nat × Option Nat × Nat → Nat) : List (Nat × Nat) :=
  (packReadHeader store files readAll).map (fun x => (x.1, nreads x))

def checkReadDataCmd (packs : List Nat) : Cmd :=
  { warm := packs, reads := packs.map Call.full }

def repairHotcoldCmd (missingHot : List Nat) : Cmd :=
  { warm := missingHot, reads := missingHot.map Call.coldDirect }

/-- the commands of the property's warm-up clause -/
inductive Command where
  | restore (hole limit : Nat) (r : Rustic.RestoreWalk.RInfo)
  | prune (indexFiles : List (List PPack))
  | repairIndex (toRead : List (Nat × Nat))
  | repairIndexOn (store : List (Nat × Nat)) (files : List Rustic.Index.IndexFile) (readAll : Bool)
      (nreads : Nat × Option Nat × Nat → Nat)
  | checkReadData (packs : List Nat)
  | repairHotcold (missingHot : List Nat)

def cmdOf : Command → Cmd
  | .restore hole limit r => restoreCmd hole limit r
  | .prune idx => pruneCmd idx
  | .repairIndex t => repairIndexCmd t
  | .repairIndexOn store files readAll nreads => repairIndexCmd (repairIndexRun store files readAll nreads)
  | .checkReadData ps => checkReadDataCmd ps
  | .repairHotcold m => repairHotcoldCmd m

end Rustic.WarmUp
