/-
Model M15d — warm-up before cold reads: what the cold store of a hot/cold repository sees from the commands that read
pack files.  Executable; imports `Model/RestoreWalk.lean` (the `RestorePlan` bookkeeping: `toPacks`, `packReads`).

Each command is modelled as the code is written: ONE call of `warm_up_wait(ids)` (`repository/warm_up.rs`: a warm-up
request per id — `ReadBackend::warm_up` or the warm-up command — and then the wait), followed by the reads the command
issues, each routed as `HotColdBackend` routes it (`backend/hotcold.rs`): `read_full` → hot store; `read_partial` → hot
store iff `cacheable || tpe != Pack`, else cold store.  `Layout.single` is a repository without a hot store: every read
goes to the one (cold) store.  Reads run on thread pools (`rayon`): the theorems quantify over every order of the reads.

* restore (`commands/restore.rs restore_repository`): `warm_up_wait(file_infos.to_packs())`, then `restore_contents`:
  `read_partial(Pack, pack_id, false, ..)` for every coalesced group without `from_file` (`RestoreWalk.packReads`).
* prune (`commands/prune.rs prune_repository`): `warm_up_wait(prune_plan.repack_packs())` = ids of packs with
  `to_do == Repack` over all index files; then for every such pack (same loop filter) the `BlobCopier` reads each
  coalesced chunk of the retained blobs: `read_partial(Pack, pack.id, blob_type.is_cacheable(), ..)` — `chunks` = their
  number (0 when `retain` kept nothing).
  On a PLAN (`prunePlanCmd`, on the `decide_repack` model of `Model/Prune.lean`): `decide_repack` sets `to_do = Repack` in TWO
  places — its first loop (candidates with reason PartlyUsed / ToCompress that pass the limits) and its second loop (the
  `resize_packs`: SizeMismatch candidates, switched to Repack when their blob type is repacked anyway or enough of them
  accumulated); `repack_packs()` walks over all packs of all index files AFTERWARDS, so both kinds are in the request
  (`firstLoopRepackIds` = what a list recorded by the first loop alone would hold — the seeded shape C16-6).
* where a request goes (`Be`, `repoBe`, `warmUpRepo`): `Repository::new_with_progress` keeps `be_cold` = the bare cold backend,
  wraps THE COLD BACKEND in `WarmUpAccessBackend` if `opts.warm_up` and puts `HotColdBackend::new(that, be_hot)` on top;
  `warm_up(repo, tpe, ids)` = `if repo.be.needs_warm_up() { repo.be.warm_up(tpe, id) for every id }` (no warm-up command);
  `WarmUpAccessBackend::warm_up` = `self.be.read_partial(tpe, id, false, 0, 1)` (result ignored), `HotColdBackend::warm_up` =
  `self.be.warm_up` (the cold side).  `open_only_cold` (keys, config) and `repair hotcold` (every file type) then read the
  files from `be_cold` directly.
* repair index (`commands/repair/index.rs`): `warm_up_wait(pack_read_header ids)`, then `PackHeader::from_file` per
  pack: `read_partial(Pack, id, false, ..)` once, and once more when the size hint was too small (`reads` ∈ {1, 2}).
  `pack_read_header = checker.into_pack_to_read()` (`packReadHeader`, on the `PackChecker` model of `Model/Index.lean`:
  `repairFile` / `checkOne` = the loop over the index files with `check_pack`) is, in this order,
    `fromIndex`  — the packs queued by `check_pack`: listed by the repository AND by an index file whose size for the pack
                   differs from the listed size, or any such pack with `read_all`;  followed by
    `unindexed`  — the packs the repository lists that NO index entry claimed (`self.packs` after all `remove`s): lost /
                   removed index files, packs of an interrupted backup.  They are appended only by `into_pack_to_read()`;
  the warm-up argument is the WHOLE list (`repairIndexRun`), so also the un-indexed packs are requested before their read.
* check --read-data (`commands/check.rs`): `warm_up_wait(packs)` (after the subset filter), then `read_full(Pack, id)` each.
* repair hotcold (`commands/repair/hotcold.rs correct_missing_files`): `warm_up_wait(missing_hot)`, then `read_full` of each
  from `repo.be_cold` directly.
-/
import Rustic.Model.RestoreWalk
import Rustic.Model.Index
import Rustic.Model.Prune
import Rustic.Model.HotCold
namespace Rustic.WarmUp

/-- what the stores see -/
inductive Ev where
  | warm (p : Nat)
  | coldRead (p : Nat)
  | hotRead (p : Nat)
  deriving DecidableEq, Repr

inductive Layout where
  | hotcold | single
  deriving DecidableEq, Repr

/-- a pack read as the command issues it -/
inductive Call where
  | full (p : Nat)
  | partialRead (p : Nat) (cacheable : Bool)
  | coldDirect (p : Nat)
  deriving DecidableEq, Repr

def Call.pack : Call → Nat
  | .full p => p
  | .partialRead p _ => p
  | .coldDirect p => p

/-- `HotColdBackend::read_full` / `read_partial` for `FileType::Pack`; `be_cold.read_full` directly -/
def route (l : Layout) : Call → Ev
  | .full p => match l with | .hotcold => .hotRead p | .single => .coldRead p
  | .partialRead p cb => match l with | .hotcold => (if cb then .hotRead p else .coldRead p) | .single => .coldRead p
  | .coldDirect p => .coldRead p

/-- `warm_up_wait(ids)` -/
def warmUpWait (ids : List Nat) : List Ev := ids.map Ev.warm

/-- a command: the argument of its `warm_up_wait` and the reads it issues afterwards (in some order) -/
structure Cmd where
  warm : List Nat
  reads : List Call

def trace (l : Layout) (warm : List Nat) (reads : List Call) : List Ev := warmUpWait warm ++ reads.map (route l)

/-! #### the commands -/

def restoreCmd (hole limit : Nat) (r : Rustic.RestoreWalk.RInfo) : Cmd :=
  { warm := Rustic.RestoreWalk.toPacks r
    reads := (Rustic.RestoreWalk.packReads hole limit r).map (fun p => Call.partialRead p false) }

/-- a pack of the prune plan -/
structure PPack where
  id : Nat
  isTree : Bool
  repack : Bool
  chunks : Nat
  deriving Repr

def pruneCmd (indexFiles : List (List PPack)) : Cmd :=
  { warm := (indexFiles.flatten.filter (·.repack)).map (·.id)
    reads := (indexFiles.flatten.filter (·.repack)).flatMap (fun p => List.replicate p.chunks (Call.partialRead p.id p.isTree)) }

/-- `pack_read_header`: (pack id, number of header reads 1 or 2) -/
def repairIndexCmd (toRead : List (Nat × Nat)) : Cmd :=
  { warm := toRead.map (·.1)
    reads := toRead.flatMap (fun x => List.replicate x.2 (Call.partialRead x.1 false)) }

/-- the `PackChecker` after the loop over all index files of `repair_index` (`check_pack` per file); `store` = the pack
listing `be.list_with_size(Pack)` as (id, size) -/
def checkerAfter (store : List (Nat × Nat)) (files : List Rustic.Index.IndexFile) (readAll : Bool) : Rustic.Index.RepairAcc :=
  files.foldl (Rustic.Index.repairFile readAll) { remaining := store, toRead := [], out := [] }

/-- `checker.packs_to_read` BEFORE `into_pack_to_read()`: (id, size hint, listed size) of the packs an index entry sent to a
header re-read (size mismatch, or `read_all`) -/
def fromIndex (store : List (Nat × Nat)) (files : List Rustic.Index.IndexFile) (readAll : Bool) : List (Nat × Option Nat × Nat) :=
  (checkerAfter store files readAll).toRead

/-- the packs the repository lists that no index entry claimed (`self.packs` when `into_pack_to_read` runs) -/
def unindexed (store : List (Nat × Nat)) (files : List Rustic.Index.IndexFile) (readAll : Bool) : List (Nat × Nat) :=
  (checkerAfter store files readAll).remaining

/-- `pack_read_header = checker.into_pack_to_read()`: the packs from the index needing a re-read, then the packs in the
repository but in no index (no size hint) -/
def packReadHeader (store : List (Nat × Nat)) (files : List Rustic.Index.IndexFile) (readAll : Bool) : List (Nat × Option Nat × Nat) :=
  fromIndex store files readAll ++ (unindexed store files readAll).map (fun e => (e.1, none, e.2))

/-- `repair_index` on a repository state: warm-up of all of `pack_read_header`, then `nreads x` (1 or 2) header reads of each -/
def repairIndexRun (store : List (Nat × Nat)) (files : List Rustic.Index.IndexFile) (readAll : Bool)
    (nreads : Nat × Option Nat × Nat → Nat) : List (Nat × Nat) :=
  (packReadHeader store files readAll).map (fun x => (x.1, nreads x))

def checkReadDataCmd (packs : List Nat) : Cmd :=
  { warm := packs, reads := packs.map Call.full }

def repairHotcoldCmd (missingHot : List Nat) : Cmd :=
  { warm := missingHot, reads := missingHot.map Call.coldDirect }

/-! #### prune on a plan: `decide_repack` (both loops), then `repack_packs()` -/

/-- `PrunePlan::repack_packs()`: the ids of all packs with `to_do == Repack`, collected AFTER `decide_repack` -/
def repackPacks (ps : List Rustic.Prune.PPack) : List Nat :=
  (ps.filter (fun p => p.todo = Rustic.Prune.ToDo.repack)).map (·.id)

/-- prune as `prune_repository` runs it on what `decide_packs` left (`ps`; repack candidates carry `cand`): `decide_repack`,
`warm_up_wait(repack_packs())`, then the `BlobCopier` reads of every pack with `to_do == Repack` (`chunks p` ranged reads with
`cacheable = blob_type.is_cacheable()`) -/
def prunePlanCmd (k : Rustic.Prune.Consts) (o : Rustic.Prune.Opts) (ps : List Rustic.Prune.PPack)
    (chunks : Rustic.Prune.PPack → Nat) : Cmd :=
  { warm := repackPacks (Rustic.Prune.decideRepack k o ps)
    reads := ((Rustic.Prune.decideRepack k o ps).filter (fun p => p.todo = Rustic.Prune.ToDo.repack)).flatMap
      (fun p => List.replicate (chunks p) (Call.partialRead p.id (Rustic.Prune.isCacheable p.blobType))) }

/-- the first loop of `decide_repack` alone (the `let`s of `Prune.repackDecisions`) -/
def firstLoop (o : Rustic.Prune.Opts) (ps : List Rustic.Prune.PPack) :
    List (Nat × Rustic.Repo.BlobType × Rustic.Prune.Inter) × Rustic.Prune.RState :=
  let usedSize := Rustic.Prune.sumBy (·.info.usedSize) ps
  let unusedSize := Rustic.Prune.sumBy (·.info.unusedSize) ps
  let removeSize := Rustic.Prune.sumBy (fun p => if p.todo = .markDelete then p.info.unusedSize else 0) ps
  let maxUnused := Rustic.Prune.limitUnused (o.repackUncompressed || o.repackAll) usedSize o.maxUnused
  let maxRepack := Rustic.Prune.limitRepack (usedSize + unusedSize) o.maxRepack
  Rustic.Prune.loop1 o maxRepack maxUnused (unusedSize - removeSize) {} (Rustic.Prune.sortCands (ps.filter (fun p => p.cand.isSome)))

/-- ids of the packs the FIRST loop set to Repack — a list recorded there and not in the second loop (seeded shape C16-6) -/
def firstLoopRepackIds (o : Rustic.Prune.Opts) (ps : List Rustic.Prune.PPack) : List Nat :=
  (ps.filter (fun p => (firstLoop o ps).1.any (fun x => x.1 == p.pos && x.2.2 == Rustic.Prune.Inter.repack))).map (·.id)

/-- the commands of the property's warm-up clause -/
inductive Command where
  | restore (hole limit : Nat) (r : Rustic.RestoreWalk.RInfo)
  | prune (indexFiles : List (List PPack))
  | prunePlan (k : Rustic.Prune.Consts) (o : Rustic.Prune.Opts) (ps : List Rustic.Prune.PPack) (chunks : Rustic.Prune.PPack → Nat)
  | repairIndex (toRead : List (Nat × Nat))
  | repairIndexOn (store : List (Nat × Nat)) (files : List Rustic.Index.IndexFile) (readAll : Bool)
      (nreads : Nat × Option Nat × Nat → Nat)
  | checkReadData (packs : List Nat)
  | repairHotcold (missingHot : List Nat)

def cmdOf : Command → Cmd
  | .restore hole limit r => restoreCmd hole limit r
  | .prune idx => pruneCmd idx
  | .prunePlan k o ps chunks => prunePlanCmd k o ps chunks
  | .repairIndex t => repairIndexCmd t
  | .repairIndexOn store files readAll nreads => repairIndexCmd (repairIndexRun store files readAll nreads)
  | .checkReadData ps => checkReadDataCmd ps
  | .repairHotcold m => repairHotcoldCmd m

/-! #### where a warm-up request goes: the backend stack of `Repository::new_with_progress` -/

inductive Store where
  | hot | cold
  deriving DecidableEq, Repr

/-- what a store sees of file `(t, id)`: a read (served or refused), or its own `warm_up()` -/
inductive SEv where
  | read (s : Store) (t : Rustic.Backends.FileType) (id : Nat)
  | warmReq (s : Store) (t : Rustic.Backends.FileType) (id : Nat)
  deriving DecidableEq, Repr

/-- a backend as `Repository::new_with_progress` stacks them; `cold n`: the store given as repository backend, `n` = its own
`needs_warm_up()` -/
inductive Be where
  | cold (needsWarmUp : Bool)
  | hot
  | warmAccess (be : Be)
  | hotCold (be hot : Be)
  deriving Repr

def Be.readPartial : Be → Rustic.Backends.FileType → Nat → Bool → List SEv
  | .cold _, t, id, _ => [.read .cold t id]
  | .hot, t, id, _ => [.read .hot t id]
  | .warmAccess b, t, id, cb => b.readPartial t id cb
  | .hotCold b h, t, id, cb => if Rustic.HotCold.usesHot t cb then h.readPartial t id cb else b.readPartial t id cb

def Be.needsWarmUp : Be → Bool
  | .cold n => n
  | .hot => false
  | .warmAccess _ => true
  | .hotCold b _ => b.needsWarmUp

def Be.warmUp : Be → Rustic.Backends.FileType → Nat → List SEv
  | .cold _, t, id => [.warmReq .cold t id]
  | .hot, t, id => [.warmReq .hot t id]
  | .warmAccess b, t, id => b.readPartial t id false
  | .hotCold b _, t, id => b.warmUp t id

/-- `repo.be` (`repo.be_cold` is the bare `Be.cold n`): `opts.warm_up` wraps the COLD backend, the hot/cold layer comes on top -/
def repoBe (n warmUpOpt hasHot : Bool) : Be :=
  let be := if warmUpOpt then Be.warmAccess (.cold n) else .cold n
  if hasHot then .hotCold be .hot else be

/-- `warm_up(repo, tpe, ids)` without a warm-up command -/
def warmUpRepo (be : Be) (t : Rustic.Backends.FileType) (ids : List Nat) : List SEv :=
  if be.needsWarmUp then ids.flatMap (be.warmUp t) else []

/-- `warm_up_wait(tpe, ids)`, then `be_cold.read_full(tpe, id)` of some of them: `open_only_cold` (keys; the config file) and
`correct_missing_files` of `repair hotcold` (every file type) -/
def coldDirectCmd (be : Be) (t : Rustic.Backends.FileType) (ids reads : List Nat) : List SEv :=
  warmUpRepo be t ids ++ reads.map (fun id => SEv.read .cold t id)

end Rustic.WarmUp
