/-
Model for C01 — modification / access times on their way back to the file system.

* `JTime`        — `jiff::Timestamp` as its accessors `as_second()` / `subsec_nanosecond()` give it: the seconds are truncated
                   toward zero and the sub-second part carries the sign of the instant (−1.25 s = (−1, −250 000 000)).
* `toFileTime`   — `LocalDestination::set_times` (`backend/local_destination.rs`): `FileTime::from_system_time(t.into())` —
                   `SystemTime::from(Timestamp)` is the same instant, `FileTime` (a `timespec`) has whole seconds rounded DOWN and
                   nanoseconds in `[0, 10^9)` (−1.25 s = (−2, 750 000 000)).
* `ofFileTime`   — reading a `timespec` back into a `Timestamp` (`LocalSource`: `Timestamp::try_from(SystemTime)`).
Import-free, executable.
-/
namespace Rustic.Times

structure JTime where
  sec : Int
  nsec : Int
  deriving DecidableEq, Repr

def NS : Int := 1000000000

/-- what `Timestamp::new(sec, nsec)` accepts and `as_second`/`subsec_nanosecond` return -/
def JTime.WF (t : JTime) : Prop :=
  -NS < t.nsec ∧ t.nsec < NS ∧ (0 < t.sec → 0 ≤ t.nsec) ∧ (t.sec < 0 → t.nsec ≤ 0)

/-- the instant in nanoseconds since the epoch -/
def JTime.nanos (t : JTime) : Int := t.sec * NS + t.nsec

/-- (`tv_sec`, `tv_nsec`) written by `set_times` -/
def toFileTime (t : JTime) : Int × Int := if t.nsec < 0 then (t.sec - 1, t.nsec + NS) else (t.sec, t.nsec)

def ofFileTime (s n : Int) : JTime := if s < 0 ∧ 0 < n then ⟨s + 1, n - NS⟩ else ⟨s, n⟩

end Rustic.Times
