/-
Model M2 — `crates/core/src/chunker/rabin.rs` (`ChunkIter::next`) and `chunker/fixed_size.rs`.

Import-free, executable.  The rolling hash is a parameter (`Roll`), so the structural theorems of C06
(losslessness, bounds, independence of read fragmentation, locality of cuts) hold for *every* rolling
hash; `Model/Rabin.lean` supplies the concrete table-driven `Rabin64`.

Correspondence with the Rust code (line by line):
* `Src`         — `buf[pos..]` (`opn`), `buf.len()` (`cap`, shrinks by `buf.truncate(size)`), the reader
                  (`rest` = bytes not yet read, `sched` = how the reader fragments its answers).
* `readMore`    — `self.reader.read(&mut self.buf[..])` inside the hash loop, including
                  `Err(Interrupted) => continue` and `Ok(0) => finished`.
* `nextByte`    — "if buffer exhausted read more; take `buf[pos]`".
* `slideLoop`   — the `loop { max check; mask check; fetch; push; slide }`.
* `next`        — one call of `Iterator::next`.
* `cut`/`chunksSpec` — the declarative specification the iterator is proved to refine.
-/
namespace Rustic.Chunker

abbrev Bytes := List UInt8

/-- The three operations `ChunkIter` uses of `rustic_cdc::Rabin64`. -/
structure Roll (σ : Type) where
  reset : σ
  slide : σ → UInt8 → σ
  hash  : σ → UInt64

/-- `rabin.reset(); rabin.prefill_window(iter)`: slides at most `window_size - 1` bytes. -/
def Roll.prefill (r : Roll σ) (wm1 : Nat) (bs : Bytes) : σ := (bs.take wm1).foldl r.slide r.reset

structure Params where
  min  : Nat
  max  : Nat
  mask : UInt64
  /-- window size of the rolling hash (64 in `chunker.rs`: `Rabin64::new_with_polynom(6, ..)`) -/
  win  : Nat := 64
  deriving Repr

/-- Behaviour of one `Read::read` call of the underlying reader. -/
inductive Ev where
  | intr               -- `Err(ErrorKind::Interrupted)`
  | short (k : Nat)    -- returns at most `k+1` bytes
  deriving Repr

structure Src where
  opn   : Bytes        -- `buf[pos..]`
  cap   : Nat          -- `buf.len()`
  rest  : Bytes        -- what the reader has not delivered yet
  sched : List Ev
  deriving Repr

/-- The bytes not yet emitted in a chunk. -/
def Src.pending (s : Src) : Bytes := s.opn ++ s.rest

/-- `reader.read(&mut buf[..])` with `Interrupted => continue`; `none` = `Ok(0)`.
Returns (new `buf` content, new `buf.len()`, new reader rest, remaining schedule). -/
def readMore (cap : Nat) (rest : Bytes) : List Ev → Option (Bytes × Nat × Bytes × List Ev)
  | .intr :: t => readMore cap rest t
  | .short k :: t =>
      let got := rest.take (min (k+1) cap)
      if got.isEmpty then none else some (got, got.length, rest.drop got.length, t)
  | [] =>
      let got := rest.take cap
      if got.isEmpty then none else some (got, got.length, rest.drop got.length, [])

def Src.nextByte (s : Src) : Option (UInt8 × Src) :=
  match s.opn with
  | b :: o => some (b, { s with opn := o })
  | [] =>
    match readMore s.cap s.rest s.sched with
    | none => none
    | some (got, n, rest', sched') =>
      match got with
      | [] => none        -- unreachable: `readMore` returns `n > 0` bytes
      | b :: o => some (b, { opn := o, cap := n, rest := rest', sched := sched' })

private theorem take_drop_len (rest : Bytes) (m : Nat) :
    rest.take m ++ rest.drop (rest.take m).length = rest := by
  have : (rest.take m).length = min m rest.length := List.length_take
  rcases Nat.le_total m rest.length with h | h
  · rw [this, Nat.min_eq_left h]; exact List.take_append_drop _ _
  · rw [this, Nat.min_eq_right h, List.take_of_length_le h, List.drop_length]; simp

theorem readMore_spec {cap : Nat} {rest : Bytes} {sched : List Ev} {got n rest' sched'} :
    readMore cap rest sched = some (got, n, rest', sched') →
    got ++ rest' = rest ∧ 0 < n ∧ got.length = n := by
  induction sched with
  | nil =>
    simp only [readMore]
    split
    · intro h; cases h
    · intro h
      rename_i hn
      simp only [Option.some.injEq, Prod.mk.injEq] at h
      obtain ⟨h1, h2, h3, _⟩ := h
      subst h1 h2 h3
      refine ⟨take_drop_len _ _, ?_, rfl⟩
      cases hg : List.take cap rest with
      | nil => simp [hg] at hn
      | cons a l => simp
  | cons e t ih =>
    cases e with
    | intr => simpa only [readMore] using ih
    | short k =>
      simp only [readMore]
      split
      · intro h; cases h
      · intro h
        rename_i hn
        simp only [Option.some.injEq, Prod.mk.injEq] at h
        obtain ⟨h1, h2, h3, _⟩ := h
        subst h1 h2 h3
        refine ⟨take_drop_len _ _, ?_, rfl⟩
        cases hg : List.take (min (k+1) cap) rest with
        | nil => simp [hg] at hn
        | cons a l => simp

theorem readMore_none {cap : Nat} {rest : Bytes} {sched : List Ev} (hc : 0 < cap) :
    readMore cap rest sched = none → rest = [] := by
  induction sched with
  | nil =>
    simp only [readMore]
    split
    · rename_i hn
      intro _
      cases rest with
      | nil => rfl
      | cons a l =>
        obtain ⟨c, rfl⟩ : ∃ c, cap = c + 1 := ⟨cap - 1, by omega⟩
        simp at hn
    · intro h; cases h
  | cons e t ih =>
    cases e with
    | intr => simpa only [readMore] using ih
    | short k =>
      simp only [readMore]
      split
      · rename_i hn
        intro _
        cases rest with
        | nil => rfl
        | cons a l =>
          obtain ⟨c, hc'⟩ : ∃ c, min (k+1) cap = c + 1 := ⟨min (k+1) cap - 1, by omega⟩
          rw [hc'] at hn
          simp at hn
      · intro h; cases h

theorem Src.nextByte_some {s : Src} {b : UInt8} {s' : Src} :
    s.nextByte = some (b, s') → s.pending = b :: s'.pending ∧ (0 < s.cap → 0 < s'.cap) := by
  unfold Src.nextByte
  split
  · rename_i b0 o ho
    intro h
    simp only [Option.some.injEq, Prod.mk.injEq] at h
    obtain ⟨h1, h2⟩ := h
    subst h1 h2
    simp [Src.pending, ho]
  · rename_i ho
    split
    · intro h; cases h
    · rename_i got n rest' sched' hr
      have hs := readMore_spec hr
      split
      · intro h; cases h
      · rename_i b0 o
        intro h
        simp only [Option.some.injEq, Prod.mk.injEq] at h
        obtain ⟨h1, h2⟩ := h
        subst h1 h2
        refine ⟨?_, fun _ => hs.2.1⟩
        simp only [Src.pending, ho, List.nil_append]
        rw [← hs.1]; simp

theorem Src.nextByte_none {s : Src} (hc : 0 < s.cap) : s.nextByte = none → s.pending = [] := by
  unfold Src.nextByte
  split
  · intro h; cases h
  · rename_i ho
    split
    · rename_i hr
      intro _
      simp [Src.pending, ho, readMore_none hc hr]
    · rename_i got n rest' sched' hr
      have hs := readMore_spec hr
      split
      · rename_i hg
        exfalso
        have := hs.2.2
        have h0 := hs.2.1
        simp at this
        omega
      · intro h; cases h

/-- The hash loop of `ChunkIter::next`.  `len` = `vec.len()`, `acc` = bytes pushed so far (reversed).
Result: (pushed bytes reversed, source afterwards, `finished`). -/
def slideLoop (r : Roll σ) (p : Params) (s : Src) (len : Nat) (h : σ) (acc : Bytes) :
    Bytes × Src × Bool :=
  if len ≥ p.max then (acc, s, false)
  else if r.hash h &&& p.mask = 0 then (acc, s, false)
  else
    match hnb : s.nextByte with
    | none => (acc, s, true)
    | some (b, s') => slideLoop r p s' (len + 1) (r.slide h b) (b :: acc)
termination_by s.pending.length
decreasing_by
  have := (Src.nextByte_some hnb).1
  simp [this]

structure St where
  src : Src
  finished : Bool
  deriving Repr

/-- Initial state of `ChunkIter::new`: empty buffer of `BUF_SIZE` bytes (`pos = BUF_SIZE`). -/
def St.init (bufSize : Nat) (input : Bytes) (sched : List Ev) : St :=
  { src := { opn := [], cap := bufSize, rest := input, sched := sched }, finished := false }

/-- First phase of `next`: the rest of the buffer (at most `min_size` bytes of it) followed by
`reader.take(min_size - open_buf_len).read_to_end(&mut vec)`.  Returns `vec` and the source afterwards. -/
def firstPhase (p : Params) (s : Src) : Bytes × Src :=
  let k := min s.opn.length p.min                     -- open_buf_len (capped by min_size)
  (s.opn.take k ++ s.rest.take (p.min - k),
   { s with opn := s.opn.drop k, rest := s.rest.drop (p.min - k) })

/-- One call of `<rabin::ChunkIter as Iterator>::next`.  `none` = iterator exhausted.
(`size < min_size` of the code is `vec.len() < self.min_size` here: both sides shifted by `open_buf_len`.) -/
def next (r : Roll σ) (p : Params) (st : St) : Option Bytes × St :=
  if st.finished then (none, st) else
  let fp := firstPhase p st.src
  if fp.1.length < p.min then
    (if fp.1.isEmpty then none else some fp.1, { src := fp.2, finished := true })
  else
    let h := r.prefill (p.win - 1) (fp.1.drop (fp.1.length - p.win))
    let res := slideLoop r p fp.2 fp.1.length h []
    (some (fp.1 ++ res.1.reverse), { src := res.2.1, finished := res.2.2 })

/-- Collect chunks; `fuel` bounds the number of `next` calls (a `min = 0` configuration never ends). -/
def run (r : Roll σ) (p : Params) : Nat → St → List Bytes
  | 0, _ => []
  | fuel + 1, st =>
    match next r p st with
    | (none, _) => []
    | (some c, st') => c :: run r p fuel st'

/-! ### Parameter validation (`check_rabin_params`, called by `ChunkIter::new` for every file) -/

/-- `usize::is_power_of_two` -/
def isPow2 (n : Nat) : Bool := n != 0 && (n &&& (n - 1)) == 0

/-- `check_rabin_params(chunk_size, chunk_min_size, chunk_max_size)`: `true` = `Ok(())`, `false` = `Err(Unsupported)`. -/
def checkRabinParams (avg mn mx : Nat) : Bool :=
  isPow2 avg && mn != 0 && !(mn > avg) && !(mx < avg)

/-! ### Declarative specification -/

/-- How many more bytes the hash loop consumes from `bs` when it starts at length `len`, state `h`. -/
def scan (r : Roll σ) (p : Params) : Nat → σ → Bytes → Nat
  | _, _, [] => 0
  | len, h, b :: bs =>
    if len ≥ p.max then 0
    else if r.hash h &&& p.mask = 0 then 0
    else 1 + scan r p (len + 1) (r.slide h b) bs

/-- Length of the first chunk of the stream `bs`. -/
def cut (r : Roll σ) (p : Params) (bs : Bytes) : Nat :=
  if bs.length < p.min then bs.length
  else
    let pre := bs.take p.min
    p.min + scan r p p.min (r.prefill (p.win - 1) (pre.drop (pre.length - p.win))) (bs.drop p.min)

def chunksSpec (r : Roll σ) (p : Params) (bs : Bytes) : List Bytes :=
  if h : bs = [] ∨ p.min = 0 then []
  else bs.take (cut r p bs) :: chunksSpec r p (bs.drop (cut r p bs))
termination_by bs.length
decreasing_by
  have hne : bs ≠ [] := fun e => h (Or.inl e)
  have hmin : p.min ≠ 0 := fun e => h (Or.inr e)
  have hl : 0 < bs.length := List.length_pos_iff.mpr hne
  have : 0 < cut r p bs := by
    unfold cut
    split
    · exact hl
    · simp only; omega
  simp only [List.length_drop]; omega

/-! ### Fixed-size chunker (`chunker/fixed_size.rs`) -/

structure FSt where
  rest : Bytes
  finished : Bool

def fixedNext (size : Nat) (st : FSt) : Option Bytes × FSt :=
  if st.finished then (none, st) else
  let vec := st.rest.take size
  let st' : FSt := { rest := st.rest.drop size, finished := decide (vec.length < size) }
  (if vec.isEmpty then none else some vec, st')

def fixedRun (size : Nat) : Nat → FSt → List Bytes
  | 0, _ => []
  | fuel + 1, st =>
    match fixedNext size st with
    | (none, _) => []
    | (some c, st') => c :: fixedRun size fuel st'

def fixedSpec (size : Nat) (bs : Bytes) : List Bytes :=
  if h : bs = [] ∨ size = 0 then []
  else bs.take size :: fixedSpec size (bs.drop size)
termination_by bs.length
decreasing_by
  have hne : bs ≠ [] := fun e => h (Or.inl e)
  have hs : size ≠ 0 := fun e => h (Or.inr e)
  have hl : 0 < bs.length := List.length_pos_iff.mpr hne
  simp only [List.length_drop]; omega

end Rustic.Chunker
