/-
Model M13 (part 4) — `restore_contents`: how the entries of `RestoreInfo` become pack reads and what the reader task of one
read hands to the writer tasks (`crates/core/src/commands/restore.rs`: `PackInfo`, `PackInfo::coalesce`, the
`.map(..).coalesce(PackInfo::coalesce)` pipeline and the reader closure of `restore_contents`; `crates/core/src/blob.rs`:
`BlobLocations::{from_blob_location, can_coalesce, append}`).  Import-free, executable.

* `Entry`  — one `((pack_id, blob location), file locations)` entry of `RestoreInfo` (a `BTreeMap`: entries arrive sorted by
  pack, then by offset) as the `.map(..)` sees it: `from_file = fls.iter().find(|fl| fl.matches)` (here: the bytes which
  `dest.read_at(file, file_start, data_length)` returns for that location) and `name_dests` = the locations that do not match.
* `Group`  — a `PackInfo` after coalescing: `from_file` of its FIRST entry, read range `off`/`len`, the blobs with their dests.
* `coalesceAll guard adj` — itertools' `coalesce`: the running group absorbs the next entry when
  `pack equal && guard && adj` (then `BlobLocations::append`: the read reaches to the end of the new blob), otherwise it is
  emitted and the entry starts a new group.  `guard` is the second conjunct of `PackInfo::coalesce` — `guardSelf` is the code
  (`self.from_file.is_none()`); `adj` stands for `can_coalesce` (`canCoalesce maxHole limit`), i.e. for the pack layout.
* `groupWrites` — the reader task: `read_data` = the bytes read from the existing file (`from_file`) or the partial pack read;
  every blob of the group is handed `read_data.clone()` when `from_file.is_some()`, else the decoded slice
  `read_data[bl.offset - offset .. bl.offset + bl.length - offset]`; one write per dest.
-/
namespace Rustic.RestoreGroups

abbrev Bytes := List UInt8

/-- bytes `[off, off + len)` -/
def slice (p : Bytes) (off len : Nat) : Bytes := (p.drop off).take len

structure Entry where
  pack : Nat
  off : Nat
  len : Nat
  fromFile : Option Bytes
  dests : List (Nat × Nat)

structure Blob where
  off : Nat
  len : Nat
  dests : List (Nat × Nat)

structure Group where
  pack : Nat
  fromFile : Option Bytes
  off : Nat
  len : Nat
  blobs : List Blob

def Entry.blob (e : Entry) : Blob := { off := e.off, len := e.len, dests := e.dests }

/-- `PackInfo { pack_id, from_file, locations: BlobLocations::from_blob_location(bl, name_dests) }` -/
def single (e : Entry) : Group := { pack := e.pack, fromFile := e.fromFile, off := e.off, len := e.len, blobs := [e.blob] }

/-- `BlobLocations::append` (and `from_file: self.from_file`) -/
def Group.append (g : Group) (e : Entry) : Group := { g with len := e.off + e.len - g.off, blobs := g.blobs ++ [e.blob] }

/-- `BlobLocations::can_coalesce` -/
def canCoalesce (maxHole limit : Nat) (g : Group) (e : Entry) : Bool :=
  e.off ≤ g.off + g.len + maxHole && g.off + g.len ≤ e.off && e.off + e.len - g.off ≤ limit

/-- the code: `self.from_file.is_none()` -/
def guardSelf (g : Group) (_ : Entry) : Bool := g.fromFile.isNone

/-- the guard on the other operand: `other.from_file.is_none()` -/
def guardOther (_ : Group) (e : Entry) : Bool := e.fromFile.isNone

def coalesceFrom (guard adj : Group → Entry → Bool) : Group → List Entry → List Group
  | g, [] => [g]
  | g, e :: rest =>
    if g.pack == e.pack && guard g e && adj g e then coalesceFrom guard adj (g.append e) rest
    else g :: coalesceFrom guard adj (single e) rest

def coalesceAll (guard adj : Group → Entry → Bool) : List Entry → List Group
  | [] => []
  | e :: rest => coalesceFrom guard adj (single e) rest

/-- `dest.write_at(filenames[file], start, data)` -/
structure Write where
  file : Nat
  start : Nat
  data : Bytes
  deriving DecidableEq, Repr

def writesTo (dests : List (Nat × Nat)) (data : Bytes) : List Write := dests.map fun d => { file := d.1, start := d.2, data }

/-- the reader task of one group; `packs` = the stored pack files, `decode` = `read_encrypted_from_partial` -/
def groupWrites (packs : Nat → Bytes) (decode : Bytes → Bytes) (g : Group) : List Write :=
  let readData := match g.fromFile with
    | some d => d
    | none => slice (packs g.pack) g.off g.len
  g.blobs.flatMap fun b =>
    writesTo b.dests (if g.fromFile.isSome then readData else decode (slice readData (b.off - g.off) b.len))

/-- everything `restore_contents` writes, group by group -/
def writes (guard adj : Group → Entry → Bool) (packs : Nat → Bytes) (decode : Bytes → Bytes) (es : List Entry) : List Write :=
  (coalesceAll guard adj es).flatMap (groupWrites packs decode)

/-- the content of the blob an entry names -/
def content (packs : Nat → Bytes) (decode : Bytes → Bytes) (e : Entry) : Bytes := decode (slice (packs e.pack) e.off e.len)

end Rustic.RestoreGroups
