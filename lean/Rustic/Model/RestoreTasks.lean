/-
Model M13 (part 3) — `restore_contents` for ONE file at the granularity of its writer tasks
(`crates/core/src/commands/restore.rs`, `restore_contents`: the `for (file_idx, start) in name_dests { s1.spawn(..) }` loop).
Import-free apart from `Model/Restore.lean`; executable.

`Model/Restore.lean` gives the final content as the concatenation of per-blob segments (`segs`) of an always-allocated file.
The code is written differently, and this file follows it:
* `name_dests` of a blob = its file locations that do NOT match (`fls.iter().filter(|fl| !fl.matches)`): only for those a
  writer task is spawned (`isDest`, `tasks`).  A file all of whose blobs are found in the existing file gets no task at all.
* the file is created / truncated / sized **inside the writer task**, by whichever task of the file runs first
  (`sizes_guard[file_idx] > 0` ⇒ `set_length(0)` iff `file_truncate`, then `set_length(size)`, then the entry is zeroed):
  `runTasks` — no task ⇒ the destination is not touched (`old` stays, whatever it is).
* a task then writes its blob at its offset (`write_at`, `writeAt`) **unless** the blob is all zero, sparse restore is on
  and the file was truncated by this restore (`isHole`) — a hole still allocates.
* files of size 0 never get a task; they are created beforehand ("first create needed empty files": `set_length(path, 0)`
  for every planned file of length 0 — an existing empty file is not planned: `add_file` answers `Existing`).
`tasks` lists the tasks in blob order; they run on a thread pool in any order — `Lemmas/RestoreTasks.lean` shows the result
for the list order and for the reverse order (writes go to disjoint ranges).
-/
import Rustic.Model.Restore
namespace Rustic.Restore

/-- `LocalDestination::write_at` into a file that already has its final length (`pwrite`) -/
def writeAt (f : Bytes) (pos : Nat) (d : Bytes) : Bytes := f.take pos ++ d ++ f.drop (pos + d.length)

/-- the location is a `name_dest`: the blob was not found at this position of the matching file -/
def isDest (matching : Option Bytes) (pos : Nat) (b : Bytes) : Bool := !blobMatches matching pos b

/-- `is_sparse && truncate` -/
def isHole (o : Opts) (fresh : Bool) (b : Bytes) : Bool := o.sparse && fresh && allZero b

structure Task where
  pos : Nat
  data : Bytes
  hole : Bool
  deriving Repr

/-- the writer tasks of one file, in blob order -/
def tasks (o : Opts) (fresh : Bool) (matching : Option Bytes) : Nat → List Bytes → List Task
  | _, [] => []
  | pos, b :: rest =>
    (if isDest matching pos b then [{ pos := pos, data := b, hole := isHole o fresh b }] else []) ++
      tasks o fresh matching (pos + b.length) rest

/-- the write of one task (the file is allocated already) -/
def runTask (f : Bytes) (t : Task) : Bytes := if t.hole then f else writeAt f t.pos t.data

/-- all tasks of a file of size > 0: the first one allocates; without any task the destination stays as it is -/
def runTasks (old : Option Bytes) (fresh : Bool) (size : Nat) (ts : List Task) : Option Bytes :=
  match ts with
  | [] => old
  | t :: rest => some ((t :: rest).foldl runTask (allocate (old.getD []) fresh size))

/-- final content of the destination file, task by task (`none` = no file) -/
def restoreFileTasks (o : Opts) (old : Option Bytes) (dm nm : Option MTime) (blobs : List Bytes) : Option Bytes :=
  let size := blobs.flatten.length
  let matching := matchingFile old size
  if size = 0 then (if matching.isSome then old else some [])
  else if o.verify = false ∧ matching.isSome ∧ mtimeEq dm nm = true then old
  else runTasks old matching.isNone size (tasks o matching.isNone matching 0 blobs)

end Rustic.Restore
