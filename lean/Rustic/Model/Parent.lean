/-
Model M8 — `crates/core/src/archiver/parent.rs`.

Import-free (other Model files only), executable.  Line-by-line correspondence:
* `Cursor`            — one element `(Tree, usize)` of `Parent.trees`.
* `seek`, `Cursor.pNode` — the `loop { match p_nodes.get(*idx) … }` of `p_node` for one tree
                        (`Less => *idx += 1`, `Equal => break Some`, `Greater => break None`).
* `metaMatch`         — the closure in `is_parent` **as written**: `match_inode = !ignore_inode || …`
                        (so the inode is compared only when `ignore_inode` is *set*).
* `isParentGo`/`isParent` — `is_parent`: `p_node(name)` is a *lazy* `filter_map`; `peek()` consumes it up to
                        the first tree that has the name, `find` continues from there and stops at the first
                        matching node — cursors of later trees are not advanced.
* `pNodeAll`          — `p_node(name)` consumed completely (`set_dir`'s `collect`).
* `sortDedup`         — `new_ids.sort(); new_ids.dedup()`.
* `setDir`, `finishDir`, `process` — the functions of the same names; `load` is `Tree::from_backend`
                        (errors are "ignored with a warning": the tree is left out), `hasData` is
                        `index.has_data`.
* the `Spec…` functions are the cursor-free specification (look the name up in every parent tree) that
  `Props/C11.lean` proves the cursor walk to refine under sortedness.
-/
import Rustic.Model.Tree
namespace Rustic.Parent
open Rustic.Tree

structure Cursor where
  nodes : List Node
  idx   : Nat
  deriving Repr

structure Opts where
  ignoreCtime : Bool
  ignoreInode : Bool
  deriving Repr

structure PState where
  trees : List Cursor
  stack : List (List Cursor) := []
  deriving Repr

/-- The `p_node` loop on the nodes from `idx` on: returns the new `idx` and the node found. -/
def seek (name : Name) : List Node → Nat → Nat × Option Node
  | [], i => (i, none)
  | p :: rest, i =>
    match cmpName p.name name with
    | .lt => seek name rest (i + 1)
    | .eq => (i, some p)
    | .gt => (i, none)

def Cursor.pNode (c : Cursor) (name : Name) : Cursor × Option Node :=
  let r := seek name (c.nodes.drop c.idx) c.idx
  ({ c with idx := r.1 }, r.2)

/-- Time stamps (`Meta.mtime`, `Meta.ctime` : `Option Int`) stand for the FULL `jiff::Timestamp` of the node — second and
nanosecond — and `is_parent` compares them with `==` on `Option<Timestamp>`, i.e. to the nanosecond (`metaMatch`, `matchCtime`
below compare the integers).  The correspondence driver / harness encode a stamp as this one integer (`harness/src/c11.rs`
`stamp`); for seconds below `2^32` and nanoseconds below `10^9 < 2^32` the encoding is injective
(`Props/C11.lean stamp_injective`). -/
def stamp (secs nanos : Nat) : Int := (secs : Int) + (nanos : Int) * 4294967296

/-- `match_ctime` of `is_parent`: `ignore_ctime || p.ctime.zip(ctime).is_none_or(|(x, y)| x == y)`. -/
def matchCtime (o : Opts) (p n : Meta) : Bool :=
  o.ignoreCtime ||
    (match p.ctime, n.ctime with
     | some x, some y => x == y
     | _, _ => true)

/-- `match_inode` of `is_parent`, as written. -/
def matchInode (o : Opts) (p n : Meta) : Bool :=
  !o.ignoreInode || p.inode == 0 || n.inode == 0 || p.inode == n.inode

/-- the `find` closure of `is_parent` -/
def metaMatch (o : Opts) (p node : Node) : Bool :=
  decide (p.kind = node.kind) && p.md.size == node.md.size && decide (p.md.mtime = node.md.mtime)
    && matchCtime o p.md node.md && matchInode o p.md node.md

/-- `is_parent` over the trees: (cursors after, first matching node, whether any tree has the name). -/
def isParentGo (o : Opts) (node : Node) (name : Name) : List Cursor → List Cursor × Option Node × Bool
  | [] => ([], none, false)
  | c :: cs =>
    let (c', r) := c.pNode name
    match r with
    | some p =>
      if metaMatch o p node then (c' :: cs, some p, true)
      else
        let (cs', r', _) := isParentGo o node name cs
        (c' :: cs', r', true)
    | none =>
      let (cs', r', f) := isParentGo o node name cs
      (c' :: cs', r', f)

def isParent (o : Opts) (st : PState) (node : Node) (name : Name) : PState × PRes Node :=
  let (cs, r, found) := isParentGo o node name st.trees
  ({ st with trees := cs },
    if !found then .notFound else match r with | some p => .matched p | none => .notMatched)

/-- `p_node(name)` consumed completely. -/
def pNodeAll (name : Name) : List Cursor → List Cursor × List Node
  | [] => ([], [])
  | c :: cs =>
    let (c', r) := c.pNode name
    let (cs', rs) := pNodeAll name cs
    (c' :: cs', match r with | some p => p :: rs | none => rs)

def insertSorted (x : Id) : List Id → List Id
  | [] => [x]
  | y :: ys => if x ≤ y then x :: y :: ys else y :: insertSorted x ys

def dedupAdj : List Id → List Id
  | [] => []
  | [x] => [x]
  | x :: y :: t => if x = y then dedupAdj (y :: t) else x :: dedupAdj (y :: t)

/-- `new_ids.sort(); new_ids.dedup()` -/
def sortDedup (l : List Id) : List Id := dedupAdj (l.foldr insertSorted [])

/-- `set_dir` -/
def setDir (load : Id → Option (List Node)) (st : PState) (name : Name) : PState :=
  let (cs, ps) := pNodeAll name st.trees
  let newIds := sortDedup (ps.filterMap (·.subtree))
  let newTrees := newIds.filterMap (fun id => (load id).map (fun ns => { nodes := ns, idx := 0 }))
  { trees := newTrees, stack := cs :: st.stack }

/-- `finish_dir`; `none` = `TreeStackEmptyError` -/
def finishDir (st : PState) : Option PState :=
  match st.stack with
  | [] => none
  | t :: s => some { trees := t, stack := s }

/-- Output of `Parent::process` (`ItemWithParent`), plus the two failure modes. -/
inductive Out (γ : Type) where
  | newTree (node : Node) (r : PRes Id)
  | endTree
  | other (node : Node) (x : γ) (r : PRes Unit)
  | stackEmpty          -- `Err(TreeStackEmptyError)` (the archiver drops the item with a warning)
  | panicNoSubtree      -- `node.subtree.unwrap()` on a matched parent directory node without subtree
  deriving Repr

/-- `Parent::process` -/
def process {γ} (o : Opts) (load : Id → Option (List Node)) (hasData : Id → Bool) (st : PState) :
    Item γ → PState × Out γ
  | .newTree node name =>
    let (st1, r) := isParent o st node name
    let st2 := setDir load st1 name
    match r with
    | .matched p =>
      match p.subtree with
      | some t => (st2, .newTree node (.matched t))
      | none => (st2, .panicNoSubtree)   -- the real process has aborted; the state is immaterial
    | .notFound => (st2, .newTree node .notFound)
    | .notMatched => (st2, .newTree node .notMatched)
  | .endTree =>
    match finishDir st with
    | none => (st, .stackEmpty)
    | some st' => (st', .endTree)
  | .other node x =>
    let (st1, r) := isParent o st node node.name
    match r with
    | .matched p =>
      if (p.content.getD []).all hasData then
        (st1, .other { node with content := p.content } x (.matched ()))
      else
        -- "missing blobs in index for unchanged file …; re-reading file"
        (st1, .other node x .notFound)
    | .notFound => (st1, .other node x .notFound)
    | .notMatched => (st1, .other node x .notMatched)

def run {γ} (o : Opts) (load : Id → Option (List Node)) (hasData : Id → Bool) :
    PState → List (Item γ) → List (Out γ)
  | _, [] => []
  | st, it :: its =>
    let (st', out) := process o load hasData st it
    out :: run o load hasData st' its

/-- `Parent::new`: load the root trees that can be loaded. -/
def PState.init (load : Id → Option (List Node)) (roots : List Id) : PState :=
  { trees := roots.filterMap (fun id => (load id).map (fun ns => { nodes := ns, idx := 0 })) }

/-! ### Cursor-free specification: look the name up in every parent tree of the current directory -/

structure SState where
  trees : List (List Node)
  stack : List (List (List Node)) := []

def lookup (name : Name) (nodes : List Node) : Option Node := nodes.find? (fun p => p.name = name)

def specPNode (name : Name) (trees : List (List Node)) : List Node := trees.filterMap (lookup name)

def specIsParent (o : Opts) (st : SState) (node : Node) (name : Name) : PRes Node :=
  match specPNode name st.trees with
  | [] => .notFound
  | cands => match cands.find? (fun p => metaMatch o p node) with
    | some p => .matched p
    | none => .notMatched

def specSetDir (load : Id → Option (List Node)) (st : SState) (name : Name) : SState :=
  let newIds := sortDedup ((specPNode name st.trees).filterMap (·.subtree))
  { trees := newIds.filterMap load, stack := st.trees :: st.stack }

def specProcess {γ} (o : Opts) (load : Id → Option (List Node)) (hasData : Id → Bool) (st : SState) :
    Item γ → SState × Out γ
  | .newTree node name =>
    let r := specIsParent o st node name
    let st2 := specSetDir load st name
    match r with
    | .matched p =>
      match p.subtree with
      | some t => (st2, .newTree node (.matched t))
      | none => (st2, .panicNoSubtree)
    | .notFound => (st2, .newTree node .notFound)
    | .notMatched => (st2, .newTree node .notMatched)
  | .endTree =>
    match st.stack with
    | [] => (st, .stackEmpty)
    | t :: s => ({ trees := t, stack := s }, .endTree)
  | .other node x =>
    match specIsParent o st node node.name with
    | .matched p =>
      if (p.content.getD []).all hasData then
        (st, .other { node with content := p.content } x (.matched ()))
      else (st, .other node x .notFound)
    | .notFound => (st, .other node x .notFound)
    | .notMatched => (st, .other node x .notMatched)

def specRun {γ} (o : Opts) (load : Id → Option (List Node)) (hasData : Id → Bool) :
    SState → List (Item γ) → List (Out γ)
  | _, [] => []
  | st, it :: its =>
    let (st', out) := specProcess o load hasData st it
    out :: specRun o load hasData st' its

def SState.init (load : Id → Option (List Node)) (roots : List Id) : SState :=
  { trees := roots.filterMap load }

end Rustic.Parent
