/-
Model M5 — the in-memory index: `crates/core/src/index/binarysorted.rs`, `crates/core/src/index.rs`
(`GlobalIndex::new_from_collector`), `crates/core/src/repofile/indexfile.rs` (`IndexPack`, `IndexFile`).

Executable; imports only `Model/Pack` (blob / location types, `PackHeaderRef::pack_size`).

Correspondence with the Rust code (line by line; quirks kept):
* `IndexPack.blobType`   — `IndexPack::blob_type`: type of the FIRST blob, `Data` for an empty pack.
* `IndexPack.packSize`   — `IndexPack::pack_size`: the `size` field, else computed from the blobs.
* `Collector.new`        — `IndexCollector::new(tpe)`: tree entries always full; data entries None / Ids / Full.
* `Entries.push`, `Collector.extendOne`, `Collector.extend` — `impl Extend<IndexPack> for IndexCollector`:
  the pack *and all its blobs* are filed under `p.blob_type()` (not under each blob's own type),
  `pack_idx` = number of packs of that type seen before, `total_size += pack_size`.
* `Collector.intoIndex`  — `into_index`: `par_sort_unstable(_by_key id)`.  The model sorts with a (stable)
  merge sort; every theorem about lookups is stated for ANY sorted permutation (`IsSortedPermOf`), because an
  unstable sort only promises that.
* `bsLoop`, `bsearch`    — `slice::binary_search_by` of the Rust standard library (the `while size > 1` loop
  with `half = size / 2`, `base = if cmp == Greater { base } else { mid }`, final equality test).
* `Index.getId`, `Index.has`, `Index.totalSize` — `impl ReadIndex for Index`.
* `Index.dropData`       — `Index::drop_data`.
* `Index.intoIter`       — `impl IntoIterator for Index` + `impl Iterator for PackIndexes`: sort full entries by
  `pack_idx`, then all tree packs in order, then all data packs, each with the run of entries whose
  `pack_idx` equals the pack's index (yielded packs have `size = None`, `time = None`).
* `load`                 — `GlobalIndex::new_from_collector`: `collector.extend(index.packs)` for every index
  file — `packs_to_delete` is never looked at — then `into_index`.
* `listed`               — the specification side: what the index files say about `(type, id)`.
-/
import Rustic.Model.Pack
namespace Rustic.Index
open Rustic.Pack

/-- `IndexPack` (the `time` field is not read by the index and is left out). -/
structure IndexPack where
  id : Nat
  blobs : List IndexBlob
  size : Option Nat
  deriving DecidableEq, Repr, Inhabited

/-- `IndexFile`.  `supersedes` ("which other index files are superseded by this (not actively used)"): the optional
list of index-file ids a file may carry (rustic never writes it; old restic versions / other tools do).  No definition
of this model reads it — exactly like the code: `GlobalIndex::new_from_collector` hands `index.packs` of EVERY streamed
file to the collector (`Props/C17.lean supersedes_is_ignored`). -/
structure IndexFile where
  supersedes : Option (List Nat) := none
  packs : List IndexPack
  packsToDelete : List IndexPack
  deriving Repr, Inhabited

def IndexPack.blobType (p : IndexPack) : BlobType :=
  match p.blobs with
  | [] => .data
  | b :: _ => b.tpe

def IndexPack.packSize (p : IndexPack) : Nat :=
  match p.size with
  | some s => s
  | none => Rustic.Pack.packSize p.blobs

inductive IndexType where
  | full
  | dataIds
  | onlyTrees
  deriving DecidableEq, Repr

structure SortedEntry where
  id : Nat
  packIdx : Nat
  loc : Location
  deriving DecidableEq, Repr, Inhabited

inductive Entries where
  | none
  | ids (l : List Nat)
  | full (l : List SortedEntry)
  deriving Repr, Inhabited

structure TypeCollector where
  packs : List (Nat × Nat)
  entries : Entries
  totalSize : Nat
  deriving Repr, Inhabited

/-- `BlobTypeMap<TypeIndexCollector>` -/
structure Collector where
  tree : TypeCollector
  data : TypeCollector
  deriving Repr, Inhabited

def Collector.get (c : Collector) : BlobType → TypeCollector
  | .tree => c.tree
  | .data => c.data

def Collector.set (c : Collector) (t : BlobType) (tc : TypeCollector) : Collector :=
  match t with
  | .tree => { c with tree := tc }
  | .data => { c with data := tc }

def Collector.new (m : IndexType) : Collector :=
  { tree := { packs := [], entries := .full [], totalSize := 0 }
    data := { packs := [], totalSize := 0
              entries := match m with
                | .onlyTrees => .none
                | .dataIds => .ids []
                | .full => .full [] } }

/-- body of `for blob in &p.blobs { … }` -/
def Entries.push (idx : Nat) (e : Entries) (b : IndexBlob) : Entries :=
  match e with
  | .none => .none
  | .ids l => .ids (l ++ [b.id])
  | .full l => .full (l ++ [{ id := b.id, packIdx := idx, loc := b.loc }])

/-- body of `for p in iter { … }` -/
def Collector.extendOne (c : Collector) (p : IndexPack) : Collector :=
  let bt := p.blobType
  let size := p.packSize
  let tc := c.get bt
  let idx := tc.packs.length
  c.set bt { packs := tc.packs ++ [(p.id, size)]
             totalSize := tc.totalSize + size
             entries := p.blobs.foldl (Entries.push idx) tc.entries }

def Collector.extend (c : Collector) (ps : List IndexPack) : Collector :=
  ps.foldl Collector.extendOne c

structure TypeIndex where
  packs : List Nat
  entries : Entries
  totalSize : Nat
  deriving Repr, Inhabited

structure Index where
  tree : TypeIndex
  data : TypeIndex
  deriving Repr, Inhabited

def Index.get (c : Index) : BlobType → TypeIndex
  | .tree => c.tree
  | .data => c.data

/-- insertion into a list sorted by `key` -/
def insertBy {α : Type} (key : α → Nat) (x : α) : List α → List α
  | [] => [x]
  | y :: ys => if key x ≤ key y then x :: y :: ys else y :: insertBy key x ys

/-- The model's sort (structural, so closed examples evaluate by `decide`); the theorems never rely on WHICH
sorted permutation a sort returns. -/
def sortBy {α : Type} (key : α → Nat) : List α → List α
  | [] => []
  | x :: xs => insertBy key x (sortBy key xs)

def Entries.sortById : Entries → Entries
  | .none => .none
  | .ids l => .ids (sortBy id l)
  | .full l => .full (sortBy (·.id) l)

def TypeCollector.intoIndex (tc : TypeCollector) : TypeIndex :=
  { packs := tc.packs.map (·.1), entries := tc.entries.sortById, totalSize := tc.totalSize }

def Collector.intoIndex (c : Collector) : Index :=
  { tree := c.tree.intoIndex, data := c.data.intoIndex }

/-- the `while size > 1` loop of `slice::binary_search_by` (`cmp == Greater` ⇔ `keys[mid] > x`).  The first
argument is recursion fuel (`size` strictly decreases, so `keys.length` steps always suffice). -/
def bsLoop (keys : List Nat) (x : Nat) : Nat → Nat → Nat → Nat
  | 0, base, _ => base
  | fuel + 1, base, size =>
    if 1 < size then
      let half := size / 2
      let mid := base + half
      let base' := if x < keys.getD mid 0 then base else mid
      bsLoop keys x fuel base' (size - half)
    else base

/-- `keys.binary_search(&x).ok()` -/
def bsearch (keys : List Nat) (x : Nat) : Option Nat :=
  if keys.length = 0 then none else
  let base := bsLoop keys x keys.length 0 keys.length
  if keys.getD base 0 = x then some base else none

/-- `IndexEntry` -/
structure IndexEntry where
  tpe : BlobType
  pack : Nat
  loc : Location
  deriving DecidableEq, Repr, Inhabited

/-- `ReadIndex::get_id` (indexing `vec[index]` / `packs[pack_idx]` would panic out of range: `none` here;
`Lemmas/Index` shows it cannot happen for an index built by the collector). -/
def Index.getId (c : Index) (t : BlobType) (id : Nat) : Option IndexEntry :=
  match (c.get t).entries with
  | .full vec =>
    match bsearch (vec.map (·.id)) id with
    | none => none
    | some i =>
      match vec[i]? with
      | none => none
      | some be =>
        match (c.get t).packs[be.packIdx]? with
        | none => none
        | some pid => some { tpe := t, pack := pid, loc := be.loc }
  | _ => none

def Index.has (c : Index) (t : BlobType) (id : Nat) : Bool :=
  match (c.get t).entries with
  | .full vec => (bsearch (vec.map (·.id)) id).isSome
  | .ids l => (bsearch l id).isSome
  | .none => false

def Index.totalSize (c : Index) (t : BlobType) : Nat := (c.get t).totalSize

def Index.dropData (c : Index) : Index :=
  { c with data := { packs := [], entries := .none, totalSize := 0 } }

/-- `while *idx < entries.len() && entries[*idx].pack_idx == *pack_idx { push; idx += 1 }` -/
def takeRun (k : Nat) : List SortedEntry → List SortedEntry × List SortedEntry
  | [] => ([], [])
  | e :: es =>
    if e.packIdx = k then
      let (run, rest) := takeRun k es
      (e :: run, rest)
    else ([], e :: es)

/-- the packs of one type, in pack order; `k` is `*pack_idx`, `es` is `entries[*idx..]`. -/
def iterPacks (t : BlobType) (k : Nat) : List Nat → List SortedEntry → List IndexPack
  | [], _ => []
  | pid :: ps, es =>
    let (run, rest) := takeRun k es
    { id := pid, size := none, blobs := run.map (fun e => { id := e.id, tpe := t, loc := e.loc }) }
      :: iterPacks t (k + 1) ps rest

def TypeIndex.iter (t : BlobType) (ti : TypeIndex) : List IndexPack :=
  match ti.entries with
  | .full l => iterPacks t 0 ti.packs (sortBy (·.packIdx) l)
  | _ => iterPacks t 0 ti.packs []

/-- `Index::into_iter().collect()` -/
def Index.intoIter (c : Index) : List IndexPack :=
  c.tree.iter .tree ++ c.data.iter .data

/-- `GlobalIndex::new_from_collector` over the index files in the order they are streamed. -/
def load (m : IndexType) (files : List IndexFile) : Index :=
  (files.foldl (fun c f => c.extend f.packs) (Collector.new m)).intoIndex

/-- Specification side: every listing of `(t, id)` in the given packs. -/
def listed (ps : List IndexPack) (t : BlobType) (id : Nat) : List IndexEntry :=
  ps.flatMap fun p =>
    (p.blobs.filter fun b => decide (b.tpe = t ∧ b.id = id)).map fun b =>
      { tpe := t, pack := p.id, loc := b.loc }

/-- The packs an index load looks at: `.packs` of every file (never `.packs_to_delete`). -/
def unmarked (files : List IndexFile) : List IndexPack := files.flatMap (·.packs)

/-- "Only packs with identical blob types are allowed" (`IndexPack::blob_type`). -/
def IndexPack.Homogeneous (p : IndexPack) : Prop := ∀ b ∈ p.blobs, b.tpe = p.blobType

/-! ### `repair_index` (C08): `commands/repair/index.rs`

* `lookupRemove`        — `self.packs.remove(&id)` on the `HashMap<PackId, u32>` of listed pack files.
* `IndexFile.allPacks`  — `IndexFile::all_packs` (unmarked first, then marked, each with its flag).
* `checkOne`            — body of the loop in `PackChecker::check_pack`: unknown / already seen pack → dropped; size
                          mismatch or `read_all` → queued for a header read with the index's header size as hint;
                          otherwise kept with its delete flag (`IndexFile::add`).
* `repairFile`          — one iteration of the loop over index files in `repair_index`: a changed file is replaced by
                          the new one (not saved when empty), an unchanged file stays.
* `repairIndex`         — the whole command: afterwards the queued packs and all packs never listed are read with
                          `PackHeader::from_file` (`readHeader id hint size`); readable ones are added UNMARKED
                          (`indexer.add_with(pack, false)`) in a new index file, unreadable ones are left out. -/

def lookupRemove (id : Nat) : List (Nat × Nat) → Option (Nat × List (Nat × Nat))
  | [] => none
  | (i, s) :: rest =>
    if i = id then some (s, rest)
    else match lookupRemove id rest with
      | none => none
      | some (s', rest') => some (s', (i, s) :: rest')

def IndexFile.allPacks (f : IndexFile) : List (IndexPack × Bool) :=
  f.packs.map (·, false) ++ f.packsToDelete.map (·, true)

def IndexFile.add (f : IndexFile) (p : IndexPack) (delete : Bool) : IndexFile :=
  if delete then { f with packsToDelete := f.packsToDelete ++ [p] } else { f with packs := f.packs ++ [p] }

structure CheckAcc where
  remaining : List (Nat × Nat)
  toRead : List (Nat × Option Nat × Nat)
  newIndex : IndexFile
  changed : Bool

def checkOne (readAll : Bool) (a : CheckAcc) (pd : IndexPack × Bool) : CheckAcc :=
  match lookupRemove pd.1.id a.remaining with
  | none => { a with changed := true }
  | some (size, rest) =>
    if pd.1.packSize ≠ size ∨ readAll = true then
      { a with remaining := rest, changed := true
               toRead := a.toRead ++ [(pd.1.id, some (Rustic.Pack.headerSize pd.1.blobs), size)] }
    else { a with remaining := rest, newIndex := a.newIndex.add pd.1 pd.2 }

structure RepairAcc where
  remaining : List (Nat × Nat)
  toRead : List (Nat × Option Nat × Nat)
  out : List IndexFile

def repairFile (readAll : Bool) (st : RepairAcc) (f : IndexFile) : RepairAcc :=
  let r := f.allPacks.foldl (checkOne readAll)
    { remaining := st.remaining, toRead := st.toRead, newIndex := { packs := [], packsToDelete := [] }, changed := false }
  { remaining := r.remaining, toRead := r.toRead
    out := if r.changed then
             (if r.newIndex.packs.isEmpty && r.newIndex.packsToDelete.isEmpty then st.out else st.out ++ [r.newIndex])
           else st.out ++ [f] }

def repairIndex (readHeader : Nat → Option Nat → Nat → Option (List IndexBlob)) (store : List (Nat × Nat))
    (files : List IndexFile) (readAll : Bool) : List IndexFile :=
  let st := files.foldl (repairFile readAll) { remaining := store, toRead := [], out := [] }
  let reads := st.toRead ++ st.remaining.map (fun e => (e.1, none, e.2))
  let newPacks : List IndexPack := reads.filterMap fun r =>
    (readHeader r.1 r.2.1 r.2.2).map fun bl => { id := r.1, blobs := bl, size := none }
  st.out ++ (if newPacks.isEmpty then [] else [{ packs := newPacks, packsToDelete := [] }])

/-! ### `repair_index(opts, dry_run)` (C08, round 3): the `dry_run` flag

`repair_index` has ONE body for both modes; `dry_run` is tested at exactly two places:
* `match (changed, dry_run)` in the loop over the index files: `(true, true)` only logs "would have modified index file",
  `(true, false)` saves the new file (unless empty) and queues the old one in `indexes_remove`, `(false, _)` does nothing —
  so in a dry run every index file STAYS (`repairFileD`), while `check_pack` still runs (its `packs_to_read` are read);
* `if !dry_run { indexer.add_with(pack, false) }` after each successful header read: nothing reaches the indexer, whose
  `finalize` then writes no file; `indexes_remove` is empty, so nothing is removed (`repairIndexD`).
`repairIndexD false = repairIndex` (`Lemmas`: `repairIndexD_false`). -/

def repairFileD (dry readAll : Bool) (st : RepairAcc) (f : IndexFile) : RepairAcc :=
  let r := f.allPacks.foldl (checkOne readAll)
    { remaining := st.remaining, toRead := st.toRead, newIndex := { packs := [], packsToDelete := [] }, changed := false }
  { remaining := r.remaining, toRead := r.toRead
    out := match r.changed, dry with
      | true, true => st.out ++ [f]
      | true, false =>
        (if r.newIndex.packs.isEmpty && r.newIndex.packsToDelete.isEmpty then st.out else st.out ++ [r.newIndex])
      | false, _ => st.out ++ [f] }

def repairIndexD (dry : Bool) (readHeader : Nat → Option Nat → Nat → Option (List IndexBlob)) (store : List (Nat × Nat))
    (files : List IndexFile) (readAll : Bool) : List IndexFile :=
  let st := files.foldl (repairFileD dry readAll) { remaining := store, toRead := [], out := [] }
  let reads := st.toRead ++ st.remaining.map (fun e => (e.1, none, e.2))
  let newPacks : List IndexPack := reads.filterMap fun r =>
    (readHeader r.1 r.2.1 r.2.2).bind fun bl => if dry then none else some { id := r.1, blobs := bl, size := none }
  st.out ++ (if newPacks.isEmpty then [] else [{ packs := newPacks, packsToDelete := [] }])

/-- the header reads `repair_index` performs (`checker.into_pack_to_read()`: the packs queued by `check_pack`, then every pack
file no index file listed), as `(pack, size hint, pack size)` — the `dry_run` flag is a parameter to show it has no influence. -/
def repairReadsD (dry : Bool) (store : List (Nat × Nat)) (files : List IndexFile) (readAll : Bool) : List (Nat × Option Nat × Nat) :=
  let st := files.foldl (repairFileD dry readAll) { remaining := store, toRead := [], out := [] }
  st.toRead ++ st.remaining.map (fun e => (e.1, none, e.2))

/-! ### `index_checked_from_collector` (`Repository::to_indexed_checked`): the index healed in memory

Per index file `collector.extend(checker.check_pack(index, false).0.packs)` — the kept UNMARKED listings (the `changed` flag and the
marked listings are ignored); then every queued / never listed pack is read with `PackHeader::from_file` — here the first failing
read fails the whole command (`?`), `repair_index` would leave the pack out — and added. -/

def checkedFile (st : RepairAcc × List IndexPack) (f : IndexFile) : RepairAcc × List IndexPack :=
  let r := f.allPacks.foldl (checkOne false)
    { remaining := st.1.remaining, toRead := st.1.toRead, newIndex := { packs := [], packsToDelete := [] }, changed := false }
  ({ remaining := r.remaining, toRead := r.toRead, out := [] }, st.2 ++ r.newIndex.packs)

def checkedPacks (readHeader : Nat → Option Nat → Nat → Option (List IndexBlob)) (store : List (Nat × Nat))
    (files : List IndexFile) : Option (List IndexPack) :=
  let st := files.foldl checkedFile ({ remaining := store, toRead := [], out := [] }, [])
  let reads := st.1.toRead ++ st.1.remaining.map (fun e => (e.1, none, e.2))
  (reads.mapM fun r => (readHeader r.1 r.2.1 r.2.2).map fun bl => ({ id := r.1, blobs := bl, size := none } : IndexPack)).map
    (st.2 ++ ·)

end Rustic.Index
