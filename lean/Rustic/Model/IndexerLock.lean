/-
Model/IndexerLock.lean — the shared `Indexer` seen from the file writers of ALL packers of one command (C13).
Import-free, executable.

What is modelled, and from where (crates/core/src):
* `St.file/count`   — `index/indexer.rs Indexer { file, count }` (one `SharedIndexer = Arc<RwLock<Indexer>>` per command: backup's data
                      and tree packer, prune's two repackers, copy's two packers all hold a clone).
* `Ev.add w p n age`— `blob/packer.rs FileWriterHandle::index`: `self.indexer.write().unwrap().add(index)?` called by the file writer
                      of packer `w` for pack `p` holding `n` blobs: needs the write lock; `Indexer::add_with` pushes the pack,
                      `count += n`, and when `count >= MAX_COUNT` (or the indexer is older than `MAX_AGE`: flag `age`) the index file
                      is due: `self.save()?; self.reset()` — **inside `add_with`, i.e. with the write lock still held** (`locked =
                      true`, the code as it is).  While the lock is held no other writer can add.
* `Ev.saved w`      — the backend's `write_bytes(FileType::Index, …)` of writer `w`'s save returns (it may take arbitrarily long: any
                      number of other events may be scheduled in between); `locked = true`: `reset()` follows at once and the lock is
                      released.
* `locked = false`  — the protocol that must NOT be used (kept as counter-model): the due index file is copied under the lock, the lock
                      is released, the copy is saved, and the indexer is `reset()` afterwards under a second, short lock
                      (`Ev.reset w`).  Other writers add — and find the file due, and save and reset themselves — in between.
* `finalize`        — `Indexer::finalize` = `save`: after every packer has been finalized (all writers idle) the remaining index file
                      is written if it lists anything.
* `added`           — ghost: every pack id ever handed to `add`.

A schedule is a list of events; an event that is not enabled (lock taken, writer busy) leaves the state unchanged, so every list is
a schedule.
-/
namespace Rustic.IndexerLock

/-- where the file writer of one packer is inside `FileWriterHandle::index` -/
inductive PC
  | idle
  /-- the backend write of the index file with these packs is under way -/
  | saving (copy : List Nat)
  /-- (`locked = false` only) the copy is stored, `reset()` not yet done -/
  | resetting
deriving DecidableEq, Repr, Inhabited

structure St where
  file : List Nat := []
  count : Nat := 0
  /-- the index files written so far (newest first), each the list of pack ids it lists -/
  saved : List (List Nat) := []
  pc : Nat → PC := fun _ => .idle
  /-- the writer holding the indexer's write lock across a backend call -/
  lock : Option Nat := none
  added : List Nat := []

inductive Ev
  | add (w p n : Nat) (age : Bool)
  | saved (w : Nat)
  | reset (w : Nat)
deriving Repr

def upd (f : Nat → PC) (w : Nat) (x : PC) : Nat → PC := fun v => if v = w then x else f v

def step (locked : Bool) (maxCount : Nat) (s : St) : Ev → St
  | .add w p n age =>
    if s.lock.isSome || s.pc w != .idle then s else
    let file := s.file ++ [p]
    let count := s.count + n
    if decide (count ≥ maxCount) || age then
      { s with file := file, count := count, added := p :: s.added, pc := upd s.pc w (.saving file),
               lock := if locked then some w else none }
    else { s with file := file, count := count, added := p :: s.added }
  | .saved w =>
    match s.pc w with
    | .saving c =>
      if locked then { s with saved := c :: s.saved, file := [], count := 0, pc := upd s.pc w .idle, lock := none }
      else { s with saved := c :: s.saved, pc := upd s.pc w .resetting }
    | _ => s
  | .reset w =>
    match s.pc w with
    | .resetting => if s.lock.isSome then s else { s with file := [], count := 0, pc := upd s.pc w .idle }
    | _ => s

def run (locked : Bool) (maxCount : Nat) (s : St) (evs : List Ev) : St := evs.foldl (step locked maxCount) s

/-- the index files in storage after `Indexer::finalize` -/
def finalize (s : St) : List (List Nat) := if s.file.isEmpty then s.saved else s.file :: s.saved

/-- pack `p` is listed by one of the index files `fs` -/
def listed (fs : List (List Nat)) (p : Nat) : Bool := fs.any (fun f => f.contains p)

/-- the losing schedule of the unlocked protocol (auto-save threshold 2 blobs): writer 0 adds pack 1 (due, copy `[1]`), writer 1 adds
pack 2 (due as well, copy `[1, 2]`), writer 0's save returns and it resets, writer 0 adds pack 3, writer 1's slower save returns and
its reset wipes pack 3, which no index file lists. -/
def losing : List Ev :=
  [.add 0 1 2 false, .add 1 2 1 false, .saved 0, .reset 0, .add 0 3 1 false, .saved 1, .reset 1]

end Rustic.IndexerLock
