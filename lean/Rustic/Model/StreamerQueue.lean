/-
Model for C13 — the THREADS of `crates/core/src/blob/tree.rs::TreeStreamerOnce` and their two channels.

Executable, total; imports only `Model/Streamer.lean` (for `pick`).  Part 1 of that file abstracts the loader threads
into "the answer of the k-th outstanding request arrives" and so cannot block; it says WHAT is yielded.  This file keeps
the blocking structure and says WHEN a step is possible:

* `Cfg.cap`     — capacity of the request queue `queue_in`: `none` = `unbounded()` (the code as it is),
                  `some n` = `bounded(n)` (the counter-model: a "don't queue an unlimited number of ids" variant).
* `Cfg.loaders` — number of loader threads (`constants::MAX_TREE_LOADER`), `Cfg.out` — capacity of the result queue
                  `queue_out` (`bounded(constants::MAX_TREE_LOADER)`).
* `TSt.todo`    — the consumer thread is inside `new` (loop over the root ids) or inside `next` (loop over
                  `tree.nodes`) and still has to `add_pending` these ids; they are the ids `visited.insert` accepts
                  (`fresh`): the consumer is the only thread that touches `visited`, so deciding it when the tree is received
                  is the same as deciding it id by id.  `todo = []`: the consumer is in `queue_out.recv()` (or finished).
* `TSt.inq`     — content of `queue_in`;  `TSt.held` — trees a loader has loaded (`Tree::from_backend`) and is about to
                  `out_tx.send` (at most one per loader);  `TSt.outq` — content of `queue_out`.
* `Act.send`    — `add_pending`: `self.queue_in.send((path, id, count))` — BLOCKS while a bounded queue is full;
  `Act.load`    — an idle loader takes the oldest request (`for (path, id, count) in in_rx`) and loads the tree;
  `Act.put k`   — the loader holding the k-th loaded tree hands it to `queue_out` — blocks while that is full;
  `Act.recv`    — `next`: `self.queue_out.recv()`, then the loop over the sub-trees starts (`todo := fresh …`), the tree
                  is yielded at the end of that loop (recorded here at once: order of `yielded` is not used).
* `finished`    — nothing outstanding: `counter.len() == finished_ids` (Part 1: `done_iff_no_pending`), `next` returns `None`.
* `shape`, `cstep` — the four queue lengths and the counter machine they follow under `send`/`load`/`put` (enabledness of
                  every action depends on the lengths only).
-/
import Rustic.Model.Streamer
namespace Rustic.StreamerQ
open Rustic.Streamer (pick)

structure Cfg where
  cap : Option Nat
  loaders : Nat
  out : Nat
deriving Repr

structure TSt where
  todo : List Nat := []
  inq : List Nat := []
  held : List Nat := []
  outq : List Nat := []
  visited : List Nat := []
  yielded : List Nat := []
deriving Repr, DecidableEq

inductive Act | send | load | put (k : Nat) | recv
deriving Repr, DecidableEq

/-- the ids of `cs` that `visited.insert` accepts, in order (an id occurring twice is accepted once) -/
def fresh : List Nat → List Nat → List Nat
  | _, [] => []
  | vis, c :: cs => if vis.contains c then fresh vis cs else c :: fresh (c :: vis) cs

/-- `queue_in.send` does not block -/
def room (c : Cfg) (s : TSt) : Bool :=
  match c.cap with
  | none => true
  | some n => s.inq.length < n

def step (c : Cfg) (children : Nat → List Nat) (s : TSt) : Act → Option TSt
  | .send =>
    match s.todo with
    | [] => none
    | id :: rest => if room c s then some { s with todo := rest, inq := s.inq ++ [id] } else none
  | .load =>
    match s.inq with
    | [] => none
    | id :: rest => if s.held.length < c.loaders then some { s with inq := rest, held := s.held ++ [id] } else none
  | .put k =>
    match pick s.held k with
    | none => none
    | some (id, rest) => if s.outq.length < c.out then some { s with held := rest, outq := s.outq ++ [id] } else none
  | .recv =>
    match s.todo, s.outq with
    | [], id :: rest =>
      let new := fresh s.visited (children id)
      some { s with outq := rest, todo := new, visited := new.reverse ++ s.visited, yielded := s.yielded ++ [id] }
    | _, _ => none

/-- `TreeStreamerOnce::new(be, index, ids, p)` before its loop over the roots has sent anything -/
def init (roots : List Nat) : TSt :=
  let new := fresh [] roots
  { todo := new, visited := new.reverse }

/-- no request is outstanding and the consumer has nothing to send: `next` returns `None` -/
def finished (s : TSt) : Bool := s.todo.isEmpty && s.inq.isEmpty && s.held.isEmpty && s.outq.isEmpty

/-- a schedule; actions that are not enabled are skipped -/
def runActs (c : Cfg) (children : Nat → List Nat) (s : TSt) : List Act → TSt
  | [] => s
  | a :: as =>
    match step c children s a with
    | some s' => runActs c children s' as
    | none => runActs c children s as

/-- no action is enabled (`put k` for every busy loader) -/
def stuck (c : Cfg) (children : Nat → List Nat) (s : TSt) : Bool :=
  (step c children s .send).isNone && (step c children s .load).isNone && (step c children s .recv).isNone &&
  (List.range s.held.length).all fun k => (step c children s (.put k)).isNone

/-- number of actions of a schedule that were enabled when their turn came (the steps actually made) -/
def executed (c : Cfg) (children : Nat → List Nat) : TSt → List Act → Nat
  | _, [] => 0
  | s, a :: as =>
    match step c children s a with
    | some s' => executed c children s' as + 1
    | none => executed c children s as

/-- steps made so far on behalf of the trees that have left the consumer's hands: a request in `queue_in` has made 1
(`send`), a loaded tree 2, one in `queue_out` 3, a yielded one 4 -/
def credit (s : TSt) : Nat := s.inq.length + 2 * s.held.length + 3 * s.outq.length + 4 * s.yielded.length

/-- steps the loaders and the consumer can still make before the next `recv` -/
def measure (s : TSt) : Nat := 3 * s.todo.length + 2 * s.inq.length + s.held.length

/-! ### the queue lengths as a counter machine -/

/-- (to send, in `queue_in`, held by loaders, in `queue_out`) -/
abbrev Shape := Nat × Nat × Nat × Nat

def shape (s : TSt) : Shape := (s.todo.length, s.inq.length, s.held.length, s.outq.length)

/-- `send` / `load` / `put` on the lengths (`recv` is not a counter step: what it adds depends on the tree) -/
def croom (c : Cfg) (i : Nat) : Bool :=
  match c.cap with
  | none => true
  | some n => i < n

def cstep (c : Cfg) : Shape → Act → Option Shape
  | (t, i, h, o), .send => if 0 < t ∧ croom c i = true then some (t - 1, i + 1, h, o) else none
  | (t, i, h, o), .load => if 0 < i ∧ h < c.loaders then some (t, i - 1, h + 1, o) else none
  | (t, i, h, o), .put k => if k < h ∧ o < c.out then some (t, i, h - 1, o + 1) else none
  | _, .recv => none

def crun (c : Cfg) : Shape → List Act → Shape
  | sh, [] => sh
  | sh, a :: as =>
    match cstep c sh a with
    | some sh' => crun c sh' as
    | none => crun c sh as

/-- the schedule that fills everything: `o` trees through a loader into the result queue, then `l` trees into the
loaders' hands, then `n` requests into the request queue -/
def fillSchedule (n l o : Nat) : List Act :=
  (List.replicate o [Act.send, .load, .put 0]).flatten ++ (List.replicate l [Act.send, .load]).flatten ++
    List.replicate n Act.send

end Rustic.StreamerQ
