/-
Command table: which public repository operation of rustic_core may issue which storage operation
(write / removal, by file type), and which operations are refused on an append-only repository or are
silenced by their dry-run flag.  Each row is read off the source:

  repository.rs      `delete_snapshots` (guard, ErrorKind::Repository), `save_snapshots`, `delete_key`, `add_key`,
                     `apply_config` (commands/config.rs guard), `init_hot`, `warm_up`, read-only methods
  commands/backup.rs `archive` (`DryRunBackend::new(dbe, opts.dry_run)`), archiver (packs, index, snapshot); `backup`
                     picks the source (`BackupSource`: local paths | stdin | stdin command) and hands the caller's
                     options on to `archive` — how, is modelled statement by statement in `Model/CommandSteps.lean`
  commands/prune.rs  `prune_repository` (guard first; then packs/index written, index/packs removed),
                     `PrunePlan::from_prune_options` (reads only)
  commands/repair/index.rs      `repair_index` (guard first; `dry_run` skips save/remove)
  commands/repair/snapshots.rs  `repair_snapshots` (guard iff `opts.delete`; `dry_run` → TreeModifier/ saves skipped)
  commands/rewrite.rs           `rewrite_snapshots[_and_trees]` (guard iff `opts.forget`; `opts.dry_run`)
  commands/repair/hotcold.rs    copies only (and refuses on a repository without hot part)
  commands/copy.rs, merge.rs    write packs / index / snapshots into the (destination) repository
  blob/tree/modify.rs           `TreeModifier` `dry_run`: `save_tree`/`finalize` write nothing
  backend/dry_run.rs            `DryRunBackend`: `write_bytes`/`remove` are no-ops when `dry_run`
  commands/init.rs              `init` (refused when a config file exists — `Repository::init`), `init_with_config`
                                (NOT guarded: key + config are written over an existing repository), `init_hot`
  commands/restore.rs           `prepare_restore(…, dry_run)`: reads only (the flag is about the local destination)
  commands/merge.rs             `merge_snapshots` / `merge_trees` never remove (the CLI's `merge --delete` calls
                                `delete_snapshots` afterwards)

Completeness of the table is checked, not trusted: `Cmd.methods` names the public `Repository` methods a row
stands for, `readOnlyMethods` is the reviewed list of constructors / accessors / readers, and `Props/C15` proves
that together they are exactly `Rustic.Gen.repositoryPublicFns`, the list tools/c15_api_table.py extracts from
repository.rs on every run (likewise for every `dry_run` parameter / option field).

`run` is the over-approximation the theorems speak about; `expected` is the exact observation the
traffic check (`harness/src/c15.rs`) compares with, for its scenarios (two snapshots; plain or hot/cold;
intact, or damaged = coarse observation), tracking the append-only flag, the extra-verify flag, the number of
snapshots and whether a key was added.
Import-free.
-/
namespace Rustic.CommandTable

inductive FileType where
  | config | index | key | snapshot | pack
  deriving Repr, DecidableEq

inductive Op where
  | write (t : FileType)
  | remove (t : FileType)
  deriving Repr, DecidableEq

/-- the removals the property forbids on an append-only repository. -/
def Op.isProtectedRemoval : Op → Bool
  | .remove .snapshot => true
  | .remove .index => true
  | .remove .pack => true
  | _ => false

/-- a write that is not an append (may replace a file of that type). -/
def Op.isWrite : Op → Bool
  | .write _ => true
  | _ => false

/-- why `ConfigOptions::apply` rejects an option value (the error kinds of commands/config.rs). -/
inductive Rejection where
  | unsupported       -- version, chunker parameters, compression level
  | invalidInput      -- min / max pack-size tolerate percent
  | internal          -- a pack size / size limit that does not fit u32
  deriving Repr, DecidableEq

inductive ConfigChange where
  | setAppendOnly (b : Bool)
  | other (changes : Bool)      -- any option set without `set_append_only`; `changes` = alters the stored config
  /-- options of which one fails validation inside `ConfigOptions::apply` (possibly together with `set_append_only`):
  `apply_config` returns that error; the options were applied to a CLONE of the handle's config, which is dropped -/
  | rejected (setAppendOnly : Option Bool) (why : Rejection)
  deriving Repr, DecidableEq

/-- where a backup reads from.  `Repository::archive` takes the caller's `ReadSource` (`readSource`);
`Repository::backup` (commands/backup.rs `backup`) builds the source itself: `source == "-"` → `ChildStdoutSource` when
`opts.stdin_command` is set (`stdinCommand`), else `StdinSource` (`stdin`); any other path list → `LocalSource`
(`localPaths`). -/
inductive BackupSource where
  | readSource
  | localPaths
  | stdin
  | stdinCommand
  deriving Repr, DecidableEq

def allBackupSources : List BackupSource := [.readSource, .localPaths, .stdin, .stdinCommand]

/-- public operations (with the flags that matter for storage traffic). -/
inductive Cmd where
  | backup (src : BackupSource) (dryRun : Bool)
  | deleteSnapshots
  | saveSnapshots
  | prunePlan
  | prune
  | repairIndex (dryRun : Bool)
  | repairSnapshots (delete dryRun : Bool)
  | rewriteSnapshots (forget dryRun : Bool)
  | rewriteTrees (forget dryRun : Bool)
  | applyConfig (c : ConfigChange)
  | addKey
  | deleteKey
  | copyInto
  | mergeSnapshots
  | repairHotcold (dryRun : Bool)
  | prepareRestore (dryRun : Bool)
  | init                        -- `init` over an existing repository
  | initWithConfig (newAppendOnly : Bool)     -- `init_with_config` over an existing repository; flag of the new config
  | initHot
  | readOnly                    -- check, restore, ls, dump, cat, get_snapshots, warm_up … (`readOnlyMethods`)
  deriving Repr, DecidableEq

inductive ErrKind where
  | appendOnly
  | repository
  | configuration
  | validation (why : Rejection)
  deriving Repr, DecidableEq

inductive Outcome where
  | refused (e : ErrKind)           -- returned before any storage operation
  | runs (ops : List Op)            -- the kinds of storage operations the command may issue
  deriving Repr, DecidableEq

def dataWrites : List Op := [.write .pack, .write .index]

/-- what a hot/cold repair may copy from one store to the other (files missing there; never a replacement). -/
def hotcoldCopies : List Op := [.write .config, .write .index, .write .key, .write .snapshot, .write .pack]

/-- `run hotCold appendOnly cmd` on an existing repository (`hotCold`: it has a hot part; the operations of both
stores are merged). -/
def run (hotCold appendOnly : Bool) : Cmd → Outcome
  -- the same row for every source kind: the source decides what is read, never where (or whether) it is written
  | .backup _ dry => .runs (if dry then [] else dataWrites ++ [.write .snapshot])
  | .deleteSnapshots => if appendOnly then .refused .repository else .runs [.remove .snapshot]
  | .saveSnapshots => .runs [.write .snapshot]
  | .prunePlan => .runs []
  | .prune => if appendOnly then .refused .appendOnly
      else .runs (dataWrites ++ [.remove .index, .remove .pack])
  | .repairIndex dry => if appendOnly then .refused .appendOnly
      else .runs (if dry then [] else [.write .index, .remove .index])
  | .repairSnapshots delete dry => if delete && appendOnly then .refused .appendOnly
      else .runs (if dry then [] else dataWrites ++ [.write .snapshot] ++ (if delete then [.remove .snapshot] else []))
  | .rewriteSnapshots forget dry => if forget && appendOnly then .refused .appendOnly
      else .runs (if dry then [] else [.write .snapshot] ++ (if forget then [.remove .snapshot] else []))
  | .rewriteTrees forget dry => if forget && appendOnly then .refused .appendOnly
      else .runs (if dry then [] else dataWrites ++ [.write .snapshot] ++ (if forget then [.remove .snapshot] else []))
  | .applyConfig c =>
    match c with
    | .rejected sao why =>
      -- the guard comes first (`opts.set_append_only != Some(false)`), then `opts.apply(&mut clone)?`
      if appendOnly && sao != some false then .refused .appendOnly else .refused (.validation why)
    | c => if appendOnly && c != .setAppendOnly false then .refused .appendOnly else .runs [.write .config]
  | .addKey => .runs [.write .key]
  | .deleteKey => .runs [.remove .key]
  | .copyInto => .runs (dataWrites ++ [.write .snapshot])
  | .mergeSnapshots => .runs (dataWrites ++ [.write .snapshot])
  | .repairHotcold dry => if !hotCold then .refused .repository      -- no hot part
      else .runs (if dry then [] else hotcoldCopies)
  | .prepareRestore _ => .runs []
  | .init => .refused .configuration              -- a config file exists
  | .initWithConfig _ => .runs [.write .key, .write .config]
  | .initHot => .runs (if hotCold then [.write .config] else [])
  | .readOnly => .runs []

def Cmd.isDryRun : Cmd → Bool
  | .backup _ d => d
  | .repairIndex d => d
  | .repairSnapshots _ d => d
  | .rewriteSnapshots _ d => d
  | .rewriteTrees _ d => d
  | .repairHotcold d => d
  | .prepareRestore d => d
  | _ => false

/-! ### the table's rows and the public API of `Repository` -/

/-- the public `Repository` methods a row stands for. -/
def Cmd.methods : Cmd → List String
  | .backup _ _ => ["backup", "archive"]
  | .deleteSnapshots => ["delete_snapshots"]
  | .saveSnapshots => ["save_snapshots"]
  | .prunePlan => ["prune_plan"]
  | .prune => ["prune"]
  | .repairIndex _ => ["repair_index"]
  | .repairSnapshots _ _ => ["repair_snapshots"]
  | .rewriteSnapshots _ _ => ["rewrite_snapshots"]
  | .rewriteTrees _ _ => ["rewrite_snapshots_and_trees"]
  | .applyConfig _ => ["apply_config"]
  | .addKey => ["add_key"]
  | .deleteKey => ["delete_key"]
  | .copyInto => ["copy"]
  | .mergeSnapshots => ["merge_snapshots", "merge_trees"]
  | .repairHotcold _ => ["repair_hotcold_except_packs", "repair_hotcold_packs"]
  | .prepareRestore _ => ["prepare_restore"]
  | .init => ["init"]
  | .initWithConfig _ => ["init_with_config"]
  | .initHot => ["init_hot"]
  | .readOnly =>
    -- REVIEWED list: constructors / state transitions (read config, keys, index), accessors, listing and reading
    -- methods, progress helpers, `restore` (writes the local destination, never the repository), `warm_up`
    -- (backend warm-up requests).  None of them calls `write_bytes` / `remove` on the repository.
    ["new", "new_with_progress", "open", "open_only_cold", "to_indexed", "to_indexed_checked", "to_indexed_ids",
     "to_indexed_ids_checked", "drop_index", "drop_data_from_index",
     "config", "config_id", "key", "key_id", "progress_bytes", "progress_counter", "progress_hidden", "progress_spinner",
     "list", "find_ids", "infos_files", "infos_index", "warm_up", "cat_file", "cat_blob", "cat_tree", "get_file",
     "stream_files", "stream_files_list", "get_snapshot_from_str", "get_snapshots_from_strs", "get_snapshots",
     "get_all_snapshots", "get_matching_snapshots", "update_snapshots", "update_all_snapshots",
     "update_matching_snapshots", "relevant_copy_snapshots", "check", "check_with_trees", "get_index_entry",
     "open_file", "read_file_at", "get_tree", "get_blob_cached", "node_from_path", "find_nodes_from_path",
     "find_matching_nodes", "node_from_snapshot_path", "node_from_snapshot_and_path", "ls", "dump", "restore"]

/-- one representative per row (the flags do not change `methods`). -/
def allCmds : List Cmd :=
  [.backup .readSource false, .deleteSnapshots, .saveSnapshots, .prunePlan, .prune, .repairIndex false, .repairSnapshots false false,
   .rewriteSnapshots false false, .rewriteTrees false false, .applyConfig (.other false), .addKey, .deleteKey, .copyInto,
   .mergeSnapshots, .repairHotcold false, .prepareRestore false, .init, .initWithConfig false, .initHot, .readOnly]

def tableMethods : List String := allCmds.flatMap Cmd.methods

/-- where a row's dry-run flag comes from: a `dry_run: bool` parameter of the method, or a `pub dry_run` option field. -/
inductive DrySource where
  | param
  | field (site : String)
  deriving Repr, DecidableEq

def Cmd.drySource : Cmd → Option DrySource
  | .backup _ _ => some (.field "commands/backup.rs:BackupOptions")
  | .rewriteSnapshots _ _ => some (.field "commands/rewrite.rs:RewriteOptions")
  | .rewriteTrees _ _ => some (.field "commands/rewrite.rs:RewriteOptions")
  | .repairIndex _ => some .param
  | .repairSnapshots _ _ => some .param
  | .repairHotcold _ => some .param
  | .prepareRestore _ => some .param
  | _ => none

def dryParamMethods : List String := (allCmds.filter (fun c => c.drySource == some .param)).flatMap Cmd.methods

def dryFieldSites : List String :=
  allCmds.filterMap (fun c => match c.drySource with | some (.field s) => some s | _ => none)

/-! ### histories: the repository as a set of files, commands as conforming operation lists -/

structure File where
  tpe : FileType
  id : Nat
  deriving Repr, DecidableEq

def File.isProtected (f : File) : Bool :=
  match f.tpe with
  | .snapshot | .index | .pack => true
  | _ => false

inductive ConcreteOp where
  | write (f : File)
  | remove (f : File)
  deriving Repr, DecidableEq

def ConcreteOp.kind : ConcreteOp → Op
  | .write f => .write f.tpe
  | .remove f => .remove f.tpe

structure State where
  appendOnly : Bool
  files : List File
  hotCold : Bool := false
  deriving Repr

def applyOp (files : List File) : ConcreteOp → List File
  | .write f => if files.contains f then files else f :: files     -- content-addressed: same id = same bytes
  | .remove f => files.filter (· != f)

/-- an executed command: the command and the concrete operations the backend saw. -/
structure Exec where
  cmd : Cmd
  ops : List ConcreteOp
  deriving Repr

/-- the execution is one the table allows in state `s`. -/
def conforms (s : State) (e : Exec) : Bool :=
  match run s.hotCold s.appendOnly e.cmd with
  | .refused _ => e.ops.isEmpty
  | .runs allowed => e.ops.all (fun o => allowed.contains o.kind)

/-- `appendOnly` is the flag the guards of the issuing handle read (its in-memory config).  A refused command — in
particular a refused or rejected `apply_config` — leaves it as it was (`Rustic.Config.applyConfigH`: the options are
applied to a clone; `Props/C15.handle_flag_is_table_flag` ties the two models). -/
def step (s : State) (e : Exec) : State :=
  { appendOnly :=
      (match e.cmd, run s.hotCold s.appendOnly e.cmd with
       | .applyConfig (.setAppendOnly b), .runs _ => b
       | .initWithConfig b, .runs _ => b                    -- the stored config is replaced
       | _, _ => s.appendOnly),
    files := e.ops.foldl applyOp s.files,
    hotCold := s.hotCold }

/-! ### exact expectation for the traffic check's scenarios -/

structure Scen where
  appendOnly : Bool := true
  extraVerifySet : Bool := false
  snapshots : Nat := 2
  hotCold : Bool := false
  damaged : Bool := false          -- every data pack lost before the flag was set: coarse observation
  addedKey : Bool := false
  aoUnset : Bool := false          -- the stored flag is `None` (after `reinit`), not `Some(false)`
  deriving Repr

/-- `(result, shown kinds, next scenario state)`; `none` = unknown command token.  Kinds are shown as the
harness canonicalises them: for commands without dry-run flag pack/index writes are dropped; while the
repository is not append-only `prune*`, `repair_index*` and `repair_snap.delete*` show `*` (state dependent). -/
def expected (s : Scen) (cmd : String) : Option (String × String × Scen) :=
  let on := s.appendOnly
  let refusedAO : Option (String × String × Scen) := some ("err:AppendOnly", "-", s)
  let snapW : String := if s.snapshots > 0 then "w.snapshot" else "-"
  let forgetW : String := if s.snapshots > 0 then "r.snapshot+w.snapshot" else "-"
  match cmd with
  -- every source kind (`Repository::archive` with the harness' source; `Repository::backup` of a local directory;
  -- `Repository::backup` of `-` with a stdin command): the same expectation
  | "backup.new" | "backup.same" | "backup.local.new" | "backup.local.same" | "backup.cmd.new" | "backup.cmd.same" =>
    some ("ok", "w.snapshot", { s with snapshots := s.snapshots + 1 })
  | "backup.dry.new" | "backup.dry.same" | "backup.local.dry.new" | "backup.local.dry.same"
  | "backup.cmd.dry.new" | "backup.cmd.dry.same" => some ("ok", "-", s)
  | "forget" =>
    if on then some ("err:Repository", "-", s)
    else some ("ok", if s.snapshots > 0 then "r.snapshot" else "-", { s with snapshots := s.snapshots - 1 })
  -- prune with every option of `PruneOptions`: the guard is the first statement of `prune_repository`
  | "prune" | "prune.instant" | "prune.all" | "prune.early" | "prune.instant.early" | "prune.instant.all" | "prune.fast"
  | "prune.uncomp" | "prune.cacheable" | "prune.noresize" | "prune.unused0.repackunl" | "prune.keepdel.keeppack"
  | "prune.instant.early.all.unused0" | "prune.instant.ignore" =>
    if on then refusedAO else some ("ok", "*", s)
  | "prune_plan" => some ("ok", "-", s)
  | "repair_index" | "repair_index.dry" | "repair_index.readall" | "repair_index.readall.dry" =>
    if on then refusedAO else some ("ok", "*", s)
  | "repair_snap.delete" | "repair_snap.delete.dry" => if on then refusedAO else some ("ok", "*", s)
  | "repair_snap.keep" | "repair_snap.keep.dry" => some ("ok", "-", s)
  | "rewrite.forget" | "rewtrees.forget" | "rewtrees.forget.excl" => if on then refusedAO else some ("ok", forgetW, s)
  | "rewrite.forget.dry" | "rewtrees.forget.dry" | "rewtrees.forget.excl.dry" => if on then refusedAO else some ("ok", "-", s)
  | "rewrite.keep" | "rewtrees.keep" | "rewtrees.keep.excl" => some ("ok", snapW, { s with snapshots := 2 * s.snapshots })
  | "rewrite.keep.dry" | "rewtrees.keep.dry" | "rewtrees.keep.excl.dry" => some ("ok", "-", s)
  | "merge" => some ("ok", "w.snapshot", { s with snapshots := s.snapshots + 1 })
  | "merge.delete" =>
    -- `merge_snapshots` of the two oldest, then `delete_snapshots` of them (refused on an append-only repository)
    if on then some ("err:Repository", "w.snapshot", { s with snapshots := s.snapshots + 1 })
    else some ("ok", if s.snapshots > 0 then "r.snapshot+w.snapshot" else "w.snapshot",
               { s with snapshots := s.snapshots - min 2 s.snapshots + 1 })
  | "config.tg" => if on then refusedAO else some ("ok", "w.config", s)
  | "config.ev" =>
    if on then refusedAO
    else some ("ok", if s.extraVerifySet then "-" else "w.config", { s with extraVerifySet := true })
  | "config.none" => if on then refusedAO else some ("ok", "-", s)
  | "config.ao1" => if on then refusedAO else some ("ok", "w.config", { s with appendOnly := true, aoUnset := false })
  | "config.ao0" =>
    if on then some ("ok", "w.config", { s with appendOnly := false })
    else if s.aoUnset then some ("ok", "w.config", { s with aoUnset := false })     -- `None` becomes `Some(false)`
    else some ("ok", "-", s)
  | "key.add" => some ("ok", "w.key", { s with addedKey := true })
  | "key.del" => if s.addedKey then some ("ok", "r.key", { s with addedKey := false }) else some ("skip", "-", s)
  | "check" | "restore" | "readonly" | "restore.plan" | "restore.plan.dry" => some ("ok", "-", s)
  | "hotcold" | "hotcold.packs" | "hotcold.dry" | "hotcold.packs.dry" =>
    if s.hotCold then some ("ok", "-", s) else some ("err:Repository", "-", s)
  | "copy" => some ("ok", "w.snapshot", { s with snapshots := s.snapshots + 1 })
  | "init" => some ("err:Configuration", "-", s)
  | "reinit" => some ("ok", "w.config", { s with appendOnly := false, aoUnset := true })
  | "init_hot" => some ("ok", if s.hotCold then "w.config" else "-", s)
  -- `apply_config` with an option value that `ConfigOptions::apply` rejects, alone (`tg`: plus a grow factor) or together
  -- with `set_append_only`: guard first, then the validation error; nothing is written and the state stays as it is
  | "config.ao0.xver" | "config.ao0.xchunk" | "config.ao0.xcomp" => some ("err:Unsupported", "-", s)
  | "config.ao0.xtsize" | "config.ao0.xtlimit" | "config.ao0.xdsize" | "config.ao0.xdlimit" => some ("err:Internal", "-", s)
  | "config.ao0.xminpct" | "config.ao0.xmaxpct" => some ("err:InvalidInput", "-", s)
  | "config.ao1.xver" | "config.ao1.xchunk" | "config.ao1.xcomp" | "config.tg.xver" | "config.tg.xchunk" | "config.tg.xcomp" =>
    if on then refusedAO else some ("err:Unsupported", "-", s)
  | "config.ao1.xtsize" | "config.ao1.xtlimit" | "config.ao1.xdsize" | "config.ao1.xdlimit"
  | "config.tg.xtsize" | "config.tg.xtlimit" | "config.tg.xdsize" | "config.tg.xdlimit" =>
    if on then refusedAO else some ("err:Internal", "-", s)
  | "config.ao1.xminpct" | "config.ao1.xmaxpct" | "config.tg.xminpct" | "config.tg.xmaxpct" =>
    if on then refusedAO else some ("err:InvalidInput", "-", s)
  | _ => none

/-- coarse result on damaged setups (the harness applies the same mapping to the real result): refused by a guard,
or ran (whatever the outcome).  `prune` = `prune_plan` + `prune`: the plan may fail before the guard is reached. -/
def coarseResult (cmd res : String) : String :=
  if res == "err:AppendOnly" || ((cmd == "forget" || cmd == "merge.delete") && res == "err:Repository") ||
     (cmd.startsWith "prune" && cmd != "prune_plan" && res.startsWith "err:") then "refused" else "ran"

def dropKind (drop kinds : String) : String :=
  let ks := (kinds.splitOn "+").filter (fun k => k != drop && k != "-")
  if ks.isEmpty then "-" else "+".intercalate ks

/-- the observation line of one command (exact on intact setups, coarse on damaged ones). -/
def observe (s : Scen) (cmd : String) : Option (String × Scen) :=
  match expected s cmd with
  | none => none
  | some (res, kinds, s') =>
    if s.damaged then
      if !s.appendOnly && !(cmd.startsWith "config" || cmd == "reinit") then some (cmd ++ "=*:*", s')
      else some (cmd ++ "=" ++ coarseResult cmd res ++ ":" ++ dropKind "w.snapshot" kinds, s')
    else some (cmd ++ "=" ++ res ++ ":" ++ kinds, s')

/-- the table row a harness token stands for (ties `expected` to `run` in `Props/C15`). -/
def cmdOfToken (cmd : String) : Option Cmd :=
  match cmd with
  | "backup.new" | "backup.same" => some (.backup .readSource false)
  | "backup.dry.new" | "backup.dry.same" => some (.backup .readSource true)
  | "backup.local.new" | "backup.local.same" => some (.backup .localPaths false)
  | "backup.local.dry.new" | "backup.local.dry.same" => some (.backup .localPaths true)
  | "backup.cmd.new" | "backup.cmd.same" => some (.backup .stdinCommand false)
  | "backup.cmd.dry.new" | "backup.cmd.dry.same" => some (.backup .stdinCommand true)
  | "forget" => some .deleteSnapshots
  | "prune" | "prune.instant" | "prune.all" | "prune.early" | "prune.instant.early" | "prune.instant.all" | "prune.fast"
  | "prune.uncomp" | "prune.cacheable" | "prune.noresize" | "prune.unused0.repackunl" | "prune.keepdel.keeppack"
  | "prune.instant.early.all.unused0" | "prune.instant.ignore" => some .prune
  | "prune_plan" => some .prunePlan
  | "repair_index" | "repair_index.readall" => some (.repairIndex false)
  | "repair_index.dry" | "repair_index.readall.dry" => some (.repairIndex true)
  | "repair_snap.delete" => some (.repairSnapshots true false)
  | "repair_snap.delete.dry" => some (.repairSnapshots true true)
  | "repair_snap.keep" => some (.repairSnapshots false false)
  | "repair_snap.keep.dry" => some (.repairSnapshots false true)
  | "rewrite.forget" => some (.rewriteSnapshots true false)
  | "rewrite.forget.dry" => some (.rewriteSnapshots true true)
  | "rewrite.keep" => some (.rewriteSnapshots false false)
  | "rewrite.keep.dry" => some (.rewriteSnapshots false true)
  | "rewtrees.forget" | "rewtrees.forget.excl" => some (.rewriteTrees true false)
  | "rewtrees.forget.dry" | "rewtrees.forget.excl.dry" => some (.rewriteTrees true true)
  | "rewtrees.keep" | "rewtrees.keep.excl" => some (.rewriteTrees false false)
  | "rewtrees.keep.dry" | "rewtrees.keep.excl.dry" => some (.rewriteTrees false true)
  | "merge" => some .mergeSnapshots
  | "config.tg" => some (.applyConfig (.other true))
  | "config.ev" => some (.applyConfig (.other true))
  | "config.none" => some (.applyConfig (.other false))
  | "config.ao1" => some (.applyConfig (.setAppendOnly true))
  | "config.ao0" => some (.applyConfig (.setAppendOnly false))
  | "config.ao0.xver" | "config.ao0.xchunk" | "config.ao0.xcomp" => some (.applyConfig (.rejected (some false) .unsupported))
  | "config.ao0.xtsize" | "config.ao0.xtlimit" | "config.ao0.xdsize" | "config.ao0.xdlimit" =>
    some (.applyConfig (.rejected (some false) .internal))
  | "config.ao0.xminpct" | "config.ao0.xmaxpct" => some (.applyConfig (.rejected (some false) .invalidInput))
  | "config.ao1.xver" | "config.ao1.xchunk" | "config.ao1.xcomp" => some (.applyConfig (.rejected (some true) .unsupported))
  | "config.ao1.xtsize" | "config.ao1.xtlimit" | "config.ao1.xdsize" | "config.ao1.xdlimit" =>
    some (.applyConfig (.rejected (some true) .internal))
  | "config.ao1.xminpct" | "config.ao1.xmaxpct" => some (.applyConfig (.rejected (some true) .invalidInput))
  | "config.tg.xver" | "config.tg.xchunk" | "config.tg.xcomp" => some (.applyConfig (.rejected none .unsupported))
  | "config.tg.xtsize" | "config.tg.xtlimit" | "config.tg.xdsize" | "config.tg.xdlimit" =>
    some (.applyConfig (.rejected none .internal))
  | "config.tg.xminpct" | "config.tg.xmaxpct" => some (.applyConfig (.rejected none .invalidInput))
  | "key.add" => some .addKey
  | "key.del" => some .deleteKey
  | "check" | "restore" | "readonly" => some .readOnly
  | "restore.plan" => some (.prepareRestore false)
  | "restore.plan.dry" => some (.prepareRestore true)
  | "hotcold" | "hotcold.packs" => some (.repairHotcold false)
  | "hotcold.dry" | "hotcold.packs.dry" => some (.repairHotcold true)
  | "copy" => some .copyInto
  | "init" => some .init
  | "reinit" => some (.initWithConfig false)
  | "init_hot" => some .initHot
  | _ => none

/-- `merge.delete` is two library calls: the rows of a token, in order. -/
def cmdsOfToken (cmd : String) : Option (List Cmd) :=
  if cmd == "merge.delete" then some [.mergeSnapshots, .deleteSnapshots] else (cmdOfToken cmd).map ([·])

/-! ### dry-run flags with their non-dry twin (`c15 dryt`) -/

def FileType.token : FileType → String
  | .config => "config" | .index => "index" | .key => "key" | .snapshot => "snapshot" | .pack => "pack"

def Op.token : Op → String
  | .write t => "w." ++ t.token
  | .remove t => "r." ++ t.token

/-- kinds as the harness prints them (the lists below are written in the harness' sorted order). -/
def showKinds (ops : List Op) : String := if ops.isEmpty then "-" else "+".intercalate (ops.map Op.token)

/-- `(damage, dry command) ↦ (result, kinds)` of the NON-dry twin on the same repository, for the scenarios of the
traffic check (what the dry run would have done; `w.pack`/`w.index` dropped for backups).  `none` = not a scenario. -/
def dryTwin (damage cmd : String) : Option (String × List Op) :=
  match damage, cmd with
  | "none", "backup.dry.new" | "none", "backup.dry.same" | "hc", "backup.dry.new" | "hc", "backup.dry.same"
  | "dmg", "backup.dry.same" => some ("ok", [.write .snapshot])
  -- the other source kinds, through `Repository::backup`
  | "none", "backup.cmd.dry.new" | "none", "backup.cmd.dry.same" | "hc", "backup.cmd.dry.new" | "hc", "backup.cmd.dry.same"
  | "dmg", "backup.cmd.dry.new" | "hcdmg", "backup.cmd.dry.same"
  | "none", "backup.local.dry.new" | "none", "backup.local.dry.same" | "hc", "backup.local.dry.new"
  | "hc", "backup.local.dry.same" | "dmg", "backup.local.dry.new" => some ("ok", [.write .snapshot])
  | "none", "rewrite.forget.dry" | "hc", "rewrite.forget.dry" => some ("ok", [.remove .snapshot, .write .snapshot])
  | "none", "rewrite.keep.dry" | "hc", "rewrite.keep.dry" => some ("ok", [.write .snapshot])
  -- a tree rewrite with default options clears the device id of every node: new trees even without an exclude
  | "none", "rewtrees.forget.dry" | "none", "rewtrees.forget.excl.dry" | "hc", "rewtrees.forget.excl.dry" =>
    some ("ok", [.remove .snapshot, .write .index, .write .pack, .write .snapshot])
  | "none", "rewtrees.keep.dry" | "none", "rewtrees.keep.excl.dry" | "hc", "rewtrees.keep.excl.dry" =>
    some ("ok", [.write .index, .write .pack, .write .snapshot])
  | "none", "restore.plan.dry" | "hc", "restore.plan.dry" => some ("ok", [])
  | "pack", "repair_index.dry" | "pack", "repair_index.readall.dry" | "index", "repair_index.readall.dry"
  | "hcpack", "repair_index.dry" => some ("ok", [.remove .index, .write .index])
  | "index", "repair_index.dry" | "hcindex", "repair_index.dry" => some ("ok", [.write .index])
  -- more blobs than one index file holds (`big*`: > `Indexer` MAX_COUNT blobs; `bigindex`: every index file lost)
  | "big", "repair_index.readall.dry" => some ("ok", [.remove .index, .write .index])
  | "bigindex", "repair_index.dry" | "hcbigindex", "repair_index.readall.dry" => some ("ok", [.write .index])
  | "dmg", "repair_snap.delete.dry" | "hcdmg", "repair_snap.delete.dry" =>
    some ("ok", [.remove .snapshot, .write .index, .write .pack, .write .snapshot])
  | "dmg", "repair_snap.keep.dry" | "hcdmg", "repair_snap.keep.dry" => some ("ok", [.write .index, .write .pack, .write .snapshot])
  | "hcmiss", "hotcold.dry" => some ("ok", [.write .index, .write .snapshot])
  | "hcmissp", "hotcold.packs.dry" => some ("ok", [.write .pack])
  -- nothing to do (intact repository / the other half of the hot/cold repair) or no hot part
  | "hc", "hotcold.dry" | "hc", "hotcold.packs.dry" | "hcmissp", "hotcold.dry" => some ("ok", [])
  | "none", "repair_index.dry" | "none", "repair_snap.delete.dry" => some ("ok", [])
  | "none", "hotcold.dry" | "none", "hotcold.packs.dry" => some ("err:Repository", [])
  | _, _ => none

def isHotColdDamage (damage : String) : Bool :=
  damage == "hc" || damage == "hcdmg" || damage == "hcmiss" || damage == "hcmissp" || damage == "hcpack" ||
  damage == "hcindex" || damage == "hcbig" || damage == "hcbigindex"

/-- the row of a dry token with the dry-run flag cleared (the twin the harness runs). -/
def Cmd.nonDry : Cmd → Cmd
  | .backup s _ => .backup s false
  | .repairIndex _ => .repairIndex false
  | .repairSnapshots d _ => .repairSnapshots d false
  | .rewriteSnapshots f _ => .rewriteSnapshots f false
  | .rewriteTrees f _ => .rewriteTrees f false
  | .repairHotcold _ => .repairHotcold false
  | .prepareRestore _ => .prepareRestore false
  | c => c

/-- the `c15 dryt` scenarios the generator emits (`harness/src/c15.rs` `DRY_TWINS`). -/
def dryTwinCases : List (String × String) :=
  [("big", "repair_index.readall.dry"), ("bigindex", "repair_index.dry"), ("hcbigindex", "repair_index.readall.dry"),
   ("none", "backup.dry.new"), ("none", "backup.dry.same"), ("none", "rewrite.forget.dry"), ("none", "rewrite.keep.dry"),
   ("none", "rewtrees.forget.dry"), ("none", "rewtrees.keep.dry"), ("none", "rewtrees.forget.excl.dry"),
   ("none", "rewtrees.keep.excl.dry"), ("none", "restore.plan.dry"),
   ("pack", "repair_index.dry"), ("pack", "repair_index.readall.dry"), ("index", "repair_index.dry"),
   ("index", "repair_index.readall.dry"),
   ("dmg", "repair_snap.delete.dry"), ("dmg", "repair_snap.keep.dry"), ("dmg", "backup.dry.same"),
   ("hc", "backup.dry.new"), ("hc", "backup.dry.same"), ("hc", "rewrite.forget.dry"), ("hc", "rewrite.keep.dry"),
   ("hc", "rewtrees.forget.excl.dry"), ("hc", "rewtrees.keep.excl.dry"), ("hc", "hotcold.dry"), ("hc", "hotcold.packs.dry"),
   ("hc", "restore.plan.dry"),
   ("hcdmg", "repair_snap.delete.dry"), ("hcdmg", "repair_snap.keep.dry"),
   ("hcpack", "repair_index.dry"), ("hcindex", "repair_index.dry"),
   ("hcmiss", "hotcold.dry"), ("hcmissp", "hotcold.packs.dry"), ("hcmissp", "hotcold.dry"),
   ("none", "hotcold.dry"), ("none", "hotcold.packs.dry"), ("none", "repair_index.dry"), ("none", "repair_snap.delete.dry"),
   ("none", "backup.cmd.dry.new"), ("none", "backup.cmd.dry.same"), ("hc", "backup.cmd.dry.new"), ("hc", "backup.cmd.dry.same"),
   ("dmg", "backup.cmd.dry.new"), ("hcdmg", "backup.cmd.dry.same"),
   ("none", "backup.local.dry.new"), ("none", "backup.local.dry.same"), ("hc", "backup.local.dry.new"),
   ("hc", "backup.local.dry.same"), ("dmg", "backup.local.dry.new")]

end Rustic.CommandTable
