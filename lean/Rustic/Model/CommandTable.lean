/-
Command table: which public repository operation of rustic_core may issue which storage operation
(write / removal, by file type), and which operations are refused on an append-only repository or are
silenced by their dry-run flag.  Each row is read off the source:

  repository.rs      `delete_snapshots` (guard, ErrorKind::Repository), `save_snapshots`, `delete_key`, `add_key`,
                     `apply_config` (commands/config.rs guard), `init_hot`, `warm_up`, read-only methods
  commands/backup.rs `backup` (`DryRunBackend::new(dbe, opts.dry_run)`), archiver (packs, index, snapshot)
  commands/prune.rs  `prune_repository` (guard first; then packs/index written, index/packs removed),
                     `PrunePlan::from_prune_options` (reads only)
  commands/repair/index.rs      `repair_index` (guard first; `dry_run` skips save/remove)
  commands/repair/snapshots.rs  `repair_snapshots` (guard iff `opts.delete`; `dry_run` → TreeModifier/ saves skipped)
  commands/rewrite.rs           `rewrite_snapshots[_and_trees]` (guard iff `opts.forget`; `opts.dry_run`)
  commands/repair/hotcold.rs    copies only (and refuses on a repository without hot part)
  commands/copy.rs, merge.rs    write packs / index / snapshots into the (destination) repository
  blob/tree/modify.rs           `TreeModifier` `dry_run`: `save_tree`/`finalize` write nothing
  backend/dry_run.rs            `DryRunBackend`: `write_bytes`/`remove` are no-ops when `dry_run`

`allowed` is the over-approximation the theorems speak about; `expected` is the exact observation the
traffic check (`harness/src/c15.rs`) compares with, for its fixed scenario (two snapshots, intact
repository), tracking the append-only flag, the extra-verify flag and the number of snapshots.
Import-free.
-/
namespace Rustic.CommandTable

inductive FileType where
  | config | index | key | snapshot | pack
  deriving Repr, DecidableEq

inductive Op where
  | write (t : FileType)
  | remove (t : FileType)
  deriving Repr, DecidableEq

/-- the removals the property forbids on an append-only repository. -/
def Op.isProtectedRemoval : Op → Bool
  | .remove .snapshot => true
  | .remove .index => true
  | .remove .pack => true
  | _ => false

inductive ConfigChange where
  | setAppendOnly (b : Bool)
  | other (changes : Bool)      -- any option set without `set_append_only`; `changes` = alters the stored config
  deriving Repr, DecidableEq

/-- public operations (with the flags that matter for storage traffic). -/
inductive Cmd where
  | backup (dryRun : Bool)
  | deleteSnapshots
  | saveSnapshots
  | prunePlan
  | prune
  | repairIndex (dryRun : Bool)
  | repairSnapshots (delete dryRun : Bool)
  | rewriteSnapshots (forget dryRun : Bool)
  | rewriteTrees (forget dryRun : Bool)
  | applyConfig (c : ConfigChange)
  | addKey
  | deleteKey
  | copyInto
  | mergeSnapshots
  | repairHotcold (dryRun : Bool)
  | readOnly                    -- check, restore, ls, dump, cat, get_snapshots, warm_up, prepare_restore …
  deriving Repr, DecidableEq

inductive ErrKind where
  | appendOnly
  | repository
  deriving Repr, DecidableEq

inductive Outcome where
  | refused (e : ErrKind)           -- returned before any storage operation
  | runs (ops : List Op)            -- the kinds of storage operations the command may issue
  deriving Repr, DecidableEq

def dataWrites : List Op := [.write .pack, .write .index]

/-- `run appendOnly cmd` on a plain (not hot/cold) repository. -/
def run (appendOnly : Bool) : Cmd → Outcome
  | .backup dry => .runs (if dry then [] else dataWrites ++ [.write .snapshot])
  | .deleteSnapshots => if appendOnly then .refused .repository else .runs [.remove .snapshot]
  | .saveSnapshots => .runs [.write .snapshot]
  | .prunePlan => .runs []
  | .prune => if appendOnly then .refused .appendOnly
      else .runs (dataWrites ++ [.remove .index, .remove .pack])
  | .repairIndex dry => if appendOnly then .refused .appendOnly
      else .runs (if dry then [] else [.write .index, .remove .index])
  | .repairSnapshots delete dry => if delete && appendOnly then .refused .appendOnly
      else .runs (if dry then [] else dataWrites ++ [.write .snapshot] ++ (if delete then [.remove .snapshot] else []))
  | .rewriteSnapshots forget dry => if forget && appendOnly then .refused .appendOnly
      else .runs (if dry then [] else [.write .snapshot] ++ (if forget then [.remove .snapshot] else []))
  | .rewriteTrees forget dry => if forget && appendOnly then .refused .appendOnly
      else .runs (if dry then [] else dataWrites ++ [.write .snapshot] ++ (if forget then [.remove .snapshot] else []))
  | .applyConfig c =>
    if appendOnly && c != .setAppendOnly false then .refused .appendOnly else .runs [.write .config]
  | .addKey => .runs [.write .key]
  | .deleteKey => .runs [.remove .key]
  | .copyInto => .runs (dataWrites ++ [.write .snapshot])
  | .mergeSnapshots => .runs (dataWrites ++ [.write .snapshot])
  | .repairHotcold _ => .refused .repository      -- no hot part
  | .readOnly => .runs []

def Cmd.isDryRun : Cmd → Bool
  | .backup d => d
  | .repairIndex d => d
  | .repairSnapshots _ d => d
  | .rewriteSnapshots _ d => d
  | .rewriteTrees _ d => d
  | .repairHotcold d => d
  | _ => false

/-! ### histories: the repository as a set of files, commands as conforming operation lists -/

structure File where
  tpe : FileType
  id : Nat
  deriving Repr, DecidableEq

def File.isProtected (f : File) : Bool :=
  match f.tpe with
  | .snapshot | .index | .pack => true
  | _ => false

inductive ConcreteOp where
  | write (f : File)
  | remove (f : File)
  deriving Repr, DecidableEq

def ConcreteOp.kind : ConcreteOp → Op
  | .write f => .write f.tpe
  | .remove f => .remove f.tpe

structure State where
  appendOnly : Bool
  files : List File
  deriving Repr

def applyOp (files : List File) : ConcreteOp → List File
  | .write f => if files.contains f then files else f :: files     -- content-addressed: same id = same bytes
  | .remove f => files.filter (· != f)

/-- an executed command: the command and the concrete operations the backend saw. -/
structure Exec where
  cmd : Cmd
  ops : List ConcreteOp
  deriving Repr

/-- the execution is one the table allows in state `s`. -/
def conforms (s : State) (e : Exec) : Bool :=
  match run s.appendOnly e.cmd with
  | .refused _ => e.ops.isEmpty
  | .runs allowed => e.ops.all (fun o => allowed.contains o.kind)

def step (s : State) (e : Exec) : State :=
  { appendOnly :=
      (match e.cmd, run s.appendOnly e.cmd with
       | .applyConfig (.setAppendOnly b), .runs _ => b
       | _, _ => s.appendOnly),
    files := e.ops.foldl applyOp s.files }

/-! ### exact expectation for the traffic check's scenario -/

structure Scen where
  appendOnly : Bool := true
  extraVerifySet : Bool := false
  snapshots : Nat := 2
  deriving Repr

/-- `(result, shown kinds, next scenario state)`; `none` = unknown command token.  Kinds are shown as the
harness canonicalises them: for commands without dry-run flag pack/index writes are dropped; while the
repository is not append-only only `forget` and `config.*` show their kinds (`*` otherwise). -/
def expected (s : Scen) (cmd : String) : Option (String × String × Scen) :=
  let on := s.appendOnly
  let star (k : String) : String := if on then k else "*"
  let refusedAO : Option (String × String × Scen) := some ("err:AppendOnly", "-", s)
  let snapW : String := if s.snapshots > 0 then "w.snapshot" else "-"
  match cmd with
  | "backup.new" | "backup.same" => some ("ok", star "w.snapshot", { s with snapshots := s.snapshots + 1 })
  | "backup.dry.new" | "backup.dry.same" => some ("ok", star "-", s)
  | "forget" =>
    if on then some ("err:Repository", "-", s)
    else some ("ok", if s.snapshots > 0 then "r.snapshot" else "-", { s with snapshots := s.snapshots - 1 })
  | "prune" | "prune.instant" | "prune.all" => if on then refusedAO else some ("ok", "*", s)
  | "prune_plan" => some ("ok", star "-", s)
  | "repair_index" | "repair_index.dry" | "repair_index.readall" | "repair_index.readall.dry" =>
    if on then refusedAO else some ("ok", "*", s)
  | "repair_snap.delete" | "repair_snap.delete.dry" => if on then refusedAO else some ("ok", "*", s)
  | "repair_snap.keep" | "repair_snap.keep.dry" => some ("ok", star "-", s)
  | "rewrite.forget" | "rewtrees.forget" => if on then refusedAO else some ("ok", "*", s)
  | "rewrite.forget.dry" | "rewtrees.forget.dry" => if on then refusedAO else some ("ok", "*", s)
  | "rewrite.keep" | "rewtrees.keep" => some ("ok", star snapW, { s with snapshots := 2 * s.snapshots })
  | "rewrite.keep.dry" | "rewtrees.keep.dry" => some ("ok", star "-", s)
  | "config.tg" => if on then refusedAO else some ("ok", "w.config", s)
  | "config.ev" =>
    if on then refusedAO
    else some ("ok", if s.extraVerifySet then "-" else "w.config", { s with extraVerifySet := true })
  | "config.none" => if on then refusedAO else some ("ok", "-", s)
  | "config.ao1" => if on then refusedAO else some ("ok", "w.config", { s with appendOnly := true })
  | "config.ao0" => if on then some ("ok", "w.config", { s with appendOnly := false }) else some ("ok", "-", s)
  | "key.add" => some ("ok", star "w.key", s)
  | "key.del" => some ("ok", star "r.key", s)
  | "check" | "restore" => some ("ok", star "-", s)
  | "hotcold" | "hotcold.packs" | "hotcold.dry" | "hotcold.packs.dry" => some ("err:Repository", star "-", s)
  | "copy" => some ("ok", star "w.snapshot", { s with snapshots := s.snapshots + 1 })
  | _ => none

/-- the table row a harness token stands for (ties `expected` to `run` in `Props/C15`). -/
def cmdOfToken (cmd : String) : Option Cmd :=
  match cmd with
  | "backup.new" | "backup.same" => some (.backup false)
  | "backup.dry.new" | "backup.dry.same" => some (.backup true)
  | "forget" => some .deleteSnapshots
  | "prune" | "prune.instant" | "prune.all" => some .prune
  | "prune_plan" => some .prunePlan
  | "repair_index" | "repair_index.readall" => some (.repairIndex false)
  | "repair_index.dry" | "repair_index.readall.dry" => some (.repairIndex true)
  | "repair_snap.delete" => some (.repairSnapshots true false)
  | "repair_snap.delete.dry" => some (.repairSnapshots true true)
  | "repair_snap.keep" => some (.repairSnapshots false false)
  | "repair_snap.keep.dry" => some (.repairSnapshots false true)
  | "rewrite.forget" => some (.rewriteSnapshots true false)
  | "rewrite.forget.dry" => some (.rewriteSnapshots true true)
  | "rewrite.keep" => some (.rewriteSnapshots false false)
  | "rewrite.keep.dry" => some (.rewriteSnapshots false true)
  | "rewtrees.forget" => some (.rewriteTrees true false)
  | "rewtrees.forget.dry" => some (.rewriteTrees true true)
  | "rewtrees.keep" => some (.rewriteTrees false false)
  | "rewtrees.keep.dry" => some (.rewriteTrees false true)
  | "config.tg" => some (.applyConfig (.other true))
  | "config.ev" => some (.applyConfig (.other true))
  | "config.none" => some (.applyConfig (.other false))
  | "config.ao1" => some (.applyConfig (.setAppendOnly true))
  | "config.ao0" => some (.applyConfig (.setAppendOnly false))
  | "key.add" => some .addKey
  | "key.del" => some .deleteKey
  | "check" | "restore" => some .readOnly
  | "hotcold" | "hotcold.packs" => some (.repairHotcold false)
  | "hotcold.dry" | "hotcold.packs.dry" => some (.repairHotcold true)
  | "copy" => some .copyInto
  | _ => none

end Rustic.CommandTable
