/-
Model M3 — authenticated-ciphertext framing and the codecs built on it (C04):
`crates/core/src/crypto/aespoly1305.rs` (`Key::encrypt_data / decrypt_data`), `crates/core/src/backend/decrypt.rs`
(`encrypt_file / decrypt_file`, `encrypt_data (process_data) / read_encrypted_from_partial`, `hash_write_full`,
`read_encrypted_full`), `crates/core/src/repofile/keyfile.rs` (`key_from_password`, `find_key_in_backend`),
`crates/core/src/commands/key.rs` (`add_key_to_repo`).

Import-free, executable once an `AE` / `Zstd` instance is supplied.  Cryptographic strength is never an axiom:
`AE` carries only the functional facts (CTR keystream is length preserving and invertible, tags have 16 bytes);
unforgeability appears as the *conclusion* `Forgery` of the reduction theorem in Props/C04, key separation as
the explicit hypothesis `KeySeparated`.

Correspondence with the Rust code:
* `AE`                — AES-256-CTR (`enc`/`dec` per key and nonce) + Poly1305-AES (`tag` over the ciphertext).
* `encrypt`           — `encrypt_data`: `nonce ‖ ct ‖ tag` with a caller-supplied 16-byte nonce (the code draws it from `rng()`).
* `decrypt`           — `decrypt_data`: `data.len() < 16` → "too short"; nonce = first 16; the AEAD `decrypt(nonce, rest)`
                        rejects `rest` shorter than the 16-byte tag, compares the tag, then decrypts.
* `encodeFile/decodeFile` — `encrypt_file` (zstd: marker byte 2 ‖ compressed) / `decrypt_file` (`{`/`[` raw, `2` compressed, else Unsupported).
* `encodeBlob/decodeBlob` — `DecryptBackend::encrypt_data` (`uncompressed_length = NonZeroU32::new(len)` only when
                        compressing) / `read_encrypted_from_partial` (decompress iff a length is given, then compare lengths).
* `hashWriteFull/readEncryptedFull` — file id = hash of the stored bytes; the read path does NOT compare the id.
* `KeyEntry`, `tryKey`, `findKey` — `key_from_backend` + the loop of `find_key_in_backend` (MAC failure `C001` → next key,
                        any other error aborts the search, nothing found → `C002`).
* `BlobRepo`, `BlobRepo.store`, `copyOne`, `copyMany`, `runCopy` — two repositories with their own keys: `Packer::add`
                        (`blob/packer.rs`), `commands/copy.rs copy / copy_blobs`, `BlobCopier::copy` (decode with the source key,
                        re-encode with the destination key); `copyOneRaw` = `BlobCopier::copy_fast` (used by prune inside ONE repository).
-/
namespace Rustic.Codec

abbrev Bytes := List UInt8

/-- Functional content of AES-256-CTR + Poly1305-AES. -/
structure AE where
  Key : Type
  enc : Key → Bytes → Bytes → Bytes
  dec : Key → Bytes → Bytes → Bytes
  tag : Key → Bytes → Bytes → Bytes
  enc_len : ∀ k n m, (enc k n m).length = m.length
  dec_enc : ∀ k n m, dec k n (enc k n m) = m
  enc_dec : ∀ k n c, enc k n (dec k n c) = c
  tag_len : ∀ k n c, (tag k n c).length = 16

abbrev NONCE_LEN : Nat := 16
abbrev TAG_LEN : Nat := 16

/-- `Key::encrypt_data` with the nonce made explicit -/
def encrypt (ae : AE) (k : ae.Key) (nonce : Bytes) (m : Bytes) : Bytes :=
  nonce ++ ae.enc k nonce m ++ ae.tag k nonce (ae.enc k nonce m)

inductive DecErr where
  /-- "Data is too short (less than 16 bytes)" -/
  | tooShort
  /-- "MAC check failed" (code C001) — also when no room for a tag is left -/
  | mac
  deriving DecidableEq, Repr

/-- `Key::decrypt_data` -/
def decrypt (ae : AE) (k : ae.Key) (data : Bytes) : Except DecErr Bytes :=
  if data.length < 16 then .error .tooShort
  else if (data.drop 16).length < 16 then .error .mac
  else if ae.tag k (data.take 16) ((data.drop 16).take ((data.drop 16).length - 16))
      = (data.drop 16).drop ((data.drop 16).length - 16)
    then .ok (ae.dec k (data.take 16) ((data.drop 16).take ((data.drop 16).length - 16)))
    else .error .mac

/-- zstd as used by the codecs -/
structure Zstd where
  compress : Bytes → Bytes
  decompress : Bytes → Option Bytes
  round : ∀ x, decompress (compress x) = some x

inductive CodecErr where
  | crypto (e : DecErr)
  /-- "Decryption not supported. The data is not in a supported format." -/
  | unsupported
  /-- zstd decode failed -/
  | zstd
  /-- "Length of uncompressed data does not match the given length" -/
  | length
  deriving DecidableEq, Repr

/-- `encrypt_file` (`zstdOn` = `self.zstd.is_some()`) -/
def encodeFile (ae : AE) (z : Zstd) (zstdOn : Bool) (k : ae.Key) (nonce : Bytes) (data : Bytes) : Bytes :=
  if zstdOn then encrypt ae k nonce (2 :: z.compress data) else encrypt ae k nonce data

/-- `decrypt_file` -/
def decodeFile (ae : AE) (z : Zstd) (k : ae.Key) (stored : Bytes) : Except CodecErr Bytes :=
  match decrypt ae k stored with
  | .error e => .error (.crypto e)
  | .ok d =>
    match d with
    | b :: rest =>
      if b = 123 ∨ b = 91 then .ok d          -- '{' | '['
      else if b = 2 then
        match z.decompress rest with
        | some x => .ok x
        | none => .error .zstd
      else .error .unsupported
    | [] => .error .unsupported

def nonZero (n : Nat) : Option Nat := if n = 0 then none else some n

/-- `DecryptBackend::encrypt_data` = `process_data` without `extra_verify`: (stored bytes, data_len, uncompressed_length) -/
def encodeBlob (ae : AE) (z : Zstd) (zstdOn : Bool) (k : ae.Key) (nonce : Bytes) (data : Bytes) :
    Bytes × Nat × Option Nat :=
  if zstdOn then (encrypt ae k nonce (z.compress data), data.length, nonZero data.length)
  else (encrypt ae k nonce data, data.length, none)

/-- `read_encrypted_from_partial` -/
def decodeBlob (ae : AE) (z : Zstd) (k : ae.Key) (stored : Bytes) (ulen : Option Nat) : Except CodecErr Bytes :=
  match decrypt ae k stored with
  | .error e => .error (.crypto e)
  | .ok d =>
    match ulen with
    | none => .ok d
    | some n =>
      match z.decompress d with
      | none => .error .zstd
      | some x => if x.length ≠ n then .error .length else .ok x

/-! ### stored files: content addressing on write, none on read -/

/-- the store of one file type: id ↦ stored bytes -/
abbrev Store := List (Nat × Bytes)

def Store.get (s : Store) (id : Nat) : Option Bytes := (s.find? (fun e => e.1 == id)).map (·.2)

/-- `hash_write_full`: store under the hash of the STORED bytes -/
def hashWriteFull (ae : AE) (z : Zstd) (hash : Bytes → Nat) (zstdOn : Bool) (k : ae.Key) (nonce : Bytes)
    (s : Store) (data : Bytes) : Nat × Store :=
  let stored := encodeFile ae z zstdOn k nonce data
  (hash stored, (hash stored, stored) :: s)

inductive ReadErr where
  | missing
  | codec (e : CodecErr)
  deriving DecidableEq, Repr

/-- `read_encrypted_full(tpe, id)`: fetch by id, decrypt, decode — the id is not compared with the content. -/
def readEncryptedFull (ae : AE) (z : Zstd) (k : ae.Key) (s : Store) (id : Nat) : Except ReadErr Bytes :=
  match s.get id with
  | none => .error .missing
  | some stored =>
    match decodeFile ae z k stored with
    | .ok d => .ok d
    | .error e => .error (.codec e)

/-- what a read path that verified the id would do (NOT what the code does; used to state what is missing) -/
def readVerified (ae : AE) (z : Zstd) (hash : Bytes → Nat) (k : ae.Key) (s : Store) (id : Nat) : Except ReadErr Bytes :=
  match s.get id with
  | none => .error .missing
  | some stored => if hash stored ≠ id then .error .missing else
    match decodeFile ae z k stored with
    | .ok d => .ok d
    | .error e => .error (.codec e)

/-! ### key files -/

/-- A stored key file as `find_key_in_backend` experiences it: a well-formed one wraps `master` under the key derived
from (`salt`, `pw`); a malformed one (unparsable JSON, bad scrypt parameters, `data` shorter than 16 bytes) fails with an
error that is not `C001`. -/
inductive KeyEntry (Pw MK : Type) where
  | good (salt : Nat) (pw : Pw) (master : MK)
  | malformed

inductive KeyResult (MK : Type) where
  | ok (master : MK)
  /-- "MAC check failed" `C001` -/
  | macFail
  /-- any other error -/
  | otherErr
  /-- `C002`: no suitable key found -/
  | wrongPassword

/-- `key_from_backend(be, id, passwd)` under an ideal KDF + AE: unwrapping succeeds iff the password is the one the file
was generated with (`KeySeparated` in Props/C04 is the hypothesis that justifies the `else` branch). -/
def tryKey {Pw MK : Type} [DecidableEq Pw] (e : KeyEntry Pw MK) (pw : Pw) : KeyResult MK :=
  match e with
  | .good _ p m => if p = pw then .ok m else .macFail
  | .malformed => .otherErr

/-- the loop of `find_key_in_backend` without hint, over the key files in listing order -/
def findKey {Pw MK : Type} [DecidableEq Pw] : List (KeyEntry Pw MK) → Pw → KeyResult MK
  | [], _ => .wrongPassword
  | e :: es, pw =>
    match tryKey e pw with
    | .ok m => .ok m
    | .macFail => findKey es pw
    | _ => .otherErr

/-- key commands on the list of key files (`add_key` writes a new file for the current master key; `remove` deletes one) -/
inductive KeyCmd (Pw : Type) where
  | add (salt : Nat) (pw : Pw)
  | remove (idx : Nat)

def applyKeyCmd {Pw MK : Type} (master : MK) (keys : List (KeyEntry Pw MK)) : KeyCmd Pw → List (KeyEntry Pw MK)
  | .add salt pw => keys ++ [.good salt pw master]
  | .remove i => keys.eraseIdx i

/-! ### two repositories and `copy` (`commands/copy.rs`, `blob/packer.rs BlobCopier::copy`)

Every repository has its OWN master key.  A blob enters a repository's packs either through `Packer::add` (backup, merge,
repair … : `process_data` under the repository's key) or through `copy` from ANOTHER repository: `BlobCopier::copy` reads
the blob with the SOURCE's key (`be_src.read_encrypted_from_partial`) and hands the plaintext to the destination's
`Packer::add` — a fresh encryption under the DESTINATION's key with the destination's compression setting.  (The raw
transfer `BlobCopier::copy_fast` is only used by `prune` inside one repository; `copyOneRaw` models what it would do
between two repositories.) -/

/-- a blob as a pack holds it: the bytes in the pack and the `uncompressed_length` its index entry records -/
structure StoredBlob where
  id : Nat
  bytes : Bytes
  ulen : Option Nat

/-- what C04 needs of a repository: its key, whether it compresses (`config.compression`), the blobs in its packs -/
structure BlobRepo (ae : AE) where
  key : ae.Key
  zstdOn : Bool
  blobs : List StoredBlob

/-- `index.has(id)` -/
def BlobRepo.has {ae : AE} (r : BlobRepo ae) (id : Nat) : Bool := r.blobs.any (fun b => b.id == id)

/-- `index.get_id(id)` -/
def BlobRepo.get {ae : AE} (r : BlobRepo ae) (id : Nat) : Option StoredBlob := r.blobs.find? (fun b => b.id == id)

/-- `Packer::add(data, id)`: skipped when indexed, else `process_data` under the repository's own key -/
def BlobRepo.store (ae : AE) (z : Zstd) (r : BlobRepo ae) (nonce : Bytes) (id : Nat) (data : Bytes) : BlobRepo ae :=
  if r.has id then r else
  { r with blobs := r.blobs ++ [{ id := id, bytes := (encodeBlob ae z r.zstdOn r.key nonce data).1,
                                  ulen := (encodeBlob ae z r.zstdOn r.key nonce data).2.2 }] }

/-- `copy` for one blob id: blobs the destination has are filtered out, ids the source's index does not know are dropped
(`filter_map(index.get_data)`), the others go through `BlobCopier::copy`: decode with the SOURCE key (an error aborts the
command), `Packer::add` in the destination. -/
def copyOne (ae : AE) (z : Zstd) (src dst : BlobRepo ae) (nonce : Bytes) (id : Nat) : Except CodecErr (BlobRepo ae) :=
  if dst.has id then .ok dst else
  match src.get id with
  | none => .ok dst
  | some b =>
    match decodeBlob ae z src.key b.bytes b.ulen with
    | .error e => .error e
    | .ok data => .ok (dst.store ae z nonce id data)

/-- the loop of `copy_blobs` (nonce `c`, `c+1`, … of the stream per transferred blob); at the first error the command stops —
what was packed so far stays in the destination -/
def copyMany (ae : AE) (z : Zstd) (nonce : Nat → Bytes) (src : BlobRepo ae) : BlobRepo ae → Nat → List Nat → BlobRepo ae × Nat
  | dst, c, [] => (dst, c)
  | dst, c, id :: ids =>
    match copyOne ae z src dst (nonce c) id with
    | .error _ => (dst, c + 1)
    | .ok dst' => copyMany ae z nonce src dst' (c + 1) ids

/-- NOT what `copy` does: the stored bytes transferred as they are (`BlobCopier::copy_fast` between two repositories) -/
def copyOneRaw {ae : AE} (src dst : BlobRepo ae) (id : Nat) : BlobRepo ae :=
  if dst.has id then dst else
  match src.get id with
  | none => dst
  | some b => { dst with blobs := dst.blobs ++ [b] }

/-- two repositories `a`, `b` and the stream position of the random nonces -/
structure TwoRepos (ae : AE) where
  a : BlobRepo ae
  b : BlobRepo ae
  ctr : Nat

/-- commands on the pair (`toB`: the repository written to is `b`; `copy` reads from the other one) -/
inductive CopyCmd where
  /-- a command that stores a new blob (`backup`, `merge`, `repair` …) -/
  | add (toB : Bool) (id : Nat) (data : Bytes)
  /-- `copy` of the blobs with these ids from the other repository -/
  | copy (toB : Bool) (ids : List Nat)
  /-- `config --set-compression` -/
  | setCompression (toB : Bool) (on : Bool)

def stepCopy (ae : AE) (z : Zstd) (nonce : Nat → Bytes) (s : TwoRepos ae) : CopyCmd → TwoRepos ae
  | .add false id data => { s with a := s.a.store ae z (nonce s.ctr) id data, ctr := s.ctr + 1 }
  | .add true id data => { s with b := s.b.store ae z (nonce s.ctr) id data, ctr := s.ctr + 1 }
  | .copy false ids => let r := copyMany ae z nonce s.b s.a s.ctr ids; { s with a := r.1, ctr := r.2 }
  | .copy true ids => let r := copyMany ae z nonce s.a s.b s.ctr ids; { s with b := r.1, ctr := r.2 }
  | .setCompression false on => { s with a := { s.a with zstdOn := on } }
  | .setCompression true on => { s with b := { s.b with zstdOn := on } }

def runCopy (ae : AE) (z : Zstd) (nonce : Nat → Bytes) (s : TwoRepos ae) (cmds : List CopyCmd) : TwoRepos ae :=
  cmds.foldl (stepCopy ae z nonce) s

end Rustic.Codec
