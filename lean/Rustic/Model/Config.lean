import Rustic.Gen.Constants
/-
Model of configuration handling and of the size / limit arithmetic that consumes accepted settings.

  crates/core/src/commands/config.rs   `ConfigOptions::apply`  -> `apply`      (line by line, `?` = Except)
                                       `apply_config`          -> `applyConfig` (append-only guard, clone,
                                                                   apply, compare, save); `applyConfigH` = the same
                                                                   with the handle's in-memory copy made explicit,
                                                                   `applyMut` = `apply` on its `&mut` target
  crates/core/src/commands/init.rs     `init` (config part)    -> `initConfig`
  crates/core/src/repofile/configfile.rs  `ConfigFile`, `new`, getters `chunker/chunk_size/chunk_min_size/
        chunk_max_size/packsize/packsize_ok_percents/extra_verify/zstd`, defaults (regenerated constants)
  crates/core/src/chunker/rabin.rs     `check_rabin_params`    -> `checkRabinParams`
  crates/core/src/blob/packer.rs       `PackSizer::{from_config, pack_size}` -> `PackSizer.fromConfig`, `packSize`
  crates/core/src/commands/prune.rs    limit arithmetic at the head of `decide_repack` -> `maxUnusedLimit`,
                                                                   `maxRepackLimit`
Everything models the code AFTER the `fix:` commits of this property; the arithmetic of the code before
the repairs is kept as `…Old` in `Except Fail` (debug-overflow / division panics) for the defect
witnesses.  Integer widths: `u32`/`u64`/`usize` values are `Nat`s below `u32Max+1` / `u64Max+1`.
-/
namespace Rustic.Config
open Rustic.Gen

def u32Max : Nat := 2 ^ 32 - 1
def u64Max : Nat := 2 ^ 64 - 1

inductive ErrKind where
  | unsupported
  | invalidInput
  | internal
  | appendOnly
  deriving Repr, DecidableEq

inductive Fail where
  | err (k : ErrKind)
  | panic (what : String)
  deriving Repr, DecidableEq

inductive Chunker where
  | rabin
  | fixedSize
  deriving Repr, DecidableEq

structure ConfigFile where
  version : Nat
  id : Nat                       -- repository id (opaque)
  chunker : Option Chunker
  poly : Nat                     -- chunker polynomial (opaque)
  chunkSize : Option Nat
  chunkMinSize : Option Nat
  chunkMaxSize : Option Nat
  isHot : Option Bool
  appendOnly : Option Bool
  compression : Option Int
  treepackSize : Option Nat
  treepackGrowfactor : Option Nat
  treepackSizeLimit : Option Nat
  datapackSize : Option Nat
  datapackGrowfactor : Option Nat
  datapackSizeLimit : Option Nat
  minPackPct : Option Nat
  maxPackPct : Option Nat
  extraVerify : Option Bool
  deriving Repr, DecidableEq

/-- `ConfigFile::new(version, id, poly)` -/
def ConfigFile.new (version id poly : Nat) : ConfigFile :=
  { version, id, poly, chunker := none, chunkSize := none, chunkMinSize := none, chunkMaxSize := none,
    isHot := none, appendOnly := none, compression := none, treepackSize := none, treepackGrowfactor := none,
    treepackSizeLimit := none, datapackSize := none, datapackGrowfactor := none, datapackSizeLimit := none,
    minPackPct := none, maxPackPct := none, extraVerify := none }

structure ConfigOptions where
  setVersion : Option Nat := none            -- u32
  setChunker : Option Chunker := none
  setChunkSize : Option Nat := none          -- ByteSize (u64)
  setChunkMinSize : Option Nat := none
  setChunkMaxSize : Option Nat := none
  setCompression : Option Int := none        -- i32
  setAppendOnly : Option Bool := none
  setTreepackSize : Option Nat := none       -- ByteSize (u64) -> u32
  setTreepackSizeLimit : Option Nat := none
  setTreepackGrowfactor : Option Nat := none -- u32
  setDatapackSize : Option Nat := none
  setDatapackGrowfactor : Option Nat := none
  setDatapackSizeLimit : Option Nat := none
  setMinPackPct : Option Nat := none         -- u32
  setMaxPackPct : Option Nat := none
  setExtraVerify : Option Bool := none
  deriving Repr, DecidableEq

/-! ### getters (configfile.rs) -/
def defaultTreeSize : Nat := DEFAULT_TREE_SIZE_MB * CFG_MB
def defaultDataSize : Nat := DEFAULT_DATA_SIZE_MB * CFG_MB
def defaultSizeLimit : Nat := 2 ^ DEFAULT_SIZE_LIMIT_BITS - 1

def ConfigFile.chunkerOrDefault (c : ConfigFile) : Chunker := c.chunker.getD .rabin
def ConfigFile.chunkSizeOrDefault (c : ConfigFile) : Nat := c.chunkSize.getD DEFAULT_CHUNK_SIZE
def ConfigFile.chunkMinSizeOrDefault (c : ConfigFile) : Nat := c.chunkMinSize.getD DEFAULT_CHUNK_MIN_SIZE
def ConfigFile.chunkMaxSizeOrDefault (c : ConfigFile) : Nat := c.chunkMaxSize.getD DEFAULT_CHUNK_MAX_SIZE
def ConfigFile.extraVerifyOrDefault (c : ConfigFile) : Bool := c.extraVerify.getD true

/-- `packsize(blob)`: (default size, grow factor, size limit); `tree = true` for tree packs. -/
def ConfigFile.packsize (c : ConfigFile) (tree : Bool) : Nat × Nat × Nat :=
  if tree then (c.treepackSize.getD defaultTreeSize, c.treepackGrowfactor.getD DEFAULT_GROW_FACTOR,
      c.treepackSizeLimit.getD defaultSizeLimit)
  else (c.datapackSize.getD defaultDataSize, c.datapackGrowfactor.getD DEFAULT_GROW_FACTOR,
      c.datapackSizeLimit.getD defaultSizeLimit)

def ConfigFile.packsizeOkPercents (c : ConfigFile) : Nat × Nat :=
  (c.minPackPct.getD DEFAULT_MIN_PERCENTAGE,
   match c.maxPackPct with
   | none => u32Max
   | some 0 => u32Max
   | some p => p)

/-- `zstd()`: `Ok(None)` = no compression, `Ok(Some l)`, or unsupported version. -/
def ConfigFile.zstd (c : ConfigFile) : Except ErrKind (Option Int) :=
  if c.version = 1 then .ok none
  else if c.version = 2 then
    match c.compression with
    | some 0 => .ok none
    | none => .ok (some 0)
    | some l => .ok (some l)
  else .error .unsupported

/-! ### rabin.rs -/
/-- `check_rabin_params` after `fix: check_rabin_params …` (zero sizes refused). -/
def checkRabinParams (size mn mx : Nat) : Except Fail Unit :=
  if size = 0 ∨ size &&& (size - 1) ≠ 0 then .error (.err .unsupported)
  else if mn = 0 then .error (.err .unsupported)
  else if mn > size then .error (.err .unsupported)
  else if mx < size then .error (.err .unsupported)
  else .ok ()

/-- the code before the repair: `chunk_size - 1` underflows for 0, `chunk_min_size = 0` accepted. -/
def checkRabinParamsOld (size mn mx : Nat) : Except Fail Unit :=
  if size = 0 then .error (.panic "attempt to subtract with overflow")
  else if size &&& (size - 1) ≠ 0 then .error (.err .unsupported)
  else if mn > size then .error (.err .unsupported)
  else if mx < size then .error (.err .unsupported)
  else .ok ()

/-! ### config.rs -/
/-- `zstd::compression_level_range()` of the linked zstd (−131072 ..= 22). -/
def zstdMin : Int := -131072
def zstdMax : Int := 22

/-- `size.as_u64().try_into::<u32>()` -/
def toU32 (n : Nat) : Except Fail Nat := if n ≤ u32Max then .ok n else .error (.err .internal)

/-- `size.as_u64().try_into::<usize>()` (64-bit targets: never fails). -/
def toUsize (n : Nat) : Except Fail Nat := if n ≤ u64Max then .ok n else .error (.err .internal)

/-- `if let Some(v) = opt { *field = Some(v) }`: the new value of the field. -/
def named {α : Type} (opt stored : Option α) : Option α :=
  match opt with
  | some v => some v
  | none => stored

/-- `if let Some(size) = opt { *field = Some(size.as_u64().try_into().map_err(..)?) }`: new value of the field. -/
def namedConv (conv : Nat → Except Fail Nat) (opt stored : Option Nat) : Except Fail (Option Nat) :=
  match opt with
  | none => .ok stored
  | some s =>
    match conv s with
    | .ok v => .ok (some v)
    | .error e => .error e

def applyVersion (o : ConfigOptions) (c : ConfigFile) : Except Fail ConfigFile :=
  match o.setVersion with
  | some v =>
    if ¬ (1 ≤ v ∧ v ≤ 2) then .error (.err .unsupported)
    else if v < c.version then .error (.err .unsupported)
    else .ok { c with version := v }
  | none => .ok c

/-- "validate chunker parameters" (with `fix: … fixed-size chunker …`: zero size refused there too). -/
def validateChunker (c : ConfigFile) : Except Fail ConfigFile :=
  match c.chunkerOrDefault with
  | .rabin =>
    match checkRabinParams c.chunkSizeOrDefault c.chunkMinSizeOrDefault c.chunkMaxSizeOrDefault with
    | .ok () => .ok c
    | .error e => .error e
  | .fixedSize => if c.chunkSizeOrDefault = 0 then .error (.err .unsupported) else .ok c

def applyChunker (o : ConfigOptions) (c : ConfigFile) : Except Fail ConfigFile := do
  let c := { c with chunker := named o.setChunker c.chunker }
  let cs ← namedConv toUsize o.setChunkSize c.chunkSize
  let c := { c with chunkSize := cs }
  let cmin ← namedConv toUsize o.setChunkMinSize c.chunkMinSize
  let c := { c with chunkMinSize := cmin }
  let cmax ← namedConv toUsize o.setChunkMaxSize c.chunkMaxSize
  let c := { c with chunkMaxSize := cmax }
  validateChunker c

def applyCompression (o : ConfigOptions) (c : ConfigFile) : Except Fail ConfigFile :=
  match o.setCompression with
  | some l =>
    if c.version = 1 ∧ l ≠ 0 then .error (.err .unsupported)
    else if ¬ (zstdMin ≤ l ∧ l ≤ zstdMax) then .error (.err .unsupported)
    else .ok { c with compression := some l }
  | none => .ok c

def applyPackSizes (o : ConfigOptions) (c : ConfigFile) : Except Fail ConfigFile := do
  let c := { c with appendOnly := named o.setAppendOnly c.appendOnly }
  let ts ← namedConv toU32 o.setTreepackSize c.treepackSize
  let c := { c with treepackSize := ts, treepackGrowfactor := named o.setTreepackGrowfactor c.treepackGrowfactor }
  let tl ← namedConv toU32 o.setTreepackSizeLimit c.treepackSizeLimit
  let c := { c with treepackSizeLimit := tl }
  let ds ← namedConv toU32 o.setDatapackSize c.datapackSize
  let c := { c with datapackSize := ds, datapackGrowfactor := named o.setDatapackGrowfactor c.datapackGrowfactor }
  let dl ← namedConv toU32 o.setDatapackSizeLimit c.datapackSizeLimit
  pure { c with datapackSizeLimit := dl }

def applyMinPct (o : ConfigOptions) (c : ConfigFile) : Except Fail ConfigFile :=
  match o.setMinPackPct with
  | some p => if p > 100 then .error (.err .invalidInput) else .ok { c with minPackPct := some p }
  | none => .ok c

def applyMaxPct (o : ConfigOptions) (c : ConfigFile) : Except Fail ConfigFile :=
  match o.setMaxPackPct with
  | some p => if p < 100 ∧ p > 0 then .error (.err .invalidInput) else .ok { c with maxPackPct := some p }
  | none => .ok c

/-- after `fix: … extra_verify`: `if let Some(v) = self.set_extra_verify { config.extra_verify = Some(v) }` -/
def applyExtraVerify (o : ConfigOptions) (c : ConfigFile) : ConfigFile :=
  { c with extraVerify := named o.setExtraVerify c.extraVerify }

/-- the code before the repair: `config.extra_verify = self.set_extra_verify;` -/
def applyExtraVerifyOld (o : ConfigOptions) (c : ConfigFile) : ConfigFile :=
  { c with extraVerify := o.setExtraVerify }

/-- `ConfigOptions::apply` (the `&mut config` is the returned value; on `Err` the caller's clone is dropped). -/
def apply (o : ConfigOptions) (c : ConfigFile) : Except Fail ConfigFile := do
  let c ← applyVersion o c
  let c ← applyChunker o c
  let c ← applyCompression o c
  let c ← applyPackSizes o c
  let c ← applyMinPct o c
  let c ← applyMaxPct o c
  pure (applyExtraVerify o c)

/-- Stored repository configuration + number of config-file writes issued. -/
structure Store where
  config : ConfigFile
  writes : Nat
  deriving Repr, DecidableEq

/-- `apply_config`: `Ok(changed)` / `Err`, and the store afterwards. -/
def applyConfig (st : Store) (o : ConfigOptions) : Store × Except Fail Bool :=
  if st.config.appendOnly = some true ∧ o.setAppendOnly ≠ some false then (st, .error (.err .appendOnly))
  else
    match apply o st.config with
    | .error e => (st, .error e)
    | .ok c' => if c' = st.config then (st, .ok false) else ({ config := c', writes := st.writes + 1 }, .ok true)

/-- the config part of `init`: version 2, options applied before anything is written. -/
def initConfig (id poly : Nat) (o : ConfigOptions) : Except Fail Store :=
  match apply o (ConfigFile.new 2 id poly) with
  | .error e => .error e
  | .ok c => .ok { config := c, writes := 1 }

/-! ### the open handle's in-memory copy (`repo.config()`, `OpenStatus.config`)

Every append-only guard of the library reads the IN-MEMORY config of the handle it is called on.  `apply` above
returns the config only on success; the Rust `apply(&self, config: &mut ConfigFile)` assigns field after field and
returns early on the first failing validation, so the `&mut` target is left PARTLY changed on `Err`.  `applySteps`
lists the assignments / validations in source order (each fails without assigning, or assigns one field),
`applyMut` is the target as `apply` leaves it.  `apply_config` therefore works on a clone (`applyConfigH`). -/

/-- the assignments and validations of `ConfigOptions::apply` in source order. -/
def applySteps (o : ConfigOptions) : List (ConfigFile → Except Fail ConfigFile) :=
  [applyVersion o,
   fun c => .ok { c with chunker := named o.setChunker c.chunker },
   fun c => (namedConv toUsize o.setChunkSize c.chunkSize).map (fun v => { c with chunkSize := v }),
   fun c => (namedConv toUsize o.setChunkMinSize c.chunkMinSize).map (fun v => { c with chunkMinSize := v }),
   fun c => (namedConv toUsize o.setChunkMaxSize c.chunkMaxSize).map (fun v => { c with chunkMaxSize := v }),
   validateChunker,
   applyCompression o,
   fun c => .ok { c with appendOnly := named o.setAppendOnly c.appendOnly },
   fun c => (namedConv toU32 o.setTreepackSize c.treepackSize).map (fun v => { c with treepackSize := v }),
   fun c => .ok { c with treepackGrowfactor := named o.setTreepackGrowfactor c.treepackGrowfactor },
   fun c => (namedConv toU32 o.setTreepackSizeLimit c.treepackSizeLimit).map (fun v => { c with treepackSizeLimit := v }),
   fun c => (namedConv toU32 o.setDatapackSize c.datapackSize).map (fun v => { c with datapackSize := v }),
   fun c => .ok { c with datapackGrowfactor := named o.setDatapackGrowfactor c.datapackGrowfactor },
   fun c => (namedConv toU32 o.setDatapackSizeLimit c.datapackSizeLimit).map (fun v => { c with datapackSizeLimit := v }),
   applyMinPct o,
   applyMaxPct o,
   fun c => .ok (applyExtraVerify o c)]

/-- run the steps on a `&mut` target: the target when the function returns, and the error it returned (if any). -/
def runMut : List (ConfigFile → Except Fail ConfigFile) → ConfigFile → ConfigFile × Option Fail
  | [], c => (c, none)
  | f :: fs, c =>
    match f c with
    | .ok c' => runMut fs c'
    | .error e => (c, some e)

/-- `opts.apply(&mut config)`: `config` afterwards (partly assigned on `Err`) and the error. -/
def applyMut (o : ConfigOptions) (c : ConfigFile) : ConfigFile × Option Fail := runMut (applySteps o) c

/-- `apply_config` on an open handle whose in-memory config is `mem`, over the stored config `st`:
`(in-memory config afterwards, store afterwards, result)`.  The guard reads the in-memory config; the options are
applied to `let mut new_config = repo.config().clone()`; only when everything validated and something changed is the
clone installed (`repo.set_config`) and saved. -/
def applyConfigH (mem : ConfigFile) (st : Store) (o : ConfigOptions) : ConfigFile × Store × Except Fail Bool :=
  if mem.appendOnly = some true ∧ o.setAppendOnly ≠ some false then (mem, st, .error (.err .appendOnly))
  else
    match applyMut o mem with
    | (_, some e) => (mem, st, .error e)                       -- the partly assigned clone is dropped
    | (c', none) =>
      if c' = mem then (mem, st, .ok false)
      else (c', { config := c', writes := st.writes + 1 }, .ok true)

/-! ### packer.rs `PackSizer` -/
structure PackSizer where
  defaultSize : Nat      -- u32
  growFactor : Nat       -- u32
  sizeLimit : Nat        -- u32
  currentSize : Nat      -- u64
  minPct : Nat
  maxPct : Nat
  deriving Repr, DecidableEq

def PackSizer.fromConfig (c : ConfigFile) (tree : Bool) (currentSize : Nat) : PackSizer :=
  let (d, g, l) := c.packsize tree
  let (mn, mx) := c.packsizeOkPercents
  { defaultSize := d, growFactor := g, sizeLimit := l, currentSize, minPct := mn, maxPct := mx }

def packMaxSize : Nat := PACK_MAX_SIZE_MB * CFG_MB

/-- Newton iteration of `integer_sqrt` (floor square root), started at `n`; strictly decreasing until the
fixed point, at most ~70 steps for a u64. -/
def isqrtGo (n : Nat) : Nat → Nat → Nat
  | 0, x => x
  | fuel + 1, x =>
    let y := (x + n / x) / 2
    if y < x then isqrtGo n fuel y else x

/-- `u64::integer_sqrt` (exact for every u64; validated against the real function by the `packsize` channel). -/
def isqrt (n : Nat) : Nat := if n ≤ 1 then n else isqrtGo n 200 n

/-- `pack_size` after `fix: PackSizer::pack_size …`: saturating u32 arithmetic. -/
def PackSizer.packSize (p : PackSizer) : Nat :=
  let size := if p.growFactor = 0 then p.defaultSize
    else min u32Max (min u32Max (isqrt p.currentSize * p.growFactor) + p.defaultSize)
  min (min size p.sizeLimit) packMaxSize

/-- the code before the repair: checked u32 `*` and `+` (debug-overflow panics). -/
def PackSizer.packSizeOld (p : PackSizer) : Except Fail Nat :=
  if p.growFactor = 0 then .ok (min (min p.defaultSize p.sizeLimit) packMaxSize)
  else
    let m := isqrt p.currentSize * p.growFactor
    if m > u32Max then .error (.panic "attempt to multiply with overflow")
    else if m + p.defaultSize > u32Max then .error (.panic "attempt to add with overflow")
    else .ok (min (min (m + p.defaultSize) p.sizeLimit) packMaxSize)

/-! ### prune.rs limits -/
inductive LimitOption where
  | size (bytes : Nat)
  | percentage (p : Nat)
  | unlimited
  deriving Repr, DecidableEq

/-- `max_unused` after `fix: prune …`: percentages ≥ 100 tolerate everything; the product saturates. -/
def maxUnusedLimit (repackAll : Bool) (l : LimitOption) (used : Nat) : Nat :=
  if repackAll then 0 else
  match l with
  | .unlimited => u64Max
  | .size s => s
  | .percentage p => if p ≥ 100 then u64Max else min u64Max (p * used) / (100 - p)

def maxRepackLimit (l : LimitOption) (total : Nat) : Nat :=
  match l with
  | .unlimited => u64Max
  | .size s => s
  | .percentage p => min u64Max (p * total) / 100

/-- the code before the repair: `(p * used) / (100 - p)` in checked u64 arithmetic. -/
def maxUnusedLimitOld (repackAll : Bool) (l : LimitOption) (used : Nat) : Except Fail Nat :=
  if repackAll then .ok 0 else
  match l with
  | .unlimited => .ok u64Max
  | .size s => .ok s
  | .percentage p =>
    if p * used > u64Max then .error (.panic "attempt to multiply with overflow")
    else if p > 100 then .error (.panic "attempt to subtract with overflow")
    else if p = 100 then .error (.panic "attempt to divide by zero")
    else .ok (p * used / (100 - p))

def maxRepackLimitOld (l : LimitOption) (total : Nat) : Except Fail Nat :=
  match l with
  | .unlimited => .ok u64Max
  | .size s => .ok s
  | .percentage p =>
    if p * total > u64Max then .error (.panic "attempt to multiply with overflow")
    else .ok (p * total / 100)

end Rustic.Config
