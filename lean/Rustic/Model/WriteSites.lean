/-
Model — the storage WRITE SITES of rustic_core (C04 `every_non_key_write_is_encrypted`).

Every call of `WriteBackend::write_bytes` in `crates/core/src` (production code), with the class of its content argument.
The table is tied to the source on every run: `tools/c04_write_sites.py` lists the call sites of the current tree
syntactically (file, enclosing function, file-type argument, where the content comes from) and the harness channel
`c04 sites` compares that listing with `render sites` below — a new, removed or re-routed write is a disagreement.

* `encrypts`       — content is bound to `encrypt_data(..)` / `encrypt_file(..)` in the same function
                      (`DecryptWriteBackend::hash_write_full{,_uncompressed}`; every `save_file` of an encrypted `RepoFile`,
                      every snapshot / index / config write goes through them).
* `plainIfUnencryptedRepoFile` — `save_file`'s `else` branch of `if F::ENCRYPTED`: plaintext JSON, reachable only for
                      `RepoFile`s declaring `ENCRYPTED = false` (`plainFiles`: the key file).
* `keyFile`        — `commands/key.rs add_key_to_repo`, `FileType::Key` literally.
* `packFile`       — `FileWriterHandle::process`: the pack built by `BasicPacker` (blobs from `process_data` = encrypt, or raw
                      blobs copied from stored packs; header through `encrypt_data`; 4 public length bytes) — `pack_file_is_ciphertexts`.
* `copiesStored`   — `repair hotcold`: bytes just read with `read_full` from the cold backend are written to the hot one.
* `forwards`       — wrapper backends (`DecryptBackend`, `CachedBackend` incl. its local cache, `DryRunBackend`,
                      `HotColdBackend`, `WarmUpAccessBackend`, `Arc<dyn WriteBackend>`) hand on the content they were given.
-/
namespace Rustic.WriteSites

inductive FT where
  | config | index | key | snapshot | pack
  deriving DecidableEq, Repr

inductive Class where
  | encrypts
  | plainIfUnencryptedRepoFile
  | keyFile
  | packFile
  | copiesStored
  | forwards
  deriving DecidableEq, Repr

structure Site where
  file : String
  fn : String
  /-- the file-type argument as written in the source -/
  tpe : String
  cls : Class
  /-- how many such calls the function contains -/
  count : Nat := 1
  deriving DecidableEq, Repr

def sites : List Site := [
  ⟨"backend.rs", "write_bytes", "tpe", .forwards, 1⟩,
  ⟨"backend/cache.rs", "read_full", "tpe", .forwards, 1⟩,
  ⟨"backend/cache.rs", "read_partial", "tpe", .forwards, 1⟩,
  ⟨"backend/cache.rs", "write_bytes", "tpe", .forwards, 2⟩,
  ⟨"backend/decrypt.rs", "hash_write_full", "tpe", .encrypts, 1⟩,
  ⟨"backend/decrypt.rs", "hash_write_full_uncompressed", "tpe", .encrypts, 1⟩,
  ⟨"backend/decrypt.rs", "save_file", "F::TYPE", .plainIfUnencryptedRepoFile, 1⟩,
  ⟨"backend/decrypt.rs", "write_bytes", "tpe", .forwards, 1⟩,
  ⟨"backend/dry_run.rs", "write_bytes", "tpe", .forwards, 1⟩,
  ⟨"backend/hotcold.rs", "write_bytes", "tpe", .forwards, 2⟩,
  ⟨"backend/warm_up.rs", "write_bytes", "tpe", .forwards, 1⟩,
  ⟨"blob/packer.rs", "process", "FileType::Pack", .packFile, 1⟩,
  ⟨"commands/key.rs", "add_key_to_repo", "FileType::Key", .keyFile, 1⟩,
  ⟨"commands/repair/hotcold.rs", "copy", "file_type", .copiesStored, 1⟩]

/-- source files with a `RepoFile` implementation declaring `const ENCRYPTED: bool = false`, and the type they store -/
def plainFiles : List (String × FT) := [("repofile/keyfile.rs", .key)]

def allTypes : List FT := [.config, .index, .key, .snapshot, .pack]

/-- the file types a site can be reached with -/
def Site.flows (s : Site) : List FT :=
  match s.cls with
  | .plainIfUnencryptedRepoFile => plainFiles.map (·.2)
  | .keyFile => [.key]
  | .packFile => [.pack]
  | _ => allTypes

/-- the content written at this site is ciphertext produced here (or bytes that are already stored ciphertext) -/
def Class.ciphertext : Class → Bool
  | .encrypts | .packFile | .copiesStored => true
  | _ => false

def classStr : Class → String
  | .encrypts => "encrypts"
  | .plainIfUnencryptedRepoFile => "plain-if-unencrypted-repofile"
  | .keyFile => "keyfile"
  | .packFile => "packfile"
  | .copiesStored => "copies-stored"
  | .forwards => "forwards"

/-- the listing of `tools/c04_write_sites.py`, lines joined by `;` -/
def render : String :=
  ";".intercalate (plainFiles.map (fun p => s!"plainfile {p.1}") ++
    sites.map fun s => s!"site {s.file}:{s.fn} {s.tpe} {classStr s.cls}{if s.count > 1 then s!" x{s.count}" else ""}")

end Rustic.WriteSites
