/-
Model of the calendar arithmetic that `crates/core/src/commands/forget.rs` reads off `jiff::Zoned`
(jiff 0.2.28; jiff itself is in the trusted base and is compared against this file densely at period
boundaries by the `c09 cal` / `c09 add` channels).

  * `civilFromDays` / `daysFromCivil`   proleptic Gregorian calendar <-> days since 1970-01-01
  * `Civil.ofInstant`                   `Zoned::{year,month,day,day_of_year,hour,minute,second}` and
                                        `Zoned::iso_week_date().{year,week,weekday}` of an instant
                                        (nanoseconds since the epoch) in a fixed-offset time zone
  * `addSpan`                           `Zoned::saturating_add(Span)` (zoned.rs `checked_add_span`,
                                        civil/date.rs `checked_add_span`, `month_add_overflowing`,
                                        `Date::new_constrain`): calendar units on the civil date with
                                        day-of-month clamping, then time units on the instant;
                                        saturating at `Timestamp::MIN/MAX` by the sign of the span.
Import-free, executable, total.
-/
namespace Rustic.Calendar

def isLeap (y : Int) : Bool := y % 4 == 0 && (y % 100 != 0 || y % 400 == 0)

def daysInMonth (y : Int) (m : Nat) : Nat :=
  if m == 2 then (if isLeap y then 29 else 28)
  else if m == 4 || m == 6 || m == 9 || m == 11 then 30 else 31

/-- days since 1970-01-01 of the civil date y-m-d (proleptic Gregorian; `m ∈ 1..12`). -/
def daysFromCivil (y : Int) (m d : Nat) : Int :=
  let y := if m ≤ 2 then y - 1 else y
  let era := y / 400
  let yoe := y - era * 400
  let mp : Int := if m > 2 then (m : Int) - 3 else (m : Int) + 9
  let doy := (153 * mp + 2) / 5 + (d : Int) - 1
  let doe := yoe * 365 + yoe / 4 - yoe / 100 + doy
  era * 146097 + doe - 719468

/-- civil date (year, month, day) of a day number since 1970-01-01. -/
def civilFromDays (z : Int) : Int × Nat × Nat :=
  let z := z + 719468
  let era := z / 146097
  let doe := z - era * 146097
  let yoe := (doe - doe / 1460 + doe / 36524 - doe / 146096) / 365
  let y := yoe + era * 400
  let doy := doe - (365 * yoe + yoe / 4 - yoe / 100)
  let mp := (5 * doy + 2) / 153
  let d := doy - (153 * mp + 2) / 5 + 1
  let m := if mp < 10 then mp + 3 else mp - 9
  (if m ≤ 2 then y + 1 else y, m.toNat, d.toNat)

/-- ISO weekday (Monday = 1 … Sunday = 7); 1970-01-01 was a Thursday. -/
def isoWeekday (days : Int) : Nat := ((days + 3) % 7).toNat + 1

/-- The civil fields `forget.rs` reads. -/
structure Civil where
  year : Int
  month : Nat
  day : Nat
  doy : Nat
  hour : Nat
  minute : Nat
  second : Nat
  isoYear : Int
  isoWeek : Nat
  weekday : Nat
  deriving Repr, DecidableEq

def nsPerSec : Int := 1000000000

/-- ISO 8601 week date of a day number: the ISO year is the civil year of that week's Thursday, the week
number counts the Thursdays of that year. -/
def isoWeekOfDays (days : Int) : Int × Nat :=
  let thu := days - ((isoWeekday days : Nat) : Int) + 4
  let iy := (civilFromDays thu).1
  (iy, ((thu - daysFromCivil iy 1 1) / 7).toNat + 1)

/-- The civil fields of a local wall-clock time given as seconds since 1970-01-01T00:00:00 local. -/
def Civil.ofLocalSecs (secs : Int) : Civil :=
  let days := secs / 86400
  let sod := (secs % 86400).toNat
  let (y, m, d) := civilFromDays days
  let (iy, iw) := isoWeekOfDays days
  { year := y, month := m, day := d,
    doy := (days - daysFromCivil y 1 1).toNat + 1,
    hour := sod / 3600, minute := sod % 3600 / 60, second := sod % 60,
    isoYear := iy, isoWeek := iw, weekday := isoWeekday days }

/-- local wall-clock seconds of an instant (ns since the epoch) in a fixed-offset zone -/
def localSecs (tNs : Int) (offSec : Int) : Int := tNs / nsPerSec + offSec

def Civil.ofInstant (tNs : Int) (offSec : Int) : Civil := Civil.ofLocalSecs (localSecs tNs offSec)

/-- `jiff::Span` as far as `forget.rs` can pass one: a sign and non-negative unit counts; all time units
(hours … nanoseconds) are collapsed into nanoseconds. -/
structure Span where
  neg : Bool
  years : Nat
  months : Nat
  weeks : Nat
  days : Nat
  timeNs : Nat
  deriving Repr, DecidableEq

/-- `Timestamp::MIN` = -9999-01-02T01:59:59Z, `Timestamp::MAX` = 9999-12-30T22:00:00.999999999Z (ns). -/
def tsMin : Int := -377705023201 * nsPerSec
def tsMax : Int := 253402207200 * nsPerSec + 999999999

/-- `Zoned::checked_add(span)` in a fixed-offset zone; `none` = jiff reports an out-of-range error. -/
def checkedAddSpan (tNs offSec : Int) (s : Span) : Option Int :=
  let sg : Int := if s.neg then -1 else 1
  let inRange (t : Int) : Option Int := if tsMin ≤ t ∧ t ≤ tsMax then some t else none
  if s.years == 0 && s.months == 0 && s.weeks == 0 && s.days == 0 then
    inRange (tNs + sg * s.timeNs)
  else
    let secs := tNs / nsPerSec + offSec
    let sub := tNs % nsPerSec
    let days := secs / 86400
    let sod := secs % 86400
    let (y, m, d) := civilFromDays days
    -- month_add_overflowing, then years
    let total : Int := (m : Int) - 1 + sg * s.months
    let y' := y + total / 12 + sg * s.years
    let m' := (total % 12).toNat + 1
    if y' < -9999 ∨ y' > 9999 then none else
    let d' := min d (daysInMonth y' m')           -- Date::new_constrain
    let days' := daysFromCivil y' m' d' + sg * (7 * s.weeks) + sg * s.days
    -- civil date range -9999-01-01 ..= 9999-12-31
    if days' < daysFromCivil (-9999) 1 1 ∨ days' > daysFromCivil 9999 12 31 then none else
    match inRange ((days' * 86400 + sod - offSec) * nsPerSec + sub) with
    | none => none
    | some t => inRange (t + sg * s.timeNs)

/-- `Zoned::saturating_add(span)`. -/
def addSpan (tNs offSec : Int) (s : Span) : Int :=
  match checkedAddSpan tNs offSec s with
  | some t => t
  | none => if s.neg then tsMin else tsMax

end Rustic.Calendar
