/-
Model for C01, tree level — a whole source tree goes through the archiver into tree blobs and comes back:

* `STree`, `entries`, `items`     — a source tree as `Archiver::archive` walks it (`ReadSource::entries` in depth-first order:
                                   a directory's entry carries its own path, every other entry the path of its parent —
                                   `archiver.rs`: `snapshot_path.parent()` for non-directories), and the item stream
                                   `TreeIterator` makes of it (`Model/Tree.lean TIter`; `Lemmas/Snapshot.lean tree_iterator_items`
                                   proves that `treeItems (entries src) = items src`).
* `SKind`, `SNode`, `toSNode`, `fromSNode` — `backend/node.rs`: the node as serde sees it.  `Node::new` stores
                                   `escape_filename(name)`; `NodeType::from_link` stores the target as a string when it is
                                   UTF-8, else a lossy string plus `linktarget_raw`; `Node::name()` un-escapes (falling back to the
                                   stored string), `NodeType::to_link` prefers `linktarget_raw`.  Metadata (`Meta`: size, mtime,
                                   ctime, inode, `rest` = mode/uid/gid/…) is stored as it is.
* `Ser`                          — `Tree::serialize` / `Tree::from_slice` (serde_json): trusted, its round trip is a field.
* `save`, `saveL`                — what the tree archiver computes for a directory, as a recursion over the source
                                   (`Lemmas/Snapshot.lean ta_items` proves the stack machine `TA` of `Model/Tree.lean` computes it).
* `restoreTrees`                 — reading a snapshot back: `Tree::from_backend` (`get_tree` → `from_slice`), per node the name, type,
                                   link target and metadata; file content through `content` ids (`RoundTrip.restoreFile`: lookups,
                                   positional writes in any order); sub-directories recursively (`NodeStreamer` / `restore` walk).
                                   Fuel = directory depth.
-/
import Rustic.Model.Tree
import Rustic.Model.RoundTrip
namespace Rustic.Snapshot
open Rustic.Tree Rustic.RoundTrip

/-- a source tree: `leaf` = file (with its bytes), symlink or special file; `dir` = directory with its entries -/
inductive STree where
  | leaf (node : Node) (data : Bytes)
  | dir (node : Node) (children : List STree)

def STree.node : STree → Node
  | .leaf n _ => n
  | .dir n _ => n

mutual
/-- `ReadSource::entries()` in depth-first order below the directory `base` -/
def STree.entries (base : List Name) : STree → List (Entry Bytes)
  | .leaf n d => [⟨base, n, d⟩]
  | .dir n cs => ⟨base ++ [n.name], n, []⟩ :: entriesL (base ++ [n.name]) cs
def entriesL (base : List Name) : List STree → List (Entry Bytes)
  | [] => []
  | t :: ts => t.entries base ++ entriesL base ts
end

mutual
/-- the item stream `TreeIterator` yields for it -/
def STree.items : STree → List (Item Bytes)
  | .leaf n d => [.other n d]
  | .dir n cs => .newTree n n.name :: (itemsL cs ++ [.endTree])
def itemsL : List STree → List (Item Bytes)
  | [] => []
  | t :: ts => t.items ++ itemsL ts
end

/-! ### nodes as stored -/

inductive SKind where
  | file
  | dir
  | symlink (linktarget : List Char) (raw : Option Bytes)
  | other (tag : Nat)
  deriving DecidableEq, Repr

structure SNode where
  /-- the escaped name (`Node.name: String`) -/
  name : List Char
  kind : SKind
  md : Meta
  content : Option (List Id)
  subtree : Option Id
  deriving DecidableEq, Repr

/-- how names and link targets become strings: std's cutting of bytes into characters and invalid bytes, the
UTF-8 encoding of a character, and `to_string_lossy` -/
structure Str where
  cut : Bytes → List Item
  enc : Char → Bytes
  lossy : Bytes → List Char

def isCh : Item → Bool
  | .ch _ => true
  | .bad _ => false

def itemChar : Item → Char
  | .ch c => c
  | .bad _ => 'x'

/-- `NodeType::from_link` -/
def fromLink (s : Str) (target : Bytes) : SKind :=
  if (s.cut target).all isCh then .symlink ((s.cut target).map itemChar) none
  else .symlink (s.lossy target) (some target)

/-- `Node::new(name, node_type, meta, content, subtree)` as stored -/
def toSNode (s : Str) (n : Node) : SNode :=
  { name := escape (s.cut n.name)
    kind := match n.kind with
      | .file => .file
      | .dir => .dir
      | .symlink t => fromLink s t
      | .other tag => .other tag
    md := n.md, content := n.content, subtree := n.subtree }

/-- the node as the readers see it: `name()`, `to_link()` -/
def fromSNode (s : Str) (n : SNode) : Node :=
  { name := (unescape s.enc n.name).getD (n.name.flatMap s.enc)
    kind := match n.kind with
      | .file => .file
      | .dir => .dir
      | .symlink l raw => .symlink (raw.getD (l.flatMap s.enc))
      | .other tag => .other tag
    md := n.md, content := n.content, subtree := n.subtree }

/-- serde_json on `Tree { nodes }` -/
structure Ser where
  ser : List SNode → Bytes
  de : Bytes → Option (List SNode)
  round : ∀ l, de (ser l) = some l
  /-- JSON text is never empty (`{"nodes":[]}` at least) -/
  nonempty : ∀ l, ser l ≠ []

/-- `Tree::serialize`: the bytes of a tree blob -/
def treeBytes (s : Str) (j : Ser) (nodes : List Node) : Bytes := j.ser (nodes.map (toSNode s))

/-! ### what the archiver computes, as a recursion over the source -/

/-- everything the archive of a (sub)forest produces: the nodes of its tree, the `tree_packer.add` calls (id, node list)
in order, and the chunks of the files read, in order -/
structure Saved where
  nodes : List Node := []
  trees : List (Id × List Node) := []
  chunks : List Bytes := []

mutual
def save (H : List Node → Id) (hash : Bytes → Id) (chunks : Bytes → List Bytes) (hasTree : Id → Bool) : STree → Saved
  | .leaf n d =>
    if n.kind = .file then { nodes := [{ n with content := some ((chunks d).map hash) }], chunks := chunks d }
    else { nodes := [n] }
  | .dir n cs =>
    let r := saveL H hash chunks hasTree cs
    { nodes := [{ n with subtree := some (H r.nodes) }]
      trees := if hasTree (H r.nodes) then r.trees else r.trees ++ [(H r.nodes, r.nodes)]
      chunks := r.chunks }
def saveL (H : List Node → Id) (hash : Bytes → Id) (chunks : Bytes → List Bytes) (hasTree : Id → Bool) : List STree → Saved
  | [] => {}
  | t :: ts =>
    let a := save H hash chunks hasTree t
    let b := saveL H hash chunks hasTree ts
    { nodes := a.nodes ++ b.nodes, trees := a.trees ++ b.trees, chunks := a.chunks ++ b.chunks }
end

/-! ### reading a snapshot back -/

/-- `Tree::from_backend`: `get_tree` (a tree blob by id) then `from_slice`, nodes as the readers see them -/
def loadTree (s : Str) (j : Ser) (getTree : Id → Option Bytes) (id : Id) : Option (List Node) :=
  match getTree id with
  | none => none
  | some b => (j.de b).map (·.map (fromSNode s))

/-- the source-level view of a stored node: content ids and subtree id are representation -/
def strip (n : Node) : Node := { n with content := none, subtree := none }

/-- one node of a loaded tree: name, type, link target and metadata from the node, file bytes from the content ids
(lookups + positional writes in the order `order` schedules them), a directory through `rec` on its subtree id -/
def restoreNode (getData : Id → Option Bytes) (order : List Write → List Write) (rec : Id → Option (List STree))
    (n : Node) : Option STree :=
  match n.kind with
  | .dir =>
    match n.subtree with
    | none => none
    | some sub => (rec sub).map (STree.dir (strip n))
  | .file =>
    match n.content with
    | none => none
    | some ids => (restoreFile getData ids order).map fun f => STree.leaf (strip n) f.bytes
  | _ => some (STree.leaf (strip n) [])

/-- restore of the forest below tree `id`, directories recursively; fuel = directory depth. -/
def restoreTrees (s : Str) (j : Ser) (getTree getData : Id → Option Bytes) (order : List Write → List Write) :
    Nat → Id → Option (List STree)
  | 0, _ => none
  | fuel + 1, id =>
    match loadTree s j getTree id with
    | none => none
    | some nodes => nodes.mapM (restoreNode getData order (restoreTrees s j getTree getData order fuel))

/-! ### reading a snapshot BY PATH (`Tree::node_from_path`: `snapshot:path`, `Repository::node_from_path`, `Vfs`) -/

/-- the search in one tree: `nodes.into_iter().find(|node| node.name() == p)` (`findNode`).
One round of the loop of `Tree::node_from_path`: the subtree of the current node is loaded (`Tree::from_backend`) and
searched LINEARLY (`nodes.into_iter().find(|node| node.name() == p)`) for the first node whose UN-ESCAPED name (`Node::name()`,
the name `loadTree` puts into the node) is the path component; `none` = "not a directory" / "not found in tree" -/
def findNode (nodes : List Node) (p : Name) : Option Node := nodes.find? (fun n => n.name == p)

def lookupStep (s : Str) (j : Ser) (getTree : Id → Option Bytes) (node : Node) (p : Name) : Option Node :=
  match node.subtree with
  | none => none
  | some id =>
    match loadTree s j getTree id with
    | none => none
    | some nodes => findNode nodes p

/-- the loop over the (normal) components of the path -/
def lookupFrom (s : Str) (j : Ser) (getTree : Id → Option Bytes) : Node → List Name → Option Node
  | node, [] => some node
  | node, p :: ps =>
    match lookupStep s j getTree node p with
    | none => none
    | some n => lookupFrom s j getTree n ps

/-- the node `node_from_path` starts with: a nameless directory whose subtree is the root tree -/
def rootNode (id : Id) : Node := { name := [], kind := .dir, md := default, subtree := some id }

/-- `Tree::node_from_path(be, index, id, path)` -/
def lookupPath (s : Str) (j : Ser) (getTree : Id → Option Bytes) (id : Id) (path : List Name) : Option Node :=
  lookupFrom s j getTree (rootNode id) path

def STree.children : STree → List STree
  | .leaf _ _ => []
  | .dir _ cs => cs

mutual
/-- the recursive listing of a source forest (what `ls` / `NodeStreamer` shows): every entry with its path -/
def STree.paths : STree → List (List Name × STree)
  | .leaf n d => [([n.name], .leaf n d)]
  | .dir n cs => ([n.name], .dir n cs) :: (pathsL cs).map (fun pt => (n.name :: pt.1, pt.2))
def pathsL : List STree → List (List Name × STree)
  | [] => []
  | t :: ts => t.paths ++ pathsL ts
end

/-- the entry a path names in a source forest (first sibling of that name, component by component) -/
def findL : List STree → List Name → Option STree
  | _, [] => none
  | ts, [p] => ts.find? (fun t => t.node.name == p)
  | ts, p :: q :: ps =>
    match ts.find? (fun t => t.node.name == p) with
    | none => none
    | some t => findL t.children (q :: ps)

/-- the seeded variant (C01-5): binary search (`slice::binary_search_by`) for the ESCAPED component among the escaped names of
the tree (kept only for the witness that it is not the linear search: trees are sorted by the un-escaped name) -/
def bsearch (names : Array (List Char)) (want : List Char) : Nat → Nat → Nat → Option Nat
  | 0, _, _ => none
  | fuel + 1, lo, hi =>
    if lo < hi then
      let mid := lo + (hi - lo) / 2
      match compareOfLessAndEq (names.getD mid []) want with
      | .eq => some mid
      | .lt => bsearch names want fuel (mid + 1) hi
      | .gt => bsearch names want fuel lo mid
    else none

mutual
def STree.depth : STree → Nat
  | .leaf _ _ => 0
  | .dir _ cs => depthL cs + 1
def depthL : List STree → Nat
  | [] => 0
  | t :: ts => max t.depth (depthL ts)
end

end Rustic.Snapshot
