/-
Model M15b — the local cache (`crates/core/src/backend/cache.rs`: `Cache`, `CachedBackend`), **as repaired** by the
`fix:` commits recorded in `known_findings.d/C19.json` (cached `read_partial` returns an error instead of
panicking when the range exceeds the file; the cache listing only takes properly placed files for entries; the cache
listing follows symlinks).
Executable; imports only `Model/Backends.lean` (file-system state `FS`, `fget/fput/fdel`, `FileType`, `SpecMap`).

Correspondence with the Rust code:
* `isCacheable`         — `FileType::is_cacheable` (`backend.rs`): snapshot and index files.
* `cpath` / `ctmp`      — `Cache::path` = `<type dir>/<hex[0..2]>/<hex>`; temp name `<hex>-tmp-` in the same directory.
* cache directory state — regular files (`CD.files : FS`) plus non-file objects planted in the cache directory, e.g. at the entry
                          path of an id: `dirs`, the paths at which a **directory** sits (`hasDir`) — no operation of `cache.rs`
                          removes or replaces a directory, so `dirs` is constant — and `CD.links`, the paths at which a
                          **symlink** sits (`hasLink`), dangling (target in a non-existing directory) or resolving to a
                          regular file outside the cache directory — `remove_file` and a `rename` onto it remove it, reads
                          and `open(create|truncate)` follow it.  A file recorded at a path of `dirs`/`links` (impossible on a real file
                          system) is invisible to every operation.  For reads and the listing a dangling symlink is like
                          nothing at all (`NotFound`; not `is_file`).  `parentObj`: a regular file or a dangling symlink
                          where a parent directory of the entry path (`<type>`, `<type>/<xx>`) belongs — every cache
                          operation on the ids below fails (`ENOTDIR` / `ENOENT`; `create_dir_all` fails), all errors are
                          only logged.
* `cReadFull`           — `Cache::read_full`: `fs::read`, `NotFound` ⇒ `Ok(None)` (miss); a directory ⇒ `Err` (`EISDIR`);
                          **no size check**: whatever file is there is served.  `CachedBackend::read_full` logs an error and
                          goes on like after a miss (`readFullThrough`).
* `cReadPartial`        — `Cache::read_partial`: `NotFound` ⇒ miss; `seek` + `read_exact` ⇒ hit, or error when fewer than
                          `length` bytes remain (a truncated entry); a directory ⇒ error (`EISDIR` on `read`), but a hit with no
                          bytes for `length = 0` (`read_exact` of an empty buffer does not call `read`).
                          `CachedBackend::read_partial` treats an error like a miss (`readPartialThrough`).
* `cWrite`              — `Cache::write_bytes`: write `<hex>-tmp-`, rename to `<hex>` (`cWriteFile`); a directory at the temp
                          path: nothing written; a directory at the entry path: `rename` fails, **the temp file stays**.  All
                          callers only log the error.
* `cRemove`             — `Cache::remove` (`fs::remove_file`, fails on a directory; all callers only log its error).
* `cEntry` / `cLinkEntry` / `cList` — `Cache::list_with_size`: regular files (`is_file`: not directories) below `<type dir>`
                          whose name is `L` **lower-case** hex characters and (fix df325f2) which lie at depth 2 in the directory
                          named by their first two characters; (fix, wave T4) `follow_links(true)`: a symlink that resolves to a
                          regular file is an entry too, with that file's size.
* `removeNotInList`     — `Cache::remove_not_in_list`: a cache entry stays iff the repository listing has the same id with the
                          same size.  (Code: one loop over the listing, one over the rest of a `HashMap`; the removals act on
                          distinct paths and, after the fix, cannot fail with `NotFound`, so the order is immaterial.)
* `checkCleanup`        — what `Repository::check` / `check_repository` (`commands/check.rs`) do to the cache: listings of snapshot
                          and index files, then `remove_not_in_list(Pack, tree packs of the index)` — the latter whether or not
                          `trust_cache` is set; `checkCacheFilesPack` — the comparison `check_cache_files(Pack)` (without `trust_cache`).
* `readFull`, `readPartial`, `writeBytes`, `remove`, `listWithSize` — the `ReadBackend`/`WriteBackend` impls of
                          `CachedBackend` over an exact-map backend `be : SpecMap` (see C20); a listing is passed in as the
                          backend's answer.
-/
import Rustic.Model.Backends
namespace Rustic.Cache
open Rustic.Backends

def isCacheable : FileType → Bool
  | .snapshot => true
  | .index => true
  | _ => false

def lowerHexDigits : List Char :=
  ['0', '1', '2', '3', '4', '5', '6', '7', '8', '9', 'a', 'b', 'c', 'd', 'e', 'f']

/-- `file_name().len() == 64 && is_ascii && all(is_ascii_digit || 'a'..='f')` -/
def isCacheName (L : Nat) (n : Name) : Bool := n.length = L && n.all (fun c => lowerHexDigits.contains c)

def cpath (t : FileType) (id : Name) : Path := [t.dirname, id.take 2, id]
def ctmp (t : FileType) (id : Name) : Path := [t.dirname, id.take 2, id ++ tmpSuffix]

/-- `dirs`: the paths of the cache directory at which a DIRECTORY sits (a non-file object planted there; no operation
of `cache.rs` ever removes or replaces one: `remove_file` and `rename` onto it fail, the listing skips it). -/
def hasDir (dirs : List Path) (p : Path) : Bool := dirs.contains p

/-- The part of the cache directory that operations change: regular files, and SYMLINKS (`links`: path ↦ what the link
resolves to — `none`: dangling, its target lies in a directory that does not exist, so nothing can be read or created
through it; `some b`: a regular file **outside** the cache directory holding `b`, one file per link). -/
structure CD where
  files : FS
  links : List (Path × Option Bytes) := []

def lget : List (Path × Option Bytes) → Path → Option (Option Bytes)
  | [], _ => none
  | (q, v) :: rest, p => if q = p then some v else lget rest p

def ldel : List (Path × Option Bytes) → Path → List (Path × Option Bytes)
  | [], _ => []
  | (q, v) :: rest, p => if q = p then ldel rest p else (q, v) :: ldel rest p

def hasLink (c : CD) (p : Path) : Bool := (lget c.links p).isSome

/-- `remove_file` / `rename` onto a symlink: the link is gone -/
def unlink (c : CD) (p : Path) : CD := { c with links := ldel c.links p }

/-- what `open(p)` finds as a regular file (symlinks are followed): the bytes, if any -/
def entryBytes (c : CD) (p : Path) : Option Bytes :=
  match lget c.links p with
  | some v => v
  | none => fget c.files p

/-- a non-directory at `p` in the middle of a path: `some true` — a regular file (or a link to one): `ENOTDIR`;
`some false` — a dangling symlink: `ENOENT` -/
def parentAt (c : CD) (p : Path) : Option Bool :=
  match lget c.links p with
  | some none => some false
  | some (some _) => some true
  | none => if (fget c.files p).isSome then some true else none

/-- What sits where a PARENT directory of the entry path (`<type>` or `<type>/<xx>`) belongs, if it is not a directory.
`none` — nothing in the way.  Otherwise nothing can exist below, `create_dir_all` fails, every open / remove fails. -/
def parentObj (c : CD) (t : FileType) (id : Name) : Option Bool :=
  match parentAt c [t.dirname] with
  | some b => some b
  | none => parentAt c [t.dirname, id.take 2]

/-- outcome of a cache read: `Ok(Some(data))` / `Ok(None)` / `Err(_)` -/
inductive PRes where
  | hit (b : Bytes)
  | miss
  | error
  deriving DecidableEq, Repr

/-- `Cache::read_full`: `fs::read` — a directory at the path: `EISDIR` (an error, not `NotFound`); a dangling symlink:
`ENOENT` = `NotFound`, a miss; a symlink to a file: that file. -/
def cReadFull (dirs : List Path) (c : CD) (t : FileType) (id : Name) : PRes :=
  if parentObj c t id = some true then .error       -- `ENOTDIR`
  else if parentObj c t id = some false then .miss  -- `ENOENT` = `NotFound`
  else if hasDir dirs (cpath t id) then .error
  else match entryBytes c (cpath t id) with
    | some d => .hit d
    | none => .miss

/-- what a cache read can serve: the regular file at (or linked from) the entry path, unless a directory sits there or
the path cannot be resolved -/
def cHit (dirs : List Path) (c : CD) (t : FileType) (id : Name) : Option Bytes :=
  if (parentObj c t id).isSome || hasDir dirs (cpath t id) then none else entryBytes c (cpath t id)

/-- `Cache::read_partial`: on a directory `File::open` and `seek` succeed and `read_exact` fails with `EISDIR` — except
for an empty buffer, which is "read" without a system call (a hit with no bytes).  A dangling symlink: `NotFound`. -/
def cReadPartial (dirs : List Path) (c : CD) (t : FileType) (id : Name) (off len : Nat) : PRes :=
  if parentObj c t id = some true then .error       -- `File::open`: `ENOTDIR`
  else if parentObj c t id = some false then .miss  -- `ENOENT`
  else if hasDir dirs (cpath t id) then (if len = 0 then .hit [] else .error)
  else match entryBytes c (cpath t id) with
    | none => .miss
    | some d => if len = 0 ∨ off + len ≤ d.length then .hit ((d.drop off).take len) else .error

/-- `Cache::write_bytes` with nothing in the way: write `<hex>-tmp-`, rename to `<hex>`. -/
def cWriteFile (c : FS) (t : FileType) (id : Name) (d : Bytes) : FS :=
  fput (fdel (fput c (ctmp t id) d) (ctmp t id)) (cpath t id) d

/-- `Cache::write_bytes` (every caller only logs its error):
* a regular file or a dangling symlink where `<type>` or `<type>/<xx>` belongs — `create_dir_all` fails: nothing changes;
* a directory at the temp path — `open` fails (`EISDIR`), the clean-up `remove_file` too: nothing changes;
* a dangling symlink at the temp path — `open(create)` follows it and fails (`ENOENT`), the clean-up `remove_file`
  **removes the link**: nothing written this time;
* a symlink to a file at the temp path — `open(truncate)` follows it: **the file it points to is overwritten**, then the
  LINK is renamed onto the entry path: the entry is now that link (or, with a directory at the entry path, stays at the
  temp path);
* a directory at the entry path — the temp file is written, `rename` onto the directory fails and the temp file **stays**
  (no clean-up after a failed rename);
* otherwise the entry is (re)placed — `rename` replaces a symlink at the entry path like a file. -/
def cWrite (dirs : List Path) (c : CD) (t : FileType) (id : Name) (d : Bytes) : CD :=
  if (parentObj c t id).isSome then c     -- `create_dir_all(<type>/<xx>)` fails
  else if hasDir dirs (ctmp t id) then c
  else match lget c.links (ctmp t id) with
    | some none => unlink c (ctmp t id)
    | some (some _) =>
      if hasDir dirs (cpath t id) then { c with links := (ctmp t id, some d) :: ldel c.links (ctmp t id) }
      else { files := fdel c.files (cpath t id),
             links := (cpath t id, some d) :: ldel (ldel c.links (ctmp t id)) (cpath t id) }
    | none =>
      if hasDir dirs (cpath t id) then { c with files := fput c.files (ctmp t id) d }
      else { files := cWriteFile c.files t id d, links := ldel c.links (cpath t id) }

/-- `Cache::remove`: `fs::remove_file` — fails on a directory (`EISDIR`) and below a non-directory (nothing changes);
removes a regular file or a symlink. -/
def cRemove (dirs : List Path) (c : CD) (t : FileType) (id : Name) : CD :=
  if (parentObj c t id).isSome || hasDir dirs (cpath t id) then c
  else { files := fdel c.files (cpath t id), links := ldel c.links (cpath t id) }

/-- a regular file that is a cache entry: name and place right, nothing else at / above that path -/
def cEntry (L : Nat) (dirs : List Path) (c : CD) (t : FileType) (e : Path × Bytes) : Option (Name × Nat) :=
  match e.1 with
  | [d, sub, n] =>
    if d = t.dirname ∧ isCacheName L n = true ∧ sub = n.take 2 ∧ hasDir dirs e.1 = false ∧ hasLink c e.1 = false
        ∧ parentObj c t n = none
    then some (n, e.2.length) else none
  | _ => none

/-- a symlink that is a cache entry (**fix**: the listing follows symlinks, as the reads do): it resolves to a regular
file; its size is that file's.  A dangling symlink is no entry (walkdir reports an error for it, which is only logged). -/
def cLinkEntry (L : Nat) (dirs : List Path) (c : CD) (t : FileType) (e : Path × Option Bytes) : Option (Name × Nat) :=
  match e.1, e.2 with
  | [d, sub, n], some b =>
    if d = t.dirname ∧ isCacheName L n = true ∧ sub = n.take 2 ∧ hasDir dirs e.1 = false
        ∧ lget c.links e.1 = some (some b) ∧ parentObj c t n = none
    then some (n, b.length) else none
  | _, _ => none

def cList (L : Nat) (dirs : List Path) (c : CD) (t : FileType) : List (Name × Nat) :=
  c.files.filterMap (cEntry L dirs c t) ++ c.links.filterMap (cLinkEntry L dirs c t)

def sizeOf? (list : List (Name × Nat)) (id : Name) : Option Nat :=
  match list with
  | [] => none
  | (i, n) :: rest => if i = id then some n else sizeOf? rest id

def keepEntry (list : List (Name × Nat)) (e : Name × Nat) : Bool := sizeOf? list e.1 == some e.2

def removeAll (dirs : List Path) (c : CD) (t : FileType) : List (Name × Nat) → CD
  | [] => c
  | e :: rest => removeAll dirs (cRemove dirs c t e.1) t rest

def removeNotInList (L : Nat) (dirs : List Path) (c : CD) (t : FileType) (list : List (Name × Nat)) : CD :=
  removeAll dirs c t ((cList L dirs c t).filter (fun e => !keepEntry list e))

/-- repository (an exact map, C20) + cache directory: regular files and dangling symlinks `cache`, directories planted
at `dirs` -/
structure St where
  be : SpecMap
  cache : CD
  dirs : List Path := []

def beReadFull (be : SpecMap) (t : FileType) (id : Name) : Res Bytes :=
  match be (t, id) with
  | some d => .ok d
  | none => .err

/-- ranged read of an exact-map backend: the slice, or an error when it passes the end -/
def beReadPartial (be : SpecMap) (t : FileType) (id : Name) (off len : Nat) : Res Bytes :=
  match be (t, id) with
  | some d => if off + len ≤ d.length then .ok ((d.drop off).take len) else .err
  | none => .err

/-- `read_full` after the cache did not answer: the backend's answer; a successful one is written to the cache -/
def readFullThrough (s : St) (t : FileType) (id : Name) : Res Bytes × St :=
  match s.be (t, id) with
  | some d => (.ok d, { s with cache := cWrite s.dirs s.cache t id d })
  | none => (.err, s)

def readFull (s : St) (t : FileType) (id : Name) : Res Bytes × St :=
  if isCacheable t then
    match cReadFull s.dirs s.cache t id with
    | .hit d => (.ok d, s)
    | .miss => readFullThrough s t id
    | .error => readFullThrough s t id      -- `Err(err) => warn!(…)`: logged, then like a miss
  else (beReadFull s.be t id, s)

/-- `read_partial` after the cache did not answer: whole file from the backend, written to the cache, then sliced -/
def readPartialThrough (s : St) (t : FileType) (id : Name) (off len : Nat) : Res Bytes × St :=
  match s.be (t, id) with
  | some d =>
    let s' := { s with cache := cWrite s.dirs s.cache t id d }
    if off + len ≤ d.length then (.ok ((d.drop off).take len), s') else (.err, s')
  | none => (.err, s)

def readPartial (s : St) (t : FileType) (id : Name) (cacheable : Bool) (off len : Nat) : Res Bytes × St :=
  if cacheable || isCacheable t then
    match cReadPartial s.dirs s.cache t id off len with
    | .hit b => (.ok b, s)
    | .miss => readPartialThrough s t id off len
    | .error => readPartialThrough s t id off len   -- logged, then like a miss
  else (beReadPartial s.be t id off len, s)

def writeBytes (s : St) (t : FileType) (id : Name) (cacheable : Bool) (d : Bytes) : St :=
  { s with be := s.be.write (t, id) d,
           cache := if cacheable || isCacheable t then cWrite s.dirs s.cache t id d else s.cache }

def remove (s : St) (t : FileType) (id : Name) (cacheable : Bool) : St :=
  { s with be := s.be.remove (t, id),
           cache := if cacheable || isCacheable t then cRemove s.dirs s.cache t id else s.cache }

/-- `list` is the backend's answer, returned unchanged; the cache is cleaned for cacheable types -/
def listWithSize (L : Nat) (s : St) (t : FileType) (list : List (Name × Nat)) : St :=
  { s with cache := if isCacheable t then removeNotInList L s.dirs s.cache t list else s.cache }

/-! ### what `check` does to the cache (`commands/check.rs` `check_repository`, `repository.rs` `Repository::check`) -/

/-- The cache-related part of `Repository::check`, in program order.  `trustCache` = `CheckOptions::trust_cache`; `snaps`, `idx`: the
backend's listings of the snapshot / index files; `treePacks` = `index_collector.tree_packs()`: id and size — as the INDEX records them —
of every tree pack of `index.packs` (packs marked for deletion are not among them).
* `Repository::check`: `get_all_snapshots` lists the snapshots through the cached backend (clean-up) — both settings;
* `if !opts.trust_cache && let Some(cache)`: `be.list_with_size(Snapshot)`, `be.list_with_size(Index)` through the cached backend; the
  comparison `check_cache_files` after each only reads;
* `check_packs`: `be.stream_all::<IndexFile>` lists the index files through the cached backend — both settings;
* `if let Some(cache)`: `cache.remove_not_in_list(FileType::Pack, tree_packs)` — guarded by the presence of a cache ONLY, **not** by
  `trust_cache` (`trust_cache` guards only the comparison `check_cache_files(Pack)` that follows, which only reads).
The reads in between (snapshot and index files) only refill the cache with the repository's bytes; `check_trees` / `read_data`
afterwards read through `readPartial` (tree blobs: `cacheable = true`) and `readFull`. -/
def checkListed (L : Nat) (s : St) (trustCache : Bool) (snaps idx : List (Name × Nat)) : St :=
  let s0 := listWithSize L s .snapshot snaps
  let s1 := if trustCache then s0 else listWithSize L (listWithSize L s0 .snapshot snaps) .index idx
  listWithSize L s1 .index idx

def checkCleanup (L : Nat) (s : St) (trustCache : Bool) (snaps idx treePacks : List (Name × Nat)) : St :=
  { be := s.be, dirs := s.dirs,
    cache := removeNotInList L s.dirs (checkListed L s trustCache snaps idx).cache .pack treePacks }

/-- a finding of `check_cache_files` -/
inductive CacheFinding where
  | errorReadingFile (id : Name)
  | cacheMismatch (id : Name)
  deriving DecidableEq, Repr

/-- `check_cache_files(_, cache, be, FileType::Pack, ..)` (only without `trust_cache`): every entry of the cache listing is read from the
cache and — packs are not `is_cacheable`, so `be.read_full` bypasses the cache — from the repository; a file the repository lacks:
`ErrorReadingFile`, other bytes: `CacheMismatch`. -/
def checkCacheFilesPack (L : Nat) (s : St) : List CacheFinding :=
  (cList L s.dirs s.cache .pack).filterMap (fun e =>
    match s.be (.pack, e.1), cHit s.dirs s.cache .pack e.1 with
    | none, _ => some (.errorReadingFile e.1)
    | some b, some d => if d = b then none else some (.cacheMismatch e.1)
    | some _, none => none)

end Rustic.Cache

namespace Rustic.Cache
open Rustic.Backends

/-! ### histories through the cached handle vs. the same history on the bare backend -/

inductive Op where
  | read (t : FileType) (id : Name)
  | readPartial (t : FileType) (id : Name) (cacheable : Bool) (off len : Nat)
  | write (t : FileType) (id : Name) (cacheable : Bool) (d : Bytes)
  | remove (t : FileType) (id : Name) (cacheable : Bool)
  /-- `answer` is what the backend's `list_with_size` returns at that moment -/
  | list (t : FileType) (answer : List (Name × Nat))

inductive Obs where
  | res (r : Res Bytes)
  | done
  | listing (l : List (Name × Nat))
  deriving DecidableEq

def stepC (L : Nat) (s : St) : Op → Obs × St
  | .read t id => let r := readFull s t id; (.res r.1, r.2)
  | .readPartial t id cb off len => let r := readPartial s t id cb off len; (.res r.1, r.2)
  | .write t id cb d => (.done, writeBytes s t id cb d)
  | .remove t id cb => (.done, remove s t id cb)
  | .list t a => (.listing a, listWithSize L s t a)

def stepU (be : SpecMap) : Op → Obs × SpecMap
  | .read t id => (.res (beReadFull be t id), be)
  | .readPartial t id _ off len => (.res (beReadPartial be t id off len), be)
  | .write t id _ d => (.done, be.write (t, id) d)
  | .remove t id _ => (.done, be.remove (t, id))
  | .list _ a => (.listing a, be)

def runC (L : Nat) (s : St) : List Op → List Obs × St
  | [] => ([], s)
  | op :: rest => let r := stepC L s op; let r2 := runC L r.2 rest; (r.1 :: r2.1, r2.2)

def runU (be : SpecMap) : List Op → List Obs × SpecMap
  | [] => ([], be)
  | op :: rest => let r := stepU be op; let r2 := runU r.2 rest; (r.1 :: r2.1, r2.2)

end Rustic.Cache
