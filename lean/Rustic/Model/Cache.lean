/-
Model M15b — the local cache (`crates/core/src/backend/cache.rs`: `Cache`, `CachedBackend`), **as repaired** by the
two `fix:` commits recorded in `known_findings.d/C19.json` (cached `read_partial` returns an error instead of
panicking when the range exceeds the file; the cache listing only takes properly placed files for entries).
Executable; imports only `Model/Backends.lean` (file-system state `FS`, `fget/fput/fdel`, `FileType`, `SpecMap`).

Correspondence with the Rust code:
* `isCacheable`         — `FileType::is_cacheable` (`backend.rs`): snapshot and index files.
* `cpath` / `ctmp`      — `Cache::path` = `<type dir>/<hex[0..2]>/<hex>`; temp name `<hex>-tmp-` in the same directory.
* `cReadFull`           — `Cache::read_full`: `fs::read`, `NotFound` ⇒ `Ok(None)`; **no size check**: whatever is there is served.
* `cReadPartial`        — `Cache::read_partial`: `NotFound` ⇒ miss; `seek` + `read_exact` ⇒ hit, or error when fewer than
                          `length` bytes remain (a truncated entry) — `CachedBackend::read_partial` treats an error like a miss.
* `cWrite`              — `Cache::write_bytes`: write `<hex>-tmp-`, rename to `<hex>`.
* `cRemove`             — `Cache::remove` (`fs::remove_file`; all callers only log its error).
* `cEntry` / `cList`    — `Cache::list_with_size`: regular files below `<type dir>` whose name is `L` **lower-case** hex
                          characters and (fix) which lie at depth 2 in the directory named by their first two characters.
* `removeNotInList`     — `Cache::remove_not_in_list`: a cache entry stays iff the repository listing has the same id with the
                          same size.  (Code: one loop over the listing, one over the rest of a `HashMap`; the removals act on
                          distinct paths and, after the fix, cannot fail with `NotFound`, so the order is immaterial.)
* `readFull`, `readPartial`, `writeBytes`, `remove`, `listWithSize` — the `ReadBackend`/`WriteBackend` impls of
                          `CachedBackend` over an exact-map backend `be : SpecMap` (see C20); a listing is passed in as the
                          backend's answer.
-/
import Rustic.Model.Backends
namespace Rustic.Cache
open Rustic.Backends

def isCacheable : FileType → Bool
  | .snapshot => true
  | .index => true
  | _ => false

def lowerHexDigits : List Char :=
  ['0', '1', '2', '3', '4', '5', '6', '7', '8', '9', 'a', 'b', 'c', 'd', 'e', 'f']

/-- `file_name().len() == 64 && is_ascii && all(is_ascii_digit || 'a'..='f')` -/
def isCacheName (L : Nat) (n : Name) : Bool := n.length = L && n.all (fun c => lowerHexDigits.contains c)

def cpath (t : FileType) (id : Name) : Path := [t.dirname, id.take 2, id]
def ctmp (t : FileType) (id : Name) : Path := [t.dirname, id.take 2, id ++ tmpSuffix]

def cReadFull (c : FS) (t : FileType) (id : Name) : Option Bytes := fget c (cpath t id)

inductive PRes where
  | hit (b : Bytes)
  | miss
  | error
  deriving DecidableEq, Repr

def cReadPartial (c : FS) (t : FileType) (id : Name) (off len : Nat) : PRes :=
  match fget c (cpath t id) with
  | none => .miss
  | some d => if len = 0 ∨ off + len ≤ d.length then .hit ((d.drop off).take len) else .error

def cWrite (c : FS) (t : FileType) (id : Name) (d : Bytes) : FS :=
  fput (fdel (fput c (ctmp t id) d) (ctmp t id)) (cpath t id) d

def cRemove (c : FS) (t : FileType) (id : Name) : FS := fdel c (cpath t id)

def cEntry (L : Nat) (t : FileType) (e : Path × Bytes) : Option (Name × Nat) :=
  match e.1 with
  | [d, sub, n] => if d = t.dirname ∧ isCacheName L n = true ∧ sub = n.take 2 then some (n, e.2.length) else none
  | _ => none

def cList (L : Nat) (c : FS) (t : FileType) : List (Name × Nat) := c.filterMap (cEntry L t)

def sizeOf? (list : List (Name × Nat)) (id : Name) : Option Nat :=
  match list with
  | [] => none
  | (i, n) :: rest => if i = id then some n else sizeOf? rest id

def keepEntry (list : List (Name × Nat)) (e : Name × Nat) : Bool := sizeOf? list e.1 == some e.2

def removeAll (c : FS) (t : FileType) : List (Name × Nat) → FS
  | [] => c
  | e :: rest => removeAll (cRemove c t e.1) t rest

def removeNotInList (L : Nat) (c : FS) (t : FileType) (list : List (Name × Nat)) : FS :=
  removeAll c t ((cList L c t).filter (fun e => !keepEntry list e))

/-- repository (an exact map, C20) + cache directory -/
structure St where
  be : SpecMap
  cache : FS

def beReadFull (be : SpecMap) (t : FileType) (id : Name) : Res Bytes :=
  match be (t, id) with
  | some d => .ok d
  | none => .err

/-- ranged read of an exact-map backend: the slice, or an error when it passes the end -/
def beReadPartial (be : SpecMap) (t : FileType) (id : Name) (off len : Nat) : Res Bytes :=
  match be (t, id) with
  | some d => if off + len ≤ d.length then .ok ((d.drop off).take len) else .err
  | none => .err

def readFull (s : St) (t : FileType) (id : Name) : Res Bytes × St :=
  if isCacheable t then
    match cReadFull s.cache t id with
    | some d => (.ok d, s)
    | none =>
      match s.be (t, id) with
      | some d => (.ok d, { s with cache := cWrite s.cache t id d })
      | none => (.err, s)
  else (beReadFull s.be t id, s)

def readPartial (s : St) (t : FileType) (id : Name) (cacheable : Bool) (off len : Nat) : Res Bytes × St :=
  if cacheable || isCacheable t then
    match cReadPartial s.cache t id off len with
    | .hit b => (.ok b, s)
    | _ =>
      match s.be (t, id) with
      | some d =>
        let s' := { s with cache := cWrite s.cache t id d }
        if off + len ≤ d.length then (.ok ((d.drop off).take len), s') else (.err, s')
      | none => (.err, s)
  else (beReadPartial s.be t id off len, s)

def writeBytes (s : St) (t : FileType) (id : Name) (cacheable : Bool) (d : Bytes) : St :=
  { be := s.be.write (t, id) d,
    cache := if cacheable || isCacheable t then cWrite s.cache t id d else s.cache }

def remove (s : St) (t : FileType) (id : Name) (cacheable : Bool) : St :=
  { be := s.be.remove (t, id),
    cache := if cacheable || isCacheable t then cRemove s.cache t id else s.cache }

/-- `list` is the backend's answer, returned unchanged; the cache is cleaned for cacheable types -/
def listWithSize (L : Nat) (s : St) (t : FileType) (list : List (Name × Nat)) : St :=
  { s with cache := if isCacheable t then removeNotInList L s.cache t list else s.cache }

end Rustic.Cache

namespace Rustic.Cache
open Rustic.Backends

/-! ### histories through the cached handle vs. the same history on the bare backend -/

inductive Op where
  | read (t : FileType) (id : Name)
  | readPartial (t : FileType) (id : Name) (cacheable : Bool) (off len : Nat)
  | write (t : FileType) (id : Name) (cacheable : Bool) (d : Bytes)
  | remove (t : FileType) (id : Name) (cacheable : Bool)
  /-- `answer` is what the backend's `list_with_size` returns at that moment -/
  | list (t : FileType) (answer : List (Name × Nat))

inductive Obs where
  | res (r : Res Bytes)
  | done
  | listing (l : List (Name × Nat))
  deriving DecidableEq

def stepC (L : Nat) (s : St) : Op → Obs × St
  | .read t id => let r := readFull s t id; (.res r.1, r.2)
  | .readPartial t id cb off len => let r := readPartial s t id cb off len; (.res r.1, r.2)
  | .write t id cb d => (.done, writeBytes s t id cb d)
  | .remove t id cb => (.done, remove s t id cb)
  | .list t a => (.listing a, listWithSize L s t a)

def stepU (be : SpecMap) : Op → Obs × SpecMap
  | .read t id => (.res (beReadFull be t id), be)
  | .readPartial t id _ off len => (.res (beReadPartial be t id off len), be)
  | .write t id _ d => (.done, be.write (t, id) d)
  | .remove t id _ => (.done, be.remove (t, id))
  | .list _ a => (.listing a, be)

def runC (L : Nat) (s : St) : List Op → List Obs × St
  | [] => ([], s)
  | op :: rest => let r := stepC L s op; let r2 := runC L r.2 rest; (r.1 :: r2.1, r2.2)

def runU (be : SpecMap) : List Op → List Obs × SpecMap
  | [] => ([], be)
  | op :: rest => let r := stepU be op; let r2 := runU r.2 rest; (r.1 :: r2.1, r2.2)

end Rustic.Cache
