namespace Rustic.Gen
def BUF_SIZE : Nat := 4096
def WINDOW_BITS : Nat := 6
def PREFILL_SLICE : Nat := 64
end Rustic.Gen
