/-
Lemmas for C17 (model `Rustic/Model/Index.lean`): binary search on sorted lists, the structure of the
collector after `extend`, `IsIndexOf` (= "some sorted permutation", what an unstable sort promises),
lookup soundness/completeness, size totals, pack iteration.
-/
import Rustic.Model.Index
namespace Rustic.Index
open Rustic.Pack


theorem sorted_getD {keys : List Nat} (hs : keys.Pairwise (· ≤ ·)) {i j : Nat} (hij : i ≤ j) (hj : j < keys.length) :
    keys.getD i 0 ≤ keys.getD j 0 := by
  have hi : i < keys.length := by omega
  rw [← List.getElem_eq_getD (h := hi) 0, ← List.getElem_eq_getD (h := hj) 0]
  rcases Nat.lt_or_eq_of_le hij with h | h
  · exact (List.pairwise_iff_getElem.mp hs) i j hi hj h
  · subst h; exact Nat.le_refl _

theorem bsLoop_spec (keys : List Nat) (x : Nat) (hs : keys.Pairwise (· ≤ ·)) (fuel base size : Nat)
    (hf : size ≤ fuel + 1) (h0 : 0 < size) (hb : base + size ≤ keys.length)
    (hlo : base = 0 ∨ keys.getD base 0 ≤ x)
    (hhi : ∀ i, base + size ≤ i → i < keys.length → x < keys.getD i 0) :
    bsLoop keys x fuel base size < keys.length ∧
    (bsLoop keys x fuel base size = 0 ∨ keys.getD (bsLoop keys x fuel base size) 0 ≤ x) ∧
    (∀ i, bsLoop keys x fuel base size + 1 ≤ i → i < keys.length → x < keys.getD i 0) := by
  induction fuel generalizing base size with
  | zero =>
    have : size = 1 := by omega
    subst this
    simp only [bsLoop]
    exact ⟨by omega, hlo, hhi⟩
  | succ fuel ih =>
    simp only [bsLoop]
    split
    · rename_i h1
      have hhalf : 1 ≤ size / 2 ∧ size / 2 ≤ size - size / 2 ∧ size / 2 < size := by omega
      apply ih
      · omega
      · omega
      · split <;> omega
      · split
        · exact hlo
        · right; omega
      · intro i hi hil
        split at hi
        · rename_i hlt
          have : keys.getD (base + size / 2) 0 ≤ keys.getD i 0 := sorted_getD hs (by omega) hil
          omega
        · apply hhi i _ hil
          omega
    · have : size = 1 := by omega
      subst this
      exact ⟨by omega, hlo, hhi⟩

theorem bsLoop_lt (keys : List Nat) (x : Nat) (fuel base size : Nat) (h0 : 0 < size)
    (hb : base + size ≤ keys.length) : bsLoop keys x fuel base size < keys.length := by
  induction fuel generalizing base size with
  | zero => simp only [bsLoop]; omega
  | succ fuel ih =>
    simp only [bsLoop]
    split
    · apply ih
      · omega
      · split <;> omega
    · omega

/-- soundness needs no sortedness: a reported position holds the key. -/
theorem bsearch_sound {keys : List Nat} {x i : Nat} (h : bsearch keys x = some i) :
    i < keys.length ∧ keys[i]? = some x := by
  unfold bsearch at h
  split at h
  · cases h
  · rename_i hne
    simp only at h
    split at h
    · rename_i heq
      cases h
      have hlt := bsLoop_lt keys x keys.length 0 keys.length (by omega) (by omega)
      refine ⟨hlt, ?_⟩
      rw [List.getElem?_eq_getElem hlt, List.getElem_eq_getD 0, heq]
    · cases h

theorem bsearch_complete {keys : List Nat} (hs : keys.Pairwise (· ≤ ·)) {x : Nat} (hx : x ∈ keys) :
    (bsearch keys x).isSome := by
  obtain ⟨j, hj, hjx⟩ := List.mem_iff_getElem.mp hx
  have hne : keys.length ≠ 0 := by omega
  obtain ⟨hr, hlo, hhi⟩ := bsLoop_spec keys x hs keys.length 0 keys.length (by omega) (by omega) (by omega)
    (Or.inl rfl) (fun i h1 h2 => by omega)
  unfold bsearch
  simp only [hne, if_false]
  have hjd : keys.getD j 0 = x := by rw [← List.getElem_eq_getD (h := hj) 0]; exact hjx
  have hjr : j ≤ bsLoop keys x keys.length 0 keys.length := by
    apply Classical.byContradiction; intro hcon
    have := hhi j (by omega) hj
    omega
  have : keys.getD (bsLoop keys x keys.length 0 keys.length) 0 = x := by
    rcases Nat.lt_or_eq_of_le hjr with hlt | heq
    · have h1 := sorted_getD hs (Nat.le_of_lt hlt) hr
      rcases hlo with h0 | h0
      · omega
      · omega
    · rw [← heq]; exact hjd
  rw [if_pos this]; rfl

theorem bsearch_isSome_iff {keys : List Nat} (hs : keys.Pairwise (· ≤ ·)) (x : Nat) :
    (bsearch keys x).isSome = true ↔ x ∈ keys := by
  constructor
  · intro h
    obtain ⟨i, hi⟩ := Option.isSome_iff_exists.mp h
    exact List.mem_of_getElem? (bsearch_sound hi).2
  · exact bsearch_complete hs


/-- one pack filed into the collector of its type -/
def stepT (tc : TypeCollector) (p : IndexPack) : TypeCollector :=
  { packs := tc.packs ++ [(p.id, p.packSize)]
    totalSize := tc.totalSize + p.packSize
    entries := p.blobs.foldl (Entries.push tc.packs.length) tc.entries }

theorem Collector.get_set (c : Collector) (t t' : BlobType) (tc : TypeCollector) :
    (c.set t tc).get t' = if t = t' then tc else c.get t' := by
  cases t <;> cases t' <;> simp [Collector.set, Collector.get]

theorem extendOne_get (c : Collector) (p : IndexPack) (t : BlobType) :
    (c.extendOne p).get t = if p.blobType = t then stepT (c.get t) p else c.get t := by
  unfold Collector.extendOne
  simp only [Collector.get_set]
  split
  · rename_i h; subst h; rfl
  · rfl

theorem extend_get (c : Collector) (ps : List IndexPack) (t : BlobType) :
    (c.extend ps).get t = (ps.filter (fun p => decide (p.blobType = t))).foldl stepT (c.get t) := by
  unfold Collector.extend
  induction ps generalizing c with
  | nil => rfl
  | cons p ps ih =>
    simp only [List.foldl_cons, List.filter_cons]
    rw [ih, extendOne_get]
    by_cases h : p.blobType = t <;> simp [h]

def mkEntry (idx : Nat) (b : IndexBlob) : SortedEntry := { id := b.id, packIdx := idx, loc := b.loc }

def Entries.pushAll (idx : Nat) (e : Entries) (bs : List IndexBlob) : Entries :=
  match e with
  | .none => .none
  | .ids l => .ids (l ++ bs.map (·.id))
  | .full l => .full (l ++ bs.map (mkEntry idx))

theorem foldl_push (idx : Nat) (e : Entries) (bs : List IndexBlob) :
    bs.foldl (Entries.push idx) e = e.pushAll idx bs := by
  induction bs generalizing e with
  | nil => cases e <;> simp [Entries.pushAll]
  | cons b bs ih =>
    rw [List.foldl_cons, ih]
    cases e <;> simp [Entries.push, Entries.pushAll, mkEntry]

/-- the full entries of the packs `qs` when the first of them gets pack index `n` -/
def entriesOf (n : Nat) : List IndexPack → List SortedEntry
  | [] => []
  | p :: ps => p.blobs.map (mkEntry n) ++ entriesOf (n + 1) ps

def idsOf (qs : List IndexPack) : List Nat := qs.flatMap fun p => p.blobs.map (·.id)

def Entries.appendPacks (e : Entries) (n : Nat) (qs : List IndexPack) : Entries :=
  match e with
  | .none => .none
  | .ids l => .ids (l ++ idsOf qs)
  | .full l => .full (l ++ entriesOf n qs)

theorem foldl_stepT (tc : TypeCollector) (qs : List IndexPack) :
    qs.foldl stepT tc =
      { packs := tc.packs ++ qs.map (fun p => (p.id, p.packSize))
        totalSize := tc.totalSize + (qs.map (·.packSize)).sum
        entries := tc.entries.appendPacks tc.packs.length qs } := by
  induction qs generalizing tc with
  | nil => cases tc with | mk p e s => cases e <;> simp [Entries.appendPacks, entriesOf, idsOf]
  | cons q qs ih =>
    rw [List.foldl_cons, ih]
    cases tc with | mk p e s =>
    simp only [stepT, foldl_push, List.length_append, List.length_cons, List.length_nil, List.map_cons,
      List.sum_cons]
    cases e <;> simp [Entries.appendPacks, Entries.pushAll, entriesOf, idsOf, Nat.add_assoc]

theorem mem_entriesOf {n : Nat} {qs : List IndexPack} {e : SortedEntry} :
    e ∈ entriesOf n qs ↔ ∃ k p, qs[k]? = some p ∧ ∃ b ∈ p.blobs, e = mkEntry (n + k) b := by
  induction qs generalizing n with
  | nil => simp [entriesOf]
  | cons q qs ih =>
    simp only [entriesOf, List.mem_append, List.mem_map, ih]
    constructor
    · rintro (⟨b, hb, rfl⟩ | ⟨k, p, hk, b, hb, rfl⟩)
      · exact ⟨0, q, by simp, b, hb, by simp⟩
      · exact ⟨k + 1, p, by simpa using hk, b, hb, by congr 1; omega⟩
    · rintro ⟨k, p, hk, b, hb, rfl⟩
      cases k with
      | zero => left; simp at hk; subst hk; exact ⟨b, hb, by simp⟩
      | succ k => right; exact ⟨k, p, by simpa using hk, b, hb, by congr 1; omega⟩

theorem mem_idsOf {qs : List IndexPack} {x : Nat} :
    x ∈ idsOf qs ↔ ∃ p ∈ qs, ∃ b ∈ p.blobs, b.id = x := by
  simp [idsOf, List.mem_flatMap]

theorem mem_entriesOf_id {n : Nat} {qs : List IndexPack} {x : Nat} :
    (∃ e ∈ entriesOf n qs, e.id = x) ↔ ∃ p ∈ qs, ∃ b ∈ p.blobs, b.id = x := by
  constructor
  · rintro ⟨e, he, rfl⟩
    obtain ⟨k, p, hk, b, hb, rfl⟩ := mem_entriesOf.mp he
    exact ⟨p, List.mem_of_getElem? hk, b, hb, rfl⟩
  · rintro ⟨p, hp, b, hb, rfl⟩
    obtain ⟨k, hk, rfl⟩ := List.mem_iff_getElem.mp hp
    exact ⟨mkEntry (n + k) b, mem_entriesOf.mpr ⟨k, _, List.getElem?_eq_getElem hk, b, hb, rfl⟩, rfl⟩


/-- what an unstable sort by id promises: some permutation that is sorted by id -/
def Entries.IsSortedPermOf : Entries → Entries → Prop
  | .none, .none => True
  | .ids s, .ids l => s.Perm l ∧ s.Pairwise (· ≤ ·)
  | .full s, .full l => s.Perm l ∧ s.Pairwise (fun a b => a.id ≤ b.id)
  | _, _ => False

structure TypeIndex.IsIndexOf (ti : TypeIndex) (tc : TypeCollector) : Prop where
  packs : ti.packs = tc.packs.map (·.1)
  total : ti.totalSize = tc.totalSize
  entries : ti.entries.IsSortedPermOf tc.entries

/-- `idx` is a possible result of `c.into_index()` -/
def Index.IsIndexOf (idx : Index) (c : Collector) : Prop := ∀ t, (idx.get t).IsIndexOf (c.get t)

theorem insertBy_perm {α : Type} (key : α → Nat) (x : α) (l : List α) : (insertBy key x l).Perm (x :: l) := by
  induction l with
  | nil => exact List.Perm.refl _
  | cons y ys ih =>
    simp only [insertBy]
    split
    · exact List.Perm.refl _
    · exact (List.Perm.cons y ih).trans (List.Perm.swap x y ys)

theorem sortBy_perm {α : Type} (key : α → Nat) (l : List α) : (sortBy key l).Perm l := by
  induction l with
  | nil => exact List.Perm.refl _
  | cons x xs ih => exact (insertBy_perm key x _).trans (List.Perm.cons x ih)

theorem insertBy_sorted {α : Type} (key : α → Nat) (x : α) (l : List α)
    (h : l.Pairwise (fun a b => key a ≤ key b)) : (insertBy key x l).Pairwise (fun a b => key a ≤ key b) := by
  induction l with
  | nil => simp [insertBy]
  | cons y ys ih =>
    rw [List.pairwise_cons] at h
    simp only [insertBy]
    split
    · rename_i hxy
      rw [List.pairwise_cons]
      refine ⟨?_, List.pairwise_cons.mpr h⟩
      intro a ha
      rcases List.mem_cons.mp ha with rfl | ha
      · exact hxy
      · exact Nat.le_trans hxy (h.1 a ha)
    · rename_i hxy
      rw [List.pairwise_cons]
      refine ⟨?_, ih h.2⟩
      intro a ha
      rcases List.mem_cons.mp ((insertBy_perm key x ys).mem_iff.mp ha) with rfl | ha
      · omega
      · exact h.1 a ha

theorem sortBy_sorted {α : Type} (key : α → Nat) (l : List α) :
    (sortBy key l).Pairwise (fun a b => key a ≤ key b) := by
  induction l with
  | nil => simp [sortBy]
  | cons x xs ih => exact insertBy_sorted key x _ ih

theorem sortById_isSortedPermOf (e : Entries) : e.sortById.IsSortedPermOf e := by
  cases e with
  | none => trivial
  | ids l => exact ⟨sortBy_perm _ _, by simpa using sortBy_sorted id l⟩
  | full l => exact ⟨sortBy_perm _ _, sortBy_sorted _ l⟩

theorem intoIndex_isIndexOf (c : Collector) : c.intoIndex.IsIndexOf c := by
  intro t
  cases t <;> exact ⟨rfl, rfl, sortById_isSortedPermOf _⟩

/-- the collector state of type `t` after extending a new collector by `ps` -/
theorem new_extend_get (m : IndexType) (ps : List IndexPack) (t : BlobType) :
    (((Collector.new m).extend ps).get t) =
      { packs := (ps.filter (fun p => decide (p.blobType = t))).map (fun p => (p.id, p.packSize))
        totalSize := ((ps.filter (fun p => decide (p.blobType = t))).map (·.packSize)).sum
        entries := ((Collector.new m).get t).entries.appendPacks 0 (ps.filter (fun p => decide (p.blobType = t))) } := by
  rw [extend_get, foldl_stepT]
  cases t <;> cases m <;> simp [Collector.new, Collector.get]

/-- `has` answers for this type at all -/
def retainsIds : IndexType → BlobType → Bool
  | .onlyTrees, .data => false
  | _, _ => true

/-- `get_id` answers for this type at all -/
def retainsFull : IndexType → BlobType → Bool
  | .full, _ => true
  | _, .tree => true
  | _, .data => false

/-- `(t, id)` is filed by the collector: some pack whose `blob_type()` is `t` lists a blob with this id -/
def FiledUnder (ps : List IndexPack) (t : BlobType) (id : Nat) : Prop :=
  ∃ p ∈ ps, p.blobType = t ∧ ∃ b ∈ p.blobs, b.id = id

theorem sorted_map_id {s : List SortedEntry} (h : s.Pairwise (fun a b => a.id ≤ b.id)) :
    (s.map (·.id)).Pairwise (· ≤ ·) := by
  rw [List.pairwise_map]; exact h

/-- the packs the collector files under type `t` -/
def filed (ps : List IndexPack) (t : BlobType) : List IndexPack := ps.filter (fun p => decide (p.blobType = t))

theorem filed_iff {ps : List IndexPack} {t : BlobType} {q : Nat} :
    (∃ p ∈ filed ps t, ∃ b ∈ p.blobs, b.id = q) ↔ FiledUnder ps t q := by
  simp only [filed, FiledUnder, List.mem_filter, decide_eq_true_eq]
  constructor
  · rintro ⟨p, ⟨hp, ht⟩, b, hb, hq⟩; exact ⟨p, hp, ht, b, hb, hq⟩
  · rintro ⟨p, hp, ht, b, hb, hq⟩; exact ⟨p, ⟨hp, ht⟩, b, hb, hq⟩

theorem entries_full {m : IndexType} {ps : List IndexPack} {idx : Index}
    (h : idx.IsIndexOf ((Collector.new m).extend ps)) {t : BlobType} (hr : retainsFull m t = true) :
    ∃ s, (idx.get t).entries = .full s ∧ s.Perm (entriesOf 0 (filed ps t)) ∧
      s.Pairwise (fun a b => a.id ≤ b.id) := by
  have he := (h t).entries
  rw [new_extend_get] at he
  have hn : ((Collector.new m).get t).entries = .full [] := by
    cases t <;> cases m <;> simp_all [Collector.new, Collector.get, retainsFull]
  rw [hn] at he
  cases hent : (idx.get t).entries with
  | none => rw [hent] at he; simp [Entries.appendPacks, Entries.IsSortedPermOf] at he
  | ids s => rw [hent] at he; simp [Entries.appendPacks, Entries.IsSortedPermOf] at he
  | full s =>
    rw [hent] at he
    simp only [Entries.appendPacks, Entries.IsSortedPermOf, List.nil_append] at he
    exact ⟨s, rfl, he.1, he.2⟩

theorem entries_ids {ps : List IndexPack} {idx : Index}
    (h : idx.IsIndexOf ((Collector.new .dataIds).extend ps)) :
    ∃ s, (idx.get .data).entries = .ids s ∧ s.Perm (idsOf (filed ps .data)) ∧ s.Pairwise (· ≤ ·) := by
  have he := (h .data).entries
  rw [new_extend_get] at he
  have hn : ((Collector.new .dataIds).get .data).entries = .ids [] := rfl
  rw [hn] at he
  cases hent : (idx.get .data).entries with
  | none => rw [hent] at he; simp [Entries.appendPacks, Entries.IsSortedPermOf] at he
  | full s => rw [hent] at he; simp [Entries.appendPacks, Entries.IsSortedPermOf] at he
  | ids s =>
    rw [hent] at he
    simp only [Entries.appendPacks, Entries.IsSortedPermOf, List.nil_append] at he
    exact ⟨s, rfl, he.1, he.2⟩

theorem entries_none {ps : List IndexPack} {idx : Index}
    (h : idx.IsIndexOf ((Collector.new .onlyTrees).extend ps)) :
    (idx.get .data).entries = .none := by
  have he := (h .data).entries
  rw [new_extend_get] at he
  have hn : ((Collector.new .onlyTrees).get .data).entries = .none := rfl
  rw [hn] at he
  cases hent : (idx.get .data).entries with
  | none => rfl
  | full s => rw [hent] at he; simp [Entries.appendPacks, Entries.IsSortedPermOf] at he
  | ids s => rw [hent] at he; simp [Entries.appendPacks, Entries.IsSortedPermOf] at he

theorem has_iff_filed {m : IndexType} {ps : List IndexPack} {idx : Index}
    (h : idx.IsIndexOf ((Collector.new m).extend ps)) (t : BlobType) (id : Nat) :
    idx.has t id = true ↔ retainsIds m t = true ∧ FiledUnder ps t id := by
  by_cases hf : retainsFull m t = true
  · obtain ⟨s, hs, hperm, hsort⟩ := entries_full h hf
    have hri : retainsIds m t = true := by cases m <;> cases t <;> simp_all [retainsIds, retainsFull]
    unfold Index.has
    rw [hs]
    simp only [hri, true_and]
    rw [bsearch_isSome_iff (sorted_map_id hsort), ← filed_iff, ← mem_entriesOf_id (n := 0)]
    simp only [List.mem_map]
    constructor
    · rintro ⟨e, he, rfl⟩; exact ⟨e, hperm.mem_iff.mp he, rfl⟩
    · rintro ⟨e, he, rfl⟩; exact ⟨e, hperm.mem_iff.mpr he, rfl⟩
  · have hd : t = .data ∧ (m = .dataIds ∨ m = .onlyTrees) := by
      cases m <;> cases t <;> simp_all [retainsFull]
    obtain ⟨rfl, hm | hm⟩ := hd
    · subst hm
      obtain ⟨s, hs, hperm, hsort⟩ := entries_ids h
      unfold Index.has
      rw [hs]
      simp only [retainsIds, true_and]
      rw [bsearch_isSome_iff hsort, hperm.mem_iff, mem_idsOf, filed_iff]
    · subst hm
      unfold Index.has
      rw [entries_none h]
      simp [retainsIds]

theorem getId_none_of_not_retained {m : IndexType} {ps : List IndexPack} {idx : Index}
    (h : idx.IsIndexOf ((Collector.new m).extend ps)) {t : BlobType} (hr : retainsFull m t = false) (id : Nat) :
    idx.getId t id = none := by
  have hd : t = .data ∧ (m = .dataIds ∨ m = .onlyTrees) := by
    cases m <;> cases t <;> simp_all [retainsFull]
  obtain ⟨rfl, hm | hm⟩ := hd
  · subst hm
    obtain ⟨s, hs, _, _⟩ := entries_ids h
    unfold Index.getId; rw [hs]
  · subst hm
    unfold Index.getId; rw [entries_none h]

theorem packs_filed {m : IndexType} {ps : List IndexPack} {idx : Index}
    (h : idx.IsIndexOf ((Collector.new m).extend ps)) (t : BlobType) :
    (idx.get t).packs = (filed ps t).map (·.id) := by
  have hp := (h t).packs
  rw [new_extend_get] at hp
  rw [hp]; simp [filed, List.map_map, Function.comp_def]

/-- `get_id` returns only listings, with the pack id and location of that listing -/
theorem get_sound_filed {m : IndexType} {ps : List IndexPack} {idx : Index}
    (h : idx.IsIndexOf ((Collector.new m).extend ps)) {t : BlobType} {id : Nat} {e : IndexEntry}
    (hg : idx.getId t id = some e) :
    retainsFull m t = true ∧
      ∃ p ∈ ps, p.blobType = t ∧ ∃ b ∈ p.blobs, b.id = id ∧ e = { tpe := t, pack := p.id, loc := b.loc } := by
  by_cases hf : retainsFull m t = true
  · refine ⟨hf, ?_⟩
    obtain ⟨s, hs, hperm, _⟩ := entries_full h hf
    unfold Index.getId at hg
    rw [hs] at hg
    simp only at hg
    split at hg
    · cases hg
    · rename_i i hi
      split at hg
      · cases hg
      · rename_i be hbe
        split at hg
        · cases hg
        · rename_i pid hpid
          cases hg
          have hbs := bsearch_sound hi
          have hmem : be ∈ s := List.mem_of_getElem? hbe
          have hid : be.id = id := by
            have := hbs.2
            rw [List.getElem?_map, hbe] at this
            simpa using this
          obtain ⟨k, p, hk, b, hb, rfl⟩ := mem_entriesOf.mp (hperm.mem_iff.mp hmem)
          have hp : p ∈ filed ps t := List.mem_of_getElem? hk
          simp only [filed, List.mem_filter, decide_eq_true_eq] at hp
          rw [packs_filed h t] at hpid
          simp only [mkEntry, Nat.zero_add, List.getElem?_map, hk, Option.map_some, Option.some.injEq] at hpid
          exact ⟨p, hp.1, hp.2, b, hb, hid, by simp [mkEntry, ← hpid]⟩
  · have : idx.getId t id = none := getId_none_of_not_retained h (by simpa using hf) id
    rw [this] at hg; cases hg

/-- `get_id` finds every filed `(t, id)` when the mode keeps full entries for `t` (and never panics) -/
theorem get_complete_filed {m : IndexType} {ps : List IndexPack} {idx : Index}
    (h : idx.IsIndexOf ((Collector.new m).extend ps)) {t : BlobType} {id : Nat}
    (hf : retainsFull m t = true) (hx : FiledUnder ps t id) : (idx.getId t id).isSome = true := by
  obtain ⟨s, hs, hperm, hsort⟩ := entries_full h hf
  have hmem : id ∈ s.map (·.id) := by
    obtain ⟨e, he, hid⟩ := (mem_entriesOf_id (n := 0)).mpr (filed_iff.mpr hx)
    exact List.mem_map.mpr ⟨e, hperm.mem_iff.mpr he, hid⟩
  obtain ⟨i, hi⟩ := Option.isSome_iff_exists.mp (bsearch_complete (sorted_map_id hsort) hmem)
  have hbs := bsearch_sound hi
  have hil : i < s.length := by simpa using hbs.1
  unfold Index.getId
  rw [hs]
  simp only [hi, List.getElem?_eq_getElem hil]
  obtain ⟨k, p, hk, b, hb, hbe⟩ := mem_entriesOf.mp (hperm.mem_iff.mp (List.getElem_mem hil))
  have : (idx.get t).packs[s[i].packIdx]? = some p.id := by
    rw [packs_filed h t, hbe]
    simp [mkEntry, hk]
  rw [this]; rfl

/-! ### size totals -/

theorem totalSize_filed {m : IndexType} {ps : List IndexPack} {idx : Index}
    (h : idx.IsIndexOf ((Collector.new m).extend ps)) (t : BlobType) :
    idx.totalSize t = ((filed ps t).map (·.packSize)).sum := by
  have ht := (h t).total
  rw [new_extend_get] at ht
  exact ht

theorem sum_filed (ps : List IndexPack) :
    ((filed ps .tree).map (·.packSize)).sum + ((filed ps .data).map (·.packSize)).sum
      = (ps.map (·.packSize)).sum := by
  induction ps with
  | nil => rfl
  | cons p ps ih =>
    simp only [filed, List.filter_cons, List.map_cons, List.sum_cons] at *
    cases hp : p.blobType <;> simp <;> omega

/-! ### pack iteration (`PackIndexes`) -/

theorem takeRun_sorted (k : Nat) (es : List SortedEntry)
    (hs : es.Pairwise (fun a b => a.packIdx ≤ b.packIdx)) (hge : ∀ e ∈ es, k ≤ e.packIdx) :
    takeRun k es = (es.filter (fun e => decide (e.packIdx = k)), es.filter (fun e => !decide (e.packIdx = k))) := by
  induction es with
  | nil => rfl
  | cons e es ih =>
    rw [List.pairwise_cons] at hs
    by_cases hk : e.packIdx = k
    · simp only [takeRun, hk, if_true, List.filter_cons, decide_true, Bool.not_true]
      rw [ih hs.2 (fun e' he' => hge e' (List.mem_cons_of_mem _ he'))]
      simp
    · have hgt : ∀ e' ∈ es, ¬ e'.packIdx = k := by
        intro e' he'
        have h1 := hs.1 e' he'
        have h2 := hge e (List.mem_cons_self ..)
        omega
      simp only [takeRun, hk, if_false, List.filter_cons, decide_false, Bool.not_false, if_true]
      have e1 : es.filter (fun e => decide (e.packIdx = k)) = [] := by
        rw [List.filter_eq_nil_iff]; intro a ha; simpa using hgt a ha
      have e2 : es.filter (fun e => !decide (e.packIdx = k)) = es := by
        rw [List.filter_eq_self]; intro a ha; simpa using hgt a ha
      simp [e1, e2]

def toBlob (t : BlobType) (e : SortedEntry) : IndexBlob := { id := e.id, tpe := t, loc := e.loc }

theorem iterPacks_getElem? (t : BlobType) (k : Nat) (packs : List Nat) (es : List SortedEntry)
    (hs : es.Pairwise (fun a b => a.packIdx ≤ b.packIdx)) (hge : ∀ e ∈ es, k ≤ e.packIdx) (i : Nat) :
    (iterPacks t k packs es)[i]? = packs[i]?.map (fun pid =>
      { id := pid, size := none, blobs := (es.filter (fun e => decide (e.packIdx = k + i))).map (toBlob t) }) := by
  induction packs generalizing k es i with
  | nil => simp [iterPacks]
  | cons pid ps ih =>
    simp only [iterPacks, takeRun_sorted k es hs hge]
    cases i with
    | zero => simp [toBlob]
    | succ i =>
      simp only [List.getElem?_cons_succ]
      rw [ih (k + 1) _ (hs.filter _) (by
        intro e he
        simp only [List.mem_filter, Bool.not_eq_eq_eq_not, Bool.not_true, decide_eq_false_iff_not] at he
        have := hge e he.1
        omega)]
      congr 1
      funext pid
      congr 2
      rw [List.filter_filter]
      apply List.filter_congr
      intro e _
      have : k + 1 + i = k + (i + 1) := by omega
      simp only [this]
      by_cases h1 : e.packIdx = k + (i + 1)
      · have : ¬ e.packIdx = k := by omega
        simp [h1]
      · simp [h1]

theorem iterPacks_length (t : BlobType) (k : Nat) (packs : List Nat) (es : List SortedEntry) :
    (iterPacks t k packs es).length = packs.length := by
  induction packs generalizing k es with
  | nil => rfl
  | cons pid ps ih => simp [iterPacks, ih]

theorem packIdx_ge_of_mem_entriesOf {n : Nat} {qs : List IndexPack} {e : SortedEntry} (h : e ∈ entriesOf n qs) :
    n ≤ e.packIdx := by
  obtain ⟨k, p, _, b, _, rfl⟩ := mem_entriesOf.mp h
  simp [mkEntry]

theorem entriesOf_filter (n : Nat) (qs : List IndexPack) (i : Nat) :
    (entriesOf n qs).filter (fun e => decide (e.packIdx = n + i)) =
      (qs[i]?.map (fun p => p.blobs.map (mkEntry (n + i)))).getD [] := by
  induction qs generalizing n i with
  | nil => simp [entriesOf]
  | cons q qs ih =>
    simp only [entriesOf, List.filter_append]
    cases i with
    | zero =>
      have e1 : (q.blobs.map (mkEntry n)).filter (fun e => decide (e.packIdx = n + 0)) = q.blobs.map (mkEntry n) := by
        rw [List.filter_eq_self]; intro a ha
        obtain ⟨b, _, rfl⟩ := List.mem_map.mp ha; simp [mkEntry]
      have e2 : (entriesOf (n + 1) qs).filter (fun e => decide (e.packIdx = n + 0)) = [] := by
        rw [List.filter_eq_nil_iff]; intro a ha
        have := packIdx_ge_of_mem_entriesOf ha
        simp; omega
      rw [e1, e2]; simp
    | succ i =>
      have e1 : (q.blobs.map (mkEntry n)).filter (fun e => decide (e.packIdx = n + (i + 1))) = [] := by
        rw [List.filter_eq_nil_iff]; intro a ha
        obtain ⟨b, _, rfl⟩ := List.mem_map.mp ha; simp [mkEntry]
      have := ih (n + 1) i
      have h2 : n + 1 + i = n + (i + 1) := by omega
      rw [h2] at this
      rw [e1, this]; simp

/-- Iteration over one type, for ANY permutation `s` of the collected entries that is sorted by pack index:
the `i`-th yielded pack is the `i`-th filed pack, with a permutation of its blobs (re-typed to `t`), no size. -/
theorem iter_getElem? (t : BlobType) (qs : List IndexPack) (s : List SortedEntry)
    (hperm : s.Perm (entriesOf 0 qs)) (hs : s.Pairwise (fun a b => a.packIdx ≤ b.packIdx)) (i : Nat) :
    ∃ bl, (iterPacks t 0 (qs.map (·.id)) s)[i]? = qs[i]?.map (fun p => { id := p.id, size := none, blobs := bl }) ∧
      ∀ p, qs[i]? = some p → bl.Perm (p.blobs.map (fun b => { b with tpe := t })) := by
  refine ⟨(s.filter (fun e => decide (e.packIdx = 0 + i))).map (toBlob t), ?_, ?_⟩
  · rw [iterPacks_getElem? t 0 _ s hs (fun _ _ => Nat.zero_le _)]
    simp [List.getElem?_map, Option.map_map, Function.comp_def]
  · intro p hp
    have h1 : (s.filter (fun e => decide (e.packIdx = 0 + i))).Perm
        ((entriesOf 0 qs).filter (fun e => decide (e.packIdx = 0 + i))) := hperm.filter _
    rw [entriesOf_filter, hp] at h1
    simp only [Option.map_some, Option.getD_some] at h1
    have h2 := h1.map (toBlob t)
    simpa [List.map_map, Function.comp_def, toBlob, mkEntry] using h2

/-! ### homogeneous packs -/

theorem filedUnder_iff_listed {ps : List IndexPack} (hom : ∀ p ∈ ps, p.Homogeneous) (t : BlobType) (id : Nat) :
    FiledUnder ps t id ↔ ∃ p ∈ ps, ∃ b ∈ p.blobs, b.tpe = t ∧ b.id = id := by
  constructor
  · rintro ⟨p, hp, ht, b, hb, hid⟩
    exact ⟨p, hp, b, hb, by rw [hom p hp b hb, ht], hid⟩
  · rintro ⟨p, hp, b, hb, ht, hid⟩
    exact ⟨p, hp, by rw [← hom p hp b hb, ht], b, hb, hid⟩

theorem mem_listed {ps : List IndexPack} {t : BlobType} {id : Nat} {e : IndexEntry} :
    e ∈ listed ps t id ↔ ∃ p ∈ ps, ∃ b ∈ p.blobs, b.tpe = t ∧ b.id = id ∧ e = { tpe := t, pack := p.id, loc := b.loc } := by
  simp only [listed, List.mem_flatMap, List.mem_map, List.mem_filter, decide_eq_true_eq]
  constructor
  · rintro ⟨p, hp, b, ⟨hb, ht, hid⟩, rfl⟩; exact ⟨p, hp, b, hb, ht, hid, rfl⟩
  · rintro ⟨p, hp, b, hb, ht, hid, rfl⟩; exact ⟨p, hp, b, ⟨hb, ht, hid⟩, rfl⟩

theorem collect_eq_extend (m : IndexType) (files : List IndexFile) :
    files.foldl (fun c f => c.extend f.packs) (Collector.new m) = (Collector.new m).extend (unmarked files) := by
  suffices ∀ c : Collector, files.foldl (fun c f => c.extend f.packs) c = c.extend (unmarked files) from this _
  induction files with
  | nil => intro c; rfl
  | cons f fs ih =>
    intro c
    simp only [List.foldl_cons, unmarked, List.flatMap_cons]
    rw [ih]
    simp [Collector.extend, unmarked, List.foldl_append]

/-- Two pack lists that are permutations of each other give the same presence answers, lookup success and
totals, whichever sorted permutations the two `into_index` calls produce. -/
theorem answers_of_perm {m : IndexType} {ps ps' : List IndexPack} (hu : ps.Perm ps') {i i' : Index}
    (h : i.IsIndexOf ((Collector.new m).extend ps)) (h' : i'.IsIndexOf ((Collector.new m).extend ps'))
    (t : BlobType) (id : Nat) :
    i.has t id = i'.has t id ∧ (i.getId t id).isSome = (i'.getId t id).isSome ∧
    i.totalSize t = i'.totalSize t := by
  have hf : FiledUnder ps t id ↔ FiledUnder ps' t id := by
    simp only [FiledUnder, hu.mem_iff]
  refine ⟨Bool.eq_iff_iff.mpr ?_, Bool.eq_iff_iff.mpr ?_, ?_⟩
  · rw [has_iff_filed h, has_iff_filed h', hf]
  · cases hr : retainsFull m t
    · rw [getId_none_of_not_retained h hr, getId_none_of_not_retained h' hr]
    · constructor
      · intro hs
        obtain ⟨e, he⟩ := Option.isSome_iff_exists.mp hs
        obtain ⟨_, p, hp, ht, b, hb, hid, _⟩ := get_sound_filed h he
        exact get_complete_filed h' hr (hf.mp ⟨p, hp, ht, b, hb, hid⟩)
      · intro hs
        obtain ⟨e, he⟩ := Option.isSome_iff_exists.mp hs
        obtain ⟨_, p, hp, ht, b, hb, hid, _⟩ := get_sound_filed h' he
        exact get_complete_filed h hr (hf.mpr ⟨p, hp, ht, b, hb, hid⟩)
  · rw [totalSize_filed h, totalSize_filed h']
    exact ((hu.filter _).map _).sum_nat


/-! ### `repair_index` -/

theorem lookupRemove_none {id : Nat} {l : List (Nat × Nat)} :
    lookupRemove id l = none ↔ id ∉ l.map (·.1) := by
  induction l with
  | nil => simp [lookupRemove]
  | cons e es ih =>
    obtain ⟨i, s⟩ := e
    simp only [lookupRemove, List.map_cons, List.mem_cons]
    by_cases h : i = id
    · simp [h]
    · simp only [h, if_false]
      cases hr : lookupRemove id es with
      | none => simp [ih.mp hr, Ne.symm h]
      | some v =>
        obtain ⟨s', r'⟩ := v
        simp only [reduceCtorEq, false_iff]
        intro hcon
        apply hcon
        right
        apply Classical.byContradiction
        intro hn
        rw [ih.mpr hn] at hr
        cases hr

theorem lookupRemove_some {id s : Nat} {l rest : List (Nat × Nat)} (hnd : (l.map (·.1)).Nodup)
    (h : lookupRemove id l = some (s, rest)) :
    (id, s) ∈ l ∧ (∀ e, e ∈ rest ↔ e ∈ l ∧ e.1 ≠ id) ∧ (rest.map (·.1)).Nodup := by
  induction l generalizing rest with
  | nil => simp [lookupRemove] at h
  | cons e es ih =>
    obtain ⟨i, s0⟩ := e
    rw [List.map_cons, List.nodup_cons] at hnd
    simp only [lookupRemove] at h
    by_cases hi : i = id
    · subst hi
      simp only [if_true, Option.some.injEq, Prod.mk.injEq] at h
      obtain ⟨rfl, rfl⟩ := h
      refine ⟨List.mem_cons_self .., ?_, hnd.2⟩
      intro e
      constructor
      · intro he
        refine ⟨List.mem_cons_of_mem _ he, ?_⟩
        intro heq
        exact hnd.1 (List.mem_map.mpr ⟨e, he, heq⟩)
      · rintro ⟨he, hne⟩
        rcases List.mem_cons.mp he with rfl | he
        · exact absurd rfl hne
        · exact he
    · simp only [hi, if_false] at h
      cases hr : lookupRemove id es with
      | none => rw [hr] at h; cases h
      | some v =>
        obtain ⟨s', r'⟩ := v
        rw [hr] at h
        simp only [Option.some.injEq, Prod.mk.injEq] at h
        obtain ⟨rfl, rfl⟩ := h
        obtain ⟨h1, h2, h3⟩ := ih hnd.2 hr
        refine ⟨List.mem_cons_of_mem _ h1, ?_, ?_⟩
        · intro e
          simp only [List.mem_cons, h2]
          constructor
          · rintro (rfl | ⟨he, hne⟩)
            · exact ⟨Or.inl rfl, hi⟩
            · exact ⟨Or.inr he, hne⟩
          · rintro ⟨rfl | he, hne⟩
            · exact Or.inl rfl
            · exact Or.inr ⟨he, hne⟩
        · rw [List.map_cons, List.nodup_cons]
          refine ⟨?_, h3⟩
          intro hm
          obtain ⟨e, he, heq⟩ := List.mem_map.mp hm
          exact hnd.1 (List.mem_map.mpr ⟨e, ((h2 e).mp he).1, heq⟩)


def FileListed (f : IndexFile) (p : IndexPack) : Prop := p ∈ f.packs ∨ p ∈ f.packsToDelete
def Listed (fs : List IndexFile) (p : IndexPack) : Prop := ∃ f ∈ fs, FileListed f p

/-- an index entry of a stored pack agrees with the pack (blobs as in its header, hence the same size) -/
def ConsistentPack (store : List (Nat × Nat)) (blobsOf : Nat → List IndexBlob) (p : IndexPack) : Prop :=
  ∀ e ∈ store, e.1 = p.id → p.blobs = blobsOf p.id ∧ p.packSize = e.2

/-- invariant of both loops of `repair_index` (no `read_all`, consistent index entries) -/
structure RInv (store : List (Nat × Nat)) (blobsOf : Nat → List IndexBlob)
    (rem : List (Nat × Nat)) (toRead : List (Nat × Option Nat × Nat)) (fs : List IndexFile) : Prop where
  noRead : toRead = []
  nodup : (rem.map (·.1)).Nodup
  sub : ∀ e ∈ rem, e ∈ store
  good : ∀ p, Listed fs p → (∃ e ∈ store, e.1 = p.id) ∧ p.blobs = blobsOf p.id ∧ p.id ∉ rem.map (·.1)
  cover : ∀ e ∈ store, e ∈ rem ∨ ∃ p, Listed fs p ∧ p.id = e.1

theorem RInv.congr {store blobsOf rem toRead fs fs'} (h : RInv store blobsOf rem toRead fs)
    (hl : ∀ p, Listed fs' p ↔ Listed fs p) : RInv store blobsOf rem toRead fs' :=
  ⟨h.noRead, h.nodup, h.sub, fun p hp => h.good p ((hl p).mp hp),
   fun e he => (h.cover e he).imp id (fun ⟨p, hp, hid⟩ => ⟨p, (hl p).mpr hp, hid⟩)⟩

theorem listed_append_single (out : List IndexFile) (f : IndexFile) (p : IndexPack) :
    Listed (out ++ [f]) p ↔ Listed out p ∨ FileListed f p := by
  simp only [Listed, List.mem_append, List.mem_singleton]
  constructor
  · rintro ⟨g, hg | rfl, hp⟩
    · exact Or.inl ⟨g, hg, hp⟩
    · exact Or.inr hp
  · rintro (⟨g, hg, hp⟩ | hp)
    · exact ⟨g, Or.inl hg, hp⟩
    · exact ⟨f, Or.inr rfl, hp⟩

theorem fileListed_add (f : IndexFile) (q : IndexPack) (d : Bool) (p : IndexPack) :
    FileListed (f.add q d) p ↔ FileListed f p ∨ p = q := by
  cases d
  · simp only [IndexFile.add, FileListed, Bool.false_eq_true, if_false, List.mem_append, List.mem_singleton]
    constructor
    · rintro ((h | h) | h)
      · exact Or.inl (Or.inl h)
      · exact Or.inr h
      · exact Or.inl (Or.inr h)
    · rintro ((h | h) | h)
      · exact Or.inl (Or.inl h)
      · exact Or.inr h
      · exact Or.inl (Or.inr h)
  · simp only [IndexFile.add, FileListed, if_true, List.mem_append, List.mem_singleton]
    constructor
    · rintro (h | h | h)
      · exact Or.inl (Or.inl h)
      · exact Or.inl (Or.inr h)
      · exact Or.inr h
    · rintro ((h | h) | h)
      · exact Or.inl h
      · exact Or.inr (Or.inl h)
      · exact Or.inr (Or.inr h)

theorem checkOne_inv {store blobsOf} (out : List IndexFile) (a : CheckAcc) (pd : IndexPack × Bool)
    (hc : ConsistentPack store blobsOf pd.1)
    (h : RInv store blobsOf a.remaining a.toRead (out ++ [a.newIndex])) :
    RInv store blobsOf (checkOne false a pd).remaining (checkOne false a pd).toRead
      (out ++ [(checkOne false a pd).newIndex]) := by
  unfold checkOne
  cases hl : lookupRemove pd.1.id a.remaining with
  | none => exact h
  | some v =>
    obtain ⟨size, rest⟩ := v
    obtain ⟨hmem, hrest, hnd⟩ := lookupRemove_some h.nodup hl
    have hst := h.sub _ hmem
    obtain ⟨hb, hsz⟩ := hc _ hst rfl
    have hno : ¬ (pd.1.packSize ≠ size ∨ false = true) := by simp [hsz]
    simp only [hno, if_false]
    refine ⟨h.noRead, hnd, fun e he => h.sub e ((hrest e).mp he).1, ?_, ?_⟩
    · intro p hp
      rw [listed_append_single, fileListed_add, ← or_assoc, ← listed_append_single] at hp
      rcases hp with hp | rfl
      · obtain ⟨g1, g2, g3⟩ := h.good p hp
        refine ⟨g1, g2, ?_⟩
        intro hm
        obtain ⟨e, he, heq⟩ := List.mem_map.mp hm
        exact g3 (List.mem_map.mpr ⟨e, ((hrest e).mp he).1, heq⟩)
      · refine ⟨⟨_, hst, rfl⟩, hb, ?_⟩
        intro hm
        obtain ⟨e, he, heq⟩ := List.mem_map.mp hm
        exact ((hrest e).mp he).2 heq
    · intro e he
      rcases h.cover e he with hr | ⟨p, hp, hid⟩
      · by_cases hid : e.1 = pd.1.id
        · right
          refine ⟨pd.1, ?_, hid.symm⟩
          rw [listed_append_single, fileListed_add]
          exact Or.inr (Or.inr rfl)
        · exact Or.inl ((hrest e).mpr ⟨hr, hid⟩)
      · right
        refine ⟨p, ?_, hid⟩
        rw [listed_append_single, fileListed_add, ← or_assoc, ← listed_append_single]
        exact Or.inl hp


theorem foldl_checkOne_inv {store blobsOf} (out : List IndexFile) (L : List (IndexPack × Bool)) (a : CheckAcc)
    (hc : ∀ pd ∈ L, ConsistentPack store blobsOf pd.1)
    (h : RInv store blobsOf a.remaining a.toRead (out ++ [a.newIndex])) :
    RInv store blobsOf (L.foldl (checkOne false) a).remaining (L.foldl (checkOne false) a).toRead
      (out ++ [(L.foldl (checkOne false) a).newIndex]) := by
  induction L generalizing a with
  | nil => exact h
  | cons pd L ih =>
    rw [List.foldl_cons]
    exact ih _ (fun q hq => hc q (List.mem_cons_of_mem _ hq))
      (checkOne_inv out a pd (hc pd (List.mem_cons_self ..)) h)

/-- an unchanged file was kept entry by entry: the rebuilt file lists exactly what the old one listed -/
theorem foldl_checkOne_unchanged (readAll : Bool) (L : List (IndexPack × Bool)) (a : CheckAcc)
    (h : (L.foldl (checkOne readAll) a).changed = false) (p : IndexPack) :
    FileListed (L.foldl (checkOne readAll) a).newIndex p ↔ FileListed a.newIndex p ∨ ∃ d, (p, d) ∈ L := by
  induction L generalizing a with
  | nil => simp
  | cons pd L ih =>
    rw [List.foldl_cons] at h ⊢
    have mono : ∀ (L : List (IndexPack × Bool)) (b : CheckAcc), b.changed = true →
        (L.foldl (checkOne readAll) b).changed = true := by
      intro L
      induction L with
      | nil => intro b hb; exact hb
      | cons q L ihL =>
        intro b hb
        rw [List.foldl_cons]
        apply ihL
        unfold checkOne
        split
        · rfl
        · split <;> simp [hb]
    have hstep : (checkOne readAll a pd).changed = false := by
      cases hch : (checkOne readAll a pd).changed with
      | false => rfl
      | true => rw [mono L _ hch] at h; cases h
    rw [ih _ h]
    -- the step kept `pd`
    have hkeep : (checkOne readAll a pd).newIndex = a.newIndex.add pd.1 pd.2 := by
      unfold checkOne at hstep ⊢
      split at hstep
      · simp at hstep
      · split at hstep
        · simp at hstep
        · rename_i hl _ ; simp_all
    rw [hkeep, fileListed_add]
    simp only [List.mem_cons]
    constructor
    · rintro ((h1 | rfl) | ⟨d, hd⟩)
      · exact Or.inl h1
      · exact Or.inr ⟨pd.2, Or.inl rfl⟩
      · exact Or.inr ⟨d, Or.inr hd⟩
    · rintro (h1 | ⟨d, rfl | hd⟩)
      · exact Or.inl (Or.inl h1)
      · exact Or.inl (Or.inr rfl)
      · exact Or.inr ⟨d, hd⟩

theorem mem_allPacks (f : IndexFile) (p : IndexPack) : (∃ d, (p, d) ∈ f.allPacks) ↔ FileListed f p := by
  simp only [IndexFile.allPacks, FileListed, List.mem_append, List.mem_map, Prod.mk.injEq]
  constructor
  · rintro ⟨d, ⟨q, hq, rfl, _⟩ | ⟨q, hq, rfl, _⟩⟩
    · exact Or.inl hq
    · exact Or.inr hq
  · rintro (h | h)
    · exact ⟨false, Or.inl ⟨p, h, rfl, rfl⟩⟩
    · exact ⟨true, Or.inr ⟨p, h, rfl, rfl⟩⟩

theorem repairFile_inv {store blobsOf} (st : RepairAcc) (f : IndexFile)
    (hc : ∀ p, FileListed f p → ConsistentPack store blobsOf p)
    (h : RInv store blobsOf st.remaining st.toRead st.out) :
    RInv store blobsOf (repairFile false st f).remaining (repairFile false st f).toRead (repairFile false st f).out := by
  have h0 : RInv store blobsOf st.remaining st.toRead (st.out ++ [({ packs := [], packsToDelete := [] } : IndexFile)]) := by
    apply h.congr
    intro p
    rw [listed_append_single]
    simp [FileListed]
  have hfold := foldl_checkOne_inv st.out f.allPacks
    { remaining := st.remaining, toRead := st.toRead, newIndex := { packs := [], packsToDelete := [] }, changed := false }
    (fun pd hpd => hc pd.1 ((mem_allPacks f pd.1).mp ⟨pd.2, hpd⟩)) h0
  unfold repairFile
  simp only
  generalize hr : f.allPacks.foldl (checkOne false)
    { remaining := st.remaining, toRead := st.toRead, newIndex := { packs := [], packsToDelete := [] }, changed := false } = r
    at hfold
  apply hfold.congr
  intro p
  cases hch : r.changed with
  | true =>
    simp only [if_true]
    split
    · rename_i hempty
      rw [listed_append_single]
      simp only [Bool.and_eq_true, List.isEmpty_iff] at hempty
      simp [FileListed, hempty.1, hempty.2]
    · exact Iff.rfl
  | false =>
    simp only [Bool.false_eq_true, if_false]
    rw [listed_append_single, listed_append_single]
    have := foldl_checkOne_unchanged false f.allPacks _ (by rw [hr]; exact hch) p
    rw [hr] at this
    rw [this, mem_allPacks]
    simp [FileListed]


theorem foldl_repairFile_inv {store blobsOf} (files : List IndexFile) (st : RepairAcc)
    (hc : ∀ f ∈ files, ∀ p, FileListed f p → ConsistentPack store blobsOf p)
    (h : RInv store blobsOf st.remaining st.toRead st.out) :
    RInv store blobsOf (files.foldl (repairFile false) st).remaining (files.foldl (repairFile false) st).toRead
      (files.foldl (repairFile false) st).out := by
  induction files generalizing st with
  | nil => exact h
  | cons f fs ih =>
    rw [List.foldl_cons]
    exact ih _ (fun g hg => hc g (List.mem_cons_of_mem _ hg))
      (repairFile_inv st f (hc f (List.mem_cons_self ..)) h)

/-- `repair_index` (no `read_all`) on a store whose pack headers are readable, starting from ANY set of index files
whose entries agree with the packs they name (in particular: any subset of a consistent index, or none at all):
afterwards every listed pack is a stored pack with the blobs of its header, and every stored pack is listed. -/
theorem repairIndex_spec (readHeader : Nat → Option Nat → Nat → Option (List IndexBlob)) (store : List (Nat × Nat))
    (blobsOf : Nat → List IndexBlob) (files : List IndexFile)
    (hnd : (store.map (·.1)).Nodup)
    (hread : ∀ e ∈ store, ∀ hint, readHeader e.1 hint e.2 = some (blobsOf e.1))
    (hc : ∀ f ∈ files, ∀ p, FileListed f p → ConsistentPack store blobsOf p) :
    (∀ p, Listed (repairIndex readHeader store files false) p →
        (∃ e ∈ store, e.1 = p.id) ∧ p.blobs = blobsOf p.id) ∧
    (∀ e ∈ store, ∃ p, Listed (repairIndex readHeader store files false) p ∧ p.id = e.1) := by
  have hinit : RInv store blobsOf store [] [] :=
    ⟨rfl, hnd, fun e he => he, fun p hp => by obtain ⟨f, hf, _⟩ := hp; exact absurd hf (List.not_mem_nil),
     fun e he => Or.inl he⟩
  have hinv := foldl_repairFile_inv files { remaining := store, toRead := [], out := [] } hc hinit
  unfold repairIndex
  simp only
  generalize files.foldl (repairFile false) { remaining := store, toRead := [], out := [] } = st at hinv
  have hnew : (st.toRead ++ st.remaining.map (fun e => (e.1, (none : Option Nat), e.2))).filterMap
      (fun r => (readHeader r.1 r.2.1 r.2.2).map fun bl => ({ id := r.1, blobs := bl, size := none } : IndexPack)) =
      st.remaining.map (fun e => ({ id := e.1, blobs := blobsOf e.1, size := none } : IndexPack)) := by
    rw [hinv.noRead, List.nil_append, List.filterMap_map]
    have hsub := hinv.sub
    generalize st.remaining = rem at hsub
    induction rem with
    | nil => rfl
    | cons e es ih =>
      have he := hread e (hsub e (List.mem_cons_self ..)) none
      simp only [List.filterMap_cons, Function.comp, he, Option.map_some, List.map_cons]
      rw [ih (fun x hx => hsub x (List.mem_cons_of_mem _ hx))]
  rw [hnew]
  have hlisted : ∀ p, Listed (st.out ++ (if (st.remaining.map (fun e => ({ id := e.1, blobs := blobsOf e.1, size := none } : IndexPack))).isEmpty
        then [] else [{ packs := st.remaining.map (fun e => ({ id := e.1, blobs := blobsOf e.1, size := none } : IndexPack)), packsToDelete := [] }])) p ↔
      Listed st.out p ∨ ∃ e ∈ st.remaining, p = { id := e.1, blobs := blobsOf e.1, size := none } := by
    intro p
    split
    · rename_i hem
      have : st.remaining = [] := by simpa using hem
      simp [this]
    · rw [listed_append_single]
      simp only [FileListed, List.mem_map, List.not_mem_nil, or_false]
      constructor
      · rintro (h | ⟨e, he, rfl⟩)
        · exact Or.inl h
        · exact Or.inr ⟨e, he, rfl⟩
      · rintro (h | ⟨e, he, rfl⟩)
        · exact Or.inl h
        · exact Or.inr ⟨e, he, rfl⟩
  refine ⟨?_, ?_⟩
  · intro p hp
    rcases (hlisted p).mp hp with h | ⟨e, he, rfl⟩
    · exact ⟨(hinv.good p h).1, (hinv.good p h).2.1⟩
    · exact ⟨⟨e, hinv.sub e he, rfl⟩, rfl⟩
  · intro e he
    rcases hinv.cover e he with hr | ⟨p, hp, hid⟩
    · exact ⟨_, (hlisted _).mpr (Or.inr ⟨e, hr, rfl⟩), rfl⟩
    · exact ⟨p, (hlisted p).mpr (Or.inl hp), hid⟩


theorem checkOne_noMarks (readAll : Bool) (a : CheckAcc) (pd : IndexPack × Bool) (hd : pd.2 = false)
    (h : a.newIndex.packsToDelete = []) : (checkOne readAll a pd).newIndex.packsToDelete = [] := by
  unfold checkOne
  split
  · exact h
  · split
    · exact h
    · simp [IndexFile.add, hd, h]

theorem foldl_checkOne_noMarks (readAll : Bool) (L : List (IndexPack × Bool)) (a : CheckAcc)
    (hd : ∀ pd ∈ L, pd.2 = false) (h : a.newIndex.packsToDelete = []) :
    (L.foldl (checkOne readAll) a).newIndex.packsToDelete = [] := by
  induction L generalizing a with
  | nil => exact h
  | cons pd L ih =>
    rw [List.foldl_cons]
    exact ih _ (fun q hq => hd q (List.mem_cons_of_mem _ hq))
      (checkOne_noMarks readAll a pd (hd pd (List.mem_cons_self ..)) h)

theorem repairFile_noMarks (readAll : Bool) (st : RepairAcc) (f : IndexFile) (hf : f.packsToDelete = [])
    (h : ∀ g ∈ st.out, g.packsToDelete = []) : ∀ g ∈ (repairFile readAll st f).out, g.packsToDelete = [] := by
  have hnf := foldl_checkOne_noMarks readAll f.allPacks
    { remaining := st.remaining, toRead := st.toRead, newIndex := { packs := [], packsToDelete := [] }, changed := false }
    (by
      intro pd hpd
      simp only [IndexFile.allPacks, hf, List.map_nil, List.append_nil, List.mem_map] at hpd
      obtain ⟨q, _, rfl⟩ := hpd
      rfl) rfl
  unfold repairFile
  simp only
  intro g hg
  split at hg
  · split at hg
    · exact h g hg
    · rcases List.mem_append.mp hg with hg | hg
      · exact h g hg
      · simp only [List.mem_singleton] at hg; subst hg; exact hnf
  · rcases List.mem_append.mp hg with hg | hg
    · exact h g hg
    · simp only [List.mem_singleton] at hg; subst hg; exact hf

/-- if no remaining index file marks a pack for deletion, neither does the repaired index -/
theorem repairIndex_noMarks (readHeader : Nat → Option Nat → Nat → Option (List IndexBlob)) (store : List (Nat × Nat))
    (files : List IndexFile) (readAll : Bool) (hf : ∀ f ∈ files, f.packsToDelete = []) :
    ∀ g ∈ repairIndex readHeader store files readAll, g.packsToDelete = [] := by
  have key : ∀ (fs : List IndexFile) (st : RepairAcc), (∀ f ∈ fs, f.packsToDelete = []) →
      (∀ g ∈ st.out, g.packsToDelete = []) → ∀ g ∈ (fs.foldl (repairFile readAll) st).out, g.packsToDelete = [] := by
    intro fs
    induction fs with
    | nil => intro st _ h; exact h
    | cons f fs ih =>
      intro st hfs h
      rw [List.foldl_cons]
      exact ih _ (fun g hg => hfs g (List.mem_cons_of_mem _ hg))
        (repairFile_noMarks readAll st f (hfs f (List.mem_cons_self ..)) h)
  unfold repairIndex
  simp only
  intro g hg
  rcases List.mem_append.mp hg with hg | hg
  · exact key files _ hf (by simp) g hg
  · split at hg
    · cases hg
    · simp only [List.mem_singleton] at hg; subst hg; rfl

/-! ### the `dry_run` flag of `repair_index` (`repairFileD` / `repairIndexD`) -/

theorem repairFileD_false (readAll : Bool) (st : RepairAcc) (f : IndexFile) :
    repairFileD false readAll st f = repairFile readAll st f := by
  unfold repairFileD repairFile
  simp only
  split <;> simp_all

theorem repairIndexD_false (readHeader : Nat → Option Nat → Nat → Option (List IndexBlob)) (store : List (Nat × Nat))
    (files : List IndexFile) (readAll : Bool) :
    repairIndexD false readHeader store files readAll = repairIndex readHeader store files readAll := by
  have h : repairFileD false readAll = repairFile readAll := by
    funext st f; exact repairFileD_false readAll st f
  have hb : ∀ (x : Option (List IndexBlob)) (g : List IndexBlob → IndexPack),
      (x.bind fun a => some (g a)) = x.map g := by intro x g; cases x <;> rfl
  unfold repairIndexD repairIndex
  simp only [h, Bool.false_eq_true, if_false, hb]

theorem repairFileD_dry_out (readAll : Bool) (st : RepairAcc) (f : IndexFile) :
    (repairFileD true readAll st f).out = st.out ++ [f] := by
  unfold repairFileD
  simp only
  split <;> simp_all

theorem foldl_repairFileD_dry_out (readAll : Bool) (files : List IndexFile) (st : RepairAcc) :
    (files.foldl (repairFileD true readAll) st).out = st.out ++ files := by
  induction files generalizing st with
  | nil => simp
  | cons f fs ih => rw [List.foldl_cons, ih, repairFileD_dry_out]; simp

theorem repairIndexD_dry (readHeader : Nat → Option Nat → Nat → Option (List IndexBlob)) (store : List (Nat × Nat))
    (files : List IndexFile) (readAll : Bool) :
    repairIndexD true readHeader store files readAll = files := by
  unfold repairIndexD
  simp [foldl_repairFileD_dry_out]

theorem foldl_repairFileD_reads (d1 d2 readAll : Bool) (files : List IndexFile) (s1 s2 : RepairAcc)
    (hr : s1.remaining = s2.remaining) (ht : s1.toRead = s2.toRead) :
    (files.foldl (repairFileD d1 readAll) s1).remaining = (files.foldl (repairFileD d2 readAll) s2).remaining ∧
    (files.foldl (repairFileD d1 readAll) s1).toRead = (files.foldl (repairFileD d2 readAll) s2).toRead := by
  induction files generalizing s1 s2 with
  | nil => exact ⟨hr, ht⟩
  | cons f fs ih =>
    rw [List.foldl_cons, List.foldl_cons]
    apply ih
    · simp only [repairFileD, hr, ht]
    · simp only [repairFileD, hr, ht]

theorem repairReadsD_dry_irrelevant (d1 d2 : Bool) (store : List (Nat × Nat)) (files : List IndexFile) (readAll : Bool) :
    repairReadsD d1 store files readAll = repairReadsD d2 store files readAll := by
  unfold repairReadsD
  have h := foldl_repairFileD_reads d1 d2 readAll files { remaining := store, toRead := [], out := [] }
    { remaining := store, toRead := [], out := [] } rfl rfl
  simp only [h.1, h.2]

/-! ### `checkedPacks` (`to_indexed_checked`) = the unmarked listings of the repaired index -/

theorem checkOne_unchanged (readAll : Bool) (a : CheckAcc) (pd : IndexPack × Bool)
    (h : (checkOne readAll a pd).changed = false) :
    a.changed = false ∧ (checkOne readAll a pd).newIndex = a.newIndex.add pd.1 pd.2 := by
  unfold checkOne at h ⊢
  split
  · rename_i heq; simp [heq] at h
  · rename_i heq
    simp only [heq] at h
    split
    · rename_i hc; simp [hc] at h
    · rename_i hc; simp [hc] at h; exact ⟨h, rfl⟩

theorem filter_const_true {α : Type} (l : List α) : l.filter (fun _ => true) = l := by
  induction l <;> simp_all

theorem filter_const_false {α : Type} (l : List α) : l.filter (fun _ => false) = [] := by
  induction l <;> simp_all

theorem foldl_checkOne_unchanged_lists (readAll : Bool) (l : List (IndexPack × Bool)) (a : CheckAcc)
    (h : (l.foldl (checkOne readAll) a).changed = false) :
    a.changed = false ∧
    (l.foldl (checkOne readAll) a).newIndex.packs = a.newIndex.packs ++ (l.filter (fun pd => !pd.2)).map (·.1) ∧
    (l.foldl (checkOne readAll) a).newIndex.packsToDelete = a.newIndex.packsToDelete ++ (l.filter (fun pd => pd.2)).map (·.1) := by
  induction l generalizing a with
  | nil => simpa using h
  | cons pd l ih =>
    rw [List.foldl_cons] at h ⊢
    obtain ⟨hc, hp, hd⟩ := ih _ h
    obtain ⟨hc', hn⟩ := checkOne_unchanged readAll a pd hc
    refine ⟨hc', ?_, ?_⟩
    · rw [hp, hn]; obtain ⟨p, d⟩ := pd; cases d <;> simp [IndexFile.add]
    · rw [hd, hn]; obtain ⟨p, d⟩ := pd; cases d <;> simp [IndexFile.add]

theorem repairFile_out_unmarked (st : RepairAcc) (f : IndexFile) :
    unmarked (repairFile false st f).out = unmarked st.out ++
      (f.allPacks.foldl (checkOne false)
        { remaining := st.remaining, toRead := st.toRead, newIndex := { packs := [], packsToDelete := [] }, changed := false }).newIndex.packs := by
  unfold repairFile
  simp only
  generalize hr : f.allPacks.foldl (checkOne false)
    { remaining := st.remaining, toRead := st.toRead, newIndex := { packs := [], packsToDelete := [] }, changed := false } = r
  cases hch : r.changed
  · -- unchanged: the file stays, and the new index file lists what the file lists
    have h := foldl_checkOne_unchanged_lists false f.allPacks _ (by rw [hr]; exact hch)
    rw [hr] at h
    have hp := h.2.1
    simp only [IndexFile.allPacks, List.nil_append, List.filter_append, List.map_append] at hp
    simp [unmarked, hp, List.filter_map, Function.comp_def, filter_const_true, filter_const_false]
  · by_cases he : (r.newIndex.packs.isEmpty && r.newIndex.packsToDelete.isEmpty) = true
    · simp only [he, if_true]
      have : r.newIndex.packs = [] := by
        simp only [Bool.and_eq_true, List.isEmpty_iff] at he; exact he.1
      simp [this]
    · simp [he, unmarked]

theorem foldl_checkedFile_rel (files : List IndexFile) (c : RepairAcc × List IndexPack) (st : RepairAcc)
    (hr : c.1.remaining = st.remaining) (ht : c.1.toRead = st.toRead) (hu : c.2 = unmarked st.out) :
    (files.foldl checkedFile c).1.remaining = (files.foldl (repairFile false) st).remaining ∧
    (files.foldl checkedFile c).1.toRead = (files.foldl (repairFile false) st).toRead ∧
    (files.foldl checkedFile c).2 = unmarked (files.foldl (repairFile false) st).out := by
  induction files generalizing c st with
  | nil => exact ⟨hr, ht, hu⟩
  | cons f fs ih =>
    rw [List.foldl_cons, List.foldl_cons]
    apply ih
    · simp only [checkedFile, repairFile, hr, ht]
    · simp only [checkedFile, repairFile, hr, ht]
    · rw [repairFile_out_unmarked]
      simp only [checkedFile, hr, ht, hu]

theorem mapM_some_filterMap {α β : Type} (g : α → Option β) (l : List α) (r : List β) (h : l.mapM g = some r) :
    l.filterMap g = r := by
  induction l generalizing r with
  | nil => simpa using h.symm
  | cons a l ih =>
    rw [List.mapM_cons] at h
    cases hg : g a with
    | none => simp [hg] at h
    | some b =>
      cases hl : l.mapM g with
      | none => simp [hg, hl] at h
      | some r' =>
        simp [hg, hl] at h
        subst h
        simp [hg, ih r' hl]

/-- If `to_indexed_checked` succeeds (every needed header is readable), the packs it indexes are exactly the unmarked listings of
the index `repair_index` would write — same packs, same blobs, same order. -/
theorem checkedPacks_eq_repaired (readHeader : Nat → Option Nat → Nat → Option (List IndexBlob)) (store : List (Nat × Nat))
    (files : List IndexFile) (ps : List IndexPack) (h : checkedPacks readHeader store files = some ps) :
    ps = unmarked (repairIndex readHeader store files false) := by
  unfold checkedPacks at h
  obtain ⟨h1, h2, h3⟩ := foldl_checkedFile_rel files ({ remaining := store, toRead := [], out := [] }, [])
    { remaining := store, toRead := [], out := [] } rfl rfl (by simp [unmarked])
  simp only [h1, h2, h3] at h
  unfold repairIndex
  simp only
  generalize files.foldl (repairFile false) { remaining := store, toRead := [], out := [] } = st at h ⊢
  obtain ⟨np, hm, rfl⟩ := Option.map_eq_some_iff.mp h
  rw [mapM_some_filterMap _ _ _ hm]
  cases np <;> simp [unmarked]

end Rustic.Index
