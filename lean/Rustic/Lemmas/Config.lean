import Rustic.Model.Config
/-
Lemmas about `Model/Config.lean`: what each stage of `ConfigOptions::apply` can change, validation facts,
and the arithmetic of the repaired code vs. the code before the repair.
-/
namespace Rustic.Config

instance instDecEqExcept {ε α : Type} [DecidableEq ε] [DecidableEq α] : DecidableEq (Except ε α) := fun a b =>
  match a, b with
  | .ok x, .ok y => if h : x = y then isTrue (by rw [h]) else isFalse (by intro hh; cases hh; exact h rfl)
  | .error x, .error y => if h : x = y then isTrue (by rw [h]) else isFalse (by intro hh; cases hh; exact h rfl)
  | .ok _, .error _ => isFalse (by intro h; cases h)
  | .error _, .ok _ => isFalse (by intro h; cases h)

@[simp] theorem named_none {α : Type} (s : Option α) : named none s = s := rfl
@[simp] theorem named_some {α : Type} (v : α) (s : Option α) : named (some v) s = some v := rfl

theorem bind_ok {α β : Type} {x : Except Fail α} {f : α → Except Fail β} {b : β} :
    (x >>= f) = .ok b ↔ ∃ a, x = .ok a ∧ f a = .ok b := by
  cases x <;> simp [bind, Except.bind]

theorem bind_panic {α β : Type} {x : Except Fail α} {f : α → Except Fail β} {w : String} :
    (x >>= f) = .error (.panic w) ↔ x = .error (.panic w) ∨ ∃ a, x = .ok a ∧ f a = .error (.panic w) := by
  cases x <;> simp [bind, Except.bind]

/-! ### stages of `apply` -/

theorem applyVersion_ok {o : ConfigOptions} {c c1 : ConfigFile} (h : applyVersion o c = .ok c1) :
    c1 = { c with version := o.setVersion.getD c.version } ∧ c.version ≤ c1.version ∧
      (∀ v, o.setVersion = some v → 1 ≤ v ∧ v ≤ 2) := by
  unfold applyVersion at h
  cases hv : o.setVersion with
  | none =>
    simp only [hv] at h
    cases h
    simp
  | some v =>
    simp only [hv] at h
    split at h
    · cases h
    · split at h
      · cases h
      · cases h
        refine ⟨by simp, by simp; omega, ?_⟩
        intro v' hv'
        cases hv'
        omega

theorem applyVersion_no_panic (o : ConfigOptions) (c : ConfigFile) (w : String) :
    applyVersion o c ≠ .error (.panic w) := by
  intro hc; unfold applyVersion at hc
  split at hc
  · split at hc
    · cases hc
    · split at hc <;> cases hc
  · cases hc

theorem toUsize_ok {n m : Nat} (h : toUsize n = .ok m) : m = n := by
  unfold toUsize at h
  split at h
  · cases h; rfl
  · cases h

theorem toU32_ok {n m : Nat} (h : toU32 n = .ok m) : m = n := by
  unfold toU32 at h
  split at h
  · cases h; rfl
  · cases h

theorem toUsize_no_panic (n : Nat) (w : String) : toUsize n ≠ .error (.panic w) := by
  intro hn; unfold toUsize at hn; split at hn <;> cases hn

theorem toU32_no_panic (n : Nat) (w : String) : toU32 n ≠ .error (.panic w) := by
  intro hn; unfold toU32 at hn; split at hn <;> cases hn

theorem namedConv_ok {conv : Nat → Except Fail Nat} (hconv : ∀ n m, conv n = .ok m → m = n)
    {opt st r : Option Nat} (h : namedConv conv opt st = .ok r) : r = named opt st := by
  unfold namedConv at h
  cases opt with
  | none => cases h; rfl
  | some s =>
    simp only at h
    cases hc : conv s with
    | error e => simp [hc] at h
    | ok m =>
      simp only [hc] at h
      cases h
      rw [hconv s m hc]; rfl

theorem namedConv_no_panic {conv : Nat → Except Fail Nat} {w : String} (hconv : ∀ n, conv n ≠ .error (.panic w))
    (opt st : Option Nat) : namedConv conv opt st ≠ .error (.panic w) := by
  intro h
  unfold namedConv at h
  cases opt with
  | none => cases h
  | some s =>
    simp only at h
    cases hc : conv s with
    | error e =>
      simp only [hc] at h
      cases h
      exact hconv s hc
    | ok m => simp [hc] at h

theorem checkRabinParams_ok {size mn mx : Nat} (h : checkRabinParams size mn mx = .ok ()) :
    size ≠ 0 ∧ size &&& (size - 1) = 0 ∧ 0 < mn ∧ mn ≤ size ∧ size ≤ mx := by
  unfold checkRabinParams at h
  split at h
  · cases h
  · split at h
    · cases h
    · split at h
      · cases h
      · split at h
        · cases h
        · rename_i h1 h2 h3 h4
          refine ⟨fun h0 => h1 (Or.inl h0), ?_, by omega, by omega, by omega⟩
          exact Decidable.byContradiction (fun hne => h1 (Or.inr hne))

theorem checkRabinParams_no_panic (a b d : Nat) (w : String) : checkRabinParams a b d ≠ .error (.panic w) := by
  intro hh; unfold checkRabinParams at hh
  split at hh
  · cases hh
  · split at hh
    · cases hh
    · split at hh
      · cases hh
      · split at hh <;> cases hh

/-- The chunker settings the rest of the library will see are valid. -/
def ChunkerValid (c : ConfigFile) : Prop :=
  match c.chunkerOrDefault with
  | .rabin => c.chunkSizeOrDefault ≠ 0 ∧ c.chunkSizeOrDefault &&& (c.chunkSizeOrDefault - 1) = 0 ∧
      0 < c.chunkMinSizeOrDefault ∧ c.chunkMinSizeOrDefault ≤ c.chunkSizeOrDefault ∧
      c.chunkSizeOrDefault ≤ c.chunkMaxSizeOrDefault
  | .fixedSize => 0 < c.chunkSizeOrDefault

theorem validateChunker_ok {c c1 : ConfigFile} (h : validateChunker c = .ok c1) : c1 = c ∧ ChunkerValid c := by
  unfold validateChunker at h
  unfold ChunkerValid
  cases hk : c.chunkerOrDefault with
  | rabin =>
    simp only [hk] at h ⊢
    cases hr : checkRabinParams c.chunkSizeOrDefault c.chunkMinSizeOrDefault c.chunkMaxSizeOrDefault with
    | error e => simp [hr] at h
    | ok u =>
      simp only [hr] at h
      cases h
      exact ⟨rfl, checkRabinParams_ok (by cases u; exact hr)⟩
  | fixedSize =>
    simp only [hk] at h ⊢
    split at h
    · cases h
    · cases h
      exact ⟨rfl, by omega⟩

theorem validateChunker_no_panic (c : ConfigFile) (w : String) : validateChunker c ≠ .error (.panic w) := by
  intro h
  unfold validateChunker at h
  cases hk : c.chunkerOrDefault with
  | rabin =>
    simp only [hk] at h
    cases hr : checkRabinParams c.chunkSizeOrDefault c.chunkMinSizeOrDefault c.chunkMaxSizeOrDefault with
    | error e =>
      simp only [hr] at h
      cases h
      exact checkRabinParams_no_panic _ _ _ _ hr
    | ok u => simp [hr] at h
  | fixedSize =>
    simp only [hk] at h
    split at h <;> cases h

theorem applyChunker_ok {o : ConfigOptions} {c c1 : ConfigFile} (h : applyChunker o c = .ok c1) :
    c1 = { c with chunker := named o.setChunker c.chunker, chunkSize := named o.setChunkSize c.chunkSize,
                  chunkMinSize := named o.setChunkMinSize c.chunkMinSize,
                  chunkMaxSize := named o.setChunkMaxSize c.chunkMaxSize } ∧ ChunkerValid c1 := by
  unfold applyChunker at h
  simp only [bind_ok] at h
  obtain ⟨cs, h1, cmin, h2, cmax, h3, h4⟩ := h
  have e1 := namedConv_ok (fun _ _ => toUsize_ok) h1
  have e2 := namedConv_ok (fun _ _ => toUsize_ok) h2
  have e3 := namedConv_ok (fun _ _ => toUsize_ok) h3
  obtain ⟨e4, hv⟩ := validateChunker_ok h4
  subst e1 e2 e3
  rw [e4]
  exact ⟨rfl, hv⟩

theorem applyChunker_no_panic (o : ConfigOptions) (c : ConfigFile) (w : String) :
    applyChunker o c ≠ .error (.panic w) := by
  intro h
  unfold applyChunker at h
  simp only [bind_panic] at h
  rcases h with h | ⟨_, _, h | ⟨_, _, h | ⟨_, _, h⟩⟩⟩
  · exact namedConv_no_panic (fun n => toUsize_no_panic n w) _ _ h
  · exact namedConv_no_panic (fun n => toUsize_no_panic n w) _ _ h
  · exact namedConv_no_panic (fun n => toUsize_no_panic n w) _ _ h
  · exact validateChunker_no_panic _ _ h

theorem applyCompression_ok {o : ConfigOptions} {c c1 : ConfigFile} (h : applyCompression o c = .ok c1) :
    c1 = { c with compression := named o.setCompression c.compression } := by
  unfold applyCompression at h
  cases hv : o.setCompression with
  | none => simp only [hv] at h; cases h; rfl
  | some l =>
    simp only [hv] at h
    split at h
    · cases h
    · split at h
      · cases h
      · cases h; rfl

theorem applyCompression_no_panic (o : ConfigOptions) (c : ConfigFile) (w : String) :
    applyCompression o c ≠ .error (.panic w) := by
  intro hc; unfold applyCompression at hc
  split at hc
  · split at hc
    · cases hc
    · split at hc <;> cases hc
  · cases hc

theorem applyPackSizes_ok {o : ConfigOptions} {c c1 : ConfigFile} (h : applyPackSizes o c = .ok c1) :
    c1 = { c with appendOnly := named o.setAppendOnly c.appendOnly,
                  treepackSize := named o.setTreepackSize c.treepackSize,
                  treepackGrowfactor := named o.setTreepackGrowfactor c.treepackGrowfactor,
                  treepackSizeLimit := named o.setTreepackSizeLimit c.treepackSizeLimit,
                  datapackSize := named o.setDatapackSize c.datapackSize,
                  datapackGrowfactor := named o.setDatapackGrowfactor c.datapackGrowfactor,
                  datapackSizeLimit := named o.setDatapackSizeLimit c.datapackSizeLimit } := by
  unfold applyPackSizes at h
  simp only [bind_ok, pure, Except.pure] at h
  obtain ⟨ts, h1, tl, h2, ds, h3, dl, h4, h5⟩ := h
  have e1 := namedConv_ok (fun _ _ => toU32_ok) h1
  have e2 := namedConv_ok (fun _ _ => toU32_ok) h2
  have e3 := namedConv_ok (fun _ _ => toU32_ok) h3
  have e4 := namedConv_ok (fun _ _ => toU32_ok) h4
  subst e1 e2 e3 e4
  cases h5
  rfl

theorem applyPackSizes_no_panic (o : ConfigOptions) (c : ConfigFile) (w : String) :
    applyPackSizes o c ≠ .error (.panic w) := by
  intro h
  unfold applyPackSizes at h
  simp only [bind_panic, pure, Except.pure] at h
  rcases h with h | ⟨_, _, h | ⟨_, _, h | ⟨_, _, h | ⟨_, _, h⟩⟩⟩⟩
  · exact namedConv_no_panic (fun n => toU32_no_panic n w) _ _ h
  · exact namedConv_no_panic (fun n => toU32_no_panic n w) _ _ h
  · exact namedConv_no_panic (fun n => toU32_no_panic n w) _ _ h
  · exact namedConv_no_panic (fun n => toU32_no_panic n w) _ _ h
  · cases h

theorem applyMinPct_ok {o : ConfigOptions} {c c1 : ConfigFile} (h : applyMinPct o c = .ok c1) :
    c1 = { c with minPackPct := named o.setMinPackPct c.minPackPct } := by
  unfold applyMinPct at h
  cases hm : o.setMinPackPct with
  | none => simp only [hm] at h; cases h; rfl
  | some p =>
    simp only [hm] at h
    split at h
    · cases h
    · cases h; rfl

theorem applyMaxPct_ok {o : ConfigOptions} {c c1 : ConfigFile} (h : applyMaxPct o c = .ok c1) :
    c1 = { c with maxPackPct := named o.setMaxPackPct c.maxPackPct } := by
  unfold applyMaxPct at h
  cases hm : o.setMaxPackPct with
  | none => simp only [hm] at h; cases h; rfl
  | some p =>
    simp only [hm] at h
    split at h
    · cases h
    · cases h; rfl

theorem applyMinPct_no_panic (o : ConfigOptions) (c : ConfigFile) (w : String) : applyMinPct o c ≠ .error (.panic w) := by
  intro hc; unfold applyMinPct at hc
  split at hc
  · split at hc <;> cases hc
  · cases hc

theorem applyMaxPct_no_panic (o : ConfigOptions) (c : ConfigFile) (w : String) : applyMaxPct o c ≠ .error (.panic w) := by
  intro hc; unfold applyMaxPct at hc
  split at hc
  · split at hc <;> cases hc
  · cases hc

/-- What a successful `apply` returns, field by field. -/
def applied (o : ConfigOptions) (c : ConfigFile) : ConfigFile :=
  { c with version := o.setVersion.getD c.version,
           chunker := named o.setChunker c.chunker, chunkSize := named o.setChunkSize c.chunkSize,
           chunkMinSize := named o.setChunkMinSize c.chunkMinSize, chunkMaxSize := named o.setChunkMaxSize c.chunkMaxSize,
           compression := named o.setCompression c.compression,
           appendOnly := named o.setAppendOnly c.appendOnly,
           treepackSize := named o.setTreepackSize c.treepackSize,
           treepackGrowfactor := named o.setTreepackGrowfactor c.treepackGrowfactor,
           treepackSizeLimit := named o.setTreepackSizeLimit c.treepackSizeLimit,
           datapackSize := named o.setDatapackSize c.datapackSize,
           datapackGrowfactor := named o.setDatapackGrowfactor c.datapackGrowfactor,
           datapackSizeLimit := named o.setDatapackSizeLimit c.datapackSizeLimit,
           minPackPct := named o.setMinPackPct c.minPackPct, maxPackPct := named o.setMaxPackPct c.maxPackPct,
           extraVerify := named o.setExtraVerify c.extraVerify }

theorem apply_ok {o : ConfigOptions} {c c' : ConfigFile} (h : apply o c = .ok c') :
    c' = applied o c ∧ c.version ≤ c'.version ∧ (∀ v, o.setVersion = some v → 1 ≤ v ∧ v ≤ 2) ∧ ChunkerValid c' := by
  unfold apply at h
  simp only [bind_ok, pure, Except.pure] at h
  obtain ⟨c1, h1, c2, h2, c3, h3, c4, h4, c5, h5, c6, h6, h7⟩ := h
  obtain ⟨e1, hle, hrange⟩ := applyVersion_ok h1
  obtain ⟨e2, hvalid⟩ := applyChunker_ok h2
  have e3 := applyCompression_ok h3
  have e4 := applyPackSizes_ok h4
  have e5 := applyMinPct_ok h5
  have e6 := applyMaxPct_ok h6
  cases h7
  refine ⟨?_, ?_, hrange, ?_⟩
  · rw [e6, e5, e4, e3, e2, e1]; rfl
  · rw [e6, e5, e4, e3, e2]; exact hle
  · rw [e6, e5, e4, e3]; exact hvalid

/-! ### no stage can panic -/

theorem apply_no_panic (o : ConfigOptions) (c : ConfigFile) (w : String) : apply o c ≠ .error (.panic w) := by
  intro h
  unfold apply at h
  simp only [bind_panic, pure, Except.pure] at h
  rcases h with h | ⟨_, _, h | ⟨_, _, h | ⟨_, _, h | ⟨_, _, h | ⟨_, _, h | ⟨_, _, h⟩⟩⟩⟩⟩⟩
  · exact applyVersion_no_panic _ _ _ h
  · exact applyChunker_no_panic _ _ _ h
  · exact applyCompression_no_panic _ _ _ h
  · exact applyPackSizes_no_panic _ _ _ h
  · exact applyMinPct_no_panic _ _ _ h
  · exact applyMaxPct_no_panic _ _ _ h
  · cases h

/-! ### arithmetic: the repaired code agrees with the old code wherever the old code did not panic -/

theorem packSize_eq_old {p : PackSizer} {n : Nat} (h : p.packSizeOld = .ok n) : p.packSize = n := by
  unfold PackSizer.packSizeOld at h
  unfold PackSizer.packSize
  split at h
  · rename_i hg; cases h; simp [hg]
  · rename_i hg
    simp only at h
    split at h
    · cases h
    · split at h
      · cases h
      · cases h
        simp only [hg, if_false]
        rename_i h1 h2
        have a : min u32Max (isqrt p.currentSize * p.growFactor) = isqrt p.currentSize * p.growFactor := by omega
        rw [a]
        have b : min u32Max (isqrt p.currentSize * p.growFactor + p.defaultSize)
            = isqrt p.currentSize * p.growFactor + p.defaultSize := by omega
        rw [b]

theorem packSize_bounds (p : PackSizer) : p.packSize ≤ packMaxSize ∧ p.packSize ≤ p.sizeLimit := by
  unfold PackSizer.packSize
  simp only
  constructor
  · exact Nat.min_le_right _ _
  · exact Nat.le_trans (Nat.min_le_left _ _) (Nat.min_le_right _ _)

theorem packMaxSize_le_u32 : packMaxSize ≤ u32Max := by decide

theorem maxUnusedLimit_eq_old {r : Bool} {l : LimitOption} {used n : Nat}
    (h : maxUnusedLimitOld r l used = .ok n) : maxUnusedLimit r l used = n := by
  unfold maxUnusedLimitOld at h
  unfold maxUnusedLimit
  split at h
  · cases h; simp [*]
  · rename_i hr
    simp only [hr, if_false, Bool.false_eq_true]
    cases l with
    | unlimited => cases h; rfl
    | size s => cases h; rfl
    | percentage p =>
      simp only at h
      split at h
      · cases h
      · split at h
        · cases h
        · split at h
          · cases h
          · cases h
            rename_i h1 h2 h3
            have : ¬ p ≥ 100 := by omega
            simp only [this, if_false]
            have : min u64Max (p * used) = p * used := by omega
            rw [this]

theorem maxRepackLimit_eq_old {l : LimitOption} {total n : Nat}
    (h : maxRepackLimitOld l total = .ok n) : maxRepackLimit l total = n := by
  unfold maxRepackLimitOld at h
  unfold maxRepackLimit
  cases l with
  | unlimited => cases h; rfl
  | size s => cases h; rfl
  | percentage p =>
    simp only at h
    split at h
    · cases h
    · cases h
      rename_i h1
      have : min u64Max (p * total) = p * total := by omega
      simp only [this]

theorem maxUnusedLimit_le (r : Bool) (l : LimitOption) (used : Nat)
    (hs : ∀ s, l = .size s → s ≤ u64Max) : maxUnusedLimit r l used ≤ u64Max := by
  unfold maxUnusedLimit
  split
  · simp [u64Max]
  · cases l with
    | unlimited => exact Nat.le_refl _
    | size s => exact hs s rfl
    | percentage p =>
      simp only
      split
      · exact Nat.le_refl _
      · exact Nat.le_trans (Nat.div_le_self _ _) (Nat.min_le_left _ _)

theorem maxRepackLimit_le (l : LimitOption) (total : Nat)
    (hs : ∀ s, l = .size s → s ≤ u64Max) : maxRepackLimit l total ≤ u64Max := by
  unfold maxRepackLimit
  cases l with
  | unlimited => exact Nat.le_refl _
  | size s => exact hs s rfl
  | percentage p => exact Nat.le_trans (Nat.div_le_self _ _) (Nat.min_le_left _ _)

/-- What a percentage means for `max_unused` (the comment in `decide_repack`): an amount of unused data is
within the limit exactly when it is at most `p` % of the repository size *after* pruning (`used + unused`),
as long as the product fits u64 (otherwise the saturated product makes the limit smaller, never larger:
`maxUnusedLimit_pct_sound`). -/
theorem maxUnusedLimit_pct_meaning {p used unused : Nat} (hp : p < 100) (hfit : p * used ≤ u64Max) :
    unused ≤ maxUnusedLimit false (.percentage p) used ↔ 100 * unused ≤ p * (used + unused) := by
  have hnp : ¬ p ≥ 100 := by omega
  have hmin : min u64Max (p * used) = p * used := by omega
  simp only [maxUnusedLimit, Bool.false_eq_true, if_false, hnp, hmin]
  rw [Nat.le_div_iff_mul_le (by omega : 0 < 100 - p), Nat.mul_add, Nat.mul_sub]
  have : p * unused ≤ 100 * unused := Nat.mul_le_mul_right _ (by omega)
  have e1 : unused * 100 = 100 * unused := Nat.mul_comm _ _
  have e2 : unused * p = p * unused := Nat.mul_comm _ _
  omega

/-- Saturation only tightens the limit: whatever is within the computed limit is within `p` %. -/
theorem maxUnusedLimit_pct_sound {p used unused : Nat} (hp : p < 100)
    (h : unused ≤ maxUnusedLimit false (.percentage p) used) : 100 * unused ≤ p * (used + unused) := by
  have hnp : ¬ p ≥ 100 := by omega
  simp only [maxUnusedLimit, Bool.false_eq_true, if_false, hnp] at h
  rw [Nat.le_div_iff_mul_le (by omega : 0 < 100 - p)] at h
  have h2 : unused * (100 - p) ≤ p * used := Nat.le_trans h (Nat.min_le_right _ _)
  rw [Nat.mul_sub, Nat.mul_add] at *
  have : p * unused ≤ 100 * unused := Nat.mul_le_mul_right _ (by omega)
  have e1 : unused * 100 = 100 * unused := Nat.mul_comm _ _
  have e2 : unused * p = p * unused := Nat.mul_comm _ _
  omega

/-- `max_repack` as a percentage: `x` bytes are within the limit iff they are at most `p` % of the total. -/
theorem maxRepackLimit_pct_meaning {p total x : Nat} (hfit : p * total ≤ u64Max) :
    x ≤ maxRepackLimit (.percentage p) total ↔ 100 * x ≤ p * total := by
  have hmin : min u64Max (p * total) = p * total := by omega
  simp only [maxRepackLimit, hmin]
  rw [Nat.le_div_iff_mul_le (by omega : 0 < 100), Nat.mul_comm]

theorem checkRabinParams_eq_old {size mn mx : Nat} (hmn : mn ≠ 0) (hs : size ≠ 0) :
    checkRabinParams size mn mx = checkRabinParamsOld size mn mx := by
  unfold checkRabinParams checkRabinParamsOld
  simp [hmn, hs]

/-! ### `apply` on its `&mut` target, and the handle's in-memory copy -/

/-- the result of a `&mut` run, read as the `Result` the function returned. -/
def resultOf (r : ConfigFile × Option Fail) : Except Fail ConfigFile :=
  match r with
  | (c, none) => .ok c
  | (_, some e) => .error e

theorem resultOf_runMut (fs : List (ConfigFile → Except Fail ConfigFile)) (c : ConfigFile) :
    resultOf (runMut fs c) = fs.foldlM (fun c f => f c) c := by
  induction fs generalizing c with
  | nil => rfl
  | cons f fs ih =>
    simp only [runMut, List.foldlM_cons]
    cases h : f c with
    | ok c' => simpa [bind, Except.bind] using ih c'
    | error e => simp [resultOf, bind, Except.bind]

theorem ok_bind {α β : Type} (a : α) (f : α → Except Fail β) : (Except.ok a : Except Fail α) >>= f = f a := rfl

theorem map_bind {α β γ : Type} (f : α → β) (x : Except Fail α) (g : β → Except Fail γ) :
    (Except.map f x) >>= g = x >>= fun v => g (f v) := by
  cases x <;> rfl

theorem apply_eq_steps (o : ConfigOptions) (c : ConfigFile) :
    apply o c = (applySteps o).foldlM (fun c f => f c) c := by
  simp only [apply, applyChunker, applyPackSizes, applySteps, List.foldlM_cons, List.foldlM_nil, bind_assoc, pure_bind,
    ok_bind, map_bind]

/-- `apply` (the model used by the C18 theorems) is `applyMut` read as a result: same success value, same error. -/
theorem apply_eq_applyMut (o : ConfigOptions) (c : ConfigFile) : apply o c = resultOf (applyMut o c) := by
  rw [applyMut, resultOf_runMut, apply_eq_steps]

theorem applyMut_ok {o : ConfigOptions} {c c' : ConfigFile} : applyMut o c = (c', none) ↔ apply o c = .ok c' := by
  rw [apply_eq_applyMut]
  cases h : applyMut o c with
  | mk a b => cases b <;> simp [resultOf]

theorem applyMut_err {o : ConfigOptions} {c : ConfigFile} {e : Fail} :
    (applyMut o c).2 = some e ↔ apply o c = .error e := by
  rw [apply_eq_applyMut]
  cases h : applyMut o c with
  | mk a b => cases b <;> simp [resultOf]

/-- with the in-memory copy equal to the stored config, `applyConfigH` is `applyConfig` and the copy follows the store. -/
theorem applyConfigH_eq_applyConfig (st : Store) (o : ConfigOptions) :
    applyConfigH st.config st o = ((applyConfig st o).1.config, applyConfig st o) := by
  unfold applyConfigH applyConfig
  split
  · rfl
  · rw [apply_eq_applyMut]
    cases h : applyMut o st.config with
    | mk a b =>
      cases b with
      | some e => simp [resultOf]
      | none =>
        simp only [resultOf]
        split <;> simp_all

/-- a refused `apply_config` leaves the handle's in-memory config, the stored config and the write count as they were
(for ANY in-memory copy, coherent with the store or not). -/
theorem applyConfigH_refused {mem : ConfigFile} {st : Store} {o : ConfigOptions} {e : Fail}
    (h : (applyConfigH mem st o).2.2 = .error e) :
    (applyConfigH mem st o).1 = mem ∧ (applyConfigH mem st o).2.1 = st := by
  unfold applyConfigH at h ⊢
  by_cases hg : mem.appendOnly = some true ∧ o.setAppendOnly ≠ some false
  · simp [if_pos hg]
  · simp only [if_neg hg] at h ⊢
    cases hm : applyMut o mem with
    | mk a b =>
      simp only [hm] at h ⊢
      cases b with
      | some e' => simp
      | none =>
        by_cases hc : a = mem
        · simp [hc] at h
        · simp [hc] at h

/-- `Ok(false)` changes nothing either; `Ok(true)` installs the same config in memory and in the store. -/
theorem applyConfigH_ok {mem : ConfigFile} {st : Store} {o : ConfigOptions} {b : Bool}
    (h : (applyConfigH mem st o).2.2 = .ok b) :
    (b = false ∧ (applyConfigH mem st o).1 = mem ∧ (applyConfigH mem st o).2.1 = st) ∨
    (b = true ∧ (applyConfigH mem st o).2.1.config = (applyConfigH mem st o).1 ∧
      apply o mem = .ok (applyConfigH mem st o).1) := by
  unfold applyConfigH at h ⊢
  by_cases hg : mem.appendOnly = some true ∧ o.setAppendOnly ≠ some false
  · simp [if_pos hg] at h
  · simp only [if_neg hg] at h ⊢
    cases hm : applyMut o mem with
    | mk a c =>
      have hap := applyMut_ok (o := o) (c := mem) (c' := a)
      simp only [hm] at h ⊢ hap
      cases c with
      | some e' => simp at h
      | none =>
        have hap' := hap.1 rfl
        by_cases hc : a = mem
        · simp only [hc, if_true] at h ⊢
          have : b = false := by simpa using h.symm
          exact .inl ⟨this, by simp, by simp⟩
        · simp only [hc, if_false] at h ⊢
          have : b = true := by simpa using h.symm
          exact .inr ⟨this, by simp, by simpa using hap'⟩

end Rustic.Config
