/- Lemmas: the failing-reader iterator (`Model/ChunkerErr.lean`) against the declarative `chunksSpec`. -/
import Rustic.Model.ChunkerErr
import Rustic.Lemmas.Chunker
namespace Rustic.Chunker
variable {σ : Type}

theorem chunksSpec_short (r : Roll σ) (p : Params) (hmin : 0 < p.min) (bs : Bytes) (hne : bs ≠ [])
    (hs : bs.length < p.min) : chunksSpec r p bs = [bs] := by
  rw [chunksSpec_cons r p bs hne hmin, cut_short r p bs hs, List.take_of_length_le (Nat.le_refl _),
    List.drop_of_length_le (Nat.le_refl _), chunksSpec_nil]

/-- A failing reader: the consumer ends with the error, and the chunks it got before are the chunks of the delivered
bytes except possibly the last one (the one the end of the data would have cut). -/
theorem runE_failing_spec (r : Roll σ) (p : Params) (hmin : 0 < p.min) :
    ∀ (fuel : Nat) (st : St), st.Inv → st.finished = false → st.src.pending.length + 1 < fuel →
      (runE true r p fuel st).2 = .error ∧
      ∃ tail, chunksSpec r p st.src.pending = (runE true r p fuel st).1 ++ tail ∧ tail.length ≤ 1 := by
  intro fuel
  induction fuel with
  | zero => intro st _ _ h; omega
  | succ fuel ih =>
    intro st hi hf hfuel
    rcases Nat.lt_or_ge st.src.pending.length p.min with hs | hs
    · obtain ⟨_, h2, _⟩ := next_short r p st hf hs
      have hn : nextE true r p st = (some .err, { (next r p st).2 with finished := false }) := by
        simp [nextE, hf, h2]
      simp only [runE, hn, true_and]
      by_cases hp : st.src.pending = []
      · exact ⟨[], by rw [hp, chunksSpec_nil]; rfl, by simp⟩
      · exact ⟨[st.src.pending], by rw [chunksSpec_short r p hmin _ hp hs]; rfl, by simp⟩
    · obtain ⟨h1, h2, h3⟩ := next_long r p st hf hi hs
      have hne : st.src.pending ≠ [] := by
        intro h; rw [h] at hs; simp at hs; omega
      have hcp := cut_pos r p st.src.pending hne hmin
      cases hfin : (next r p st).2.finished with
      | true =>
        have hn : nextE true r p st = (some .err, { (next r p st).2 with finished := false }) := by
          simp [nextE, hf, hfin]
        simp only [runE, hn, true_and]
        refine ⟨[st.src.pending.take (cut r p st.src.pending)], ?_, by simp⟩
        have hp' := h3.2 hfin
        rw [h2] at hp'
        rw [chunksSpec_cons r p _ hne hmin, hp', chunksSpec_nil]; rfl
      | false =>
        have hn : nextE true r p st = (some (.chunk (st.src.pending.take (cut r p st.src.pending))), (next r p st).2) := by
          simp [nextE, hf, hfin, h1]
        have hlen : (next r p st).2.src.pending.length + 1 < fuel := by
          rw [h2, List.length_drop]; omega
        obtain ⟨ho, tail, ht, hl⟩ := ih (next r p st).2 h3 hfin hlen
        simp only [runE, hn]
        refine ⟨ho, tail, ?_, hl⟩
        rw [chunksSpec_cons r p _ hne hmin, ← h2, ht]; rfl

/-- A reader that does not fail: the consumer ends with `None` and has the chunks of `Model/Chunker.run`. -/
theorem runE_ok_spec (r : Roll σ) (p : Params) (hmin : 0 < p.min) :
    ∀ (fuel : Nat) (st : St), st.Inv → st.src.pending.length + 1 < fuel →
      runE false r p fuel st = (chunksSpec r p st.src.pending, .done) := by
  intro fuel
  induction fuel with
  | zero => intro st _ h; omega
  | succ fuel ih =>
    intro st hi hfuel
    cases hf : st.finished with
    | true =>
      have hp := hi.2 hf
      simp [runE, nextE, hf, hp, chunksSpec_nil]
    | false =>
      rcases Nat.lt_or_ge st.src.pending.length p.min with hs | hs
      · obtain ⟨h1, h2, h3⟩ := next_short r p st hf hs
        by_cases hp : st.src.pending = []
        · rw [if_pos hp] at h1
          have hn : nextE false r p st = (none, (next r p st).2) := by simp [nextE, hf, h1]
          simp only [runE, hn, hp, chunksSpec_nil]
        · rw [if_neg hp] at h1
          have hn : nextE false r p st = (some (.chunk st.src.pending), (next r p st).2) := by simp [nextE, hf, h1]
          have hi' : (next r p st).2.Inv := ⟨by
            have := (firstPhase_spec p st.src).2.2
            unfold next; simp only [hf, Bool.false_eq_true, if_false]
            split
            · simpa [this] using hi.1
            · rename_i hnlt
              exact absurd (by rw [(firstPhase_spec p st.src).1, List.length_take]; omega) hnlt, fun _ => h3⟩
          have hpos : 0 < st.src.pending.length := List.length_pos_iff.mpr hp
          have := ih (next r p st).2 hi' (by rw [h3]; simp; omega)
          simp only [runE, hn, this, h3, chunksSpec_nil, chunksSpec_short r p hmin _ hp hs]
      · obtain ⟨h1, h2, h3⟩ := next_long r p st hf hi hs
        have hne : st.src.pending ≠ [] := by
          intro h; rw [h] at hs; simp at hs; omega
        have hcp := cut_pos r p st.src.pending hne hmin
        have hn : nextE false r p st = (some (.chunk (st.src.pending.take (cut r p st.src.pending))), (next r p st).2) := by
          simp [nextE, hf, h1]
        have hlen : (next r p st).2.src.pending.length + 1 < fuel := by
          rw [h2, List.length_drop]; omega
        have := ih (next r p st).2 h3 hlen
        simp only [runE, hn, this]
        rw [chunksSpec_cons r p _ hne hmin, ← h2]

/-- fixed-size chunker on a failing reader -/
theorem fixedRunE_failing_spec (size : Nat) (hs : 0 < size) :
    ∀ (fuel : Nat) (st : FSt), st.finished = false → st.rest.length + 1 < fuel →
      (fixedRunE true size fuel st).2 = .error ∧
      ∃ tail, fixedSpec size st.rest = (fixedRunE true size fuel st).1 ++ tail ∧ tail.length ≤ 1 := by
  intro fuel
  induction fuel with
  | zero => intro st _ h; omega
  | succ fuel ih =>
    intro st hf hfuel
    by_cases hne : st.rest = []
    · have hn : fixedNextE true size st = (some .err, { rest := [], finished := false }) := by
        simp [fixedNextE, fixedNext, hf, hne, hs]
      simp only [fixedRunE, hn, true_and]
      exact ⟨[], by rw [hne, fixedSpec_nil]; rfl, by simp⟩
    · have hl : 0 < st.rest.length := List.length_pos_iff.mpr hne
      have hte : (st.rest.take size).isEmpty = false := by
        cases hr : st.rest with
        | nil => exact absurd hr hne
        | cons a l =>
          obtain ⟨c, rfl⟩ : ∃ c, size = c + 1 := ⟨size - 1, by omega⟩
          simp
      have hnx : fixedNext size st = (some (st.rest.take size),
          { rest := st.rest.drop size, finished := decide ((st.rest.take size).length < size) }) := by
        unfold fixedNext; simp [hf, hte]
      by_cases hshort : (st.rest.take size).length < size
      · -- the reader ran dry inside this chunk: error, the partial chunk is dropped
        have hshort' : min size st.rest.length < size := by simpa [List.length_take] using hshort
        have hn : fixedNextE true size st = (some .err, { rest := st.rest.drop size, finished := false }) := by
          simp [fixedNextE, hf, hnx, hshort']
        simp only [fixedRunE, hn, true_and]
        refine ⟨[st.rest.take size], ?_, by simp⟩
        have hd : st.rest.drop size = [] := by
          apply List.drop_of_length_le
          simp only [List.length_take] at hshort; omega
        rw [fixedSpec_cons size _ hne hs, hd, fixedSpec_nil]; rfl
      · have hshort' : ¬ min size st.rest.length < size := by simpa [List.length_take] using hshort
        have hn : fixedNextE true size st = (some (.chunk (st.rest.take size)),
            { rest := st.rest.drop size, finished := false }) := by
          simp [fixedNextE, hf, hnx, hshort']
        obtain ⟨ho, tail, ht, hl'⟩ := ih { rest := st.rest.drop size, finished := false } rfl
          (by simp only [List.length_drop]; omega)
        simp only [fixedRunE, hn]
        refine ⟨ho, tail, ?_, hl'⟩
        rw [fixedSpec_cons size _ hne hs]
        simp only at ht
        rw [ht]; rfl

end Rustic.Chunker
