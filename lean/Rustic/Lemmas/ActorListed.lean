/-
Packer / file-writer / indexer actor model (`Model/PackerActor.lean`; the indexer event adds AND auto-saves in one step — the code holds
the indexer's write lock across `add_with`, see `Model/IndexerLock.lean` for why that matters): when the command returns `Ok`, every
pack any packer handed to its file writer is a stored pack file listed by a stored index file — for every schedule (C13).
-/
import Rustic.Lemmas.PackerActor
namespace Rustic.PackerActor
open Rustic.Repo

theorem addToIndexer_result (maxCount : Nat) (s : St) (w : Nat) (p : Pack) (age ok : Bool) :
    (addToIndexer maxCount s w p age ok).result = s.result := by
  unfold addToIndexer
  split
  · split <;> simp [setWr]
  · rfl

/-- a step that ends with result `Ok` either met that result already or is the successful `finish`, which leaves no unsaved index entries -/
theorem step_ok_file (maxCount : Nat) (s : St) (e : Ev) (h : (step maxCount s e).result = some true) :
    s.result = some true ∨ (step maxCount s e).file = [] := by
  cases e with
  | send w p =>
    left
    simp only [step] at h
    split at h
    · exact h
    · simpa [setWr] using h
  | write w ok =>
    left
    simp only [step] at h
    split at h
    · exact h
    · split at h
      · exact h
      · split at h <;> simpa [setWr] using h
  | index w age ok =>
    left
    simp only [step] at h
    split at h
    · exact h
    · split at h
      · exact h
      · simpa [setWr] using h
      · rw [addToIndexer_result] at h
        simpa [setWr] using h
  | finish snap okIdx okSnap =>
    simp only [step] at h ⊢
    split at h
    · left; exact h
    · split at h
      · simp at h
      · split at h
        · left; exact h
        · split at h
          · simp at h
          · split at h
            · right
              rename_i h1 h2 h3 h4 h5
              simp [h1, h2, h3, h4, h5]
            · simp at h

structure OkInv (s : St) : Prop where
  sound : Sound s
  report : Report s
  sent : Bad s ∨ ∀ p ∈ s.sent, InFlight s p ∨ Done s p
  file : s.result = some true → s.file = []

theorem okInv_step (maxCount : Nat) (s : St) (e : Ev) (h : OkInv s) : OkInv (step maxCount s e) := by
  refine ⟨sound_step maxCount s e h.sound, report_step maxCount s e h.report, sent_step maxCount s e h.sound h.sent, ?_⟩
  intro hr
  rcases step_ok_file maxCount s e hr with h0 | hf
  · rw [step_noop maxCount s e h0 (h.report.okq h0)]
    exact h.file h0
  · exact hf

theorem okInv_run (maxCount : Nat) : ∀ (evs : List Ev) (s : St), OkInv s → OkInv (run maxCount s evs)
  | [], _, h => h
  | e :: evs, s, h => okInv_run maxCount evs (step maxCount s e) (okInv_step maxCount s e h)

theorem okInv_init (r : Repo) (n : Nat) (h : LW r) : OkInv (init r n) :=
  ⟨sound_init r n h, report_init r n, Or.inr (fun _ hp => by simp [init] at hp), fun hr => by simp [init] at hr⟩

/-- in a state with result `Ok` every pack handed to a writer is stored and listed by a stored index file -/
theorem listed_of_ok {s : St} (h : OkInv s) (hr : s.result = some true) :
    ∀ p ∈ s.sent, p ∈ s.repo.packs ∧ ∃ i ∈ s.repo.indexes, idxPackOf p ∈ i.packs := by
  intro p hp
  have hd := done_of_quiet (h.report.okq hr) h.sent p hp
  refine ⟨hd.1, ?_⟩
  rcases hd.2 with hf | hi
  · rw [h.file hr] at hf; cases hf
  · exact hi

end Rustic.PackerActor
