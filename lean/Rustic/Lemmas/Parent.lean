/-
Lemmas for C11: the name order, the cursor walk `p_node` vs. lookup by name, and the refinement of the
cursor-carrying `Parent` (`Rustic.Parent.run`) by the cursor-free specification (`specRun`).
-/
import Rustic.Model.Parent
namespace Rustic.Parent
open Rustic.Tree

/-! ### `cmpName` is a strict total order -/

def nameLt (a b : Name) : Prop := cmpName a b = .lt
def nameLe (a b : Name) : Prop := cmpName a b ≠ .gt

private theorem u8_lt_irrefl (a : UInt8) : ¬ a < a := by
  rw [UInt8.lt_iff_toNat_lt]; omega

private theorem u8_eq_of_not_lt {a b : UInt8} (h1 : ¬ a < b) (h2 : ¬ b < a) : a = b := by
  rw [UInt8.lt_iff_toNat_lt] at h1 h2
  exact UInt8.toNat_inj.mp (by omega)

private theorem u8_lt_trans {a b c : UInt8} (h1 : a < b) (h2 : b < c) : a < c := by
  rw [UInt8.lt_iff_toNat_lt] at *; omega

private theorem u8_lt_asymm {a b : UInt8} (h1 : a < b) : ¬ b < a := by
  rw [UInt8.lt_iff_toNat_lt] at *; omega

theorem cmpName_eq_iff : ∀ (a b : Name), cmpName a b = .eq ↔ a = b
  | [], [] => by simp [cmpName]
  | [], _ :: _ => by simp [cmpName]
  | _ :: _, [] => by simp [cmpName]
  | x :: xs, y :: ys => by
    simp only [cmpName]
    by_cases h1 : x < y
    · simp only [h1, if_true]
      constructor
      · intro h; cases h
      · intro h; injection h with hx _; subst hx; exact absurd h1 (u8_lt_irrefl _)
    · by_cases h2 : y < x
      · simp only [h1, h2, if_true, if_false]
        constructor
        · intro h; cases h
        · intro h; injection h with hx _; subst hx; exact absurd h2 (u8_lt_irrefl _)
      · simp only [h1, h2, if_false]
        have := u8_eq_of_not_lt h1 h2
        subst this
        rw [cmpName_eq_iff xs ys]
        constructor
        · intro h; rw [h]
        · intro h; injection h

theorem cmpName_swap : ∀ (a b : Name), cmpName a b = .gt ↔ cmpName b a = .lt
  | [], [] => by simp [cmpName]
  | [], _ :: _ => by simp [cmpName]
  | _ :: _, [] => by simp [cmpName]
  | x :: xs, y :: ys => by
    simp only [cmpName]
    by_cases h1 : x < y
    · have h2 := u8_lt_asymm h1
      simp [h1, h2]
    · by_cases h2 : y < x
      · simp [h1, h2]
      · simp only [h1, h2, if_false]
        exact cmpName_swap xs ys

theorem nameLt_trans : ∀ {a b c : Name}, nameLt a b → nameLt b c → nameLt a c
  | [], [], _, h, _ => by simp [nameLt, cmpName] at h
  | [], _ :: _, [], _, h => by simp [nameLt, cmpName] at h
  | [], _ :: _, _ :: _, _, _ => by simp [nameLt, cmpName]
  | _ :: _, [], _, h, _ => by simp [nameLt, cmpName] at h
  | _ :: _, _ :: _, [], _, h => by simp [nameLt, cmpName] at h
  | x :: xs, y :: ys, z :: zs, h1, h2 => by
    simp only [nameLt, cmpName] at h1 h2 ⊢
    by_cases hxy : x < y
    · by_cases hyz : y < z
      · simp [u8_lt_trans hxy hyz]
      · by_cases hzy : z < y
        · simp [hyz, hzy] at h2
        · have := u8_eq_of_not_lt hyz hzy; subst this; simp [hxy]
    · by_cases hyx : y < x
      · simp [hxy, hyx] at h1
      · have := u8_eq_of_not_lt hxy hyx; subst this
        simp only [hxy, hyx, if_false] at h1
        by_cases hyz : x < z
        · simp [hyz]
        · by_cases hzy : z < x
          · simp [hyz, hzy] at h2
          · simp only [hyz, hzy, if_false] at h2 ⊢
            exact nameLt_trans (a := xs) (b := ys) (c := zs) h1 h2

theorem nameLt_ne {a b : Name} (h : nameLt a b) : a ≠ b := by
  intro e; subst e
  have := (cmpName_eq_iff a a).mpr rfl
  simp [nameLt, this] at h

theorem nameLe_refl (a : Name) : nameLe a a := by
  simp [nameLe, (cmpName_eq_iff a a).mpr rfl]

theorem nameLe_iff {a b : Name} : nameLe a b ↔ nameLt a b ∨ a = b := by
  unfold nameLe nameLt
  rw [← cmpName_eq_iff]
  cases cmpName a b <;> simp

theorem nameLt_of_lt_of_le {a b c : Name} (h1 : nameLt a b) (h2 : nameLe b c) : nameLt a c := by
  rcases nameLe_iff.mp h2 with h | h
  · exact nameLt_trans h1 h
  · subst h; exact h1

theorem nameLe_trans {a b c : Name} (h1 : nameLe a b) (h2 : nameLe b c) : nameLe a c := by
  rcases nameLe_iff.mp h1 with h | h
  · exact nameLe_iff.mpr (Or.inl (nameLt_of_lt_of_le h h2))
  · subst h; exact h2

/-! ### one cursor -/

/-- Names strictly increasing (`Ord for OsStr`). -/
def Sorted (ns : List Node) : Prop := ns.Pairwise (fun p q => nameLt p.name q.name)

theorem lookup_none_of_all_ne {name : Name} {ns : List Node} (h : ∀ q ∈ ns, q.name ≠ name) :
    lookup name ns = none := by
  unfold lookup
  rw [List.find?_eq_none]
  intro q hq; simpa using h q hq

theorem seek_spec (name : Name) : ∀ (post : List Node) (i : Nat), Sorted post →
    ∃ k, (seek name post i).1 = i + k ∧ (seek name post i).2 = lookup name post ∧
      ∀ q ∈ post.take k, nameLt q.name name
  | [], i, _ => ⟨0, by simp [seek, lookup]⟩
  | p :: rest, i, hs => by
    have hrest : Sorted rest := (List.pairwise_cons.mp hs).2
    have hp : ∀ q ∈ rest, nameLt p.name q.name := (List.pairwise_cons.mp hs).1
    cases hc : cmpName p.name name with
    | lt =>
      obtain ⟨k, h1, h2, h3⟩ := seek_spec name rest (i + 1) hrest
      refine ⟨k + 1, ?_, ?_, ?_⟩
      · simp only [seek, hc]; rw [h1]; omega
      · simp only [seek, hc]; rw [h2]
        have : p.name ≠ name := nameLt_ne hc
        simp [lookup, List.find?_cons, this]
      · intro q hq
        simp only [List.take_succ_cons, List.mem_cons] at hq
        rcases hq with rfl | hq
        · exact hc
        · exact h3 q hq
    | eq =>
      have : p.name = name := (cmpName_eq_iff _ _).mp hc
      refine ⟨0, by simp [seek, hc], ?_, by simp⟩
      simp only [seek, hc]
      simp [lookup, this]
    | gt =>
      have hlt : nameLt name p.name := (cmpName_swap _ _).mp hc
      refine ⟨0, by simp [seek, hc], ?_, by simp⟩
      simp only [seek, hc]
      symm; apply lookup_none_of_all_ne
      intro q hq
      simp only [List.mem_cons] at hq
      rcases hq with rfl | hq
      · exact (nameLt_ne hlt).symm
      · exact (nameLt_ne (nameLt_trans hlt (hp q hq))).symm

/-- The cursor may be queried for `name`: its tree is sorted and everything it has passed is smaller. -/
def Ready (c : Cursor) (name : Name) : Prop :=
  Sorted c.nodes ∧ ∀ q ∈ c.nodes.take c.idx, nameLt q.name name

theorem Ready.mono {c : Cursor} {n n' : Name} (h : Ready c n) (hle : nameLe n n') : Ready c n' :=
  ⟨h.1, fun q hq => nameLt_of_lt_of_le (h.2 q hq) hle⟩

/-- `p_node` on a ready cursor finds exactly the node with that name (never skips an equal name). -/
theorem pNode_spec {c : Cursor} {name : Name} (h : Ready c name) :
    (c.pNode name).2 = lookup name c.nodes ∧ (c.pNode name).1.nodes = c.nodes ∧
      Ready (c.pNode name).1 name := by
  obtain ⟨hs, hpre⟩ := h
  have hsplit : c.nodes = c.nodes.take c.idx ++ c.nodes.drop c.idx := (List.take_append_drop _ _).symm
  have hpost : Sorted (c.nodes.drop c.idx) := by
    unfold Sorted at hs ⊢
    rw [hsplit] at hs
    exact (List.pairwise_append.mp hs).2.1
  obtain ⟨k, h1, h2, h3⟩ := seek_spec name (c.nodes.drop c.idx) c.idx hpost
  refine ⟨?_, rfl, hs, ?_⟩
  · show (seek name (c.nodes.drop c.idx) c.idx).2 = _
    rw [h2]
    conv => rhs; rw [hsplit]
    unfold lookup
    rw [List.find?_append]
    have : List.find? (fun p => decide (p.name = name)) (c.nodes.take c.idx) = none := by
      rw [List.find?_eq_none]
      intro q hq; simpa using nameLt_ne (hpre q hq)
    simp [this]
  · show ∀ q ∈ c.nodes.take (seek name (c.nodes.drop c.idx) c.idx).1, nameLt q.name name
    rw [h1, List.take_add]
    intro q hq
    rcases List.mem_append.mp hq with hq | hq
    · exact hpre q hq
    · exact h3 q hq

/-! ### one directory level -/

/-- `last` is the previous name queried at this level of the directory stack. -/
def okAfter (last : Option Name) (n : Name) : Prop :=
  match last with
  | none => True
  | some l => nameLe l n

def LevelOK (last : Option Name) (cs : List Cursor) : Prop :=
  ∀ c ∈ cs, ∀ n, okAfter last n → Ready c n

theorem LevelOK.tail {last : Option Name} {c : Cursor} {cs : List Cursor} (h : LevelOK last (c :: cs)) :
    LevelOK last cs := fun c' hc' => h c' (List.mem_cons_of_mem _ hc')

theorem LevelOK.advance {last : Option Name} {cs : List Cursor} {name : Name}
    (h : LevelOK last cs) (hq : okAfter last name) : LevelOK (some name) cs := by
  intro c hc n hn
  exact (h c hc name hq).mono hn

theorem levelOK_cons_some {name : Name} {c : Cursor} {cs : List Cursor}
    (hc : Ready c name) (hcs : LevelOK (some name) cs) : LevelOK (some name) (c :: cs) := by
  intro c' hc' n hn
  rcases List.mem_cons.mp hc' with rfl | h
  · exact hc.mono hn
  · exact hcs c' h n hn

theorem isParentGo_spec (o : Opts) (node : Node) (name : Name) (last : Option Name) :
    ∀ (cs : List Cursor), LevelOK last cs → okAfter last name →
      (isParentGo o node name cs).1.map (·.nodes) = cs.map (·.nodes) ∧
      LevelOK (some name) (isParentGo o node name cs).1 ∧
      (isParentGo o node name cs).2.1 =
        (specPNode name (cs.map (·.nodes))).find? (fun p => metaMatch o p node) ∧
      (isParentGo o node name cs).2.2 = !(specPNode name (cs.map (·.nodes))).isEmpty
  | [], _, _ => by
    refine ⟨rfl, ?_, rfl, rfl⟩
    intro c hc; cases hc
  | c :: cs, hl, hq => by
    have hr := hl c List.mem_cons_self name hq
    obtain ⟨h1, h2, h3⟩ := pNode_spec hr
    obtain ⟨i1, i2, i3, i4⟩ := isParentGo_spec o node name last cs hl.tail hq
    have hcs' : LevelOK (some name) cs := hl.tail.advance hq
    simp only [isParentGo]
    cases hlook : lookup name c.nodes with
    | none =>
      rw [hlook] at h1
      simp only [h1]
      refine ⟨by simp [h2, i1], levelOK_cons_some h3 i2, ?_, ?_⟩
      · simp [specPNode, hlook] at i3 ⊢; exact i3
      · simp [specPNode, hlook] at i4 ⊢; exact i4
    | some p =>
      rw [hlook] at h1
      simp only [h1]
      by_cases hm : metaMatch o p node = true
      · simp only [hm, if_true]
        refine ⟨by simp [h2], levelOK_cons_some h3 hcs', ?_, ?_⟩
        · simp [specPNode, hlook, List.find?_cons, hm]
        · simp [specPNode, hlook]
      · simp only [hm]
        refine ⟨by simp [h2, i1], levelOK_cons_some h3 i2, ?_, ?_⟩
        · simp [specPNode, hlook, List.find?_cons, hm] at i3 ⊢; exact i3
        · simp [specPNode, hlook]

theorem pNodeAll_spec (name : Name) (last : Option Name) :
    ∀ (cs : List Cursor), LevelOK last cs → okAfter last name →
      (pNodeAll name cs).1.map (·.nodes) = cs.map (·.nodes) ∧
      LevelOK (some name) (pNodeAll name cs).1 ∧
      (pNodeAll name cs).2 = specPNode name (cs.map (·.nodes))
  | [], _, _ => ⟨rfl, (by intro c hc; cases hc), rfl⟩
  | c :: cs, hl, hq => by
    have hr := hl c List.mem_cons_self name hq
    obtain ⟨h1, h2, h3⟩ := pNode_spec hr
    obtain ⟨i1, i2, i3⟩ := pNodeAll_spec name last cs hl.tail hq
    simp only [pNodeAll]
    refine ⟨by simp [h2, i1], levelOK_cons_some h3 i2, ?_⟩
    rw [h1, i3]
    cases hlook : lookup name c.nodes <;> simp [specPNode, hlook]

/-- Whatever the trees look like (sorted or not): a node reported as matching satisfies the comparison. -/
theorem isParentGo_some (o : Opts) (node : Node) (name : Name) :
    ∀ (cs : List Cursor) (p : Node), (isParentGo o node name cs).2.1 = some p → metaMatch o p node = true
  | [], p, h => by simp [isParentGo] at h
  | c :: cs, p, h => by
    simp only [isParentGo] at h
    cases hr : (c.pNode name).2 with
    | none =>
      simp only [hr] at h
      exact isParentGo_some o node name cs p h
    | some q =>
      simp only [hr] at h
      by_cases hm : metaMatch o q node = true
      · simp only [hm, if_true] at h
        injection h with h; subst h; exact hm
      · simp only [hm] at h
        exact isParentGo_some o node name cs p h

theorem isParent_matched {o : Opts} {st : PState} {node : Node} {name : Name} {p : Node}
    (h : (isParent o st node name).2 = .matched p) : metaMatch o p node = true := by
  simp only [isParent] at h
  split at h
  · cases h
  · cases hr : (isParentGo o node name st.trees).2.1 with
    | none => simp [hr] at h
    | some q =>
      simp only [hr] at h
      injection h with h; subst h
      exact isParentGo_some o node name st.trees q hr

/-! ### the whole walk: simulation of `run` by `specRun` -/

/-- Every tree that can be loaded has strictly increasing names. -/
def SortedStore (load : Id → Option (List Node)) : Prop := ∀ id ns, load id = some ns → Sorted ns

/-- The names queried at each directory level never decrease (ghost: last name per open level).
This is what a source walked in name order gives (`Props/C11` has the concrete instances). -/
def queriesOK {γ} : List (Option Name) → List (Item γ) → Prop
  | _, [] => True
  | [], _ :: _ => False
  | g0 :: gs, .other n _ :: its => okAfter g0 n.name ∧ queriesOK (some n.name :: gs) its
  | g0 :: gs, .newTree _ name :: its => okAfter g0 name ∧ queriesOK (none :: some name :: gs) its
  | [g0], .endTree :: its => queriesOK [g0] its
  | _ :: g1 :: gs, .endTree :: its => queriesOK (g1 :: gs) its

def SimStack : List (Option Name) → List (List Cursor) → List (List (List Node)) → Prop
  | [], [], [] => True
  | g :: gs, c :: cs, s :: ss => c.map (·.nodes) = s ∧ LevelOK g c ∧ SimStack gs cs ss
  | _, _, _ => False

def Sim (g : List (Option Name)) (st : PState) (ss : SState) : Prop :=
  SimStack g (st.trees :: st.stack) (ss.trees :: ss.stack)

theorem isParent_spec (o : Opts) (st : PState) (ss : SState) (node : Node) (name : Name)
    (last : Option Name) (hl : LevelOK last st.trees) (hq : okAfter last name)
    (ht : st.trees.map (·.nodes) = ss.trees) :
    (isParent o st node name).2 = specIsParent o ss node name ∧
    (isParent o st node name).1.trees.map (·.nodes) = ss.trees ∧
    LevelOK (some name) (isParent o st node name).1.trees ∧
    (isParent o st node name).1.stack = st.stack := by
  obtain ⟨i1, i2, i3, i4⟩ := isParentGo_spec o node name last st.trees hl hq
  refine ⟨?_, by simpa [isParent, ht] using i1, by simpa [isParent] using i2, rfl⟩
  simp only [isParent, specIsParent]
  rw [i3, i4, ht]
  cases hc : specPNode name ss.trees with
  | nil => simp
  | cons p ps =>
    simp only [List.isEmpty_cons, Bool.not_false, Bool.not_true]
    cases List.find? (fun p => metaMatch o p node) (p :: ps) <;> simp

theorem map_nodes_filterMap_load (load : Id → Option (List Node)) (ids : List Id) :
    (ids.filterMap (fun id => (load id).map (fun ns => ({ nodes := ns, idx := 0 } : Cursor)))).map (·.nodes)
      = ids.filterMap load := by
  induction ids with
  | nil => rfl
  | cons id t ih =>
    simp only [List.filterMap_cons]
    cases load id <;> simp [ih]

theorem levelOK_fresh (load : Id → Option (List Node)) (hs : SortedStore load) (ids : List Id) :
    LevelOK none (ids.filterMap (fun id => (load id).map (fun ns => ({ nodes := ns, idx := 0 } : Cursor)))) := by
  intro c hc n _
  obtain ⟨id, _, hid⟩ := List.mem_filterMap.mp hc
  cases hl : load id with
  | none => simp [hl] at hid
  | some ns =>
    simp [hl] at hid
    subst hid
    exact ⟨hs id ns hl, by simp⟩

theorem process_sim {γ} (o : Opts) (load : Id → Option (List Node)) (hasData : Id → Bool)
    (hs : SortedStore load) (g : List (Option Name)) (st : PState) (ss : SState) (it : Item γ)
    (its : List (Item γ)) (hsim : Sim g st ss) (hq : queriesOK g (it :: its)) :
    (process o load hasData st it).2 = (specProcess o load hasData ss it).2 ∧
    ∃ g', Sim g' (process o load hasData st it).1 (specProcess o load hasData ss it).1 ∧ queriesOK g' its := by
  cases g with
  | nil => simp [queriesOK] at hq
  | cons g0 gs =>
  obtain ⟨ht, hl, hstack⟩ := hsim
  cases it with
  | other node x =>
    obtain ⟨hq1, hq2⟩ := hq
    obtain ⟨j1, j2, j3, j4⟩ := isParent_spec o st ss node node.name g0 hl hq1 ht
    have hsim' : Sim (some node.name :: gs) (isParent o st node node.name).1 ss := by
      refine ⟨j2, j3, ?_⟩; rw [j4]; exact hstack
    simp only [process, specProcess]
    rw [← j1]
    cases hr : (isParent o st node node.name).2 with
    | matched p =>
      simp only [hr]
      by_cases hall : (p.content.getD []).all hasData = true
      · simp only [hall, if_true]
        exact ⟨trivial, _, hsim', hq2⟩
      · have hall' : (p.content.getD []).all hasData = false := by simpa using hall
        simp only [hall']
        exact ⟨rfl, _, hsim', hq2⟩
    | notFound => simp only [hr]; exact ⟨trivial, _, hsim', hq2⟩
    | notMatched => simp only [hr]; exact ⟨trivial, _, hsim', hq2⟩
  | newTree node name =>
    obtain ⟨hq1, hq2⟩ := hq
    obtain ⟨j1, j2, j3, j4⟩ := isParent_spec o st ss node name g0 hl hq1 ht
    obtain ⟨k1, k2, k3⟩ := pNodeAll_spec name (some name) (isParent o st node name).1.trees j3 (nameLe_refl name)
    have hsim' : Sim (none :: some name :: gs) (setDir load (isParent o st node name).1 name) (specSetDir load ss name) := by
      simp only [Sim, setDir, specSetDir]
      rw [k3, j2]
      refine ⟨map_nodes_filterMap_load load _, levelOK_fresh load hs _, ?_, k2, ?_⟩
      · rw [k1, j2]
      · rw [j4]; exact hstack
    simp only [process, specProcess]
    rw [← j1]
    cases hr : (isParent o st node name).2 with
    | matched p =>
      simp only [hr]
      cases p.subtree <;> exact ⟨rfl, _, hsim', hq2⟩
    | notFound => simp only [hr]; exact ⟨trivial, _, hsim', hq2⟩
    | notMatched => simp only [hr]; exact ⟨trivial, _, hsim', hq2⟩
  | endTree =>
    cases hst : st.stack with
    | nil =>
      cases hss : ss.stack with
      | nil =>
        cases gs with
        | nil =>
          refine ⟨by simp [process, specProcess, finishDir, hst, hss], [g0], ?_, by simpa [queriesOK] using hq⟩
          simp only [process, specProcess, finishDir, hst, hss]
          exact ⟨ht, hl, hstack⟩
        | cons g1 gs => rw [hst, hss] at hstack; simp [SimStack] at hstack
      | cons s1 srest => rw [hst, hss] at hstack; cases gs <;> simp [SimStack] at hstack
    | cons c1 crest =>
      cases hss : ss.stack with
      | nil => rw [hst, hss] at hstack; cases gs <;> simp [SimStack] at hstack
      | cons s1 srest =>
        cases gs with
        | nil => rw [hst, hss] at hstack; simp [SimStack] at hstack
        | cons g1 gs =>
          rw [hst, hss] at hstack
          refine ⟨by simp [process, specProcess, finishDir, hst, hss], g1 :: gs, ?_, by simpa [queriesOK] using hq⟩
          simp only [process, specProcess, finishDir, hst, hss]
          exact hstack

/-- **Refinement.** Under sortedness the cursor walk of `Parent` computes, for every item, exactly what
looking the name up in every parent tree of the current directory gives. -/
theorem run_eq_specRun {γ} (o : Opts) (load : Id → Option (List Node)) (hasData : Id → Bool)
    (hs : SortedStore load) :
    ∀ (items : List (Item γ)) (g : List (Option Name)) (st : PState) (ss : SState),
      Sim g st ss → queriesOK g items → run o load hasData st items = specRun o load hasData ss items
  | [], _, _, _, _, _ => rfl
  | it :: its, g, st, ss, hsim, hq => by
    obtain ⟨h1, g', h2, h3⟩ := process_sim o load hasData hs g st ss it its hsim hq
    simp only [run, specRun]
    rw [h1, run_eq_specRun o load hasData hs its g' _ _ h2 h3]

theorem sim_init (load : Id → Option (List Node)) (hs : SortedStore load) (roots : List Id) :
    Sim [none] (PState.init load roots) (SState.init load roots) :=
  ⟨map_nodes_filterMap_load load roots, levelOK_fresh load hs roots, trivial⟩

end Rustic.Parent
