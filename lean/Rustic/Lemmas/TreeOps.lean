/-
Lemmas about the tree-operation models (`Rustic/Model/TreeOps.lean`).
-/
import Rustic.Model.TreeOps
namespace Rustic.TreeOps

/-! ### copy -/

def needTrees (dst : Dest) (roots : List Nat) (reach : List CTree) : List Nat :=
  (roots ++ reach.flatMap (·.kids)).filter (fun t => !dst.trees.contains t)
def needData (dst : Dest) (reach : List CTree) : List Nat :=
  (reach.flatMap (·.data)).filter (fun d => !dst.data.contains d)

/-- no blob id is needed both as a tree and as a data blob -/
def TypedDisjoint (dst : Dest) (roots : List Nat) (reach : List CTree) : Prop :=
  ∀ t ∈ needTrees dst roots reach, t ∉ needData dst reach

theorem copyStep_trees {dst : Dest} {roots : List Nat} {reach : List CTree}
    {t : Nat} (ht : t ∈ roots ++ reach.flatMap (·.kids)) : t ∈ (copyStep dst roots reach).trees := by
  unfold copyStep
  simp only [List.mem_append]
  by_cases hd : t ∈ dst.trees
  · exact Or.inl hd
  · exact Or.inr (List.mem_filter.mpr ⟨ht, by simpa using hd⟩)

theorem copyStep_data {dst : Dest} {roots : List Nat} {reach : List CTree}
    {d : Nat} (hd : d ∈ reach.flatMap (·.data)) : d ∈ (copyStep dst roots reach).data := by
  unfold copyStep
  simp only [List.mem_append]
  by_cases h : d ∈ dst.data
  · exact Or.inl h
  · exact Or.inr (List.mem_filter.mpr ⟨hd, by simpa using h⟩)

theorem copy_complete (dst : Dest) (roots : List Nat) (reach : List CTree) :
    destComplete (copyStep dst roots reach) roots reach = true := by
  unfold destComplete
  simp only [Bool.and_eq_true, List.all_eq_true, List.contains_iff_mem]
  refine ⟨fun r hr => copyStep_trees (List.mem_append_left _ hr), fun t ht => ⟨fun k hk => ?_, fun d hd => ?_⟩⟩
  · exact copyStep_trees (List.mem_append_right _ (List.mem_flatMap.mpr ⟨t, ht, hk⟩))
  · exact copyStep_data (List.mem_flatMap.mpr ⟨t, ht, hd⟩)

/-- a second run copies nothing more (everything needed is already in the destination) -/
theorem copy_idempotent_trees (dst : Dest) (roots : List Nat) (reach : List CTree) (t : Nat)
    (ht : t ∈ roots ++ reach.flatMap (·.kids)) :
    t ∈ (copyStep (copyStep dst roots reach) roots reach).trees :=
  copyStep_trees ht

/-! #### copy: the walk from all roots completes every snapshot, whatever the destination already holds -/

mutual
theorem STree.present_of (d : Dest) : (s : STree) → s.id ∈ d.trees →
    (∀ t ∈ s.flatten, (∀ k ∈ t.kids, k ∈ d.trees) ∧ ∀ x ∈ t.data, x ∈ d.data) → s.present d = true
  | .node i dat ks, hid, h => by
    have hroot := h ⟨i, ks.map STree.id, dat⟩ (by simp [STree.flatten])
    simp only [STree.present, Bool.and_eq_true, List.contains_iff_mem, List.all_eq_true]
    refine ⟨⟨hid, hroot.2⟩, STree.presentL_of d ks (fun k hk => hroot.1 _ (List.mem_map_of_mem hk)) ?_⟩
    intro t ht
    exact h t (by simp [STree.flatten, ht])
theorem STree.presentL_of (d : Dest) : (ks : List STree) → (∀ k ∈ ks, k.id ∈ d.trees) →
    (∀ t ∈ STree.flattenL ks, (∀ k ∈ t.kids, k ∈ d.trees) ∧ ∀ x ∈ t.data, x ∈ d.data) → STree.presentL d ks = true
  | [], _, _ => rfl
  | k :: ks, hids, h => by
    simp only [STree.presentL, Bool.and_eq_true]
    refine ⟨STree.present_of d k (hids k (by simp)) (fun t ht => h t ?_),
      STree.presentL_of d ks (fun k' hk' => hids k' (by simp [hk'])) (fun t ht => h t ?_)⟩
    · simp [STree.flattenL, ht]
    · simp [STree.flattenL, ht]
end

theorem copyRun_presentL (dst : Dest) (snaps : List STree) : STree.presentL (copyRun dst snaps) snaps = true := by
  have hc := copy_complete dst (snaps.map STree.id) (STree.flattenL snaps)
  unfold destComplete at hc
  simp only [Bool.and_eq_true, List.all_eq_true, List.contains_iff_mem] at hc
  exact STree.presentL_of _ snaps (fun k hk => hc.1 _ (List.mem_map_of_mem hk)) (fun t ht => hc.2 t ht)

theorem STree.presentL_mem {d : Dest} : {ks : List STree} → STree.presentL d ks = true → ∀ k ∈ ks, k.present d = true
  | [], _, _, hk => by cases hk
  | k :: ks, h, k', hk' => by
    simp only [STree.presentL, Bool.and_eq_true] at h
    rcases List.mem_cons.1 hk' with rfl | hm
    · exact h.1
    · exact STree.presentL_mem h.2 k' hm

/-! #### copy under write faults -/

/-- a phase that reports no error although `finalize()` is checked stored every needed blob -/
theorem copyPhase_checked_ok {fail last : Nat → Bool} {need : List Nat}
    (h : (copyPhase true fail last need).2 = false) : (copyPhase true fail last need).1 = need := by
  simp only [copyPhase, Bool.true_or, Bool.and_true] at h ⊢
  rw [List.filter_eq_self]
  intro b hb
  have := List.any_eq_false.1 h b hb
  simpa using this

/-- `copy` as written returns Ok only if it did exactly what the fault-free run does -/
theorem copyRunFaulty_checked_some {f : CopyFaults} {dst : Dest} {snaps : List STree} {d : Dest}
    (h : copyRunFaulty true f dst snaps = some d) : d = copyRun dst snaps := by
  unfold copyRunFaulty at h
  simp only [] at h
  split at h
  · cases h
  · rename_i h1
    split at h
    · cases h
    · rename_i h2
      split at h
      · cases h
      · have e1 := copyPhase_checked_ok (Bool.eq_false_iff.2 h1)
        have e2 := copyPhase_checked_ok (Bool.eq_false_iff.2 h2)
        rw [e1, e2] at h
        exact (Option.some.inj h).symm

/-! ### repair -/

mutual
def goodNode (ix : Idx) : RT → Bool
  | .file _ _ _ _ content _ => content.all (fun d => (ix d).isSome)
  | .other _ _ _ => true
  | .dir _ _ _ st sub => st == 0 && goodList ix sub
def goodList (ix : Idx) : List RT → Bool
  | [] => true
  | x :: l => goodNode ix x && goodList ix l
end

theorem filter_eq_of_length {α} {p : α → Bool} : ∀ {l : List α}, (l.filter p).length = l.length → l.filter p = l
  | [], _ => rfl
  | a :: l, h => by
    by_cases ha : p a = true
    · simp only [List.filter_cons, ha, if_true, List.length_cons] at h ⊢
      rw [filter_eq_of_length (by omega)]
    · simp only [List.filter_cons, ha] at h
      have := List.length_filter_le p l
      simp at h
      omega

theorem filter_all_eq {α} {p : α → Bool} {l : List α} (h : l.all p = true) : l.filter p = l := by
  apply List.filter_eq_self.mpr
  simpa using h

mutual
theorem repNode_good (ix : Idx) : ∀ (x : RT), goodNode ix x = true → (repNode ix x).2 = false
  | .file n k t s content sfx, h => by
    simp only [goodNode] at h
    simp only [repNode, filter_all_eq h]
    simp
  | .other n k t, _ => by simp [repNode]
  | .dir n k t st sub, h => by
    simp only [goodNode, Bool.and_eq_true, beq_iff_eq] at h
    simp only [repNode, h.1, if_true]
    have := repNodes_good ix sub h.2
    simp [repList, this]
theorem repNodes_good (ix : Idx) : ∀ (l : List RT), goodList ix l = true → (repNodes ix l).2 = false
  | [], _ => by simp [repNodes]
  | x :: l, h => by
    simp only [goodList, Bool.and_eq_true] at h
    simp [repNodes, repNode_good ix x h.1, repNodes_good ix l h.2]
end

theorem repair_good {ix : Idx} {l : List RT} (h : goodList ix l = true) : repairRoot ix true l = none := by
  simp [repairRoot, repList, repNodes_good ix l h]


/-! files of a tree with their paths: (path, content, marked-with-suffix); an unreadable subtree shows none -/
mutual
def filesNode : RT → List (List Nat × List Nat × Bool)
  | .file n _ _ _ c sfx => [([n], c, sfx)]
  | .other _ _ _ => []
  | .dir n _ _ st sub => if st = 0 then (filesList sub).map (fun e => (n :: e.1, e.2)) else []
def filesList : List RT → List (List Nat × List Nat × Bool)
  | [] => []
  | x :: l => filesNode x ++ filesList l
end

def Indexed (ix : Idx) (e : List Nat × List Nat × Bool) : Prop := ∀ d ∈ e.2.1, (ix d).isSome = true

mutual
/-- nothing reported changed ⇒ every chunk of every (visible) file below is indexed -/
theorem repNode_unchanged_indexed (ix : Idx) : ∀ (x : RT), (repNode ix x).2 = false →
    ∀ e ∈ filesNode x, Indexed ix e
  | .file n k t s c sfx, h, e, he => by
    simp only [filesNode, List.mem_singleton] at he
    subst he
    simp only [repNode, bne_eq_false_iff_eq] at h
    have hf := filter_eq_of_length h
    intro d hd
    simp only at hd
    rw [← hf] at hd
    exact (List.mem_filter.mp hd).2
  | .other n k t, _, e, he => by simp [filesNode] at he
  | .dir n k t st sub, h, e, he => by
    simp only [filesNode] at he
    split at he
    · rename_i hst
      obtain ⟨e', he', rfl⟩ := List.mem_map.mp he
      simp only [repNode, hst, if_true] at h
      have : (repNodes ix sub).2 = false := by
        simp only [repList] at h
        split at h
        · simp at h
        · rename_i hh; simpa using hh
      exact repNodes_unchanged_indexed ix sub this e' he'
    · simp at he
theorem repNodes_unchanged_indexed (ix : Idx) : ∀ (l : List RT), (repNodes ix l).2 = false →
    ∀ e ∈ filesList l, Indexed ix e
  | [], _, e, he => by simp [filesList] at he
  | x :: l, h, e, he => by
    simp only [repNodes, Bool.or_eq_false_iff] at h
    simp only [filesList, List.mem_append] at he
    rcases he with he | he
    · exact repNode_unchanged_indexed ix x h.1 e he
    · exact repNodes_unchanged_indexed ix l h.2 e he
end

mutual
/-- every file of the repaired tree that is not marked is a file of the original tree at the same path with the
same content, all of it indexed -/
theorem repNode_kept (ix : Idx) : ∀ (x : RT), ∀ e ∈ filesNode (repNode ix x).1, e.2.2 = false →
    e ∈ filesNode x ∧ Indexed ix e
  | .file n k t s c sfx, e, he, hs => by
    simp only [repNode, filesNode, List.mem_singleton] at he
    subst he
    simp only [Bool.or_eq_false_iff, bne_eq_false_iff_eq] at hs
    have hf := filter_eq_of_length hs.2
    refine ⟨by simp [filesNode, hf, hs.1], ?_⟩
    intro d hd
    exact (List.mem_filter.mp hd).2
  | .other n k t, e, he, _ => by simp [repNode, filesNode] at he
  | .dir n k t st sub, e, he, hs => by
    by_cases hst : st = 0
    · simp only [repNode, hst, if_true, filesNode] at he ⊢
      obtain ⟨e', he', rfl⟩ := List.mem_map.mp he
      simp only [repList] at he'
      split at he'
      · obtain ⟨h1, h2⟩ := repNodes_kept ix sub e' he' hs
        exact ⟨List.mem_map.mpr ⟨e', h1, rfl⟩, h2⟩
      · rename_i hh
        have hh' : (repNodes ix sub).2 = false := by simpa using hh
        exact ⟨List.mem_map.mpr ⟨e', he', rfl⟩, repNodes_unchanged_indexed ix sub hh' e' he'⟩
    · simp only [repNode, hst, if_false] at he
      split at he <;> simp [filesNode, filesList] at he
theorem repNodes_kept (ix : Idx) : ∀ (l : List RT), ∀ e ∈ filesList (repNodes ix l).1, e.2.2 = false →
    e ∈ filesList l ∧ Indexed ix e
  | [], e, he, _ => by simp [repNodes, filesList] at he
  | x :: l, e, he, hs => by
    simp only [repNodes, filesList, List.mem_append] at he ⊢
    rcases he with he | he
    · obtain ⟨h1, h2⟩ := repNode_kept ix x e he hs
      exact ⟨Or.inl h1, h2⟩
    · obtain ⟨h1, h2⟩ := repNodes_kept ix l e he hs
      exact ⟨Or.inr h1, h2⟩
end

/-! #### the blob loop, partially lost files, exact characterisation of the files after repair -/

theorem filter_length_bne {α} (p : α → Bool) : ∀ l : List α,
    ((l.filter p).length != l.length) = l.any (fun d => !p d)
  | [] => rfl
  | a :: l => by
    have ih := filter_length_bne p l
    have hle := List.length_filter_le p l
    by_cases ha : p a = true
    · simp only [List.filter_cons, ha, if_true, List.length_cons, List.any_cons, Bool.not_true, Bool.false_or, ← ih]
      by_cases hl : (l.filter p).length = l.length
      · simp [hl]
      · simp
    · have ha' : p a = false := by simpa using ha
      simp only [List.filter_cons, ha', List.any_cons, Bool.not_false, Bool.true_or, List.length_cons]
      simp only [Bool.false_eq_true, if_false, bne_iff_ne, ne_eq]
      omega

/-- the loop from any state: the flag is or-ed, content appended, size added -/
theorem blobLoop_from (ix : Idx) : ∀ (c : List Nat) (st : Bool × List Nat × Nat),
    c.foldl (blobStep ix) st =
      (st.1 || c.any (fun d => !(ix d).isSome), st.2.1 ++ c.filter (fun d => (ix d).isSome),
        st.2.2 + ((c.filter (fun d => (ix d).isSome)).map (fun d => (ix d).getD 0)).sum)
  | [], st => by simp
  | d :: c, st => by
    rw [List.foldl_cons, blobLoop_from ix c]
    cases h : ix d with
    | none => simp [blobStep, h]
    | some len => simp [blobStep, h, Nat.add_assoc]

/-- the loop as written computes: flag = SOME blob is missing (accumulated over all blobs), content = the indexed
blobs in order, size = sum of their `data_length`s -/
theorem blobLoop_spec (ix : Idx) (c : List Nat) :
    blobLoop ix c = (c.any (fun d => !(ix d).isSome), c.filter (fun d => (ix d).isSome),
      ((c.filter (fun d => (ix d).isSome)).map (fun d => (ix d).getD 0)).sum) := by
  simp [blobLoop, blobLoop_from]

/-- `repNode` on a file is the loop of the code -/
theorem repNode_file_loop (ix : Idx) (n k t s : Nat) (c : List Nat) (sfx : Bool) :
    repNode ix (.file n k t s c sfx) =
      (.file n k t (blobLoop ix c).2.2 (blobLoop ix c).2.1 (sfx || (blobLoop ix c).1), (blobLoop ix c).1) := by
  simp only [repNode, blobLoop_spec, filter_length_bne]

/-- what repair does to one file entry `(path, content, marked)`: keep the indexed chunks in order, mark iff some
chunk is missing -/
def repFile (ix : Idx) (e : List Nat × List Nat × Bool) : List Nat × List Nat × Bool :=
  (e.1, e.2.1.filter (fun d => (ix d).isSome), e.2.2 || e.2.1.any (fun d => !(ix d).isSome))

theorem repFile_of_indexed {ix : Idx} {e : List Nat × List Nat × Bool} (h : Indexed ix e) : repFile ix e = e := by
  obtain ⟨p, c, m⟩ := e
  have hall : ∀ d ∈ c, (ix d).isSome = true := h
  have h1 : c.filter (fun d => (ix d).isSome) = c := List.filter_eq_self.mpr hall
  have h2 : c.any (fun d => !(ix d).isSome) = false := by
    simp only [List.any_eq_false, Bool.not_eq_true', Bool.not_eq_false]
    exact fun d hd => by simpa using hall d hd
  simp only [repFile, h1, h2, Bool.or_false]

theorem map_repFile_of_indexed {ix : Idx} : ∀ {l : List (List Nat × List Nat × Bool)},
    (∀ e ∈ l, Indexed ix e) → l.map (repFile ix) = l
  | [], _ => rfl
  | e :: l, h => by
    rw [List.map_cons, repFile_of_indexed (h e (List.mem_cons_self ..)),
      map_repFile_of_indexed (fun e' he' => h e' (List.mem_cons_of_mem _ he'))]

mutual
/-- the files visible below a node after repair are exactly the files before, each treated by `repFile` -/
theorem repNode_files (ix : Idx) : ∀ (x : RT), filesNode (repNode ix x).1 = (filesNode x).map (repFile ix)
  | .file n k t s c sfx => by
    simp only [repNode, filesNode, List.map_cons, List.map_nil, repFile, filter_length_bne]
  | .other n k t => by simp [repNode, filesNode]
  | .dir n k t st sub => by
    by_cases hst : st = 0
    · subst hst
      simp only [repNode, if_true, filesNode, List.map_map]
      have hsub : filesList (repList ix sub).1 = (filesList sub).map (repFile ix) := by
        simp only [repList]
        split
        · exact repNodes_files ix sub
        · rename_i hh
          have hh' : (repNodes ix sub).2 = false := by simpa using hh
          exact (map_repFile_of_indexed (repNodes_unchanged_indexed ix sub hh')).symm
      rw [hsub, List.map_map]
      rfl
    · by_cases h3 : st = 3
      · subst h3; simp [repNode, filesNode, filesList]
      · simp [repNode, filesNode, filesList, hst, h3]
theorem repNodes_files (ix : Idx) : ∀ (l : List RT), filesList (repNodes ix l).1 = (filesList l).map (repFile ix)
  | [] => by simp [repNodes, filesList]
  | x :: l => by
    simp only [repNodes, filesList, List.map_append, repNode_files ix x, repNodes_files ix l]
end

theorem repList_files (ix : Idx) (l : List RT) : filesList (repList ix l).1 = (filesList l).map (repFile ix) := by
  simp only [repList]
  split
  · exact repNodes_files ix l
  · rename_i hh
    have hh' : (repNodes ix l).2 = false := by simpa using hh
    exact (map_repFile_of_indexed (repNodes_unchanged_indexed ix l hh')).symm

/-! ### rewrite -/

mutual
theorem listNode_ne : ∀ (t : Tr) (e : List Nat × Bool × Nat × Nat), e ∈ listNode t → e.1 ≠ []
  | .node name key isDir tag sub, e, h => by
    simp only [listNode, List.mem_cons] at h
    rcases h with rfl | h
    · simp
    · split at h
      · obtain ⟨e', _, rfl⟩ := List.mem_map.mp h
        simp
      · simp at h
theorem listList_ne : ∀ (l : List Tr) (e : List Nat × Bool × Nat × Nat), e ∈ listList l → e.1 ≠ []
  | [], e, h => by simp [listList] at h
  | t :: l, e, h => by
    simp only [listList, List.mem_append] at h
    rcases h with h | h
    · exact listNode_ne t e h
    · exact listList_ne l e h
end

def keep (ex : List Nat → Bool → Bool) (pre : List Nat) (e : List Nat × Bool × Nat × Nat) : Bool :=
  !blocked ex pre e.1 e.2.1

def listOpt : Option Tr → List (List Nat × Bool × Nat × Nat)
  | none => []
  | some t => listNode t

theorem blocked_cons {ex : List Nat → Bool → Bool} {pre : List Nat} {n : Nat} {p : List Nat} {d : Bool}
    (hp : p ≠ []) : blocked ex pre (n :: p) d = (ex (pre ++ [n]) true || blocked ex (pre ++ [n]) p d) := by
  cases p with
  | nil => exact absurd rfl hp
  | cons m r => simp [blocked]

mutual
theorem rwNode_list (ex : List Nat → Bool → Bool) : ∀ (pre : List Nat) (t : Tr),
    listOpt (rwNode ex pre t) = (listNode t).filter (keep ex pre)
  | pre, .node name key isDir tag sub => by
    have ih := rwList_list ex (pre ++ [name]) sub
    by_cases hx : ex (pre ++ [name]) isDir = true
    · -- the node is excluded: nothing of it survives
      simp only [rwNode, hx, if_true, listOpt, listNode]
      symm
      apply List.filter_eq_nil_iff.mpr
      intro e he
      rcases List.mem_cons.mp he with rfl | he
      · simp [keep, blocked, hx]
      · split at he
        · rename_i hd
          obtain ⟨e', he', rfl⟩ := List.mem_map.mp he
          have hne := listList_ne sub e' he'
          subst hd
          simp [keep, blocked_cons hne, hx]
        · simp at he
    · have hx' : ex (pre ++ [name]) isDir = false := by simpa using hx
      cases isDir with
      | false =>
        simp only [rwNode, hx', listOpt, listNode]
        simp [keep, blocked, hx', listNode]
      | true =>
        have hk : keep ex pre ([name], true, key, tag) = true := by simp [keep, blocked, hx']
        simp only [rwNode, hx', listOpt, listNode, if_true, Bool.false_eq_true, if_false]
        rw [List.filter_cons, hk, if_pos rfl, ih, List.filter_map]
        congr 1
        congr 1
        apply List.filter_congr
        intro e he
        have hne := listList_ne sub e he
        simp [keep, Function.comp, blocked_cons hne, hx']
theorem rwList_list (ex : List Nat → Bool → Bool) : ∀ (pre : List Nat) (l : List Tr),
    listList (rwList ex pre l) = (listList l).filter (keep ex pre)
  | _, [] => by simp [rwList, listList]
  | pre, t :: l => by
    have h1 := rwNode_list ex pre t
    have h2 := rwList_list ex pre l
    simp only [rwList, listList, List.filter_append]
    rw [← h1, ← h2]
    cases rwNode ex pre t with
    | none => simp [listOpt]
    | some t' => simp [listOpt, listList]
end


/-! ### merge -/

def Sorted (l : List Tr) : Prop := l.Pairwise (fun a b => a.name < b.name)
def AllSorted (ts : List (List Tr)) : Prop := ∀ t ∈ ts, Sorted t
/-- the nodes named `n`, one per tree that has one, in tree order -/
def row (n : Nat) (ts : List (List Tr)) : List Tr := ts.filterMap (find n)
def gname (g : List Tr) : Nat := (headName g).getD 0
def Above (m : Nat) (ts : List (List Tr)) : Prop := ∀ t ∈ ts, ∀ y ∈ t, m < y.name

theorem filterMap_congr' {α β} {f g : α → Option β} : ∀ {l : List α}, (∀ x ∈ l, f x = g x) →
    l.filterMap f = l.filterMap g
  | [], _ => rfl
  | a :: l, h => by
    simp only [List.filterMap_cons, h a List.mem_cons_self]
    rw [filterMap_congr' (fun x hx => h x (List.mem_cons_of_mem _ hx))]

theorem find_some {n : Nat} {l : List Tr} {y : Tr} (h : find n l = some y) : y ∈ l ∧ y.name = n := by
  induction l with
  | nil => simp [find] at h
  | cons t l ih =>
    simp only [find] at h
    split at h
    · cases h; exact ⟨List.mem_cons_self, by assumption⟩
    · exact ⟨List.mem_cons_of_mem _ (ih h).1, (ih h).2⟩

theorem find_none {n : Nat} {l : List Tr} (h : ∀ y ∈ l, y.name ≠ n) : find n l = none := by
  induction l with
  | nil => rfl
  | cons t l ih =>
    simp only [find]
    rw [if_neg (h t List.mem_cons_self)]
    exact ih (fun y hy => h y (List.mem_cons_of_mem _ hy))

theorem find_mem_sorted {l : List Tr} {y : Tr} (hs : Sorted l) (hy : y ∈ l) : find y.name l = some y := by
  induction l with
  | nil => simp at hy
  | cons t l ih =>
    simp only [find]
    have hs' := List.pairwise_cons.mp hs
    rcases List.mem_cons.mp hy with rfl | hy'
    · simp
    · have : t.name < y.name := hs'.1 y hy'
      rw [if_neg (by omega)]
      exact ih hs'.2 hy'

theorem minList_none {l : List Nat} (h : minList l = none) : l = [] := by
  cases l with
  | nil => rfl
  | cons x l =>
    simp only [minList] at h
    split at h <;> cases h

theorem minList_some {l : List Nat} {m : Nat} (h : minList l = some m) : m ∈ l ∧ ∀ x ∈ l, m ≤ x := by
  induction l generalizing m with
  | nil => simp [minList] at h
  | cons x l ih =>
    simp only [minList] at h
    split at h
    · rename_i hn
      cases h
      have := minList_none hn
      subst this
      simp
    · rename_i m' hm'
      cases h
      obtain ⟨hmem, hle⟩ := ih hm'
      by_cases hx : x ≤ m'
      · simp only [if_pos hx]
        refine ⟨List.mem_cons_self, fun y hy => ?_⟩
        rcases List.mem_cons.mp hy with rfl | hy'
        · exact Nat.le_refl _
        · exact Nat.le_trans hx (hle y hy')
      · simp only [if_neg hx]
        refine ⟨List.mem_cons_of_mem _ hmem, fun y hy => ?_⟩
        rcases List.mem_cons.mp hy with rfl | hy'
        · omega
        · exact hle y hy'

theorem mem_heads {ts : List (List Tr)} {m : Nat} (h : m ∈ heads ts) : ∃ x r, (x :: r) ∈ ts ∧ x.name = m := by
  unfold heads at h
  obtain ⟨t, ht, hh⟩ := List.mem_filterMap.mp h
  cases t with
  | nil => simp [headName] at hh
  | cons x r =>
    simp only [headName, Option.some.injEq] at hh
    exact ⟨x, r, ht, hh⟩

theorem heads_le {ts : List (List Tr)} {m : Nat} (hm : ∀ x ∈ heads ts, m ≤ x) {x : Tr} {r : List Tr}
    (ht : (x :: r) ∈ ts) : m ≤ x.name :=
  hm _ (List.mem_filterMap.mpr ⟨x :: r, ht, rfl⟩)

theorem takeHead_eq_find {m : Nat} {t : List Tr} (hs : Sorted t) (hm : ∀ x r, t = x :: r → m ≤ x.name) :
    takeHead m t = find m t := by
  cases t with
  | nil => rfl
  | cons x r =>
    simp only [takeHead, find]
    by_cases hx : x.name = m
    · simp [hx]
    · rw [if_neg hx, if_neg hx]
      symm
      apply find_none
      intro y hy
      have h1 := (List.pairwise_cons.mp hs).1 y hy
      have h2 := hm x r rfl
      omega

theorem takeGroup_eq_row {m : Nat} {ts : List (List Tr)} (hs : AllSorted ts) (hm : ∀ x ∈ heads ts, m ≤ x) :
    takeGroup m ts = row m ts := by
  unfold takeGroup row
  apply filterMap_congr'
  intro t ht
  exact takeHead_eq_find (hs t ht) (fun x r h => heads_le hm (h ▸ ht))

theorem find_dropHead {m n : Nat} {t : List Tr} (hne : n ≠ m) : find n (dropHead m t) = find n t := by
  cases t with
  | nil => rfl
  | cons x r =>
    simp only [dropHead]
    by_cases hx : x.name = m
    · simp only [if_pos hx, find]
      rw [if_neg (by omega)]
    · simp [if_neg hx]

theorem row_dropGroup {m n : Nat} {ts : List (List Tr)} (hne : n ≠ m) : row n (dropGroup m ts) = row n ts := by
  unfold row dropGroup
  rw [List.filterMap_map]
  apply filterMap_congr'
  intro t _
  exact find_dropHead hne

theorem sorted_dropHead {m : Nat} {t : List Tr} (hs : Sorted t) : Sorted (dropHead m t) := by
  cases t with
  | nil => exact hs
  | cons x r =>
    simp only [dropHead]
    split
    · exact (List.pairwise_cons.mp hs).2
    · exact hs

theorem allSorted_dropGroup {m : Nat} {ts : List (List Tr)} (hs : AllSorted ts) : AllSorted (dropGroup m ts) := by
  intro t ht
  obtain ⟨t', ht', rfl⟩ := List.mem_map.mp ht
  exact sorted_dropHead (hs t' ht')

theorem above_dropGroup {m : Nat} {ts : List (List Tr)} (hs : AllSorted ts) (hm : ∀ x ∈ heads ts, m ≤ x) :
    Above m (dropGroup m ts) := by
  intro t ht y hy
  obtain ⟨t', ht', rfl⟩ := List.mem_map.mp ht
  cases t' with
  | nil => simp [dropHead] at hy
  | cons x r =>
    have hx := heads_le hm ht'
    have hp := List.pairwise_cons.mp (hs _ ht')
    simp only [dropHead] at hy
    split at hy
    · rename_i hxm
      have := hp.1 y hy
      omega
    · rename_i hxm
      rcases List.mem_cons.mp hy with rfl | hy'
      · omega
      · have := hp.1 y hy'
        omega

theorem length_dropHead_le (m : Nat) (t : List Tr) : (dropHead m t).length ≤ t.length := by
  cases t with
  | nil => simp [dropHead]
  | cons x r =>
    simp only [dropHead]
    split <;> simp

theorem total_dropGroup_lt {m : Nat} {ts : List (List Tr)} (h : m ∈ heads ts) :
    total (dropGroup m ts) < total ts := by
  obtain ⟨x, r, ht, hx⟩ := mem_heads h
  induction ts with
  | nil => simp at ht
  | cons t ts ih =>
    simp only [total, dropGroup, List.map_cons, List.sum_cons]
    have hle : ∀ (l : List (List Tr)), ((l.map (dropHead m)).map List.length).sum ≤ (l.map List.length).sum := by
      intro l
      induction l with
      | nil => simp
      | cons a l ihl =>
        simp only [List.map_cons, List.sum_cons]
        have := length_dropHead_le m a
        omega
    rcases List.mem_cons.mp ht with rfl | ht'
    · have : (dropHead m (x :: r)).length < (x :: r).length := by simp [dropHead, hx]
      have := hle ts
      omega
    · have h1 := length_dropHead_le m t
      have h2 : total (dropGroup m ts) < total ts := ih (List.mem_filterMap.mpr ⟨x :: r, ht', by simp [headName, hx]⟩) ht'
      simp only [total, dropGroup] at h2
      omega

theorem row_names {n : Nat} {ts : List (List Tr)} : ∀ y ∈ row n ts, y.name = n := by
  intro y hy
  obtain ⟨t, _, hf⟩ := List.mem_filterMap.mp hy
  exact (find_some hf).2

theorem gname_of_names {g : List Tr} {n : Nat} (hne : g ≠ []) (h : ∀ y ∈ g, y.name = n) : gname g = n := by
  cases g with
  | nil => exact absurd rfl hne
  | cons x l => simp [gname, headName, h x List.mem_cons_self]

theorem row_above {n lb : Nat} {ts : List (List Tr)} (ha : Above lb ts) (hne : row n ts ≠ []) : lb < n := by
  cases hr : row n ts with
  | nil => exact absurd hr hne
  | cons y l =>
    have hy : y ∈ row n ts := by rw [hr]; exact List.mem_cons_self
    obtain ⟨t, ht, hf⟩ := List.mem_filterMap.mp hy
    have := find_some hf
    have := ha t ht y this.1
    omega

/-- the k-way merge loop yields exactly the non-empty rows, by increasing name -/
theorem groups_spec : ∀ (f : Nat) (ts : List (List Tr)), AllSorted ts → total ts ≤ f →
    (∀ g ∈ groups f ts, ∃ n, g = row n ts ∧ g ≠ []) ∧
    (∀ n, row n ts ≠ [] → row n ts ∈ groups f ts) ∧
    (groups f ts).Pairwise (fun g g' => gname g < gname g') := by
  intro f
  induction f with
  | zero =>
    intro ts _ ht
    refine ⟨by simp [groups], fun n hn => ?_, by simp [groups]⟩
    -- total = 0: every tree is empty, so every row is empty
    exfalso
    apply hn
    unfold row
    apply List.filterMap_eq_nil_iff.mpr
    intro t htm
    have : t.length = 0 := by
      have hsum : ∀ (l : List (List Tr)), t ∈ l → t.length ≤ (l.map List.length).sum := by
        intro l hl
        induction l with
        | nil => simp at hl
        | cons a l ih =>
          simp only [List.map_cons, List.sum_cons]
          rcases List.mem_cons.mp hl with rfl | hl'
          · omega
          · have := ih hl'; omega
      have := hsum ts htm
      simp only [total] at ht
      omega
    have : t = [] := List.length_eq_zero_iff.mp this
    subst this
    rfl
  | succ f ih =>
    intro ts hs ht
    cases hmin : minList (heads ts) with
    | none =>
      simp only [groups, hmin]
      have hh := minList_none hmin
      refine ⟨by simp, fun n hn => ?_, by simp⟩
      exfalso
      apply hn
      unfold row
      apply List.filterMap_eq_nil_iff.mpr
      intro t htm
      cases t with
      | nil => rfl
      | cons x r =>
        have : x.name ∈ heads ts := List.mem_filterMap.mpr ⟨x :: r, htm, rfl⟩
        rw [hh] at this
        simp at this
    | some m =>
      simp only [groups, hmin]
      obtain ⟨hmem, hle⟩ := minList_some hmin
      have hrow := takeGroup_eq_row hs hle
      have hs' := allSorted_dropGroup (m := m) hs
      have hab := above_dropGroup hs hle
      have hlt := total_dropGroup_lt hmem
      obtain ⟨hA, hB, hC⟩ := ih (dropGroup m ts) hs' (by omega)
      have hne : row m ts ≠ [] := by
        obtain ⟨x, r, htm, hx⟩ := mem_heads hmem
        intro hnil
        have : find m (x :: r) = some x := by simp [find, hx]
        have hx' : x ∈ row m ts := List.mem_filterMap.mpr ⟨x :: r, htm, this⟩
        rw [hnil] at hx'
        simp at hx'
      refine ⟨?_, ?_, ?_⟩
      · intro g hg
        rcases List.mem_cons.mp hg with rfl | hg'
        · exact ⟨m, hrow, by rw [hrow]; exact hne⟩
        · obtain ⟨n, hgn, hgne⟩ := hA g hg'
          have hmn : m < n := row_above hab (by rw [← hgn]; exact hgne)
          exact ⟨n, by rw [hgn, row_dropGroup (by omega)], hgne⟩
      · intro n hn
        by_cases hnm : n = m
        · subst hnm
          rw [hrow]
          exact List.mem_cons_self
        · apply List.mem_cons_of_mem
          have := hB n (by rw [row_dropGroup hnm]; exact hn)
          rwa [row_dropGroup hnm] at this
      · apply List.pairwise_cons.mpr
        refine ⟨fun g' hg' => ?_, hC⟩
        obtain ⟨n, hgn, hgne⟩ := hA g' hg'
        have hmn : m < n := row_above hab (by rw [← hgn]; exact hgne)
        have h1 : gname (takeGroup m ts) = m := by
          rw [hrow]; exact gname_of_names hne row_names
        have h2 : gname g' = n := by
          rw [hgn]; exact gname_of_names (by rw [← hgn]; exact hgne) row_names
        omega

theorem lastMax_mem : ∀ (l : List Tr) (w : Tr), lastMax w l ∈ w :: l
  | [], w => by simp [lastMax]
  | x :: l, w => by
    simp only [lastMax]
    have := lastMax_mem l (if w.key > x.key then w else x)
    rcases List.mem_cons.mp this with h | h
    · rw [h]
      split
      · exact List.mem_cons_self
      · exact List.mem_cons_of_mem _ List.mem_cons_self
    · exact List.mem_cons_of_mem _ (List.mem_cons_of_mem _ h)

theorem lastMax_max : ∀ (l : List Tr) (w : Tr), ∀ y ∈ w :: l, y.key ≤ (lastMax w l).key
  | [], w, y, hy => by simp at hy; subst hy; simp [lastMax]
  | x :: l, w, y, hy => by
    simp only [lastMax]
    by_cases hgt : w.key > x.key
    · simp only [if_pos hgt]
      have ih := lastMax_max l w
      have hw := ih w List.mem_cons_self
      rcases List.mem_cons.mp hy with rfl | hy'
      · exact hw
      · rcases List.mem_cons.mp hy' with rfl | hy''
        · omega
        · exact ih y (List.mem_cons_of_mem _ hy'')
    · simp only [if_neg hgt]
      have ih := lastMax_max l x
      have hx := ih x List.mem_cons_self
      rcases List.mem_cons.mp hy with rfl | hy'
      · omega
      · rcases List.mem_cons.mp hy' with rfl | hy''
        · exact hx
        · exact ih y (List.mem_cons_of_mem _ hy'')

theorem mergeNodes_name {rec : List (List Tr) → List Tr} {g : List Tr} {n : Nat} (hne : g ≠ [])
    (hn : ∀ y ∈ g, y.name = n) : ∃ w, mergeNodes rec g = some w ∧ w.name = n := by
  cases g with
  | nil => exact absurd rfl hne
  | cons x l =>
    simp only [mergeNodes]
    have hm := hn _ (lastMax_mem l x)
    refine ⟨_, rfl, ?_⟩
    split
    · exact hm
    · exact hm

/-- looking a name up in the merged nodes of groups that have one distinct name each -/
theorem find_filterMap_groups (rec : List (List Tr) → List Tr) : ∀ (G : List (List Tr)),
    (∀ g ∈ G, g ≠ [] ∧ ∀ y ∈ g, y.name = gname g) → G.Pairwise (fun g g' => gname g < gname g') →
    (∀ g ∈ G, find (gname g) (G.filterMap (mergeNodes rec)) = mergeNodes rec g) ∧
    (∀ n, (∀ g ∈ G, gname g ≠ n) → find n (G.filterMap (mergeNodes rec)) = none) ∧
    (G.filterMap (mergeNodes rec)).map (·.name) = G.map gname := by
  intro G
  induction G with
  | nil => intro _ _; simp [find]
  | cons g G ih =>
    intro hu hp
    obtain ⟨hp1, hp2⟩ := List.pairwise_cons.mp hp
    obtain ⟨ih1, ih2, ih3⟩ := ih (fun g' hg' => hu g' (List.mem_cons_of_mem _ hg')) hp2
    obtain ⟨hgne, hgn⟩ := hu g List.mem_cons_self
    obtain ⟨w, hw, hwn⟩ := mergeNodes_name (rec := rec) hgne hgn
    simp only [List.filterMap_cons, hw]
    refine ⟨?_, ?_, ?_⟩
    · intro g' hg'
      rcases List.mem_cons.mp hg' with rfl | hg''
      · simp [find, hwn, hw]
      · have := hp1 g' hg''
        simp only [find]
        rw [if_neg (by omega)]
        exact ih1 g' hg''
    · intro n hn
      simp only [find]
      rw [if_neg (by have := hn g List.mem_cons_self; omega)]
      exact ih2 n (fun g' hg' => hn g' (List.mem_cons_of_mem _ hg'))
    · simp [hwn, ih3]

theorem groups_uniform {f : Nat} {ts : List (List Tr)} (hs : AllSorted ts) (ht : total ts ≤ f) :
    ∀ g ∈ groups f ts, g ≠ [] ∧ ∀ y ∈ g, y.name = gname g := by
  intro g hg
  obtain ⟨n, hgn, hgne⟩ := (groups_spec f ts hs ht).1 g hg
  refine ⟨hgne, ?_⟩
  have hnames : ∀ y ∈ g, y.name = n := by rw [hgn]; exact row_names
  rw [gname_of_names hgne hnames]
  exact hnames

/-- One level of the merge: the node named `n` of the merged tree is the merge of the nodes named `n`. -/
theorem find_mergeTrees {d : Nat} {ts : List (List Tr)} (hs : AllSorted ts) (n : Nat) :
    find n (mergeTrees (d + 1) ts) = mergeNodes (mergeTrees d) (row n ts) := by
  simp only [mergeTrees]
  obtain ⟨hA, hB, hC⟩ := groups_spec (total ts) ts hs (Nat.le_refl _)
  obtain ⟨h1, h2, _⟩ := find_filterMap_groups (mergeTrees d) _ (groups_uniform hs (Nat.le_refl _)) hC
  by_cases hr : row n ts = []
  · rw [hr]
    simp only [mergeNodes]
    apply h2
    intro g hg hgn
    obtain ⟨n', hgn', hgne⟩ := hA g hg
    have : gname g = n' := gname_of_names hgne (by rw [hgn']; exact row_names)
    apply hgne
    rw [hgn', ← this, hgn, hr]
  · have hmem := hB n hr
    have := h1 _ hmem
    rwa [gname_of_names hr row_names] at this

theorem mergeTrees_sorted {d : Nat} {ts : List (List Tr)} (hs : AllSorted ts) : Sorted (mergeTrees d ts) := by
  cases d with
  | zero => simp [mergeTrees, Sorted]
  | succ d =>
    simp only [mergeTrees]
    obtain ⟨_, _, hC⟩ := groups_spec (total ts) ts hs (Nat.le_refl _)
    obtain ⟨_, _, h3⟩ := find_filterMap_groups (mergeTrees d) _ (groups_uniform hs (Nat.le_refl _)) hC
    unfold Sorted
    have : ((groups (total ts) ts).filterMap (mergeNodes (mergeTrees d))).Pairwise (fun a b => a.name < b.name) := by
      rw [← List.pairwise_map (f := fun (t : Tr) => t.name) (R := fun a b => a < b), h3, List.pairwise_map]
      exact hC
    exact this

/-! ### merge: lookup along a whole path -/

/-- the node at a path (list of names, outermost first) of a tree: descend through directories -/
def lookupPath : List Tr → List Nat → Option Tr
  | _, [] => none
  | t, [n] => find n t
  | t, n :: m :: r =>
    match find n t with
    | some x => if x.isDir then lookupPath x.sub (m :: r) else none
    | none => none

/-- the specification, on the inputs only: at every level take the nodes with that name (one per tree having one);
the `cmp`-maximal one wins; to go deeper it must be a directory, and one continues in the subtrees of ALL directories
among them; at the end of the path the answer is `merge_nodes` of the nodes found there. -/
def specLookup : Nat → List (List Tr) → List Nat → Option Tr
  | 0, _, _ => none
  | _ + 1, _, [] => none
  | d + 1, ts, [n] => mergeNodes (mergeTrees d) (row n ts)
  | d + 1, ts, n :: m :: r =>
    match row n ts with
    | [] => none
    | x :: l =>
      if (lastMax x l).isDir then specLookup d (((x :: l).filter (·.isDir)).map (·.sub)) (m :: r) else none

mutual
/-- sorted at every depth -/
def Tr.DeepSorted : Tr → Prop
  | .node _ _ _ _ sub => Sorted sub ∧ DeepSortedL sub
def DeepSortedL : List Tr → Prop
  | [] => True
  | t :: l => t.DeepSorted ∧ DeepSortedL l
end

def AllDeepSorted (ts : List (List Tr)) : Prop := ∀ t ∈ ts, Sorted t ∧ DeepSortedL t

theorem deepSortedL_mem : ∀ {l : List Tr} {x : Tr}, DeepSortedL l → x ∈ l → x.DeepSorted
  | [], _, _, h => by cases h
  | t :: l, x, hd, h => by
    simp only [DeepSortedL] at hd
    rcases List.mem_cons.mp h with rfl | h
    · exact hd.1
    · exact deepSortedL_mem hd.2 h

theorem deepSorted_sub {x : Tr} (h : x.DeepSorted) : Sorted x.sub ∧ DeepSortedL x.sub := by
  cases x with
  | node n k d t sub => simpa [Tr.DeepSorted, Tr.sub] using h

theorem allDeepSorted_subs {ts : List (List Tr)} (h : AllDeepSorted ts) (n : Nat) :
    AllDeepSorted (((row n ts).filter (·.isDir)).map (·.sub)) := by
  intro t ht
  obtain ⟨x, hx, rfl⟩ := List.mem_map.mp ht
  have hx' := (List.mem_filter.mp hx).1
  obtain ⟨t', ht', hf⟩ := List.mem_filterMap.mp hx'
  exact deepSorted_sub (deepSortedL_mem (h t' ht').2 (find_some hf).1)

theorem mergeNodes_isDir_sub (rec : List (List Tr) → List Tr) (x : Tr) (l : List Tr) :
    ∃ y, mergeNodes rec (x :: l) = some y ∧ y.isDir = (lastMax x l).isDir ∧
      ((lastMax x l).isDir = true → y.sub = rec (((x :: l).filter (·.isDir)).map (·.sub))) := by
  simp only [mergeNodes]
  by_cases h : (lastMax x l).isDir = true
  · rw [if_pos h]
    exact ⟨_, rfl, by rw [h]; rfl, fun _ => rfl⟩
  · rw [if_neg h]
    exact ⟨_, rfl, rfl, fun h' => absurd h' h⟩

/-- **merge, whole paths.**  For inputs sorted at every depth, looking a path up in the merged tree gives what the
specification computes from the inputs level by level (`d` = recursion depth of `merge_trees`, at least the path length). -/
theorem lookupPath_mergeTrees : ∀ (p : List Nat) (d : Nat) (ts : List (List Tr)), AllDeepSorted ts → p.length ≤ d →
    lookupPath (mergeTrees d ts) p = specLookup d ts p
  | [], d, ts, _, _ => by cases d <;> simp [lookupPath, specLookup]
  | [n], d, ts, hs, hd => by
    cases d with
    | zero => simp at hd
    | succ d =>
      simp only [lookupPath, specLookup]
      exact find_mergeTrees (fun t ht => (hs t ht).1) n
  | n :: m :: r, d, ts, hs, hd => by
    cases d with
    | zero => simp at hd
    | succ d =>
      simp only [lookupPath, specLookup]
      rw [find_mergeTrees (fun t ht => (hs t ht).1) n]
      cases hr : row n ts with
      | nil => simp [mergeNodes]
      | cons x l =>
        obtain ⟨y, hy, hyd, hys⟩ := mergeNodes_isDir_sub (mergeTrees d) x l
        simp only [hy, hyd]
        by_cases hdir : (lastMax x l).isDir = true
        · simp only [hdir, if_true]
          rw [hys hdir]
          have hsub := allDeepSorted_subs hs n
          rw [hr] at hsub
          exact lookupPath_mergeTrees (m :: r) d _ hsub (by simp at hd ⊢; omega)
        · simp [hdir]

end Rustic.TreeOps
