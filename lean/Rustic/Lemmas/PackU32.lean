/- Lemmas: the `u32` folds of `Model/PackU32.lean` against the `Nat` fold `packSize`. -/
import Rustic.Model.PackU32
import Rustic.Lemmas.Pack
namespace Rustic.PackU32
open Rustic.Pack
open Rustic.Index (IndexPack)

def natStep (acc : Nat) (b : IndexBlob) : Nat := acc + b.loc.length + entryLen b

theorem packSize_eq_foldl (bs : List IndexBlob) :
    packSize bs = bs.foldl natStep (Rustic.Gen.PACK_COMP_OVERHEAD + Rustic.Gen.PACK_LENGTH_LEN) := rfl

theorem foldl_natStep_ge (bs : List IndexBlob) (a : Nat) : a ≤ bs.foldl natStep a := by
  induction bs generalizing a with
  | nil => exact Nat.le_refl _
  | cons b bs ih => exact Nat.le_trans (by simp only [natStep]; omega) (ih _)

theorem foldl_stepChecked_none (bs : List IndexBlob) : bs.foldl stepChecked none = none := by
  induction bs with
  | nil => rfl
  | cons b bs ih => simpa [stepChecked] using ih

theorem foldl_stepChecked (bs : List IndexBlob) (a : Nat) (ha : a < U32) :
    bs.foldl stepChecked (some a) = if bs.foldl natStep a < U32 then some (bs.foldl natStep a) else none := by
  induction bs generalizing a with
  | nil => simp [ha]
  | cons b bs ih =>
    simp only [List.foldl_cons]
    by_cases h : natStep a b < U32
    · have h1 : a + b.loc.length < U32 := by simp only [natStep] at h; omega
      have hs : stepChecked (some a) b = some (natStep a b) := by
        simp only [natStep] at h
        simp [stepChecked, addChecked, h1, h, natStep]
      rw [hs]; exact ih _ h
    · have hs : stepChecked (some a) b = none := by
        simp only [natStep] at h
        simp only [stepChecked, addChecked, Option.bind_some]
        by_cases h1 : a + b.loc.length < U32
        · simp [h1, h]
        · simp [h1]
      rw [hs, foldl_stepChecked_none]
      have := foldl_natStep_ge bs (natStep a b)
      have hge : ¬ bs.foldl natStep (natStep a b) < U32 := by omega
      simp [hge]

/-- checked build: the computation succeeds exactly when the true sum fits `u32`, and then it is the true sum -/
theorem packSizeChecked_eq (bs : List IndexBlob) :
    packSizeChecked bs = if packSize bs < U32 then some (packSize bs) else none := by
  rw [packSize_eq_foldl]
  exact foldl_stepChecked bs _ (by decide)

theorem foldl_wrapping (bs : List IndexBlob) (a : Nat) :
    bs.foldl (fun acc b => ((acc + b.loc.length) % U32 + entryLen b) % U32) (a % U32) = bs.foldl natStep a % U32 := by
  induction bs generalizing a with
  | nil => rfl
  | cons b bs ih =>
    simp only [List.foldl_cons]
    have : ((a % U32 + b.loc.length) % U32 + entryLen b) % U32 = natStep a b % U32 := by
      simp only [natStep, U32]; omega
    rw [this, ih]

/-- release build: the result is the true sum modulo 2^32 -/
theorem packSizeWrapping_eq (bs : List IndexBlob) : packSizeWrapping bs = packSize bs % U32 := by
  rw [packSize_eq_foldl, ← foldl_wrapping]
  rfl

end Rustic.PackU32
