/-
Lemmas for `Model/RestoreTasks.lean`: running the writer tasks of one file (in blob order) on the allocated file gives the
concatenation of the per-blob segments of `Model/Restore.lean` — `restoreFileTasks = restoreFile` for every input.
-/
import Rustic.Model.RestoreTasks
namespace Rustic.Restore

theorem writeAt_length {f : Bytes} {pos : Nat} {b : Bytes} (h : pos + b.length ≤ f.length) :
    (writeAt f pos b).length = f.length := by
  simp only [writeAt, List.length_append, List.length_take, List.length_drop]; omega

theorem writeAt_take {f : Bytes} {pos : Nat} {b : Bytes} (h : pos ≤ f.length) :
    (writeAt f pos b).take (pos + b.length) = f.take pos ++ b := by
  unfold writeAt
  have hl : (f.take pos ++ b).length = pos + b.length := by simp only [List.length_append, List.length_take]; omega
  exact List.take_left' hl

theorem writeAt_drop {f : Bytes} {pos : Nat} {b : Bytes} (h : pos ≤ f.length) :
    (writeAt f pos b).drop (pos + b.length) = f.drop (pos + b.length) := by
  unfold writeAt
  have hl : (f.take pos ++ b).length = pos + b.length := by simp only [List.length_append, List.length_take]; omega
  exact List.drop_left' hl

/-- per-blob segments when the bytes of an unwritten range come from the (suffix of the) allocated file -/
def segsS (o : Opts) (fresh : Bool) (m : Option Bytes) : Bytes → Nat → List Bytes → List Bytes
  | _, _, [] => []
  | suf, pos, b :: rest =>
    (if isDest m pos b && !isHole o fresh b then b else suf.take b.length) ::
      segsS o fresh m (suf.drop b.length) (pos + b.length) rest

/-- running the tasks of the blobs from `pos` on leaves the first `pos` bytes alone and produces `segsS` behind them -/
theorem foldl_tasks (o : Opts) (fresh : Bool) (m : Option Bytes) (blobs : List Bytes) (f : Bytes) (pos : Nat)
    (hl : f.length = pos + blobs.flatten.length) :
    (tasks o fresh m pos blobs).foldl runTask f = f.take pos ++ (segsS o fresh m (f.drop pos) pos blobs).flatten := by
  induction blobs generalizing f pos with
  | nil =>
    simp only [List.flatten_nil, List.length_nil, Nat.add_zero] at hl
    simp [tasks, segsS, List.take_of_length_le (Nat.le_of_eq hl)]
  | cons b rest ih =>
    simp only [List.flatten_cons, List.length_append] at hl
    have hpos : pos ≤ f.length := by omega
    have hsplit : f.take (pos + b.length) = f.take pos ++ (f.drop pos).take b.length := List.take_add
    have hdd : (f.drop pos).drop b.length = f.drop (pos + b.length) := by rw [List.drop_drop]
    simp only [tasks, List.foldl_append, segsS, List.flatten_cons]
    by_cases hw : (isDest m pos b && !isHole o fresh b) = true
    · -- a task that writes
      have hd : isDest m pos b = true := by simp at hw; exact hw.1
      have hh : isHole o fresh b = false := by simp at hw; exact hw.2
      simp only [hd, if_true, List.foldl_cons, List.foldl_nil, runTask, hh, Bool.false_eq_true, if_false]
      rw [ih (writeAt f pos b) (pos + b.length) (by rw [writeAt_length (by omega)]; omega)]
      rw [writeAt_take hpos, writeAt_drop hpos, hdd, List.append_assoc]
      simp
    · -- no write: no task, or a hole
      have hf : (tasks o fresh m pos [b]).foldl runTask f = f := by
        simp only [tasks, List.append_nil]
        by_cases hd : isDest m pos b = true
        · have hh : isHole o fresh b = true := by simp [hd] at hw; exact hw
          simp [hd, runTask, hh]
        · simp [hd]
      have hf' : (if isDest m pos b = true then [({ pos := pos, data := b, hole := isHole o fresh b } : Task)] else []).foldl runTask f = f := by
        simpa [tasks] using hf
      rw [hf', if_neg hw, ih f (pos + b.length) (by omega), hsplit, hdd, List.append_assoc]

/-- `segs` of `Model/Restore.lean` = `segsS` when the base holds the blob wherever a blob matches -/
theorem segs_eq_segsS (o : Opts) (fresh : Bool) (m : Option Bytes) (base : Bytes)
    (hm : ∀ pos b, blobMatches m pos b = true → (base.drop pos).take b.length = b) (blobs : List Bytes) (pos : Nat) :
    segs o fresh base m pos blobs = segsS o fresh m (base.drop pos) pos blobs := by
  induction blobs generalizing pos with
  | nil => rfl
  | cons b rest ih =>
    simp only [segs, segsS, List.drop_drop]
    rw [ih (pos + b.length)]
    congr 1
    unfold seg isDest isHole
    by_cases h1 : blobMatches m pos b = true
    · simp [h1, hm pos b h1]
    · by_cases h2 : (o.sparse && fresh && allZero b) = true
      · simp [h1, h2]
      · simp [h1, h2]

theorem allocate_length (old : Bytes) (fresh : Bool) (n : Nat) : (allocate old fresh n).length = n := by
  unfold allocate setLength
  split <;> simp <;> omega

theorem blobMatches_none (pos : Nat) (b : Bytes) : blobMatches none pos b = false := rfl

/-- a file that has to be created (no existing file of the right size) and is not empty gets at least one writer task —
the task that creates and sizes it.  (The seeded change C14-2 filtered holes out before the tasks are spawned.) -/
theorem tasks_ne_nil_of_fresh (o : Opts) (fresh : Bool) (blobs : List Bytes) (pos : Nat) (h : blobs.flatten.length ≠ 0) :
    tasks o fresh none pos blobs ≠ [] := by
  cases blobs with
  | nil => simp at h
  | cons b rest => simp [tasks, isDest, blobMatches_none]

theorem matchingFile_some {old : Option Bytes} {n : Nat} {g : Bytes} (h : matchingFile old n = some g) :
    old = some g ∧ g.length = n := by
  unfold matchingFile at h
  cases old with
  | none => cases h
  | some f =>
    simp only at h
    split at h
    · rename_i hl; cases h; exact ⟨rfl, hl⟩
    · cases h

theorem allocate_matching (g : Bytes) : allocate g false g.length = g := by
  simp [allocate, setLength]

/-- **the task-level model and the segment model agree on every input** -/
theorem restoreFileTasks_eq (o : Opts) (old : Option Bytes) (dm nm : Option MTime) (blobs : List Bytes) :
    restoreFileTasks o old dm nm blobs = restoreFile o old dm nm blobs := by
  unfold restoreFileTasks restoreFile
  simp only
  by_cases h0 : blobs.flatten.length = 0
  · -- empty file
    simp only [h0, if_true, true_and]
    cases hm : matchingFile old 0 with
    | some g => simp
    | none =>
      simp only [Option.isSome_none, Bool.false_eq_true, if_false, false_and, and_false, Option.isNone_none]
      have hnil : ∀ (bs : List Bytes) (base : Bytes) (pos : Nat), bs.flatten.length = 0 →
          (segs o true base none pos bs).flatten = [] := by
        intro bs
        induction bs with
        | nil => intros; rfl
        | cons b rest ih =>
          intro base pos hl
          simp only [List.flatten_cons, List.length_append] at hl
          have hb : b = [] := List.eq_nil_of_length_eq_zero (by omega)
          subst hb
          simp only [segs, List.flatten_cons]
          rw [ih base (pos + ([] : Bytes).length) (by simpa using hl)]
          simp [seg, blobMatches_none]
      rw [hnil blobs _ 0 h0]
  · simp only [h0, if_false, false_and]
    by_cases h1 : o.verify = false ∧ (matchingFile old blobs.flatten.length).isSome = true ∧ mtimeEq dm nm = true
    · simp only [h1, and_self, if_true]
    · simp only [h1, if_false]
      -- the allocated file and what the tasks make of it
      have key : ∀ (fresh : Bool) (m : Option Bytes) (F : Bytes), F.length = blobs.flatten.length →
          (∀ pos b, blobMatches m pos b = true → (F.drop pos).take b.length = b) →
          (tasks o fresh m 0 blobs).foldl runTask F = (segs o fresh F m 0 blobs).flatten := by
        intro fresh m F hF hmm
        rw [foldl_tasks o fresh m blobs F 0 (by omega), segs_eq_segsS o fresh m F hmm blobs 0]
        simp
      cases hm : matchingFile old blobs.flatten.length with
      | none =>
        simp only [Option.isNone_none]
        have hne := tasks_ne_nil_of_fresh o true blobs 0 h0
        have hk := key true none (allocate (old.getD []) true blobs.flatten.length) (allocate_length _ _ _)
          (fun pos b h => by simp [blobMatches_none] at h)
        cases ht : tasks o true none 0 blobs with
        | nil => exact absurd ht hne
        | cons t rest => simp only [runTasks]; rw [← ht, hk]
      | some g =>
        obtain ⟨hold, hg⟩ := matchingFile_some hm
        subst hold
        simp only [Option.isNone_some, Option.getD_some]
        have hF : allocate g false blobs.flatten.length = g := by rw [← hg]; exact allocate_matching g
        have hk := key false (some g) g hg (fun pos b h => by
          simp only [blobMatches] at h
          exact eq_of_beq h)
        rw [hF]
        cases ht : tasks o false (some g) 0 blobs with
        | nil =>
          simp only [runTasks]
          rw [← hk, ht]; rfl
        | cons t rest => simp only [runTasks, Option.getD_some, hF]; rw [← ht, hk]

/-! ### any order of the writer tasks -/

/-- `writeAt` on a file split as `A ++ X ++ R` with `|A| = pos`, `|X| = |d|` -/
theorem writeAt_split (A X R d : Bytes) (h : X.length = d.length) :
    writeAt (A ++ X ++ R) A.length d = A ++ d ++ R := by
  unfold writeAt
  have h1 : (A ++ X ++ R).take A.length = A := by
    rw [List.append_assoc]; exact List.take_left' rfl
  have h2 : (A ++ X ++ R).drop (A.length + d.length) = R := by
    apply List.drop_left'
    simp [h]
  rw [h1, h2]

/-- two writes to disjoint ranges of a file that holds both ranges commute -/
theorem writeAt_comm (z : Bytes) (p1 p2 : Nat) (d1 d2 : Bytes) (h12 : p1 + d1.length ≤ p2)
    (hz : p2 + d2.length ≤ z.length) :
    writeAt (writeAt z p1 d1) p2 d2 = writeAt (writeAt z p2 d2) p1 d1 := by
  -- z = A ++ X ++ B ++ Y ++ C
  let A := z.take p1
  let X := (z.drop p1).take d1.length
  let B := (z.drop (p1 + d1.length)).take (p2 - (p1 + d1.length))
  let Y := (z.drop p2).take d2.length
  let C := z.drop (p2 + d2.length)
  have hA : A.length = p1 := by simp only [A, List.length_take]; omega
  have hX : X.length = d1.length := by simp only [X, List.length_take, List.length_drop]; omega
  have hB : B.length = p2 - (p1 + d1.length) := by simp only [B, List.length_take, List.length_drop]; omega
  have hY : Y.length = d2.length := by simp only [Y, List.length_take, List.length_drop]; omega
  have hz' : z = A ++ X ++ B ++ Y ++ C := by
    have e1 : z = A ++ z.drop p1 := (List.take_append_drop p1 z).symm
    have e2 : z.drop p1 = X ++ z.drop (p1 + d1.length) := by
      have := (List.take_append_drop d1.length (z.drop p1)).symm
      rw [List.drop_drop] at this; exact this
    have e3 : z.drop (p1 + d1.length) = B ++ z.drop p2 := by
      have := (List.take_append_drop (p2 - (p1 + d1.length)) (z.drop (p1 + d1.length))).symm
      rw [List.drop_drop] at this
      have hp : p1 + d1.length + (p2 - (p1 + d1.length)) = p2 := by omega
      rw [hp] at this; exact this
    have e4 : z.drop p2 = Y ++ C := by
      have := (List.take_append_drop d2.length (z.drop p2)).symm
      rw [List.drop_drop] at this; exact this
    calc z = A ++ z.drop p1 := e1
      _ = A ++ (X ++ (B ++ (Y ++ C))) := by rw [e2, e3, e4]
      _ = A ++ X ++ B ++ Y ++ C := by simp [List.append_assoc]
  have hp2 : (A ++ d1 ++ B).length = p2 := by simp only [List.length_append, hA, hB]; omega
  have hp2' : (A ++ X ++ B).length = p2 := by simp only [List.length_append, hA, hX, hB]; omega
  rw [hz']
  -- first order
  have s1 : writeAt (A ++ X ++ B ++ Y ++ C) p1 d1 = A ++ d1 ++ (B ++ Y ++ C) := by
    have : A ++ X ++ B ++ Y ++ C = A ++ X ++ (B ++ Y ++ C) := by simp [List.append_assoc]
    rw [this, ← hA]; exact writeAt_split A X _ d1 hX
  have s2 : writeAt (A ++ d1 ++ (B ++ Y ++ C)) p2 d2 = A ++ d1 ++ B ++ d2 ++ C := by
    have : A ++ d1 ++ (B ++ Y ++ C) = (A ++ d1 ++ B) ++ Y ++ C := by simp [List.append_assoc]
    rw [this, ← hp2]; exact writeAt_split (A ++ d1 ++ B) Y C d2 hY
  -- second order
  have t1 : writeAt (A ++ X ++ B ++ Y ++ C) p2 d2 = A ++ X ++ B ++ d2 ++ C := by
    rw [← hp2']; exact writeAt_split (A ++ X ++ B) Y C d2 hY
  have t2 : writeAt (A ++ X ++ B ++ d2 ++ C) p1 d1 = A ++ d1 ++ (B ++ d2 ++ C) := by
    have : A ++ X ++ B ++ d2 ++ C = A ++ X ++ (B ++ d2 ++ C) := by simp [List.append_assoc]
    rw [this, ← hA]; exact writeAt_split A X _ d1 hX
  rw [s1, s2, t1, t2]
  simp [List.append_assoc]

theorem runTask_length {f : Bytes} {t : Task} (h : t.pos + t.data.length ≤ f.length) : (runTask f t).length = f.length := by
  unfold runTask
  split
  · rfl
  · exact writeAt_length h

theorem runTask_comm (z : Bytes) (x y : Task) (hxy : x.pos + x.data.length ≤ y.pos) (hz : y.pos + y.data.length ≤ z.length) :
    runTask (runTask z x) y = runTask (runTask z y) x := by
  unfold runTask
  cases hx : x.hole <;> cases hy : y.hole <;> simp
  exact writeAt_comm z x.pos y.pos x.data y.data hxy hz

theorem tasks_bounds (o : Opts) (fresh : Bool) (m : Option Bytes) (blobs : List Bytes) (pos : Nat) :
    ∀ t ∈ tasks o fresh m pos blobs, pos ≤ t.pos ∧ t.pos + t.data.length ≤ pos + blobs.flatten.length := by
  induction blobs generalizing pos with
  | nil => intro t ht; cases ht
  | cons b rest ih =>
    intro t ht
    simp only [tasks, List.mem_append] at ht
    simp only [List.flatten_cons, List.length_append]
    rcases ht with ht | ht
    · split at ht
      · simp only [List.mem_singleton] at ht; subst ht; simp
      · cases ht
    · have := ih (pos + b.length) t ht
      omega

/-- the tasks of one file write to consecutive, pairwise disjoint ranges -/
theorem tasks_pairwise (o : Opts) (fresh : Bool) (m : Option Bytes) (blobs : List Bytes) (pos : Nat) :
    (tasks o fresh m pos blobs).Pairwise (fun x y => x.pos + x.data.length ≤ y.pos) := by
  induction blobs generalizing pos with
  | nil => exact List.Pairwise.nil
  | cons b rest ih =>
    simp only [tasks]
    rw [List.pairwise_append]
    refine ⟨?_, ih (pos + b.length), ?_⟩
    · split
      · exact List.pairwise_singleton _ _
      · exact List.Pairwise.nil
    · intro x hx y hy
      have hy' := (tasks_bounds o fresh m rest (pos + b.length) y hy).1
      split at hx
      · simp only [List.mem_singleton] at hx; subst hx; exact hy'
      · cases hx

theorem pairwise_cases {α : Type} {R : α → α → Prop} {l : List α} (h : l.Pairwise R) :
    ∀ x ∈ l, ∀ y ∈ l, x = y ∨ R x y ∨ R y x := by
  induction l with
  | nil => intro x hx; cases hx
  | cons a rest ih =>
    intro x hx y hy
    have ha : ∀ e ∈ rest, R a e := fun e he => List.rel_of_pairwise_cons h he
    rcases List.mem_cons.1 hx with hx1 | hx1
    · rcases List.mem_cons.1 hy with hy1 | hy1
      · exact Or.inl (hx1.trans hy1.symm)
      · exact Or.inr (Or.inl (hx1 ▸ ha y hy1))
    · rcases List.mem_cons.1 hy with hy1 | hy1
      · exact Or.inr (Or.inr (hy1 ▸ ha x hx1))
      · exact ih (List.Pairwise.of_cons h) x hx1 y hy1

/-- a fold over steps that commute pairwise (on the states satisfying an invariant the steps keep) does not depend on the order -/
theorem foldl_perm_comm {α β : Type} (f : β → α → β) (P : β → Prop) {l₁ l₂ : List α} (hp : l₁.Perm l₂)
    (hP : ∀ z x, x ∈ l₁ → P z → P (f z x))
    (hc : ∀ x ∈ l₁, ∀ y ∈ l₁, ∀ z, P z → f (f z x) y = f (f z y) x) :
    ∀ z, P z → l₁.foldl f z = l₂.foldl f z := by
  induction hp with
  | nil => intros; rfl
  | cons a _ ih =>
    intro z hz
    simp only [List.foldl_cons]
    exact ih (fun z x hx => hP z x (List.mem_cons_of_mem _ hx))
      (fun x hx y hy => hc x (List.mem_cons_of_mem _ hx) y (List.mem_cons_of_mem _ hy)) _ (hP z a List.mem_cons_self hz)
  | swap a b l =>
    intro z hz
    simp only [List.foldl_cons]
    rw [hc b List.mem_cons_self a (List.mem_cons_of_mem _ List.mem_cons_self) z hz]
  | trans h1 _ ih1 ih2 =>
    intro z hz
    rw [ih1 hP hc z hz]
    exact ih2 (fun z x hx => hP z x (h1.mem_iff.2 hx)) (fun x hx y hy => hc x (h1.mem_iff.2 hx) y (h1.mem_iff.2 hy)) z hz

/-- **whatever order the writer tasks of a file run in, the file ends the same** (they write to disjoint ranges of the
allocated file) -/
theorem tasks_any_order (o : Opts) (fresh : Bool) (m : Option Bytes) (blobs : List Bytes) (F : Bytes)
    (hF : F.length = blobs.flatten.length) (ts : List Task) (hp : ts.Perm (tasks o fresh m 0 blobs)) :
    ts.foldl runTask F = (tasks o fresh m 0 blobs).foldl runTask F := by
  symm
  have hb := tasks_bounds o fresh m blobs 0
  have hpw := pairwise_cases (tasks_pairwise o fresh m blobs 0)
  refine foldl_perm_comm runTask (fun z => z.length = blobs.flatten.length) hp.symm ?_ ?_ F hF
  · intro z x hx hz
    show (runTask z x).length = _
    rw [runTask_length (by have := (hb x hx).2; omega), hz]
  · intro x hx y hy z hz
    rcases hpw x hx y hy with h | h | h
    · rw [h]
    · exact runTask_comm z x y h (by have := (hb y hy).2; omega)
    · exact (runTask_comm z y x h (by have := (hb x hx).2; omega)).symm

theorem runTasks_any_order (o : Opts) (fresh : Bool) (m : Option Bytes) (blobs : List Bytes) (old : Option Bytes)
    (ts : List Task) (hp : ts.Perm (tasks o fresh m 0 blobs)) :
    runTasks old fresh blobs.flatten.length ts = runTasks old fresh blobs.flatten.length (tasks o fresh m 0 blobs) := by
  have h := tasks_any_order o fresh m blobs (allocate (old.getD []) fresh blobs.flatten.length) (allocate_length _ _ _) ts hp
  cases hts : ts with
  | nil =>
    rw [hts] at hp
    rw [List.nil_perm.1 hp]
  | cons t rest =>
    cases htt : tasks o fresh m 0 blobs with
    | nil => rw [hts, htt] at hp; exact absurd hp.symm (List.not_perm_nil_cons _ _)
    | cons t' rest' =>
      simp only [runTasks]
      rw [← hts, ← htt, h]

end Rustic.Restore
