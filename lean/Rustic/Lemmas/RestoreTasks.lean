/-
Lemmas for `Model/RestoreTasks.lean`: running the writer tasks of one file (in blob order) on the allocated file gives the
concatenation of the per-blob segments of `Model/Restore.lean` — `restoreFileTasks = restoreFile` for every input.
-/
import Rustic.Model.RestoreTasks
namespace Rustic.Restore

theorem writeAt_length {f : Bytes} {pos : Nat} {b : Bytes} (h : pos + b.length ≤ f.length) :
    (writeAt f pos b).length = f.length := by
  simp only [writeAt, List.length_append, List.length_take, List.length_drop]; omega

theorem writeAt_take {f : Bytes} {pos : Nat} {b : Bytes} (h : pos ≤ f.length) :
    (writeAt f pos b).take (pos + b.length) = f.take pos ++ b := by
  unfold writeAt
  have hl : (f.take pos ++ b).length = pos + b.length := by simp only [List.length_append, List.length_take]; omega
  exact List.take_left' hl

theorem writeAt_drop {f : Bytes} {pos : Nat} {b : Bytes} (h : pos ≤ f.length) :
    (writeAt f pos b).drop (pos + b.length) = f.drop (pos + b.length) := by
  unfold writeAt
  have hl : (f.take pos ++ b).length = pos + b.length := by simp only [List.length_append, List.length_take]; omega
  exact List.drop_left' hl

/-- per-blob segments when the bytes of an unwritten range come from the (suffix of the) allocated file -/
def segsS (o : Opts) (fresh : Bool) (m : Option Bytes) : Bytes → Nat → List Bytes → List Bytes
  | _, _, [] => []
  | suf, pos, b :: rest =>
    (if isDest m pos b && !isHole o fresh b then b else suf.take b.length) ::
      segsS o fresh m (suf.drop b.length) (pos + b.length) rest

/-- running the tasks of the blobs from `pos` on leaves the first `pos` bytes alone and produces `segsS` behind them -/
theorem foldl_tasks (o : Opts) (fresh : Bool) (m : Option Bytes) (blobs : List Bytes) (f : Bytes) (pos : Nat)
    (hl : f.length = pos + blobs.flatten.length) :
    (tasks o fresh m pos blobs).foldl runTask f = f.take pos ++ (segsS o fresh m (f.drop pos) pos blobs).flatten := by
  induction blobs generalizing f pos with
  | nil =>
    simp only [List.flatten_nil, List.length_nil, Nat.add_zero] at hl
    simp [tasks, segsS, List.take_of_length_le (Nat.le_of_eq hl)]
  | cons b rest ih =>
    simp only [List.flatten_cons, List.length_append] at hl
    have hpos : pos ≤ f.length := by omega
    have hsplit : f.take (pos + b.length) = f.take pos ++ (f.drop pos).take b.length := List.take_add
    have hdd : (f.drop pos).drop b.length = f.drop (pos + b.length) := by rw [List.drop_drop]
    simp only [tasks, List.foldl_append, segsS, List.flatten_cons]
    by_cases hw : (isDest m pos b && !isHole o fresh b) = true
    · -- a task that writes
      have hd : isDest m pos b = true := by simp at hw; exact hw.1
      have hh : isHole o fresh b = false := by simp at hw; exact hw.2
      simp only [hd, if_true, List.foldl_cons, List.foldl_nil, runTask, hh, Bool.false_eq_true, if_false]
      rw [ih (writeAt f pos b) (pos + b.length) (by rw [writeAt_length (by omega)]; omega)]
      rw [writeAt_take hpos, writeAt_drop hpos, hdd, List.append_assoc]
      simp
    · -- no write: no task, or a hole
      have hf : (tasks o fresh m pos [b]).foldl runTask f = f := by
        simp only [tasks, List.append_nil]
        by_cases hd : isDest m pos b = true
        · have hh : isHole o fresh b = true := by simp [hd] at hw; exact hw
          simp [hd, runTask, hh]
        · simp [hd]
      have hf' : (if isDest m pos b = true then [({ pos := pos, data := b, hole := isHole o fresh b } : Task)] else []).foldl runTask f = f := by
        simpa [tasks] using hf
      rw [hf', if_neg hw, ih f (pos + b.length) (by omega), hsplit, hdd, List.append_assoc]

/-- `segs` of `Model/Restore.lean` = `segsS` when the base holds the blob wherever a blob matches -/
theorem segs_eq_segsS (o : Opts) (fresh : Bool) (m : Option Bytes) (base : Bytes)
    (hm : ∀ pos b, blobMatches m pos b = true → (base.drop pos).take b.length = b) (blobs : List Bytes) (pos : Nat) :
    segs o fresh base m pos blobs = segsS o fresh m (base.drop pos) pos blobs := by
  induction blobs generalizing pos with
  | nil => rfl
  | cons b rest ih =>
    simp only [segs, segsS, List.drop_drop]
    rw [ih (pos + b.length)]
    congr 1
    unfold seg isDest isHole
    by_cases h1 : blobMatches m pos b = true
    · simp [h1, hm pos b h1]
    · by_cases h2 : (o.sparse && fresh && allZero b) = true
      · simp [h1, h2]
      · simp [h1, h2]

theorem allocate_length (old : Bytes) (fresh : Bool) (n : Nat) : (allocate old fresh n).length = n := by
  unfold allocate setLength
  split <;> simp <;> omega

theorem blobMatches_none (pos : Nat) (b : Bytes) : blobMatches none pos b = false := rfl

/-- a file that has to be created (no existing file of the right size) and is not empty gets at least one writer task —
the task that creates and sizes it.  (The seeded change C14-2 filtered holes out before the tasks are spawned.) -/
theorem tasks_ne_nil_of_fresh (o : Opts) (fresh : Bool) (blobs : List Bytes) (pos : Nat) (h : blobs.flatten.length ≠ 0) :
    tasks o fresh none pos blobs ≠ [] := by
  cases blobs with
  | nil => simp at h
  | cons b rest => simp [tasks, isDest, blobMatches_none]

theorem matchingFile_some {old : Option Bytes} {n : Nat} {g : Bytes} (h : matchingFile old n = some g) :
    old = some g ∧ g.length = n := by
  unfold matchingFile at h
  cases old with
  | none => cases h
  | some f =>
    simp only at h
    split at h
    · rename_i hl; cases h; exact ⟨rfl, hl⟩
    · cases h

theorem allocate_matching (g : Bytes) : allocate g false g.length = g := by
  simp [allocate, setLength]

/-- **the task-level model and the segment model agree on every input** -/
theorem restoreFileTasks_eq (o : Opts) (old : Option Bytes) (mtimeEq : Bool) (blobs : List Bytes) :
    restoreFileTasks o old mtimeEq blobs = restoreFile o old mtimeEq blobs := by
  unfold restoreFileTasks restoreFile
  simp only
  by_cases h0 : blobs.flatten.length = 0
  · -- empty file
    simp only [h0, if_true, true_and]
    cases hm : matchingFile old 0 with
    | some g => simp
    | none =>
      simp only [Option.isSome_none, Bool.false_eq_true, if_false, false_and, and_false, Option.isNone_none]
      have hnil : ∀ (bs : List Bytes) (base : Bytes) (pos : Nat), bs.flatten.length = 0 →
          (segs o true base none pos bs).flatten = [] := by
        intro bs
        induction bs with
        | nil => intros; rfl
        | cons b rest ih =>
          intro base pos hl
          simp only [List.flatten_cons, List.length_append] at hl
          have hb : b = [] := List.eq_nil_of_length_eq_zero (by omega)
          subst hb
          simp only [segs, List.flatten_cons]
          rw [ih base (pos + ([] : Bytes).length) (by simpa using hl)]
          simp [seg, blobMatches_none]
      rw [hnil blobs _ 0 h0]
  · simp only [h0, if_false, false_and]
    by_cases h1 : o.verify = false ∧ (matchingFile old blobs.flatten.length).isSome = true ∧ mtimeEq = true
    · simp only [h1, and_self, if_true]
    · simp only [h1, if_false]
      -- the allocated file and what the tasks make of it
      have key : ∀ (fresh : Bool) (m : Option Bytes) (F : Bytes), F.length = blobs.flatten.length →
          (∀ pos b, blobMatches m pos b = true → (F.drop pos).take b.length = b) →
          (tasks o fresh m 0 blobs).foldl runTask F = (segs o fresh F m 0 blobs).flatten := by
        intro fresh m F hF hmm
        rw [foldl_tasks o fresh m blobs F 0 (by omega), segs_eq_segsS o fresh m F hmm blobs 0]
        simp
      cases hm : matchingFile old blobs.flatten.length with
      | none =>
        simp only [Option.isNone_none]
        have hne := tasks_ne_nil_of_fresh o true blobs 0 h0
        have hk := key true none (allocate (old.getD []) true blobs.flatten.length) (allocate_length _ _ _)
          (fun pos b h => by simp [blobMatches_none] at h)
        cases ht : tasks o true none 0 blobs with
        | nil => exact absurd ht hne
        | cons t rest => simp only [runTasks]; rw [← ht, hk]
      | some g =>
        obtain ⟨hold, hg⟩ := matchingFile_some hm
        subst hold
        simp only [Option.isNone_some, Option.getD_some]
        have hF : allocate g false blobs.flatten.length = g := by rw [← hg]; exact allocate_matching g
        have hk := key false (some g) g hg (fun pos b h => by
          simp only [blobMatches] at h
          exact eq_of_beq h)
        rw [hF]
        cases ht : tasks o false (some g) 0 blobs with
        | nil =>
          simp only [runTasks]
          rw [← hk, ht]; rfl
        | cons t rest => simp only [runTasks, Option.getD_some, hF]; rw [← ht, hk]

end Rustic.Restore
