/-
Lemmas about `Rustic.Prune` (model of commands/prune.rs): the used-id counter bookkeeping of
`PackInfo::from_pack`, `decide_packs`, `decide_repack`, `check_existing_packs` and the repack `retain`.
-/
import Rustic.Model.Prune
namespace Rustic.Prune
open Rustic.Repo (BlobType Key)

/-- number of blobs of `bs` whose `used_ids` key is `k`. -/
def occ (typed : Bool) (k : Key) (bs : List Blob) : Nat := bs.countP (fun b => keyOf typed b = k)

@[simp] theorem occ_nil (typed : Bool) (k : Key) : occ typed k [] = 0 := rfl

theorem occ_cons (typed : Bool) (k : Key) (b : Blob) (bs : List Blob) :
    occ typed k (b :: bs) = occ typed k bs + (if keyOf typed b = k then 1 else 0) := by
  simp [occ, List.countP_cons]

theorem occ_eq_zero {typed : Bool} {k : Key} {bs : List Blob} (h : k ∉ bs.map (keyOf typed)) :
    occ typed k bs = 0 := by
  induction bs with
  | nil => rfl
  | cons b bs ih =>
    simp only [List.map_cons, List.mem_cons, not_or] at h
    rw [occ_cons, ih h.2, if_neg (fun e => h.1 e.symm)]

theorem occ_pos {typed : Bool} {k : Key} {bs : List Blob} (h : 0 < occ typed k bs) :
    k ∈ bs.map (keyOf typed) := by
  by_cases hk : k ∈ bs.map (keyOf typed)
  · exact hk
  · rw [occ_eq_zero hk] at h; omega

@[simp] theorem Counts.get_set (c : Counts) (k k' : Key) (v : Nat) :
    (c.set k v).get k' = if k' = k then some v else c.get k' := rfl

@[simp] theorem Counts.get_erase (c : Counts) (k k' : Key) :
    (c.erase k).get k' = if k' = k then none else c.get k' := rfl

/-- How one run of a counter-updating function may change the counters: keys outside the map stay outside,
exhausted counters (0) stay exhausted. -/
def Mono (c c' : Counts) : Prop :=
  ∀ k, (c.get k = none → c'.get k = none) ∧ (c.get k = some 0 → c'.get k = some 0)

theorem Mono.refl (c : Counts) : Mono c c := fun _ => ⟨id, id⟩
theorem Mono.trans {a b c : Counts} (h₁ : Mono a b) (h₂ : Mono b c) : Mono a c :=
  fun k => ⟨fun h => (h₂ k).1 ((h₁ k).1 h), fun h => (h₂ k).2 ((h₁ k).2 h)⟩

/-! ### `scan` -/

theorem scan_none (typed : Bool) : ∀ (bs : List Blob) (c c' : Counts), scan typed bs c = (none, c') →
    Mono c c' ∧ ∀ k n, c.get k = some (n + 1) → occ typed k bs ≤ n ∧ c'.get k = some (n + 1 - occ typed k bs)
  | [], c, c', h => by
    simp only [scan, Prod.mk.injEq, true_and] at h; subst h
    exact ⟨Mono.refl _, fun k n hk => by simp [hk]⟩
  | b :: bs, c, c', h => by
    unfold scan at h
    split at h
    · -- none
      rename_i hb
      split at h
      · simp at h
      · rename_i c'' hs
        simp only [Prod.mk.injEq, true_and] at h; subst h
        have ih := scan_none typed bs c c'' hs
        refine ⟨ih.1, fun k n hk => ?_⟩
        have hne : keyOf typed b ≠ k := fun e => by rw [e] at hb; simp [hb] at hk
        rw [occ_cons, if_neg hne]; exact ih.2 k n hk
    · rename_i hb
      split at h
      · simp at h
      · rename_i c'' hs
        simp only [Prod.mk.injEq, true_and] at h; subst h
        have ih := scan_none typed bs c c'' hs
        refine ⟨ih.1, fun k n hk => ?_⟩
        have hne : keyOf typed b ≠ k := fun e => by rw [e] at hb; simp [hb] at hk
        rw [occ_cons, if_neg hne]; exact ih.2 k n hk
    · rename_i m hb
      split at h
      · simp at h
      · rename_i hm
        split at h
        · simp at h
        · rename_i c'' hs
          simp only [Prod.mk.injEq, true_and] at h; subst h
          have ih := scan_none typed bs (c.set (keyOf typed b) m) c'' hs
          constructor
          · intro k
            by_cases hk : k = keyOf typed b
            · subst hk; simp [hb]
            · have := ih.1 k; simpa [hk] using this
          · intro k n hk
            by_cases hkb : keyOf typed b = k
            · subst hkb
              rw [hb] at hk
              have hmn : m = n := by simpa using hk
              subst hmn
              obtain ⟨m', rfl⟩ : ∃ m', m = m' + 1 := ⟨m - 1, by omega⟩
              have := ih.2 (keyOf typed b) m' (by simp)
              rw [occ_cons, if_pos rfl]
              exact ⟨by omega, by rw [this.2]; congr 1; omega⟩
            · have hkb' : k ≠ keyOf typed b := fun e => hkb e.symm
              have hk' : (c.set (keyOf typed b) m).get k = some (n + 1) := by simp [hkb', hk]
              rw [occ_cons, if_neg hkb]; exact ih.2 k n hk'

theorem scan_some (typed : Bool) : ∀ (bs : List Blob) (c c1 : Counts) (pre post : List Blob) (x : Blob),
    scan typed bs c = (some (pre, x, post), c1) →
    bs = pre ++ x :: post ∧ Mono c c1 ∧ c1.get (keyOf typed x) = some 0 ∧
    (∃ n, c.get (keyOf typed x) = some (n + 1)) ∧
    (∀ k, k ∉ bs.map (keyOf typed) → c1.get k = c.get k) ∧
    (∀ k n, k ≠ keyOf typed x → c.get k = some (n + 1) → ∃ m, c1.get k = some (m + 1))
  | [], c, c1, pre, post, x, h => by simp [scan] at h
  | b :: bs, c, c1, pre, post, x, h => by
    unfold scan at h
    have step : ∀ (c0 : Counts), Mono c c0 → (∀ k, k ≠ keyOf typed b → c0.get k = c.get k) →
        (∀ n, c.get (keyOf typed b) = some (n + 1) → ∃ m, c0.get (keyOf typed b) = some (m + 1)) →
        ∀ pre', scan typed bs c0 = (some (pre', x, post), c1) → pre = b :: pre' →
        (b :: bs = pre ++ x :: post ∧ Mono c c1 ∧ c1.get (keyOf typed x) = some 0 ∧
          (∃ n, c.get (keyOf typed x) = some (n + 1)) ∧
          (∀ k, k ∉ (b :: bs).map (keyOf typed) → c1.get k = c.get k) ∧
          (∀ k n, k ≠ keyOf typed x → c.get k = some (n + 1) → ∃ m, c1.get k = some (m + 1))) := by
      intro c0 hm hsame hpos pre' hs hpre
      obtain ⟨e, m1, z, p, u, q⟩ := scan_some typed bs c0 c1 pre' post x hs
      subst hpre
      refine ⟨by rw [e]; rfl, hm.trans m1, z, ?_, ?_, ?_⟩
      · obtain ⟨n, hn⟩ := p
        by_cases hx : keyOf typed x = keyOf typed b
        · rw [hx] at hn ⊢
          cases hcb : c.get (keyOf typed b) with
          | none => rw [(hm _).1 hcb] at hn; simp at hn
          | some v =>
            cases v with
            | zero => rw [(hm _).2 hcb] at hn; simp at hn
            | succ v => exact ⟨v, rfl⟩
        · exact ⟨n, by rw [← hsame _ hx]; exact hn⟩
      · intro k hk
        simp only [List.map_cons, List.mem_cons, not_or] at hk
        rw [u k hk.2, hsame k hk.1]
      · intro k n hkx hk
        by_cases hkb : k = keyOf typed b
        · subst hkb
          obtain ⟨m, hm'⟩ := hpos n hk
          exact q _ m hkx hm'
        · exact q k n hkx (by rw [hsame k hkb]; exact hk)
    split at h
    · rename_i hb
      split at h
      · rename_i pre' x' post' c'' hs
        simp only [Prod.mk.injEq, Option.some.injEq] at h
        obtain ⟨⟨rfl, rfl, rfl⟩, rfl⟩ := h
        exact step c (Mono.refl _) (fun _ _ => rfl) (fun n hn => by rw [hb] at hn; simp at hn) pre' hs rfl
      · simp at h
    · rename_i hb
      split at h
      · rename_i pre' x' post' c'' hs
        simp only [Prod.mk.injEq, Option.some.injEq] at h
        obtain ⟨⟨rfl, rfl, rfl⟩, rfl⟩ := h
        exact step c (Mono.refl _) (fun _ _ => rfl) (fun n hn => by rw [hb] at hn; simp at hn) pre' hs rfl
      · simp at h
    · rename_i m hb
      split at h
      · rename_i hm
        subst hm
        simp only [Prod.mk.injEq, Option.some.injEq] at h
        obtain ⟨⟨rfl, rfl, rfl⟩, rfl⟩ := h
        refine ⟨rfl, ?_, by simp, ⟨0, hb⟩, ?_, ?_⟩
        · intro k
          by_cases hk : k = keyOf typed b
          · subst hk; simp [hb]
          · simp [hk]
        · intro k hk
          simp only [List.map_cons, List.mem_cons, not_or] at hk
          simp [hk.1]
        · intro k n hkx hk; exact ⟨n, by simp [hkx, hk]⟩
      · rename_i hm
        split at h
        · rename_i pre' x' post' c'' hs
          simp only [Prod.mk.injEq, Option.some.injEq] at h
          obtain ⟨⟨rfl, rfl, rfl⟩, rfl⟩ := h
          refine step (c.set (keyOf typed b) m) ?_ (fun k hk => by simp [hk]) ?_ pre' hs rfl
          · intro k
            by_cases hk : k = keyOf typed b
            · subst hk; simp [hb]
            · simp [hk]
          · intro n _
            exact ⟨m - 1, by simp; omega⟩
        · simp at h

/-! ### `markUsed` -/

theorem markUsed_spec (typed : Bool) : ∀ (bs : List Blob) (c : Counts),
    (markUsed typed bs c).1.map (·.1) = bs ∧ Mono c (markUsed typed bs c).2 ∧
    ∀ k n, c.get k = some (n + 1) →
      (k ∈ bs.map (keyOf typed) → (markUsed typed bs c).2.get k = some 0) ∧
      (k ∉ bs.map (keyOf typed) → (markUsed typed bs c).2.get k = some (n + 1))
  | [], c => by simp [markUsed, Mono.refl]
  | b :: bs, c => by
    unfold markUsed
    split
    · rename_i v hb
      have ih := markUsed_spec typed bs (c.set (keyOf typed b) 0)
      refine ⟨by simp [ih.1], ?_, ?_⟩
      · refine Mono.trans ?_ ih.2.1
        intro k
        by_cases hk : k = keyOf typed b
        · subst hk; simp [hb]
        · simp [hk]
      · intro k n hk
        by_cases hkb : k = keyOf typed b
        · subst hkb
          have : (markUsed typed bs (c.set (keyOf typed b) 0)).2.get (keyOf typed b) = some 0 :=
            (ih.2.1 _).2 (by simp)
          exact ⟨fun _ => this, fun h => by simp at h⟩
        · have hk' : (c.set (keyOf typed b) 0).get k = some (n + 1) := by simp [hkb, hk]
          have := ih.2.2 k n hk'
          simp only [List.map_cons, List.mem_cons, hkb, false_or]
          exact this
    · rename_i hb
      have ih := markUsed_spec typed bs c
      refine ⟨by simp [ih.1], ih.2.1, ?_⟩
      intro k n hk
      have hkb : k ≠ keyOf typed b := fun e => by subst e; exact hb n (by simpa using hk)
      simp only [List.map_cons, List.mem_cons, hkb, false_or]
      exact ih.2.2 k n hk

theorem markUsed_length (typed : Bool) (bs : List Blob) (c : Counts) :
    (markUsed typed bs c).1.length = bs.length := by
  have := congrArg List.length (markUsed_spec typed bs c).1
  simpa using this

/-! ### `classify` / `fromPack` -/

theorem cntFlag_add (l : List (Blob × Bool)) : cntFlag l true + cntFlag l false = l.length := by
  induction l with
  | nil => rfl
  | cons x l ih =>
    obtain ⟨b, f⟩ := x
    cases f <;> simp [cntFlag, List.filter_cons] at ih ⊢ <;> omega

theorem classify_length (typed : Bool) (bs : List Blob) (c : Counts) :
    (classify typed bs c).1.length = bs.length := by
  unfold classify
  split
  · simp
  · rename_i pre x post c1 hs
    obtain ⟨e, -⟩ := scan_some typed bs c c1 pre post x hs
    simp [markUsed_length, e]

/-- (accounting) every blob of the pack is counted exactly once, as used or as unused. -/
theorem fromPack_partition (typed : Bool) (tpe : BlobType) (bs : List Blob) (c : Counts) :
    (fromPack typed tpe bs c).1.usedBlobs + (fromPack typed tpe bs c).1.unusedBlobs = bs.length := by
  simp only [fromPack]
  rw [cntFlag_add, classify_length]

theorem cntFlag_true_pos {l : List (Blob × Bool)} {x : Blob} (h : (x, true) ∈ l) : 0 < cntFlag l true := by
  unfold cntFlag
  exact List.length_pos_of_mem (List.mem_filter.mpr ⟨h, by simp⟩)

/-- The counter protocol of `from_pack` for one pack: a key with a positive counter is either *attributed* to this
pack (counter set to 0, the pack has a used blob and contains the key), or the pack is not needed for it and the
counter drops by the number of its occurrences in the pack, staying positive. -/
theorem fromPack_counts (typed : Bool) (tpe : BlobType) (bs : List Blob) (c : Counts) :
    Mono c (fromPack typed tpe bs c).2 ∧
    ∀ k n, c.get k = some (n + 1) →
      ((fromPack typed tpe bs c).2.get k = some 0 ∧ k ∈ bs.map (keyOf typed) ∧
          0 < (fromPack typed tpe bs c).1.usedBlobs) ∨
      (occ typed k bs ≤ n ∧ (fromPack typed tpe bs c).2.get k = some (n + 1 - occ typed k bs)) := by
  simp only [fromPack, classify]
  split
  · rename_i c' hs
    have := scan_none typed bs c c' hs
    exact ⟨this.1, fun k n hk => Or.inr (this.2 k n hk)⟩
  · rename_i pre x post c1 hs
    obtain ⟨e, m1, z, ⟨nx, hx⟩, u, q⟩ := scan_some typed bs c c1 pre post x hs
    have s1 := markUsed_spec typed pre c1
    have s2 := markUsed_spec typed post (markUsed typed pre c1).2
    refine ⟨m1.trans (s1.2.1.trans s2.2.1), fun k n hk => ?_⟩
    have hused : 0 < cntFlag ((markUsed typed pre c1).1 ++ (x, true) :: (markUsed typed post (markUsed typed pre c1).2).1) true :=
      cntFlag_true_pos (x := x) (by simp)
    have hkeys : bs.map (keyOf typed) = pre.map (keyOf typed) ++ keyOf typed x :: post.map (keyOf typed) := by
      rw [e]; simp
    by_cases hmem : k ∈ bs.map (keyOf typed)
    · left
      refine ⟨?_, hmem, hused⟩
      by_cases hkx : k = keyOf typed x
      · subst hkx
        exact (s2.2.1 _).2 ((s1.2.1 _).2 z)
      · obtain ⟨m, hm⟩ := q k n hkx hk
        rw [hkeys] at hmem
        simp only [List.mem_append, List.mem_cons, hkx, false_or] at hmem
        by_cases hpre : k ∈ pre.map (keyOf typed)
        · exact (s2.2.1 _).2 ((s1.2.2 k m hm).1 hpre)
        · have h1 := (s1.2.2 k m hm).2 hpre
          have hpost : k ∈ post.map (keyOf typed) := by
            rcases hmem with h | h
            · exact absurd h hpre
            · exact h
          exact (s2.2.2 k m h1).1 hpost
    · right
      rw [occ_eq_zero hmem]
      have h0 : c1.get k = some (n + 1) := by rw [u k hmem]; exact hk
      rw [hkeys] at hmem
      simp only [List.mem_append, List.mem_cons, not_or] at hmem
      have h1 := (s1.2.2 k n h0).2 hmem.1
      exact ⟨Nat.zero_le _, (s2.2.2 k n h1).2 hmem.2.2⟩

/-! ### `decide_packs` -/

/-- occurrences of key `k` in the packs with `delete_mark == m`. -/
def occPacks (typed : Bool) (k : Key) (m : Bool) : List PPack → Nat
  | [] => 0
  | p :: ps => (if p.mark = m then occ typed k p.blobs else 0) + occPacks typed k m ps

/-- `decide_packs` has looked at the pack: its `PackInfo` is stored and its decision is `decideOne` of it. -/
def Processed (kc : Consts) (o : Opts) (p : PPack) : Prop := (p.todo, p.cand) = decideOne kc o p p.info

theorem decideOne_congr (kc : Consts) (o : Opts) (p : PPack) (pi i : PackInfo) (t : ToDo) (cd : Option Reason) :
    decideOne kc o { p with info := i, todo := t, cand := cd } pi = decideOne kc o p pi := rfl

theorem pass_spec (typed : Bool) (kc : Consts) (o : Opts) (m : Bool) : ∀ (ps : List PPack) (c : Counts),
    Mono c (pass typed kc o m c ps).2 ∧
    (∀ p ∈ ps, p.mark ≠ m → p ∈ (pass typed kc o m c ps).1) ∧
    ∀ k n, c.get k = some (n + 1) →
      ((pass typed kc o m c ps).2.get k = some 0 ∧
        ∃ p ∈ (pass typed kc o m c ps).1, p.mark = m ∧ k ∈ p.blobs.map (keyOf typed) ∧ 0 < p.info.usedBlobs ∧
          Processed kc o p) ∨
      (occPacks typed k m ps ≤ n ∧ (pass typed kc o m c ps).2.get k = some (n + 1 - occPacks typed k m ps))
  | [], c => by
    refine ⟨Mono.refl _, by simp, fun k n hk => Or.inr ?_⟩
    simp [pass, occPacks, hk]
  | p :: ps, c => by
    unfold pass
    by_cases hm : p.mark = m
    · subst hm
      simp only [↓reduceIte]
      have fp := fromPack_counts typed p.blobType p.blobs c
      have ih := pass_spec typed kc o p.mark ps (fromPack typed p.blobType p.blobs c).2
      refine ⟨fp.1.trans ih.1, ?_, ?_⟩
      · intro q hq hqm
        simp only [List.mem_cons] at hq
        rcases hq with rfl | hq
        · exact absurd rfl hqm
        · exact List.mem_cons_of_mem _ (ih.2.1 q hq hqm)
      · intro k n hk
        rcases fp.2 k n hk with ⟨h0, hmem, hpos⟩ | ⟨hle, hget⟩
        · left
          exact ⟨(ih.1 k).2 h0, _, List.mem_cons_self, rfl, hmem, hpos, rfl⟩
        · obtain ⟨n', hn'⟩ : ∃ n', n + 1 - occ typed k p.blobs = n' + 1 := ⟨n - occ typed k p.blobs, by omega⟩
          rw [hn'] at hget
          rcases ih.2.2 k n' hget with ⟨h0, q, hq, hq2⟩ | ⟨hle2, hget2⟩
          · exact Or.inl ⟨h0, q, List.mem_cons_of_mem _ hq, hq2⟩
          · right
            simp only [occPacks, ↓reduceIte]
            exact ⟨by omega, by rw [hget2]; congr 1; omega⟩
    · simp only [hm, if_false]
      have ih := pass_spec typed kc o m ps c
      refine ⟨ih.1, ?_, ?_⟩
      · intro q hq hqm
        simp only [List.mem_cons] at hq
        rcases hq with rfl | hq
        · exact List.mem_cons_self
        · exact List.mem_cons_of_mem _ (ih.2.1 q hq hqm)
      · intro k n hk
        rcases ih.2.2 k n hk with ⟨h0, q, hq, hq2⟩ | ⟨hle2, hget2⟩
        · exact Or.inl ⟨h0, q, List.mem_cons_of_mem _ hq, hq2⟩
        · right
          simp only [occPacks, hm, if_false, Nat.zero_add]
          exact ⟨hle2, hget2⟩

/-- the marks are not changed by a pass, so the second pass sees the same unmarked packs. -/
theorem pass_occ (typed : Bool) (kc : Consts) (o : Opts) (m m' : Bool) (k : Key) : ∀ (ps : List PPack) (c : Counts),
    occPacks typed k m' (pass typed kc o m c ps).1 = occPacks typed k m' ps
  | [], c => rfl
  | p :: ps, c => by
    unfold pass
    by_cases hm : p.mark = m
    · simp only [hm, if_true, occPacks]
      rw [pass_occ typed kc o m m' k ps]
    · simp only [hm, if_false, occPacks]
      rw [pass_occ typed kc o m m' k ps]

/-- **Attribution** (DESIGN §7a): after `decide_packs` (marked packs first, then unmarked) every key whose counter is
positive and not larger than the number of its occurrences in the plan is attributed to a pack that has a used
blob, contains the key and carries the decision `decideOne` computed from its `PackInfo`. -/
theorem decidePacks_attributes (typed : Bool) (kc : Consts) (o : Opts) (c : Counts) (ps : List PPack) (k : Key) (n : Nat)
    (hk : c.get k = some (n + 1)) (hle : n + 1 ≤ occPacks typed k true ps + occPacks typed k false ps) :
    ∃ p ∈ (decidePacks typed kc o c ps).1, k ∈ p.blobs.map (keyOf typed) ∧ 0 < p.info.usedBlobs ∧ Processed kc o p := by
  unfold decidePacks
  have s1 := pass_spec typed kc o true ps c
  have s2 := pass_spec typed kc o false (pass typed kc o true c ps).1 (pass typed kc o true c ps).2
  rcases s1.2.2 k n hk with ⟨_, p, hp, hpm, hmem, hpos, hproc⟩ | ⟨hle1, hget1⟩
  · exact ⟨p, s2.2.1 p hp (by simp [hpm]), hmem, hpos, hproc⟩
  · obtain ⟨n', hn'⟩ : ∃ n', n + 1 - occPacks typed k true ps = n' + 1 := ⟨n - occPacks typed k true ps, by omega⟩
    rw [hn'] at hget1
    rcases s2.2.2 k n' hget1 with ⟨_, p, hp, _, hmem, hpos, hproc⟩ | ⟨hle2, _⟩
    · exact ⟨p, hp, hmem, hpos, hproc⟩
    · rw [pass_occ] at hle2; omega

theorem pass_all (typed : Bool) (kc : Consts) (o : Opts) (m : Bool) : ∀ (ps : List PPack) (c : Counts),
    ∀ q ∈ (pass typed kc o m c ps).1, (q.mark = m ∧ Processed kc o q) ∨ (q.mark ≠ m ∧ q ∈ ps)
  | [], c => by simp [pass]
  | p :: ps, c => by
    unfold pass
    by_cases hm : p.mark = m
    · subst hm
      simp only [↓reduceIte]
      intro q hq
      rcases List.mem_cons.mp hq with rfl | hq
      · exact Or.inl ⟨rfl, rfl⟩
      · rcases pass_all typed kc o p.mark ps _ q hq with h | h
        · exact Or.inl h
        · exact Or.inr ⟨h.1, List.mem_cons_of_mem _ h.2⟩
    · simp only [hm, if_false]
      intro q hq
      rcases List.mem_cons.mp hq with rfl | hq
      · exact Or.inr ⟨hm, List.mem_cons_self⟩
      · rcases pass_all typed kc o m ps _ q hq with h | h
        · exact Or.inl h
        · exact Or.inr ⟨h.1, List.mem_cons_of_mem _ h.2⟩

/-- after both passes every pack of the plan carries its `PackInfo` and the decision computed from it. -/
theorem decidePacks_all (typed : Bool) (kc : Consts) (o : Opts) (c : Counts) (ps : List PPack) :
    ∀ q ∈ (decidePacks typed kc o c ps).1, Processed kc o q := by
  intro q hq
  unfold decidePacks at hq
  rcases pass_all typed kc o false _ _ q hq with h | h
  · exact h.2
  · rcases pass_all typed kc o true ps c q h.2 with h' | h'
    · exact h'.2
    · cases hq : q.mark <;> simp_all

theorem pass_some (typed : Bool) (kc : Consts) (o : Opts) (m : Bool) (ps : List PPack) (c : Counts) (k : Key) (v : Nat)
    (hk : c.get k = some v) : ∃ v', (pass typed kc o m c ps).2.get k = some v' := by
  have s := pass_spec typed kc o m ps c
  cases v with
  | zero => exact ⟨0, (s.1 k).2 hk⟩
  | succ n =>
    rcases s.2.2 k n hk with h | h
    · exact ⟨0, h.1⟩
    · exact ⟨_, h.2⟩

theorem decidePacks_some (typed : Bool) (kc : Consts) (o : Opts) (ps : List PPack) (c : Counts) (k : Key) (v : Nat)
    (hk : c.get k = some v) : ∃ v', (decidePacks typed kc o c ps).2.get k = some v' := by
  unfold decidePacks
  obtain ⟨v1, h1⟩ := pass_some typed kc o true ps c k v hk
  exact pass_some typed kc o false _ _ k v1 h1

/-! ### `count_used_blobs` -/

/-- occurrences of `k` in all packs of the plan. -/
def occAll (typed : Bool) (k : Key) : List PPack → Nat
  | [] => 0
  | p :: ps => occ typed k p.blobs + occAll typed k ps

theorem occAll_split (typed : Bool) (k : Key) : ∀ ps : List PPack,
    occAll typed k ps = occPacks typed k true ps + occPacks typed k false ps
  | [] => rfl
  | p :: ps => by
    simp only [occAll, occPacks, occAll_split typed k ps]
    cases p.mark <;> simp <;> omega

theorem countBlobs_spec (typed : Bool) : ∀ (bs : List Blob) (c : Counts) (k : Key),
    (c.get k = none → (countBlobs typed c bs).get k = none) ∧
    (∀ v, c.get k = some v → v ≤ 255 →
      (countBlobs typed c bs).get k = some (min 255 (v + occ typed k bs)))
  | [], c, k => by
    refine ⟨fun h => h, fun v hv hle => ?_⟩
    show c.get k = _
    rw [hv, occ_nil]; congr 1; omega
  | b :: bs, c, k => by
    have unfold1 : countBlobs typed c (b :: bs) = countBlobs typed
        (match c.get (keyOf typed b) with
          | some n => c.set (keyOf typed b) (satAdd1 n)
          | none => c) bs := rfl
    rw [unfold1]
    cases hb : c.get (keyOf typed b) with
    | none =>
      simp only
      have ih := countBlobs_spec typed bs c k
      refine ⟨ih.1, fun v hv hle => ?_⟩
      have hne : keyOf typed b ≠ k := fun e => by rw [e, hv] at hb; simp at hb
      rw [occ_cons, if_neg hne]; exact ih.2 v hv hle
    | some nb =>
      simp only
      have ih := countBlobs_spec typed bs (c.set (keyOf typed b) (satAdd1 nb)) k
      by_cases hkb : k = keyOf typed b
      · subst hkb
        refine ⟨fun h => by rw [hb] at h; simp at h, fun v hv hle => ?_⟩
        rw [hb] at hv
        have : nb = v := by simpa using hv
        subst this
        have h2 := ih.2 (satAdd1 nb) (by simp) (by unfold satAdd1; split <;> omega)
        rw [h2, occ_cons, if_pos rfl]
        unfold satAdd1; split <;> congr 1 <;> omega
      · have hne : keyOf typed b ≠ k := fun e => hkb e.symm
        refine ⟨fun h => ih.1 (by simp [hkb, h]), fun v hv hle => ?_⟩
        rw [occ_cons, if_neg hne]
        exact ih.2 v (by simp [hkb, hv]) hle

theorem countUsed_spec (typed : Bool) : ∀ (ps : List PPack) (c : Counts) (k : Key),
    (c.get k = none → (countUsed typed c ps).get k = none) ∧
    (∀ v, c.get k = some v → v ≤ 255 → (countUsed typed c ps).get k = some (min 255 (v + occAll typed k ps)))
  | [], c, k => by
    refine ⟨fun h => h, fun v hv hle => ?_⟩
    show c.get k = _
    rw [hv]; simp only [occAll]; congr 1; omega
  | p :: ps, c, k => by
    have unfold1 : countUsed typed c (p :: ps) = countUsed typed (countBlobs typed c p.blobs) ps := rfl
    rw [unfold1]
    have h1 := countBlobs_spec typed p.blobs c k
    have ih := countUsed_spec typed ps (countBlobs typed c p.blobs) k
    refine ⟨fun h => ih.1 (h1.1 h), fun v hv hle => ?_⟩
    rw [ih.2 _ (h1.2 v hv hle) (by omega)]
    simp only [occAll]; congr 1; omega

/-! ### `decide_repack`: every candidate gets `Keep` or `Repack` -/

theorem mem_insertSorted (a x : PPack) : ∀ l : List PPack, x ∈ insertSorted a l ↔ x = a ∨ x ∈ l
  | [] => by simp [insertSorted]
  | b :: l => by
    unfold insertSorted
    split
    · simp
    · simp only [List.mem_cons, mem_insertSorted a x l]
      constructor
      · rintro (h | h | h) <;> simp [h]
      · rintro (h | h | h) <;> simp [h]

theorem mem_sortCands_aux (x : PPack) : ∀ (l acc : List PPack),
    x ∈ l.foldl (fun acc a => insertSorted a acc) acc ↔ x ∈ l ∨ x ∈ acc
  | [], acc => by simp
  | a :: l, acc => by
    simp only [List.foldl_cons, mem_sortCands_aux x l, mem_insertSorted, List.mem_cons]
    constructor
    · rintro (h | h | h) <;> simp [h]
    · rintro ((h | h) | h) <;> simp [h]

theorem mem_sortCands (x : PPack) (l : List PPack) : x ∈ sortCands l ↔ x ∈ l := by
  simp [sortCands, mem_sortCands_aux]

theorem loop1_fst (o : Opts) (mr mu : Option Nat) (ub : Nat) : ∀ (cs : List PPack) (st : RState),
    (loop1 o mr mu ub st cs).1.map (·.1) = cs.map (·.pos)
  | [], st => rfl
  | p :: cs, st => by
    unfold loop1
    simp only
    split
    · simp [loop1_fst o mr mu ub cs]
    · split
      · simp [loop1_fst o mr mu ub cs]
      · simp [loop1_fst o mr mu ub cs]

theorem ite_keep_repack (b : Bool) :
    (if b = true then ToDo.repack else ToDo.keep) = .keep ∨ (if b = true then ToDo.repack else ToDo.keep) = .repack := by
  cases b <;> simp

theorem loop2_spec (kc : Consts) (o : Opts) (st : RState) (x : Nat × BlobType × Inter) :
    (loop2 kc o st x).1 = x.1 ∧ ((loop2 kc o st x).2 = .keep ∨ (loop2 kc o st x).2 = .repack) := by
  unfold loop2
  split
  · simp
  · simp
  · exact ⟨rfl, ite_keep_repack _⟩

theorem lookupTodo_spec (pos : Nat) : ∀ ds : List (Nat × ToDo),
    (∀ x ∈ ds, x.2 = .keep ∨ x.2 = .repack) → pos ∈ ds.map (·.1) →
    lookupTodo pos ds = .keep ∨ lookupTodo pos ds = .repack
  | [], _, h => by simp at h
  | x :: ds, hall, h => by
    unfold lookupTodo
    split
    · exact hall x List.mem_cons_self
    · rename_i hne
      simp only [List.map_cons, List.mem_cons] at h
      rcases h with h | h
      · exact absurd h.symm hne
      · exact lookupTodo_spec pos ds (fun y hy => hall y (List.mem_cons_of_mem _ hy)) h

theorem repackDecisions_spec (kc : Consts) (o : Opts) (ps : List PPack) :
    (∀ x ∈ repackDecisions kc o ps, x.2 = .keep ∨ x.2 = .repack) ∧
    ∀ p ∈ ps, p.cand.isSome → p.pos ∈ (repackDecisions kc o ps).map (·.1) := by
  simp only [repackDecisions]
  constructor
  · intro x hx
    simp only [List.mem_map] at hx
    obtain ⟨y, _, rfl⟩ := hx
    exact (loop2_spec kc o _ y).2
  · intro p hp hc
    have : ∀ (l : List (Nat × BlobType × Inter)) (st : RState),
        (l.map (loop2 kc o st)).map (·.1) = l.map (·.1) := by
      intro l st
      rw [List.map_map]
      exact List.map_congr_left (fun a _ => (loop2_spec kc o st a).1)
    rw [this, loop1_fst]
    exact List.mem_map.mpr ⟨p, (mem_sortCands p _).mpr (List.mem_filter.mpr ⟨hp, hc⟩), rfl⟩

/-- what `decide_repack` does to one pack. -/
theorem decideRepack_mem (kc : Consts) (o : Opts) (ps : List PPack) (q : PPack)
    (hq : q ∈ decideRepack kc o ps) :
    ∃ p ∈ ps, q.blobs = p.blobs ∧ q.mark = p.mark ∧ q.info = p.info ∧ q.time = p.time ∧ q.id = p.id ∧
      q.index = p.index ∧ q.cand = p.cand ∧
      ((p.cand = none ∧ q.todo = p.todo) ∨ (p.cand.isSome ∧ (q.todo = .keep ∨ q.todo = .repack))) := by
  simp only [decideRepack, List.mem_map] at hq
  obtain ⟨p, hp, rfl⟩ := hq
  refine ⟨p, hp, ?_⟩
  by_cases hc : p.cand.isSome
  · simp only [hc, if_true, true_and]
    right
    have s := repackDecisions_spec kc o ps
    exact lookupTodo_spec p.pos _ s.1 (s.2 p hp hc)
  · simp only [hc]
    simp only [Bool.false_eq_true, if_false, true_and]
    left
    exact ⟨by simpa using hc, trivial⟩

theorem mem_decideRepack_of_mem (kc : Consts) (o : Opts) (ps : List PPack) (p : PPack) (hp : p ∈ ps) :
    ∃ q ∈ decideRepack kc o ps, q.blobs = p.blobs ∧ q.mark = p.mark ∧ q.info = p.info ∧ q.time = p.time ∧
      q.id = p.id ∧ q.index = p.index ∧
      ((p.cand = none ∧ q.todo = p.todo) ∨ (p.cand.isSome ∧ (q.todo = .keep ∨ q.todo = .repack))) := by
  let q : PPack := if p.cand.isSome then { p with todo := lookupTodo p.pos (repackDecisions kc o ps) } else p
  have hq : q ∈ decideRepack kc o ps := by
    simp only [decideRepack, List.mem_map]; exact ⟨p, hp, rfl⟩
  obtain ⟨p', hp', h⟩ := decideRepack_mem kc o ps q hq
  refine ⟨q, hq, ?_⟩
  by_cases hc : p.cand.isSome
  · have s := repackDecisions_spec kc o ps
    simp only [q, hc, if_true, true_and]
    exact Or.inr (lookupTodo_spec p.pos _ s.1 (s.2 p hp hc))
  · simp only [q, hc]
    simp only [Bool.false_eq_true, if_false, true_and]
    exact Or.inl ⟨by simpa using hc, trivial⟩

/-! ### decision table of `decide_packs` -/

theorem decideOne_table (kc : Consts) (o : Opts) (p : PPack) (pi : PackInfo) :
    ((decideOne kc o p pi).1 = .markDelete → p.mark = false ∧ pi.usedBlobs = 0 ∧ tooYoung o p.time = false) ∧
    ((decideOne kc o p pi).1 = .delete →
        p.mark = true ∧ pi.usedBlobs = 0 ∧ ∃ t, p.time = some t ∧ t + o.keepDelete ≤ o.now) ∧
    (((decideOne kc o p pi).1 = .keepMarked ∨ (decideOne kc o p pi).1 = .keepMarkedAndCorrect) →
        p.mark = true ∧ pi.usedBlobs = 0) ∧
    (p.mark = true → 0 < pi.usedBlobs → decideOne kc o p pi = (.recover, none)) ∧
    (p.mark = false → 0 < pi.usedBlobs →
        decideOne kc o p pi = (.keep, none) ∨ ((decideOne kc o p pi).1 = .undecided ∧ (decideOne kc o p pi).2.isSome)) ∧
    ((decideOne kc o p pi).1 = .undecided → (decideOne kc o p pi).2.isSome) ∧
    ((decideOne kc o p pi).2.isSome → (decideOne kc o p pi).1 = .undecided ∧ p.mark = false ∧ 0 < pi.usedBlobs) ∧
    ((decideOne kc o p pi).1 = .recover → p.mark = true ∧ 0 < pi.usedBlobs) := by
  unfold decideOne
  generalize tooYoung o p.time = young
  generalize (o.repackCacheableOnly && !isCacheable p.blobType) = ku
  generalize (o.repackUncompressed && !p.blobs.all (·.compressed)) = tc
  generalize (!(o.sizer p.blobType).sizeOk kc p.size) = sm
  cases p.mark
  · cases pi.usedBlobs with
    | zero => cases young <;> simp
    | succ u =>
      cases pi.unusedBlobs with
      | zero => cases young <;> cases ku <;> cases tc <;> cases sm <;> cases o.repackAll <;> simp
      | succ w => cases young <;> cases ku <;> simp
  · cases pi.usedBlobs with
    | zero =>
      cases p.time with
      | none => simp
      | some t =>
        simp only
        split
        · simp; omega
        · simp
    | succ u => simp

/-! ### `check_existing_packs` and the repack `retain` -/

theorem eraseKeys_get (typed : Bool) : ∀ (bs : List Blob) (c : Counts) (k : Key),
    (eraseKeys typed c bs).get k = if k ∈ bs.map (keyOf typed) then none else c.get k
  | [], c, k => by simp [eraseKeys]
  | b :: bs, c, k => by
    have : eraseKeys typed c (b :: bs) = eraseKeys typed (c.erase (keyOf typed b)) bs := rfl
    rw [this, eraseKeys_get typed bs]
    by_cases h1 : k ∈ bs.map (keyOf typed)
    · simp [h1]
    · by_cases h2 : k = keyOf typed b <;> simp [h1, h2]

/-- a key disappears from `used_ids` in `check_existing_packs` only because a kept / recovered pack holds it. -/
theorem checkExisting_spec (typed : Bool) : ∀ (ps : List PPack) (ex : List (Nat × Nat)) (c : Counts)
    (ex' : List (Nat × Nat)) (c' : Counts), checkExisting typed ps ex c = some (ex', c') →
    (∀ p ∈ ps, p.todo ≠ .undecided) ∧
    (∀ k, c'.get k = none → c.get k = none ∨
      ∃ p ∈ ps, (p.todo = .keep ∨ p.todo = .recover) ∧ k ∈ p.blobs.map (keyOf typed)) ∧
    (∀ p ∈ ps, (p.todo = .keep ∨ p.todo = .recover ∨ p.todo = .repack) → ∃ s, (p.id, s) ∈ ex ∧ s = p.size)
  | [], ex, c, ex', c', h => by
    simp only [checkExisting, Option.some.injEq, Prod.mk.injEq] at h
    obtain ⟨rfl, rfl⟩ := h
    exact ⟨by simp, fun k hk => Or.inl hk, by simp⟩
  | p :: ps, ex, c, ex', c', h => by
    have look : ∀ (l : List (Nat × Nat)) (s : Nat), lookupSize p.id l = some s → (p.id, s) ∈ l := by
      intro l
      induction l with
      | nil => intro s hs; simp [lookupSize] at hs
      | cons x l ih =>
        intro s hs
        unfold lookupSize at hs
        split at hs
        · rename_i he
          simp only [Option.some.injEq] at hs
          subst hs
          exact List.mem_cons.mpr (Or.inl (by rw [← he]))
        · exact List.mem_cons_of_mem _ (ih s hs)
    have sub : ∀ (q : PPack) (s : Nat), (q.id, s) ∈ ex.filter (fun x => x.1 != p.id) → (q.id, s) ∈ ex :=
      fun q s hq => (List.mem_filter.mp hq).1
    unfold checkExisting at h
    simp only at h
    split at h
    · simp at h
    · -- keep
      rename_i ht
      split at h
      · rename_i hs
        have ih := checkExisting_spec typed ps _ _ ex' c' h
        refine ⟨?_, ?_, ?_⟩
        · intro q hq; rcases List.mem_cons.mp hq with rfl | hq
          · simp [ht]
          · exact ih.1 q hq
        · intro k hk
          rcases ih.2.1 k hk with h0 | ⟨q, hq, hq2⟩
          · rw [eraseKeys_get] at h0
            by_cases hmem : k ∈ p.blobs.map (keyOf typed)
            · exact Or.inr ⟨p, List.mem_cons_self, Or.inl ht, hmem⟩
            · simp only [hmem, if_false] at h0; exact Or.inl h0
          · exact Or.inr ⟨q, List.mem_cons_of_mem _ hq, hq2⟩
        · intro q hq hqt; rcases List.mem_cons.mp hq with rfl | hq
          · exact ⟨q.size, look ex q.size (by simpa using hs), rfl⟩
          · obtain ⟨s, hs1, hs2⟩ := ih.2.2 q hq hqt; exact ⟨s, sub q s hs1, hs2⟩
      · simp at h
    · -- recover
      rename_i ht
      split at h
      · rename_i hs
        have ih := checkExisting_spec typed ps _ _ ex' c' h
        refine ⟨?_, ?_, ?_⟩
        · intro q hq; rcases List.mem_cons.mp hq with rfl | hq
          · simp [ht]
          · exact ih.1 q hq
        · intro k hk
          rcases ih.2.1 k hk with h0 | ⟨q, hq, hq2⟩
          · rw [eraseKeys_get] at h0
            by_cases hmem : k ∈ p.blobs.map (keyOf typed)
            · exact Or.inr ⟨p, List.mem_cons_self, Or.inr ht, hmem⟩
            · simp only [hmem, if_false] at h0; exact Or.inl h0
          · exact Or.inr ⟨q, List.mem_cons_of_mem _ hq, hq2⟩
        · intro q hq hqt; rcases List.mem_cons.mp hq with rfl | hq
          · exact ⟨q.size, look ex q.size (by simpa using hs), rfl⟩
          · obtain ⟨s, hs1, hs2⟩ := ih.2.2 q hq hqt; exact ⟨s, sub q s hs1, hs2⟩
      · simp at h
    · -- repack
      rename_i ht
      split at h
      · rename_i hs
        have ih := checkExisting_spec typed ps _ _ ex' c' h
        refine ⟨?_, ?_, ?_⟩
        · intro q hq; rcases List.mem_cons.mp hq with rfl | hq
          · simp [ht]
          · exact ih.1 q hq
        · intro k hk
          rcases ih.2.1 k hk with h0 | ⟨q, hq, hq2⟩
          · exact Or.inl h0
          · exact Or.inr ⟨q, List.mem_cons_of_mem _ hq, hq2⟩
        · intro q hq hqt; rcases List.mem_cons.mp hq with rfl | hq
          · exact ⟨q.size, look ex q.size (by simpa using hs), rfl⟩
          · obtain ⟨s, hs1, hs2⟩ := ih.2.2 q hq hqt; exact ⟨s, sub q s hs1, hs2⟩
      · simp at h
    · -- others
      rename_i h1 h2 h3 h4
      have ih := checkExisting_spec typed ps _ _ ex' c' h
      refine ⟨?_, ?_, ?_⟩
      · intro q hq; rcases List.mem_cons.mp hq with rfl | hq
        · exact fun e => h1 e
        · exact ih.1 q hq
      · intro k hk
        rcases ih.2.1 k hk with h0 | ⟨q, hq, hq2⟩
        · exact Or.inl h0
        · exact Or.inr ⟨q, List.mem_cons_of_mem _ hq, hq2⟩
      · intro q hq hqt; rcases List.mem_cons.mp hq with rfl | hq
        · rcases hqt with e | e | e
          · exact absurd e h2
          · exact absurd e h3
          · exact absurd e h4
        · obtain ⟨s, hs1, hs2⟩ := ih.2.2 q hq hqt; exact ⟨s, sub q s hs1, hs2⟩

theorem retainBlobs_spec (typed : Bool) : ∀ (bs : List Blob) (c : Counts),
    (∀ b ∈ (retainBlobs typed bs c).1, b ∈ bs) ∧
    (∀ k, c.get k = none → (retainBlobs typed bs c).2.get k = none) ∧
    (∀ k v, c.get k = some v →
      (k ∈ bs.map (keyOf typed) → ∃ b ∈ (retainBlobs typed bs c).1, keyOf typed b = k) ∧
      (k ∉ bs.map (keyOf typed) → (retainBlobs typed bs c).2.get k = some v))
  | [], c => by simp [retainBlobs]
  | b :: bs, c => by
    unfold retainBlobs
    split
    · rename_i v hb
      have ih := retainBlobs_spec typed bs (c.erase (keyOf typed b))
      refine ⟨?_, ?_, ?_⟩
      · intro x hx
        rcases List.mem_cons.mp hx with rfl | hx
        · exact List.mem_cons_self
        · exact List.mem_cons_of_mem _ (ih.1 x hx)
      · intro k hk
        exact ih.2.1 k (by simp [hk])
      · intro k w hk
        by_cases hkb : k = keyOf typed b
        · subst hkb
          exact ⟨fun _ => ⟨b, List.mem_cons_self, rfl⟩, fun h => by simp at h⟩
        · have hk' : (c.erase (keyOf typed b)).get k = some w := by simp [hkb, hk]
          have := ih.2.2 k w hk'
          simp only [List.map_cons, List.mem_cons, hkb, false_or]
          exact ⟨fun h => by
            obtain ⟨x, hx, hxk⟩ := this.1 h
            exact ⟨x, Or.inr hx, hxk⟩, this.2⟩
    · rename_i hb
      have ih := retainBlobs_spec typed bs c
      refine ⟨fun x hx => List.mem_cons_of_mem _ (ih.1 x hx), ih.2.1, ?_⟩
      intro k w hk
      have hkb : k ≠ keyOf typed b := fun e => by subst e; rw [hb] at hk; simp at hk
      simp only [List.map_cons, List.mem_cons, hkb, false_or]
      exact ih.2.2 k w hk

/-- a key still in `used_ids` that occurs in some pack to repack is copied (from a pack that is repacked). -/
theorem retainRepack_spec (typed : Bool) : ∀ (ps : List PPack) (c : Counts) (k : Key) (v : Nat),
    c.get k = some v → (∃ p ∈ ps, p.todo = .repack ∧ k ∈ p.blobs.map (keyOf typed)) →
    ∃ b ∈ retainRepack typed ps c, keyOf typed b = k
  | [], c, k, v, _, h => by simp at h
  | p :: ps, c, k, v, hk, h => by
    unfold retainRepack
    by_cases ht : p.todo = .repack
    · simp only [ht, if_true]
      have rb := retainBlobs_spec typed p.blobs c
      by_cases hmem : k ∈ p.blobs.map (keyOf typed)
      · obtain ⟨b, hb, hbk⟩ := (rb.2.2 k v hk).1 hmem
        exact ⟨b, List.mem_append_left _ hb, hbk⟩
      · have hk' := (rb.2.2 k v hk).2 hmem
        obtain ⟨q, hq, hq2⟩ := h
        rcases List.mem_cons.mp hq with rfl | hq
        · exact absurd hq2.2 hmem
        · obtain ⟨b, hb, hbk⟩ := retainRepack_spec typed ps _ k v hk' ⟨q, hq, hq2⟩
          exact ⟨b, List.mem_append_right _ hb, hbk⟩
    · simp only [ht, if_false]
      obtain ⟨q, hq, hq2⟩ := h
      rcases List.mem_cons.mp hq with rfl | hq
      · exact absurd hq2.1 ht
      · exact retainRepack_spec typed ps c k v hk ⟨q, hq, hq2⟩

/-- every copied blob comes from a pack that is repacked. -/
theorem retainRepack_sub (typed : Bool) : ∀ (ps : List PPack) (c : Counts) (b : Blob),
    b ∈ retainRepack typed ps c → ∃ p ∈ ps, p.todo = .repack ∧ b ∈ p.blobs
  | [], c, b, h => by simp [retainRepack] at h
  | p :: ps, c, b, h => by
    unfold retainRepack at h
    by_cases ht : p.todo = .repack
    · simp only [ht, if_true, List.mem_append] at h
      rcases h with h | h
      · exact ⟨p, List.mem_cons_self, ht, (retainBlobs_spec typed p.blobs c).1 b h⟩
      · obtain ⟨q, hq, hq2⟩ := retainRepack_sub typed ps _ b h
        exact ⟨q, List.mem_cons_of_mem _ hq, hq2⟩
    · simp only [ht, if_false] at h
      obtain ⟨q, hq, hq2⟩ := retainRepack_sub typed ps _ b h
      exact ⟨q, List.mem_cons_of_mem _ hq, hq2⟩

theorem retainRepack_filter (typed : Bool) (f : PPack → Bool) : ∀ (ps : List PPack) (c : Counts),
    (∀ p ∈ ps, p.todo = .repack → f p = true) → retainRepack typed (ps.filter f) c = retainRepack typed ps c
  | [], c, _ => rfl
  | p :: ps, c, h => by
    have hrest : ∀ q ∈ ps, q.todo = .repack → f q = true := fun q hq => h q (List.mem_cons_of_mem _ hq)
    by_cases ht : p.todo = .repack
    · have hf := h p List.mem_cons_self ht
      simp only [List.filter_cons, hf, if_true]
      unfold retainRepack
      simp only [ht, if_true]
      rw [retainRepack_filter typed f ps _ hrest]
    · by_cases hf : f p = true
      · simp only [List.filter_cons, hf, if_true]
        unfold retainRepack
        simp only [ht, if_false]
        exact retainRepack_filter typed f ps c hrest
      · simp only [List.filter_cons, hf]
        conv => rhs; unfold retainRepack
        simp only [ht, if_false]
        exact retainRepack_filter typed f ps c hrest

end Rustic.Prune
