/-
Lemmas about `Model/IndexLoad.lean`: the loop of `GlobalIndex::new_from_collector` over a stream of per-file results
returns the first error of the stream, and otherwise has fed the collector with EVERY file of the stream.
-/
import Rustic.Lemmas.Index
import Rustic.Model.IndexLoad
namespace Rustic.IndexLoad
open Rustic.Pack Rustic.Index

/-- The loop, characterised: first error of the stream, else the fold over all (then necessarily `Ok`) items. -/
theorem collectResults_eq (c : Collector) (rs : List (Except LoadErr IndexFile)) :
    collectResults c rs =
      match firstError rs with
      | some e => .error e
      | none => .ok ((oks rs).foldl (fun c f => c.extend f.packs) c) := by
  induction rs generalizing c with
  | nil => rfl
  | cons r rest ih =>
    cases r with
    | error e => rfl
    | ok f => simp only [collectResults, firstError, oks, List.foldl_cons]; exact ih _

theorem loadResults_eq (m : IndexType) (rs : List (Except LoadErr IndexFile)) :
    loadResults m rs =
      match firstError rs with
      | some e => .error e
      | none => .ok (load m (oks rs)) := by
  unfold loadResults
  rw [collectResults_eq]
  cases firstError rs <;> rfl

theorem firstError_mem {rs : List (Except LoadErr IndexFile)} {e : LoadErr} (h : firstError rs = some e) :
    Except.error e ∈ rs := by
  induction rs with
  | nil => simp [firstError] at h
  | cons r rest ih =>
    cases r with
    | error e' =>
      simp only [firstError, Option.some.injEq] at h
      subst h; exact List.mem_cons_self ..
    | ok f => exact List.mem_cons_of_mem _ (ih h)

theorem firstError_none_iff {rs : List (Except LoadErr IndexFile)} :
    firstError rs = none ↔ ∀ r ∈ rs, ∃ f, r = Except.ok f := by
  induction rs with
  | nil => simp [firstError]
  | cons r rest ih =>
    cases r with
    | error e =>
      simp only [firstError, List.mem_cons, forall_eq_or_imp]
      constructor
      · intro h; cases h
      · rintro ⟨⟨f, hf⟩, _⟩; cases hf
    | ok f =>
      simp only [firstError, List.mem_cons, forall_eq_or_imp, ih]
      exact ⟨fun h => ⟨⟨f, rfl⟩, h⟩, fun h => h.2⟩

theorem firstError_isSome_iff {rs : List (Except LoadErr IndexFile)} :
    (firstError rs).isSome = true ↔ ∃ e, Except.error e ∈ rs := by
  constructor
  · intro h
    obtain ⟨e, he⟩ := Option.isSome_iff_exists.mp h
    exact ⟨e, firstError_mem he⟩
  · rintro ⟨e, he⟩
    cases h : firstError rs with
    | some _ => rfl
    | none =>
      obtain ⟨f, hf⟩ := firstError_none_iff.mp h _ he
      cases hf

theorem map_ok_oks {rs : List (Except LoadErr IndexFile)} (h : firstError rs = none) :
    rs = (oks rs).map Except.ok := by
  induction rs with
  | nil => rfl
  | cons r rest ih =>
    cases r with
    | error e => simp [firstError] at h
    | ok f =>
      simp only [oks, List.map_cons, List.cons.injEq, true_and]
      exact ih h

theorem oks_map_ok (files : List IndexFile) : oks (files.map Except.ok) = files := by
  induction files with
  | nil => rfl
  | cons f fs ih => simp only [List.map_cons, oks, ih]

theorem firstError_map_ok (files : List IndexFile) : firstError (files.map Except.ok) = none := by
  induction files with
  | nil => rfl
  | cons f fs ih => simpa only [List.map_cons, firstError] using ih

theorem mem_oks {rs : List (Except LoadErr IndexFile)} {f : IndexFile} : f ∈ oks rs ↔ Except.ok f ∈ rs := by
  induction rs with
  | nil => simp [oks]
  | cons r rest ih =>
    cases r with
    | error e => simp [oks, ih]
    | ok g => simp [oks, ih]

theorem oks_perm {rs rs' : List (Except LoadErr IndexFile)} (h : rs.Perm rs') : (oks rs).Perm (oks rs') := by
  induction h with
  | nil => exact .nil
  | cons r _ ih => cases r <;> simp only [oks] <;> first | exact ih | exact ih.cons _
  | swap a b l => cases a <;> cases b <;> simp only [oks] <;> first | exact .refl _ | exact .swap ..
  | trans _ _ ih1 ih2 => exact ih1.trans ih2

/-! ### `supersedes` is not read by loading -/

/-- `R` holds position by position between two lists of equal length -/
inductive Pointwise {α : Type} (R : α → α → Prop) : List α → List α → Prop
  | nil : Pointwise R [] []
  | cons {a b : α} {l l' : List α} : R a b → Pointwise R l l' → Pointwise R (a :: l) (b :: l')

/-- two index files that list the same packs (unmarked and marked) — they may differ in their `supersedes` lists only -/
def SameListing (a b : IndexFile) : Prop := a.packs = b.packs ∧ a.packsToDelete = b.packsToDelete

/-- two fetch results that differ at most in the `supersedes` list of the fetched file -/
def SameResult : Except LoadErr IndexFile → Except LoadErr IndexFile → Prop
  | .error e, .error e' => e = e'
  | .ok a, .ok b => SameListing a b
  | _, _ => False

theorem SameListing.symm {a b : IndexFile} (h : SameListing a b) : SameListing b a := ⟨h.1.symm, h.2.symm⟩

theorem SameResult.symm {a b : Except LoadErr IndexFile} (h : SameResult a b) : SameResult b a := by
  cases a <;> cases b <;> simp only [SameResult] at h ⊢
  · exact h.symm
  · exact h.symm

theorem unmarked_congr {files files' : List IndexFile} (h : Pointwise SameListing files files') :
    unmarked files = unmarked files' := by
  induction h with
  | nil => rfl
  | cons hab _ ih => simp only [unmarked, List.flatMap_cons] at ih ⊢; rw [hab.1, ih]

/-- `load` reads nothing of an index file but `packs`. -/
theorem load_eq_extend (m : IndexType) (files : List IndexFile) :
    load m files = ((Collector.new m).extend (unmarked files)).intoIndex := by
  unfold load; rw [collect_eq_extend]

theorem load_congr (m : IndexType) {files files' : List IndexFile} (h : Pointwise SameListing files files') :
    load m files = load m files' := by
  rw [load_eq_extend, load_eq_extend, unmarked_congr h]

theorem firstError_congr {rs rs' : List (Except LoadErr IndexFile)} (h : Pointwise SameResult rs rs') :
    firstError rs = firstError rs' := by
  induction h with
  | nil => rfl
  | @cons a b _ _ hab _ ih =>
    cases a <;> cases b <;> simp only [SameResult] at hab
    · simp only [firstError, hab]
    · simpa only [firstError] using ih

theorem oks_congr {rs rs' : List (Except LoadErr IndexFile)} (h : Pointwise SameResult rs rs') :
    Pointwise SameListing (oks rs) (oks rs') := by
  induction h with
  | nil => exact .nil
  | @cons a b _ _ hab _ ih =>
    cases a <;> cases b <;> simp only [SameResult] at hab
    · simpa only [oks] using ih
    · simp only [oks]; exact .cons hab ih

theorem loadResults_congr (m : IndexType) {rs rs' : List (Except LoadErr IndexFile)}
    (h : Pointwise SameResult rs rs') : loadResults m rs = loadResults m rs' := by
  rw [loadResults_eq, loadResults_eq, firstError_congr h, load_congr m (oks_congr h)]

/-- a relation that holds position-wise between two listings also holds position-wise between any reordering of the
first and a suitable reordering of the second -/
theorem forall₂_of_perm {α : Type} {R : α → α → Prop} {s l : List α} (hp : s.Perm l) :
    ∀ {l' : List α}, Pointwise R l l' → ∃ s', s'.Perm l' ∧ Pointwise R s s' := by
  induction hp with
  | nil => intro l' h; exact ⟨l', .refl _, h⟩
  | cons x _ ih =>
    intro l' h
    cases h with
    | cons hxy ht =>
      obtain ⟨s', hp', hf'⟩ := ih ht
      exact ⟨_ :: s', hp'.cons _, .cons hxy hf'⟩
  | swap x y l =>
    intro l' h
    cases h with
    | cons hy ht =>
      cases ht with
      | cons hx ht => exact ⟨_ :: _ :: _, .swap _ _ _, .cons hx (.cons hy ht)⟩
  | trans _ _ ih1 ih2 =>
    intro l' h
    obtain ⟨m', hpm, hfm⟩ := ih2 h
    obtain ⟨s', hps, hfs⟩ := ih1 hfm
    exact ⟨s', hps.trans hpm, hfs⟩

theorem forall₂_map_getFile {s s' : List RepoFile}
    (h : Pointwise (fun a b => SameResult (getFile a) (getFile b)) s s') :
    Pointwise SameResult (s.map getFile) (s'.map getFile) := by
  induction h with
  | nil => exact .nil
  | cons hab _ ih => exact .cons hab ih

theorem forall₂_symm {α : Type} {R : α → α → Prop} (hs : ∀ a b, R a b → R b a) {l l' : List α}
    (h : Pointwise R l l') : Pointwise R l' l := by
  induction h with
  | nil => exact .nil
  | cons hab _ ih => exact .cons (hs _ _ hab) ih

end Rustic.IndexLoad
