/-
Lemmas about `Model/IndexLoad.lean`: the loop of `GlobalIndex::new_from_collector` over a stream of per-file results
returns the first error of the stream, and otherwise has fed the collector with EVERY file of the stream.
-/
import Rustic.Lemmas.Index
import Rustic.Model.IndexLoad
namespace Rustic.IndexLoad
open Rustic.Pack Rustic.Index

/-- The loop, characterised: first error of the stream, else the fold over all (then necessarily `Ok`) items. -/
theorem collectResults_eq (c : Collector) (rs : List (Except LoadErr IndexFile)) :
    collectResults c rs =
      match firstError rs with
      | some e => .error e
      | none => .ok ((oks rs).foldl (fun c f => c.extend f.packs) c) := by
  induction rs generalizing c with
  | nil => rfl
  | cons r rest ih =>
    cases r with
    | error e => rfl
    | ok f => simp only [collectResults, firstError, oks, List.foldl_cons]; exact ih _

theorem loadResults_eq (m : IndexType) (rs : List (Except LoadErr IndexFile)) :
    loadResults m rs =
      match firstError rs with
      | some e => .error e
      | none => .ok (load m (oks rs)) := by
  unfold loadResults
  rw [collectResults_eq]
  cases firstError rs <;> rfl

theorem firstError_mem {rs : List (Except LoadErr IndexFile)} {e : LoadErr} (h : firstError rs = some e) :
    Except.error e ∈ rs := by
  induction rs with
  | nil => simp [firstError] at h
  | cons r rest ih =>
    cases r with
    | error e' =>
      simp only [firstError, Option.some.injEq] at h
      subst h; exact List.mem_cons_self ..
    | ok f => exact List.mem_cons_of_mem _ (ih h)

theorem firstError_none_iff {rs : List (Except LoadErr IndexFile)} :
    firstError rs = none ↔ ∀ r ∈ rs, ∃ f, r = Except.ok f := by
  induction rs with
  | nil => simp [firstError]
  | cons r rest ih =>
    cases r with
    | error e =>
      simp only [firstError, List.mem_cons, forall_eq_or_imp]
      constructor
      · intro h; cases h
      · rintro ⟨⟨f, hf⟩, _⟩; cases hf
    | ok f =>
      simp only [firstError, List.mem_cons, forall_eq_or_imp, ih]
      exact ⟨fun h => ⟨⟨f, rfl⟩, h⟩, fun h => h.2⟩

theorem firstError_isSome_iff {rs : List (Except LoadErr IndexFile)} :
    (firstError rs).isSome = true ↔ ∃ e, Except.error e ∈ rs := by
  constructor
  · intro h
    obtain ⟨e, he⟩ := Option.isSome_iff_exists.mp h
    exact ⟨e, firstError_mem he⟩
  · rintro ⟨e, he⟩
    cases h : firstError rs with
    | some _ => rfl
    | none =>
      obtain ⟨f, hf⟩ := firstError_none_iff.mp h _ he
      cases hf

theorem map_ok_oks {rs : List (Except LoadErr IndexFile)} (h : firstError rs = none) :
    rs = (oks rs).map Except.ok := by
  induction rs with
  | nil => rfl
  | cons r rest ih =>
    cases r with
    | error e => simp [firstError] at h
    | ok f =>
      simp only [oks, List.map_cons, List.cons.injEq, true_and]
      exact ih h

theorem oks_map_ok (files : List IndexFile) : oks (files.map Except.ok) = files := by
  induction files with
  | nil => rfl
  | cons f fs ih => simp only [List.map_cons, oks, ih]

theorem firstError_map_ok (files : List IndexFile) : firstError (files.map Except.ok) = none := by
  induction files with
  | nil => rfl
  | cons f fs ih => simpa only [List.map_cons, firstError] using ih

theorem mem_oks {rs : List (Except LoadErr IndexFile)} {f : IndexFile} : f ∈ oks rs ↔ Except.ok f ∈ rs := by
  induction rs with
  | nil => simp [oks]
  | cons r rest ih =>
    cases r with
    | error e => simp [oks, ih]
    | ok g => simp [oks, ih]

theorem oks_perm {rs rs' : List (Except LoadErr IndexFile)} (h : rs.Perm rs') : (oks rs).Perm (oks rs') := by
  induction h with
  | nil => exact .nil
  | cons r _ ih => cases r <;> simp only [oks] <;> first | exact ih | exact ih.cons _
  | swap a b l => cases a <;> cases b <;> simp only [oks] <;> first | exact .refl _ | exact .swap ..
  | trans _ _ ih1 ih2 => exact ih1.trans ih2

end Rustic.IndexLoad
