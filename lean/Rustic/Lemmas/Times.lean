import Rustic.Model.Times
namespace Rustic.Times

/-- the `timespec` restore writes denotes exactly the instant of the snapshot's timestamp and is normalised -/
theorem toFileTime_exact (t : JTime) (h : t.WF) :
    (toFileTime t).1 * NS + (toFileTime t).2 = t.nanos ∧ 0 ≤ (toFileTime t).2 ∧ (toFileTime t).2 < NS := by
  obtain ⟨h1, h2, _, _⟩ := h
  unfold toFileTime JTime.nanos
  unfold NS at *
  by_cases hn : t.nsec < 0
  · simp only [hn, if_true]; omega
  · simp only [hn, if_false]
    exact ⟨trivial, by omega, h2⟩

/-- reading the restored time back gives the snapshot's timestamp: restore ∘ backup is exact on times, before and after
the epoch, with any sub-second part -/
theorem ofFileTime_toFileTime (t : JTime) (h : t.WF) : ofFileTime (toFileTime t).1 (toFileTime t).2 = t := by
  obtain ⟨h1, h2, h3, h4⟩ := h
  cases t with
  | mk s n =>
    simp only at h1 h2 h3 h4
    unfold toFileTime ofFileTime NS at *
    simp only
    by_cases hn : n < 0
    · have hs : ¬ 0 < s := fun hs => by have := h3 hs; omega
      simp only [hn, if_true]
      have : s - 1 < 0 ∧ 0 < n + 1000000000 := by omega
      simp only [this, and_self, if_true]
      congr 1 <;> omega
    · simp only [hn, if_false]
      by_cases hc : s < 0 ∧ 0 < n
      · have := h4 hc.1; omega
      · simp only [hc, if_false]

end Rustic.Times
