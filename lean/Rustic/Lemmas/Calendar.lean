import Rustic.Model.Calendar
/-
Calendar lemmas for C09: every period key `forget.rs` reads off a `Zoned` (year, half-year, quarter, month,
ISO week, day, hour, minute) is a *convex* function of the local wall-clock second: between two instants with
the same key every instant has that key.  (Proved by showing that the civil year is monotone in the day
number, that the month is monotone within a year, and that 1 January of the year of a day is not after it.)

The only finite computation is `boundary_check20`: the year-of-era formula of `civilFromDays` is evaluated at the
first and the last day of each of the 400 years of an era (2 x 400 closed evaluations); everything else is
arithmetic for all integers.
-/
namespace Rustic.Calendar

/-! ### the year-of-era formula -/
def nOf (d : Int) : Int := d - d / 1460 + d / 36524 - d / 146096
def yoeOf (d : Int) : Int := nOf d / 365
/-- days before March-based year `y` of an era (Gregorian rule; `gG 400 = 146097`) -/
def gG (y : Int) : Int := 365 * y + y / 4 - y / 100 + y / 400

theorem nOf_step (d : Int) (h0 : 0 ≤ d) (h1 : d + 1 ≤ 146096) : nOf d ≤ nOf (d + 1) := by
  unfold nOf
  by_cases h : d + 1 = 146096
  · have : d = 146095 := by omega
    subst this; decide
  · omega

theorem nOf_mono_nat (d : Int) (k : Nat) (h0 : 0 ≤ d) (h1 : d + k ≤ 146096) : nOf d ≤ nOf (d + k) := by
  induction k with
  | zero => simp
  | succ k ih =>
    have h2 : d + (k : Int) ≤ 146096 := by omega
    have := nOf_step (d + k) (by omega) (by omega)
    have e : d + ((k + 1 : Nat) : Int) = d + k + 1 := by omega
    rw [e]
    exact Int.le_trans (ih h2) this

theorem yoeOf_mono (d1 d2 : Int) (h0 : 0 ≤ d1) (h : d1 ≤ d2) (h1 : d2 ≤ 146096) : yoeOf d1 ≤ yoeOf d2 := by
  have e : d2 = d1 + ((d2 - d1).toNat : Int) := by omega
  have := nOf_mono_nat d1 (d2 - d1).toNat h0 (by omega)
  rw [← e] at this
  exact Int.ediv_le_ediv (by decide) this

theorem gG_step (y : Int) : gG y + 365 ≤ gG (y + 1) ∧ gG (y + 1) ≤ gG y + 366 := by
  unfold gG; omega

/-- the formula is right on the first and on the last day of each of the 400 years of an era -/
theorem boundary_check20 : ∀ a b : Fin 20,
    yoeOf (gG ((20 * a.1 + b.1 : Nat) : Int)) = ((20 * a.1 + b.1 : Nat) : Int)
    ∧ yoeOf (gG (((20 * a.1 + b.1 : Nat) : Int) + 1) - 1) = ((20 * a.1 + b.1 : Nat) : Int) := by
  decide

theorem boundary_check (y : Int) (h0 : 0 ≤ y) (h1 : y ≤ 399) : yoeOf (gG y) = y ∧ yoeOf (gG (y + 1) - 1) = y := by
  have := boundary_check20 ⟨y.toNat / 20, by omega⟩ ⟨y.toNat % 20, Nat.mod_lt _ (by decide)⟩
  have e : ((20 * (y.toNat / 20) + y.toNat % 20 : Nat) : Int) = y := by omega
  simp only [e] at this
  exact this

theorem gG_zero : gG 0 = 0 := by decide
theorem gG_400 : gG 400 = 146097 := by decide

/-- every day of an era lies in exactly one of its 400 years -/
theorem exists_year (k : Nat) (hk : (k : Int) ≤ 146096) :
    ∃ y : Int, 0 ≤ y ∧ y ≤ 399 ∧ gG y ≤ k ∧ (k : Int) + 1 ≤ gG (y + 1) := by
  induction k with
  | zero =>
    refine ⟨0, by omega, by omega, by rw [gG_zero]; omega, ?_⟩
    have := (gG_step 0).1
    rw [gG_zero] at this
    simp only [Int.zero_add] at *
    omega
  | succ k ih =>
    obtain ⟨y, hy0, hy1, hlo, hhi⟩ := ih (by omega)
    by_cases h : ((k + 1 : Nat) : Int) + 1 ≤ gG (y + 1)
    · exact ⟨y, hy0, hy1, by omega, h⟩
    · have e : gG (y + 1) = ((k + 1 : Nat) : Int) := by omega
      have hy : y + 1 ≤ 399 := by
        by_cases h399 : y = 399
        · subst h399
          have : gG (399 + 1) = 146097 := gG_400
          omega
        · omega
      refine ⟨y + 1, by omega, hy, by omega, ?_⟩
      have := (gG_step (y + 1)).1
      omega

/-- **The year-of-era formula**: for every day-of-era the computed year-of-era is in range, begins no later
than the day, and the day is at most its 366th. -/
theorem yoeOf_spec (d : Int) (h0 : 0 ≤ d) (h1 : d ≤ 146096) :
    0 ≤ yoeOf d ∧ yoeOf d ≤ 399 ∧ gG (yoeOf d) ≤ d ∧ d - gG (yoeOf d) ≤ 365 := by
  obtain ⟨y, hy0, hy1, hlo, hhi⟩ := exists_year d.toNat (by omega)
  have e : ((d.toNat : Nat) : Int) = d := by omega
  rw [e] at hlo hhi
  obtain ⟨b1, b2⟩ := boundary_check y hy0 hy1
  have hs := gG_step y
  have l1 : yoeOf (gG y) ≤ yoeOf d := yoeOf_mono _ _ (by unfold gG; omega) hlo h1
  have l2 : yoeOf d ≤ yoeOf (gG (y + 1) - 1) := yoeOf_mono _ _ h0 (by omega) (by
    have : gG (y + 1) ≤ gG 400 := by
      by_cases h : y = 399
      · subst h; exact Int.le_refl _
      · have : y + 1 ≤ 399 := by omega
        unfold gG; omega
    rw [gG_400] at this; omega)
  have : yoeOf d = y := by omega
  rw [this]
  omega

/-! ### `civilFromDays` through its intermediate quantities -/
def eraOf (z : Int) : Int := (z + 719468) / 146097
def doeOf (z : Int) : Int := (z + 719468) - eraOf z * 146097
/-- March-based year of the day number -/
def myOf (z : Int) : Int := yoeOf (doeOf z) + eraOf z * 400
/-- day of the March-based year (0 = 1 March) -/
def doyOf (z : Int) : Int := doeOf z - (365 * yoeOf (doeOf z) + yoeOf (doeOf z) / 4 - yoeOf (doeOf z) / 100)
def mpOf (z : Int) : Int := (5 * doyOf z + 2) / 153
def monthIOf (z : Int) : Int := if mpOf z < 10 then mpOf z + 3 else mpOf z - 9

def yearOf (z : Int) : Int := (civilFromDays z).1
def monthOf (z : Int) : Nat := (civilFromDays z).2.1

theorem yearOf_eq (z : Int) : yearOf z = if monthIOf z ≤ 2 then myOf z + 1 else myOf z := rfl
theorem monthOf_eq (z : Int) : monthOf z = (monthIOf z).toNat := rfl

theorem doeOf_range (z : Int) : 0 ≤ doeOf z ∧ doeOf z ≤ 146096 := by
  unfold doeOf eraOf; omega

theorem doyOf_range (z : Int) : 0 ≤ doyOf z ∧ doyOf z ≤ 365 := by
  obtain ⟨h0, h1⟩ := doeOf_range z
  obtain ⟨a, b, c, d⟩ := yoeOf_spec (doeOf z) h0 h1
  unfold doyOf
  unfold gG at c d
  omega

theorem yoe_range (z : Int) : 0 ≤ yoeOf (doeOf z) ∧ yoeOf (doeOf z) ≤ 399 := by
  obtain ⟨h0, h1⟩ := doeOf_range z
  obtain ⟨a, b, _, _⟩ := yoeOf_spec (doeOf z) h0 h1
  exact ⟨a, b⟩

/-- the year and the month in closed form: January and February (day-of-March-year ≥ 306) belong to the
next civil year -/
theorem yearOf_closed (z : Int) : yearOf z = myOf z + (if 306 ≤ doyOf z then 1 else 0) := by
  rw [yearOf_eq]
  obtain ⟨h0, h1⟩ := doyOf_range z
  unfold monthIOf mpOf
  split <;> split <;> omega

/-- (March-based year, day of that year) is lexicographically monotone in the day number -/
theorem my_doy_mono (z1 z2 : Int) (h : z1 ≤ z2) :
    myOf z1 < myOf z2 ∨ (myOf z1 = myOf z2 ∧ doyOf z1 ≤ doyOf z2) := by
  have he : eraOf z1 ≤ eraOf z2 := by unfold eraOf; omega
  obtain ⟨a1, b1⟩ := yoe_range z1
  obtain ⟨a2, b2⟩ := yoe_range z2
  by_cases hlt : eraOf z1 < eraOf z2
  · left; unfold myOf; omega
  · have hee : eraOf z1 = eraOf z2 := by omega
    have hd : doeOf z1 ≤ doeOf z2 := by unfold doeOf; rw [hee]; omega
    have hy := yoeOf_mono _ _ (doeOf_range z1).1 hd (doeOf_range z2).2
    by_cases hyl : yoeOf (doeOf z1) < yoeOf (doeOf z2)
    · left; unfold myOf; omega
    · right
      have hye : yoeOf (doeOf z1) = yoeOf (doeOf z2) := by omega
      refine ⟨by unfold myOf; omega, ?_⟩
      unfold doyOf; rw [hye]; omega

/-- **The civil year is monotone in the day number.** -/
theorem yearOf_mono (z1 z2 : Int) (h : z1 ≤ z2) : yearOf z1 ≤ yearOf z2 := by
  rw [yearOf_closed, yearOf_closed]
  rcases my_doy_mono z1 z2 h with h1 | ⟨h1, h2⟩
  · split <;> split <;> omega
  · split <;> split <;> omega

/-- **Within one civil year the month is monotone in the day number.** -/
theorem monthOf_mono (z1 z2 : Int) (h : z1 ≤ z2) (hy : yearOf z1 = yearOf z2) : monthOf z1 ≤ monthOf z2 := by
  rw [yearOf_closed, yearOf_closed] at hy
  rw [monthOf_eq, monthOf_eq]
  obtain ⟨p0, p1⟩ := doyOf_range z1
  obtain ⟨q0, q1⟩ := doyOf_range z2
  have key : monthIOf z1 ≤ monthIOf z2 ∧ 0 ≤ monthIOf z1 := by
    unfold monthIOf mpOf
    rcases my_doy_mono z1 z2 h with h1 | ⟨h1, h2⟩
    · split at hy <;> split at hy <;> (split <;> split <;> omega)
    · split at hy <;> split at hy <;> (split <;> split <;> omega)
  omega

/-! ### 1 January of the year of a day is not after that day -/
theorem jan1_of (y era yoe : Int) (h : y - 1 = era * 400 + yoe) (h0 : 0 ≤ yoe) (h1 : yoe ≤ 399) :
    daysFromCivil y 1 1 = era * 146097 + (yoe * 365 + yoe / 4 - yoe / 100 + 306) - 719468 := by
  have e1 : (y - 1) / 400 = era := by omega
  have e2 : y - 1 - era * 400 = yoe := by omega
  simp [daysFromCivil, e1, e2]

theorem z_eq (z : Int) : z = eraOf z * 146097 + doeOf z - 719468 := by
  unfold doeOf; omega

theorem jan1_le (z : Int) : daysFromCivil (yearOf z) 1 1 ≤ z := by
  obtain ⟨h0, h1⟩ := doeOf_range z
  obtain ⟨a, b, c, d⟩ := yoeOf_spec (doeOf z) h0 h1
  have hz := z_eq z
  have hdoy : doyOf z = doeOf z - (365 * yoeOf (doeOf z) + yoeOf (doeOf z) / 4 - yoeOf (doeOf z) / 100) := rfl
  have hy := yearOf_closed z
  unfold gG at c d
  unfold myOf at hy
  by_cases h306 : 306 ≤ doyOf z
  · -- January / February: the March-based year is the previous civil year
    rw [if_pos h306] at hy
    rw [jan1_of (yearOf z) (eraOf z) (yoeOf (doeOf z)) (by omega) a b]
    omega
  · rw [if_neg h306] at hy
    by_cases hy0 : yoeOf (doeOf z) = 0
    · rw [jan1_of (yearOf z) (eraOf z - 1) 399 (by omega) (by omega) (by omega)]
      omega
    · rw [jan1_of (yearOf z) (eraOf z) (yoeOf (doeOf z) - 1) (by omega) (by omega) (by omega)]
      omega

/-! ### round trip -/
theorem civilFromDays_eq (z : Int) :
    civilFromDays z = (if monthIOf z ≤ 2 then myOf z + 1 else myOf z, (monthIOf z).toNat,
      (doyOf z - (153 * mpOf z + 2) / 5 + 1).toNat) := rfl

/-- the civil date of a day number determines the day number (and month, day are in range) -/
theorem daysFromCivil_civilFromDays (z : Int) :
    daysFromCivil (civilFromDays z).1 (civilFromDays z).2.1 (civilFromDays z).2.2 = z ∧
    1 ≤ (civilFromDays z).2.1 ∧ (civilFromDays z).2.1 ≤ 12 ∧ 1 ≤ (civilFromDays z).2.2 ∧ (civilFromDays z).2.2 ≤ 31 := by
  rw [civilFromDays_eq]
  dsimp only
  obtain ⟨p0, p1⟩ := doyOf_range z
  obtain ⟨y0, y1⟩ := yoe_range z
  have hz := z_eq z
  have hdoy : doyOf z = doeOf z - (365 * yoeOf (doeOf z) + yoeOf (doeOf z) / 4 - yoeOf (doeOf z) / 100) := rfl
  have hmp : mpOf z = (5 * doyOf z + 2) / 153 := rfl
  have hmy : myOf z = yoeOf (doeOf z) + eraOf z * 400 := rfl
  have hm : monthIOf z = if mpOf z < 10 then mpOf z + 3 else mpOf z - 9 := rfl
  generalize doyOf z = doy at *
  generalize mpOf z = mp at *
  generalize monthIOf z = mi at *
  generalize myOf z = my at *
  generalize yoeOf (doeOf z) = yoe at *
  generalize eraOf z = era at *
  generalize doeOf z = doe at *
  have hmi : 1 ≤ mi ∧ mi ≤ 12 := by split at hm <;> omega
  have hd : 1 ≤ doy - (153 * mp + 2) / 5 + 1 ∧ doy - (153 * mp + 2) / 5 + 1 ≤ 31 := by omega
  refine ⟨?_, by omega, by omega, by omega, by omega⟩
  simp only [daysFromCivil]
  have c1 : (((mi.toNat : Nat) : Int)) = mi := by omega
  have c2 : (((doy - (153 * mp + 2) / 5 + 1).toNat : Nat) : Int) = doy - (153 * mp + 2) / 5 + 1 := by omega
  have n1 : (mi.toNat ≤ 2) ↔ (mi ≤ 2) := by omega
  have n2 : (mi.toNat > 2) ↔ (mi > 2) := by omega
  simp only [n1, n2, c1, c2]
  by_cases hle : mi ≤ 2
  · have hgt : ¬ mi > 2 := by omega
    simp only [hle, hgt, if_true, if_false]
    have : mp = mi + 9 := by split at hm <;> omega
    have e1 : (my + 1 - 1) / 400 = era := by omega
    rw [e1]
    omega
  · have hgt : mi > 2 := by omega
    simp only [hle, hgt, if_true, if_false]
    have : mp = mi - 3 := by split at hm <;> omega
    have e1 : my / 400 = era := by omega
    rw [e1]
    omega
/-! ### convexity of the period keys in the local second -/

/-- `K` takes the same value at every point between two points with equal value. -/
def Convex {κ : Type} (K : Int → κ) : Prop := ∀ a b c : Int, a ≤ b → b ≤ c → K a = K c → K b = K c

def dayOfSecs (s : Int) : Int := s / 86400
def sodOfSecs (s : Int) : Nat := (s % 86400).toNat

theorem dayOfSecs_mono {a b : Int} (h : a ≤ b) : dayOfSecs a ≤ dayOfSecs b := by
  unfold dayOfSecs; omega

theorem sod_mono {a b : Int} (h : a ≤ b) (hd : dayOfSecs a = dayOfSecs b) : sodOfSecs a ≤ sodOfSecs b := by
  unfold dayOfSecs at hd; unfold sodOfSecs; omega

/-- the fields of `Civil.ofLocalSecs`, spelled out -/
theorem ofLocalSecs_fields (s : Int) :
    (Civil.ofLocalSecs s).year = yearOf (dayOfSecs s) ∧
    (Civil.ofLocalSecs s).month = monthOf (dayOfSecs s) ∧
    (Civil.ofLocalSecs s).doy = (dayOfSecs s - daysFromCivil (yearOf (dayOfSecs s)) 1 1).toNat + 1 ∧
    (Civil.ofLocalSecs s).hour = sodOfSecs s / 3600 ∧
    (Civil.ofLocalSecs s).minute = sodOfSecs s % 3600 / 60 ∧
    (Civil.ofLocalSecs s).isoYear = (isoWeekOfDays (dayOfSecs s)).1 ∧
    (Civil.ofLocalSecs s).isoWeek = (isoWeekOfDays (dayOfSecs s)).2 :=
  ⟨rfl, rfl, rfl, rfl, rfl, rfl, rfl⟩

theorem convex_of_mono (K : Int → Int) (hm : ∀ a b, a ≤ b → K a ≤ K b) : Convex K := by
  intro a b c hab hbc h
  have := hm a b hab
  have := hm b c hbc
  omega

/-- a pair (monotone first component, second component monotone while the first is constant) is convex -/
theorem convex_pair (K1 : Int → Int) (K2 : Int → Nat) (h1 : ∀ a b, a ≤ b → K1 a ≤ K1 b)
    (h2 : ∀ a b, a ≤ b → K1 a = K1 b → K2 a ≤ K2 b) : Convex (fun s => (K1 s, K2 s)) := by
  intro a b c hab hbc h
  simp only [Prod.mk.injEq] at h ⊢
  have e1 : K1 b = K1 c := by
    have := h1 a b hab
    have := h1 b c hbc
    omega
  refine ⟨e1, ?_⟩
  have := h2 a b hab (by omega)
  have := h2 b c hbc e1
  omega

def yearS (s : Int) : Int := (Civil.ofLocalSecs s).year
def monthS (s : Int) : Nat := (Civil.ofLocalSecs s).month

theorem yearS_mono (a b : Int) (h : a ≤ b) : yearS a ≤ yearS b :=
  yearOf_mono _ _ (dayOfSecs_mono h)

theorem monthS_mono (a b : Int) (h : a ≤ b) (hy : yearS a = yearS b) : monthS a ≤ monthS b :=
  monthOf_mono _ _ (dayOfSecs_mono h) hy

theorem convex_year : Convex (fun s => (Civil.ofLocalSecs s).year) :=
  convex_of_mono yearS yearS_mono

theorem convex_month : Convex (fun s => ((Civil.ofLocalSecs s).year, (Civil.ofLocalSecs s).month)) :=
  convex_pair yearS monthS yearS_mono monthS_mono

theorem convex_quarter : Convex (fun s => ((Civil.ofLocalSecs s).year, ((Civil.ofLocalSecs s).month - 1) / 3)) :=
  convex_pair yearS (fun s => (monthS s - 1) / 3) yearS_mono (fun a b h hy => by
    have := monthS_mono a b h hy
    show (monthS a - 1) / 3 ≤ (monthS b - 1) / 3
    omega)

theorem convex_half : Convex (fun s => ((Civil.ofLocalSecs s).year, ((Civil.ofLocalSecs s).month - 1) / 6)) :=
  convex_pair yearS (fun s => (monthS s - 1) / 6) yearS_mono (fun a b h hy => by
    have := monthS_mono a b h hy
    show (monthS a - 1) / 6 ≤ (monthS b - 1) / 6
    omega)

/-- (year, day of year) determines the day number -/
theorem day_key_inj (s1 s2 : Int)
    (h : ((Civil.ofLocalSecs s1).year, (Civil.ofLocalSecs s1).doy) = ((Civil.ofLocalSecs s2).year, (Civil.ofLocalSecs s2).doy)) :
    dayOfSecs s1 = dayOfSecs s2 := by
  simp only [Prod.mk.injEq] at h
  obtain ⟨hy, hd⟩ := h
  have hy' : yearOf (dayOfSecs s1) = yearOf (dayOfSecs s2) := hy
  have e1 : (Civil.ofLocalSecs s1).doy = (dayOfSecs s1 - daysFromCivil (yearOf (dayOfSecs s1)) 1 1).toNat + 1 := rfl
  have e2 : (Civil.ofLocalSecs s2).doy = (dayOfSecs s2 - daysFromCivil (yearOf (dayOfSecs s2)) 1 1).toNat + 1 := rfl
  rw [e1, e2, hy'] at hd
  have j1 := jan1_le (dayOfSecs s1)
  have j2 := jan1_le (dayOfSecs s2)
  rw [hy'] at j1
  omega

theorem day_key_of_day (s1 s2 : Int) (h : dayOfSecs s1 = dayOfSecs s2) :
    ((Civil.ofLocalSecs s1).year, (Civil.ofLocalSecs s1).doy) = ((Civil.ofLocalSecs s2).year, (Civil.ofLocalSecs s2).doy) := by
  have e1 : (Civil.ofLocalSecs s1).doy = (dayOfSecs s1 - daysFromCivil (yearOf (dayOfSecs s1)) 1 1).toNat + 1 := rfl
  have e2 : (Civil.ofLocalSecs s2).doy = (dayOfSecs s2 - daysFromCivil (yearOf (dayOfSecs s2)) 1 1).toNat + 1 := rfl
  have y1 : (Civil.ofLocalSecs s1).year = yearOf (dayOfSecs s1) := rfl
  have y2 : (Civil.ofLocalSecs s2).year = yearOf (dayOfSecs s2) := rfl
  rw [e1, e2, y1, y2, h]

theorem day_squeeze {a b c : Int} (hab : a ≤ b) (hbc : b ≤ c) (h : dayOfSecs a = dayOfSecs c) :
    dayOfSecs b = dayOfSecs c := by
  have := dayOfSecs_mono hab
  have := dayOfSecs_mono hbc
  omega

theorem convex_day : Convex (fun s => ((Civil.ofLocalSecs s).year, (Civil.ofLocalSecs s).doy)) := by
  intro a b c hab hbc h
  exact day_key_of_day b c (day_squeeze hab hbc (day_key_inj a c h))

theorem convex_hour :
    Convex (fun s => ((Civil.ofLocalSecs s).year, (Civil.ofLocalSecs s).doy, (Civil.ofLocalSecs s).hour)) := by
  intro a b c hab hbc h
  simp only [Prod.mk.injEq] at h
  have hd := day_key_inj a c (by simp only [Prod.mk.injEq]; exact ⟨h.1, h.2.1⟩)
  have hbcd := day_squeeze hab hbc hd
  have hk := day_key_of_day b c hbcd
  simp only [Prod.mk.injEq] at hk ⊢
  refine ⟨hk.1, hk.2, ?_⟩
  have s1 := sod_mono hab (by omega)
  have s2 := sod_mono hbc hbcd
  have hh : sodOfSecs a / 3600 = sodOfSecs c / 3600 := h.2.2
  show sodOfSecs b / 3600 = sodOfSecs c / 3600
  omega

theorem convex_minute :
    Convex (fun s => ((Civil.ofLocalSecs s).year, (Civil.ofLocalSecs s).doy, (Civil.ofLocalSecs s).hour,
      (Civil.ofLocalSecs s).minute)) := by
  intro a b c hab hbc h
  simp only [Prod.mk.injEq] at h
  have hd := day_key_inj a c (by simp only [Prod.mk.injEq]; exact ⟨h.1, h.2.1⟩)
  have hbcd := day_squeeze hab hbc hd
  have hk := day_key_of_day b c hbcd
  simp only [Prod.mk.injEq] at hk ⊢
  have s1 := sod_mono hab (by omega)
  have s2 := sod_mono hbc hbcd
  have hh : sodOfSecs a / 3600 = sodOfSecs c / 3600 := h.2.2.1
  have hm : sodOfSecs a % 3600 / 60 = sodOfSecs c % 3600 / 60 := h.2.2.2
  refine ⟨hk.1, hk.2, ?_, ?_⟩
  · show sodOfSecs b / 3600 = sodOfSecs c / 3600
    omega
  · show sodOfSecs b % 3600 / 60 = sodOfSecs c % 3600 / 60
    omega

/-- the Thursday of the ISO week of a day -/
def thuOf (days : Int) : Int := days - ((isoWeekday days : Nat) : Int) + 4

theorem thuOf_eq (days : Int) : thuOf days = 7 * ((days + 3) / 7) := by
  unfold thuOf isoWeekday; omega

theorem isoWeekOfDays_eq (days : Int) :
    isoWeekOfDays days = (yearOf (thuOf days), ((thuOf days - daysFromCivil (yearOf (thuOf days)) 1 1) / 7).toNat + 1) := rfl

theorem convex_week : Convex (fun s => ((Civil.ofLocalSecs s).isoYear, (Civil.ofLocalSecs s).isoWeek)) := by
  intro a b c hab hbc h
  have ea : ∀ s, ((Civil.ofLocalSecs s).isoYear, (Civil.ofLocalSecs s).isoWeek) = isoWeekOfDays (dayOfSecs s) := fun _ => rfl
  simp only [ea, isoWeekOfDays_eq] at h ⊢
  simp only [Prod.mk.injEq] at h
  obtain ⟨hy, hw⟩ := h
  have ta := thuOf_eq (dayOfSecs a)
  have tb := thuOf_eq (dayOfSecs b)
  have tc := thuOf_eq (dayOfSecs c)
  have dab := dayOfSecs_mono hab
  have dbc := dayOfSecs_mono hbc
  have ja := jan1_le (thuOf (dayOfSecs a))
  have jc := jan1_le (thuOf (dayOfSecs c))
  rw [hy] at hw ja
  -- the Thursdays of a and c are multiples of 7 in the same week-of-year of the same year: equal
  have hac : thuOf (dayOfSecs a) = thuOf (dayOfSecs c) := by omega
  have hbc' : thuOf (dayOfSecs b) = thuOf (dayOfSecs c) := by omega
  rw [hbc']

end Rustic.Calendar
