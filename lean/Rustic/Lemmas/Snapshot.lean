/-
Lemmas for C01, tree level (`Model/Snapshot.lean`): node ↔ stored node round trip, restore of what `save` computed,
`TreeIterator` over a depth-first source, the tree archiver's stack machine vs the recursion `save`.
-/
import Rustic.Model.Snapshot
import Rustic.Lemmas.RoundTrip
namespace Rustic.Snapshot
open Rustic.Tree Rustic.RoundTrip

/-! ### A. a node survives being stored -/

/-- what is assumed of strings: UTF-8 keeps ASCII, and std's cutting of a byte string into characters and invalid bytes
partitions it -/
structure StrOK (s : Str) : Prop where
  ascii : EncAscii s.enc
  cut : ∀ b : Bytes, (s.cut b).flatMap (itemBytes s.enc) = b

theorem allCh_bytes (enc : Char → Bytes) : ∀ (l : List Item), l.all isCh = true →
    (l.map itemChar).flatMap enc = l.flatMap (itemBytes enc)
  | [], _ => rfl
  | .ch c :: l, h => by
    simp only [List.all_cons, isCh, Bool.true_and] at h
    simp only [List.map_cons, List.flatMap_cons, itemChar, itemBytes, allCh_bytes enc l h]
  | .bad b :: l, h => by simp [isCh] at h

/-- name, type, link target (UTF-8 or not), metadata, content and subtree ids all come back -/
theorem fromSNode_toSNode (s : Str) (hs : StrOK s) (n : Node) : fromSNode s (toSNode s n) = n := by
  cases n with
  | mk name kind md content subtree =>
    simp only [fromSNode, toSNode, unescape_escape' s.enc hs.ascii, hs.cut, Option.getD_some]
    congr 1
    cases kind with
    | file => rfl
    | dir => rfl
    | other tag => rfl
    | symlink t =>
      simp only [fromLink]
      by_cases h : (s.cut t).all isCh = true
      · simp only [h, if_true, Option.getD_none, allCh_bytes s.enc _ h, hs.cut]
      · simp only [h, Bool.false_eq_true, if_false, Option.getD_some]

theorem map_from_to (s : Str) (hs : StrOK s) (nodes : List Node) :
    (nodes.map (toSNode s)).map (fromSNode s) = nodes := by
  rw [List.map_map]
  conv => rhs; rw [← List.map_id nodes]
  exact List.map_congr_left (fun n _ => fromSNode_toSNode s hs n)

theorem loadTree_treeBytes (s : Str) (hs : StrOK s) (j : Ser) (getTree : Id → Option Bytes) (id : Id)
    (nodes : List Node) (h : getTree id = some (treeBytes s j nodes)) : loadTree s j getTree id = some nodes := by
  simp only [loadTree, h, treeBytes, j.round, Option.map_some, map_from_to s hs]

/-! ### D. restore of what `save` computed -/

mutual
/-- a source tree as a file system gives it: leaves are not directories, only files have bytes, the source nodes carry no
content / subtree ids yet -/
def STree.WF : STree → Prop
  | .leaf n d => n.kind ≠ .dir ∧ n.content = none ∧ n.subtree = none ∧ (n.kind ≠ .file → d = [])
  | .dir n cs => n.kind = .dir ∧ n.content = none ∧ n.subtree = none ∧ WFL cs
def WFL : List STree → Prop
  | [] => True
  | t :: ts => t.WF ∧ WFL ts
end

mutual
/-- every blob the snapshot of this forest refers to reads back: each file chunk by its id, each directory's tree blob
by its id -/
def STree.Stored (s : Str) (j : Ser) (H : List Node → Id) (hash : Bytes → Id) (chunks : Bytes → List Bytes)
    (hasTree : Id → Bool) (getTree getData : Id → Option Bytes) : STree → Prop
  | .leaf n d => n.kind = .file → ∀ c ∈ chunks d, getData (hash c) = some c
  | .dir _ cs =>
    getTree (H (saveL H hash chunks hasTree cs).nodes) = some (treeBytes s j (saveL H hash chunks hasTree cs).nodes) ∧
    StoredL s j H hash chunks hasTree getTree getData cs
def StoredL (s : Str) (j : Ser) (H : List Node → Id) (hash : Bytes → Id) (chunks : Bytes → List Bytes)
    (hasTree : Id → Bool) (getTree getData : Id → Option Bytes) : List STree → Prop
  | [] => True
  | t :: ts => t.Stored s j H hash chunks hasTree getTree getData ∧ StoredL s j H hash chunks hasTree getTree getData ts
end

theorem restoreFile_chunks (getData : Id → Option Bytes) (hash : Bytes → Id) (cs : List Bytes)
    (hst : ∀ c ∈ cs, getData (hash c) = some c) (order : List Write → List Write) (ho : ∀ l w, w ∈ order l ↔ w ∈ l) :
    (restoreFile getData (cs.map hash) order).map File.bytes = some cs.flatten := by
  unfold restoreFile
  rw [mapM_store _ hst]
  simp only [Option.map_some]
  congr 1
  have := writes_any_order cs (order (positions 0 cs)) (ho _)
  rw [show (List.map List.length cs).sum = totalLen cs from rfl, this]

mutual
theorem restore_save_tree (s : Str) (hs : StrOK s) (j : Ser) (H : List Node → Id) (hash : Bytes → Id)
    (chunks : Bytes → List Bytes) (hch : ∀ d, (chunks d).flatten = d) (hasTree : Id → Bool)
    (getTree getData : Id → Option Bytes) (order : List Write → List Write) (ho : ∀ l w, w ∈ order l ↔ w ∈ l) :
    ∀ (t : STree), t.WF → t.Stored s j H hash chunks hasTree getTree getData → ∀ fuel, t.depth ≤ fuel →
      (save H hash chunks hasTree t).nodes.mapM
        (restoreNode getData order (restoreTrees s j getTree getData order fuel)) = some [t]
  | .leaf n d, hwf, hst, fuel, _ => by
    simp only [STree.WF] at hwf
    simp only [STree.Stored] at hst
    obtain ⟨hnd, hc, hsub, hdata⟩ := hwf
    by_cases hk : n.kind = .file
    · simp only [save, hk, if_true, List.mapM_cons, List.mapM_nil, restoreNode]
      have hb := restoreFile_chunks getData hash (chunks d) (hst hk) order ho
      cases hr : restoreFile getData ((chunks d).map hash) order with
      | none => rw [hr] at hb; cases hb
      | some f =>
        rw [hr] at hb
        simp only [Option.map_some, Option.some.injEq] at hb
        cases n with
        | mk name kind md content subtree =>
          simp only at hk hc hsub
          subst hk; subst hc; subst hsub
          simp [strip, hb, hch]
    · simp only [save, hk, if_false, List.mapM_cons, List.mapM_nil, restoreNode]
      cases n with
      | mk name kind md content subtree =>
        simp only at hk hc hsub hnd hdata
        subst hc; subst hsub
        rw [hdata hk]
        cases kind with
        | file => exact absurd rfl hk
        | dir => exact absurd rfl hnd
        | symlink t => simp [strip]
        | other tag => simp [strip]
  | .dir n cs, hwf, hst, fuel, hd => by
    simp only [STree.WF] at hwf
    simp only [STree.Stored] at hst
    obtain ⟨hk, hc, hsub, hcs⟩ := hwf
    obtain ⟨hget, hstcs⟩ := hst
    simp only [STree.depth] at hd
    cases fuel with
    | zero => omega
    | succ f =>
      have ih := restore_save_list s hs j H hash chunks hch hasTree getTree getData order ho cs hcs hstcs f (by omega)
      have hload := loadTree_treeBytes s hs j getTree _ _ hget
      simp only [save, List.mapM_cons, List.mapM_nil, restoreNode, hk, restoreTrees, hload, ih]
      cases n with
      | mk name kind md content subtree =>
        simp only at hk hc hsub
        subst hk; subst hc; subst hsub
        simp [strip]
theorem restore_save_list (s : Str) (hs : StrOK s) (j : Ser) (H : List Node → Id) (hash : Bytes → Id)
    (chunks : Bytes → List Bytes) (hch : ∀ d, (chunks d).flatten = d) (hasTree : Id → Bool)
    (getTree getData : Id → Option Bytes) (order : List Write → List Write) (ho : ∀ l w, w ∈ order l ↔ w ∈ l) :
    ∀ (ts : List STree), WFL ts → StoredL s j H hash chunks hasTree getTree getData ts → ∀ fuel, depthL ts ≤ fuel →
      (saveL H hash chunks hasTree ts).nodes.mapM
        (restoreNode getData order (restoreTrees s j getTree getData order fuel)) = some ts
  | [], _, _, _, _ => by simp [saveL]
  | t :: ts, hwf, hst, fuel, hd => by
    simp only [WFL] at hwf
    simp only [StoredL] at hst
    simp only [depthL] at hd
    have h1 := restore_save_tree s hs j H hash chunks hch hasTree getTree getData order ho t hwf.1 hst.1 fuel (by omega)
    have h2 := restore_save_list s hs j H hash chunks hch hasTree getTree getData order ho ts hwf.2 hst.2 fuel (by omega)
    simp only [saveL, List.mapM_append, h1, h2]
    rfl
end

/-! ### what `save` hands to the packers is what `Stored` asks for (fresh repository: nothing is filtered) -/

def noTree : Id → Bool := fun _ => false

mutual
theorem save_trees_id (H : List Node → Id) (hash : Bytes → Id) (chunks : Bytes → List Bytes) (hasTree : Id → Bool) :
    ∀ (t : STree), ∀ p ∈ (save H hash chunks hasTree t).trees, p.1 = H p.2
  | .leaf n d => by
    intro p hp
    by_cases hk : n.kind = .file <;> simp [save, hk] at hp
  | .dir n cs => by
    intro p hp
    simp only [save] at hp
    split at hp
    · exact saveL_trees_id H hash chunks hasTree cs p hp
    · rcases List.mem_append.mp hp with hp | hp
      · exact saveL_trees_id H hash chunks hasTree cs p hp
      · simp only [List.mem_singleton] at hp; subst hp; rfl
theorem saveL_trees_id (H : List Node → Id) (hash : Bytes → Id) (chunks : Bytes → List Bytes) (hasTree : Id → Bool) :
    ∀ (ts : List STree), ∀ p ∈ (saveL H hash chunks hasTree ts).trees, p.1 = H p.2
  | [] => by intro p hp; simp [saveL] at hp
  | t :: ts => by
    intro p hp
    simp only [saveL] at hp
    rcases List.mem_append.mp hp with hp | hp
    · exact save_trees_id H hash chunks hasTree t p hp
    · exact saveL_trees_id H hash chunks hasTree ts p hp
end

mutual
theorem stored_of_saved (s : Str) (j : Ser) (H : List Node → Id) (hash : Bytes → Id) (chunks : Bytes → List Bytes)
    (getTree getData : Id → Option Bytes) : ∀ (t : STree),
    (∀ p ∈ (save H hash chunks noTree t).trees, getTree p.1 = some (treeBytes s j p.2)) →
    (∀ c ∈ (save H hash chunks noTree t).chunks, getData (hash c) = some c) →
    t.Stored s j H hash chunks noTree getTree getData
  | .leaf n d => by
    intro _ hc
    simp only [STree.Stored]
    intro hk c hcm
    exact hc c (by simpa [save, hk] using hcm)
  | .dir n cs => by
    intro ht hc
    simp only [STree.Stored]
    simp only [save, noTree, Bool.false_eq_true, if_false] at ht hc
    refine ⟨ht (_, _) (List.mem_append_right _ (List.mem_singleton.mpr rfl)), ?_⟩
    exact storedL_of_saved s j H hash chunks getTree getData cs
      (fun p hp => ht p (List.mem_append_left _ hp)) hc
theorem storedL_of_saved (s : Str) (j : Ser) (H : List Node → Id) (hash : Bytes → Id) (chunks : Bytes → List Bytes)
    (getTree getData : Id → Option Bytes) : ∀ (ts : List STree),
    (∀ p ∈ (saveL H hash chunks noTree ts).trees, getTree p.1 = some (treeBytes s j p.2)) →
    (∀ c ∈ (saveL H hash chunks noTree ts).chunks, getData (hash c) = some c) →
    StoredL s j H hash chunks noTree getTree getData ts
  | [] => fun _ _ => trivial
  | t :: ts => by
    intro ht hc
    simp only [saveL] at ht hc
    exact ⟨stored_of_saved s j H hash chunks getTree getData t
        (fun p hp => ht p (List.mem_append_left _ hp)) (fun c hcm => hc c (List.mem_append_left _ hcm)),
      storedL_of_saved s j H hash chunks getTree getData ts
        (fun p hp => ht p (List.mem_append_right _ hp)) (fun c hcm => hc c (List.mem_append_right _ hcm))⟩
end

mutual
/-- nodes and chunks do not depend on what the index already has (only the list of uploaded trees does) -/
theorem save_indep (H : List Node → Id) (hash : Bytes → Id) (chunks : Bytes → List Bytes) (h1 h2 : Id → Bool) :
    ∀ (t : STree), (save H hash chunks h1 t).nodes = (save H hash chunks h2 t).nodes ∧
      (save H hash chunks h1 t).chunks = (save H hash chunks h2 t).chunks
  | .leaf n d => by by_cases hk : n.kind = .file <;> simp [save, hk]
  | .dir n cs => by
    have ih := saveL_indep H hash chunks h1 h2 cs
    simp only [save, ih.1, ih.2, and_self]
theorem saveL_indep (H : List Node → Id) (hash : Bytes → Id) (chunks : Bytes → List Bytes) (h1 h2 : Id → Bool) :
    ∀ (ts : List STree), (saveL H hash chunks h1 ts).nodes = (saveL H hash chunks h2 ts).nodes ∧
      (saveL H hash chunks h1 ts).chunks = (saveL H hash chunks h2 ts).chunks
  | [] => by simp [saveL]
  | t :: ts => by
    have a := save_indep H hash chunks h1 h2 t
    have b := saveL_indep H hash chunks h1 h2 ts
    simp only [saveL, a.1, a.2, b.1, b.2, and_self]
end

mutual
/-- only trees the index lacks are handed to the tree packer -/
theorem save_trees_new (H : List Node → Id) (hash : Bytes → Id) (chunks : Bytes → List Bytes) (hasTree : Id → Bool) :
    ∀ (t : STree), ∀ p ∈ (save H hash chunks hasTree t).trees, hasTree p.1 = false
  | .leaf n d => by
    intro p hp
    by_cases hk : n.kind = .file <;> simp [save, hk] at hp
  | .dir n cs => by
    intro p hp
    simp only [save] at hp
    split at hp
    · exact saveL_trees_new H hash chunks hasTree cs p hp
    · rename_i hh
      rcases List.mem_append.mp hp with hp | hp
      · exact saveL_trees_new H hash chunks hasTree cs p hp
      · simp only [List.mem_singleton] at hp; subst hp; simpa using hh
theorem saveL_trees_new (H : List Node → Id) (hash : Bytes → Id) (chunks : Bytes → List Bytes) (hasTree : Id → Bool) :
    ∀ (ts : List STree), ∀ p ∈ (saveL H hash chunks hasTree ts).trees, hasTree p.1 = false
  | [] => by intro p hp; simp [saveL] at hp
  | t :: ts => by
    intro p hp
    simp only [saveL] at hp
    rcases List.mem_append.mp hp with hp | hp
    · exact save_trees_new H hash chunks hasTree t p hp
    · exact saveL_trees_new H hash chunks hasTree ts p hp
end

mutual
theorem stored_of_saved_gen (s : Str) (j : Ser) (H : List Node → Id) (hash : Bytes → Id) (chunks : Bytes → List Bytes)
    (hasTree : Id → Bool) (getTree getData : Id → Option Bytes)
    (hold : ∀ nodes, hasTree (H nodes) = true → getTree (H nodes) = some (treeBytes s j nodes)) : ∀ (t : STree),
    (∀ p ∈ (save H hash chunks hasTree t).trees, getTree p.1 = some (treeBytes s j p.2)) →
    (∀ c ∈ (save H hash chunks hasTree t).chunks, getData (hash c) = some c) →
    t.Stored s j H hash chunks hasTree getTree getData
  | .leaf n d => by
    intro _ hc
    simp only [STree.Stored]
    intro hk c hcm
    exact hc c (by simpa [save, hk] using hcm)
  | .dir n cs => by
    intro ht hc
    simp only [STree.Stored]
    simp only [save] at ht hc
    by_cases hh : hasTree (H (saveL H hash chunks hasTree cs).nodes) = true
    · simp only [hh, if_true] at ht
      exact ⟨hold _ hh, storedL_of_saved_gen s j H hash chunks hasTree getTree getData hold cs ht hc⟩
    · simp only [hh, Bool.false_eq_true, if_false] at ht
      exact ⟨ht (_, _) (List.mem_append_right _ (List.mem_singleton.mpr rfl)),
        storedL_of_saved_gen s j H hash chunks hasTree getTree getData hold cs
          (fun p hp => ht p (List.mem_append_left _ hp)) hc⟩
theorem storedL_of_saved_gen (s : Str) (j : Ser) (H : List Node → Id) (hash : Bytes → Id) (chunks : Bytes → List Bytes)
    (hasTree : Id → Bool) (getTree getData : Id → Option Bytes)
    (hold : ∀ nodes, hasTree (H nodes) = true → getTree (H nodes) = some (treeBytes s j nodes)) : ∀ (ts : List STree),
    (∀ p ∈ (saveL H hash chunks hasTree ts).trees, getTree p.1 = some (treeBytes s j p.2)) →
    (∀ c ∈ (saveL H hash chunks hasTree ts).chunks, getData (hash c) = some c) →
    StoredL s j H hash chunks hasTree getTree getData ts
  | [] => fun _ _ => trivial
  | t :: ts => by
    intro ht hc
    simp only [saveL] at ht hc
    exact ⟨stored_of_saved_gen s j H hash chunks hasTree getTree getData hold t
        (fun p hp => ht p (List.mem_append_left _ hp)) (fun c hcm => hc c (List.mem_append_left _ hcm)),
      storedL_of_saved_gen s j H hash chunks hasTree getTree getData hold ts
        (fun p hp => ht p (List.mem_append_right _ hp)) (fun c hcm => hc c (List.mem_append_right _ hcm))⟩
end

/-- the same over a repository that already holds some of the trees (`hasTree`): those are not handed to the packer
again and must read back from the old packs (`hold`) -/
theorem restore_of_saved_gen (s : Str) (hs : StrOK s) (j : Ser) (H : List Node → Id) (hash : Bytes → Id)
    (chunks : Bytes → List Bytes) (hch : ∀ d, (chunks d).flatten = d) (hasTree : Id → Bool)
    (getTree getData : Id → Option Bytes) (order : List Write → List Write) (ho : ∀ l w, w ∈ order l ↔ w ∈ l)
    (src : List STree) (hwf : WFL src)
    (hold : ∀ nodes, hasTree (H nodes) = true → getTree (H nodes) = some (treeBytes s j nodes))
    (hroot : getTree (H (saveL H hash chunks hasTree src).nodes) = some (treeBytes s j (saveL H hash chunks hasTree src).nodes))
    (ht : ∀ p ∈ (saveL H hash chunks hasTree src).trees, getTree p.1 = some (treeBytes s j p.2))
    (hc : ∀ c ∈ (saveL H hash chunks hasTree src).chunks, getData (hash c) = some c) :
    restoreTrees s j getTree getData order (depthL src + 1) (H (saveL H hash chunks hasTree src).nodes) = some src := by
  have hst := storedL_of_saved_gen s j H hash chunks hasTree getTree getData hold src ht hc
  simp only [restoreTrees, loadTree_treeBytes s hs j getTree _ _ hroot]
  exact restore_save_list s hs j H hash chunks hch hasTree getTree getData order ho src hwf hst (depthL src) (Nat.le_refl _)

/-- **Snapshot round trip over a faithful blob store.**  If every tree blob and every chunk the archive of the forest
produced reads back by its id, restoring from the root id gives back the forest: every name, type, link target,
metadata record and file content, directories to any depth. -/
theorem restore_of_saved (s : Str) (hs : StrOK s) (j : Ser) (H : List Node → Id) (hash : Bytes → Id)
    (chunks : Bytes → List Bytes) (hch : ∀ d, (chunks d).flatten = d)
    (getTree getData : Id → Option Bytes) (order : List Write → List Write) (ho : ∀ l w, w ∈ order l ↔ w ∈ l)
    (src : List STree) (hwf : WFL src)
    (hroot : getTree (H (saveL H hash chunks noTree src).nodes) = some (treeBytes s j (saveL H hash chunks noTree src).nodes))
    (ht : ∀ p ∈ (saveL H hash chunks noTree src).trees, getTree p.1 = some (treeBytes s j p.2))
    (hc : ∀ c ∈ (saveL H hash chunks noTree src).chunks, getData (hash c) = some c) :
    restoreTrees s j getTree getData order (depthL src + 1) (H (saveL H hash chunks noTree src).nodes) = some src := by
  have hst := storedL_of_saved s j H hash chunks getTree getData src ht hc
  simp only [restoreTrees, loadTree_treeBytes s hs j getTree _ _ hroot]
  exact restore_save_list s hs j H hash chunks hch noTree getTree getData order ho src hwf hst (depthL src) (Nat.le_refl _)

end Rustic.Snapshot
