/-
Lemmas for `Model/RestoreGroups.lean`: with the guard of the code (`self.from_file.is_none()`) every blob of every group is
handed its own content, whatever `adj` (the pack layout / `can_coalesce`) lets the groups absorb — so what `restore_contents`
writes is, entry by entry, `dests × content`.
-/
import Rustic.Model.RestoreGroups
namespace Rustic.RestoreGroups

theorem slice_slice (p : Bytes) (a n o l : Nat) (h1 : a ≤ o) (h2 : o + l ≤ a + n) :
    slice (slice p a n) (o - a) l = slice p o l := by
  unfold slice
  rw [List.drop_take, List.drop_drop, List.take_take]
  have e1 : a + (o - a) = o := by omega
  have e2 : min l (n - (o - a)) = l := by omega
  rw [e1, e2]

/-- every blob of the group lies inside the group's read range -/
def Bounds (g : Group) : Prop := ∀ b ∈ g.blobs, g.off ≤ b.off ∧ b.off + b.len ≤ g.off + g.len

/-- the writes of a list of blobs of one pack, each with its own content -/
def sem (packs : Nat → Bytes) (decode : Bytes → Bytes) (pack : Nat) (bs : List Blob) : List Write :=
  bs.flatMap fun b => writesTo b.dests (decode (slice (packs pack) b.off b.len))

/-- what is read from the existing file at a matching location IS the blob's content (`blob_matches_reader`: equal hash) -/
def Faithful (packs : Nat → Bytes) (decode : Bytes → Bytes) (e : Entry) : Prop :=
  ∀ d, e.fromFile = some d → d = content packs decode e

def entryWrites (packs : Nat → Bytes) (decode : Bytes → Bytes) (e : Entry) : List Write :=
  writesTo e.dests (content packs decode e)

theorem flatMap_congr' {α β : Type} (l : List α) (f g : α → List β) (h : ∀ a ∈ l, f a = g a) : l.flatMap f = l.flatMap g := by
  induction l with
  | nil => rfl
  | cons a rest ih =>
    simp only [List.flatMap_cons]
    rw [h a List.mem_cons_self, ih (fun x hx => h x (List.mem_cons_of_mem _ hx))]

theorem groupWrites_none (packs : Nat → Bytes) (decode : Bytes → Bytes) (g : Group) (hn : g.fromFile = none) (hb : Bounds g) :
    groupWrites packs decode g = sem packs decode g.pack g.blobs := by
  unfold groupWrites sem
  simp only [hn, Option.isSome_none, Bool.false_eq_true, if_false]
  apply flatMap_congr'
  intro b hb'
  obtain ⟨h1, h2⟩ := hb b hb'
  rw [slice_slice _ _ _ _ _ h1 h2]

theorem groupWrites_single_some (packs : Nat → Bytes) (decode : Bytes → Bytes) (e : Entry) (d : Bytes) (hs : e.fromFile = some d)
    (hf : Faithful packs decode e) : groupWrites packs decode (single e) = entryWrites packs decode e := by
  unfold groupWrites entryWrites single Entry.blob
  simp only [hs, Option.isSome_some, if_true, List.flatMap_cons, List.flatMap_nil, List.append_nil]
  rw [hf d hs]

theorem sem_single (packs : Nat → Bytes) (decode : Bytes → Bytes) (e : Entry) :
    sem packs decode e.pack [e.blob] = entryWrites packs decode e := by
  simp [sem, entryWrites, content, Entry.blob]

theorem bounds_single (e : Entry) : Bounds (single e) := by
  intro b hb
  simp only [single, List.mem_singleton] at hb
  subst hb
  simp [single, Entry.blob]

theorem bounds_append (g : Group) (e : Entry) (hb : Bounds g) (h : g.off + g.len ≤ e.off) : Bounds (g.append e) := by
  intro b hb'
  simp only [Group.append, List.mem_append, List.mem_singleton] at hb'
  simp only [Group.append]
  rcases hb' with hb' | hb'
  · have := hb b hb'
    omega
  · subst hb'
    simp only [Entry.blob]
    omega

/-- the two statements proved together by induction on the entries still to come: (A) a group that reads from the pack and
keeps its blobs inside its range, (B) a group that has just been started -/
theorem coalesceFrom_writes (adj : Group → Entry → Bool) (hadj : ∀ g e, adj g e = true → g.off + g.len ≤ e.off)
    (packs : Nat → Bytes) (decode : Bytes → Bytes) (rest : List Entry) (hf : ∀ e ∈ rest, Faithful packs decode e) :
    (∀ g, g.fromFile = none → Bounds g →
      (coalesceFrom guardSelf adj g rest).flatMap (groupWrites packs decode) =
        sem packs decode g.pack g.blobs ++ rest.flatMap (entryWrites packs decode)) ∧
    (∀ e, Faithful packs decode e →
      (coalesceFrom guardSelf adj (single e) rest).flatMap (groupWrites packs decode) =
        entryWrites packs decode e ++ rest.flatMap (entryWrites packs decode)) := by
  induction rest with
  | nil =>
    refine ⟨?_, ?_⟩
    · intro g hn hb
      simp [coalesceFrom, groupWrites_none packs decode g hn hb]
    · intro e hfe
      cases hs : e.fromFile with
      | none =>
        simp only [coalesceFrom, List.flatMap_cons, List.flatMap_nil, List.append_nil]
        rw [groupWrites_none packs decode (single e) hs (bounds_single e)]
        exact sem_single packs decode e
      | some d =>
        simp only [coalesceFrom, List.flatMap_cons, List.flatMap_nil, List.append_nil]
        exact groupWrites_single_some packs decode e d hs hfe
  | cons e' rest' ih =>
    have hf' : ∀ e ∈ rest', Faithful packs decode e := fun e he => hf e (List.mem_cons_of_mem _ he)
    have hfe' : Faithful packs decode e' := hf e' List.mem_cons_self
    obtain ⟨ihA, ihB⟩ := ih hf'
    have A : ∀ g, g.fromFile = none → Bounds g →
        (coalesceFrom guardSelf adj g (e' :: rest')).flatMap (groupWrites packs decode) =
          sem packs decode g.pack g.blobs ++ (e' :: rest').flatMap (entryWrites packs decode) := by
      intro g hn hb
      simp only [coalesceFrom, List.flatMap_cons]
      by_cases hc : (g.pack == e'.pack && guardSelf g e' && adj g e') = true
      · rw [if_pos hc]
        simp only [Bool.and_eq_true, beq_iff_eq] at hc
        obtain ⟨⟨hp, _⟩, ha⟩ := hc
        have hb2 := bounds_append g e' hb (hadj g e' ha)
        rw [ihA (g.append e') (by simpa [Group.append] using hn) hb2]
        have : sem packs decode (g.append e').pack (g.append e').blobs =
            sem packs decode g.pack g.blobs ++ entryWrites packs decode e' := by
          simp only [Group.append, sem, List.flatMap_append]
          congr 1
          have := sem_single packs decode e'
          simp only [sem] at this
          rw [hp]; exact this
        rw [this, List.append_assoc]
      · rw [if_neg hc]
        simp only [List.flatMap_cons]
        rw [groupWrites_none packs decode g hn hb, ihB e' hfe']
    refine ⟨A, ?_⟩
    intro e hfe
    cases hs : e.fromFile with
    | none =>
      have := A (single e) hs (bounds_single e)
      rw [this]
      have h1 : sem packs decode (single e).pack (single e).blobs = entryWrites packs decode e := sem_single packs decode e
      rw [h1]
    | some d =>
      have hg : guardSelf (single e) e' = false := by simp [guardSelf, single, hs]
      simp only [coalesceFrom, hg, Bool.and_false, Bool.false_and, Bool.false_eq_true, if_false, List.flatMap_cons]
      rw [groupWrites_single_some packs decode e d hs hfe, ihB e' hfe']

/-- **what `restore_contents` writes does not depend on the pack layout**: entry by entry it is `dests × content` -/
theorem writes_eq (adj : Group → Entry → Bool) (hadj : ∀ g e, adj g e = true → g.off + g.len ≤ e.off)
    (packs : Nat → Bytes) (decode : Bytes → Bytes) (es : List Entry) (hf : ∀ e ∈ es, Faithful packs decode e) :
    writes guardSelf adj packs decode es = es.flatMap (entryWrites packs decode) := by
  cases es with
  | nil => rfl
  | cons e rest =>
    simp only [writes, coalesceAll, List.flatMap_cons]
    exact (coalesceFrom_writes adj hadj packs decode rest (fun x hx => hf x (List.mem_cons_of_mem _ hx))).2 e
      (hf e List.mem_cons_self)

theorem canCoalesce_ok (maxHole limit : Nat) (g : Group) (e : Entry) (h : canCoalesce maxHole limit g e = true) :
    g.off + g.len ≤ e.off := by
  simp only [canCoalesce, Bool.and_eq_true, decide_eq_true_eq] at h
  exact h.1.2

end Rustic.RestoreGroups
