/-
The storage-operation protocol of `prune_repository` on the abstract repository (`Rustic.Repo`), in the generality the
prune model needs: unreferenced packs removed first (instant-delete), new packs, an *optional* new index file (the
indexer writes none when it holds nothing), removal of the rebuilt index files, removal of packs.  Built from the
operation lemmas of C03 (`Props/C03.lean`: `allSafe_writePacks`, `allSafe_removeIndexes`, `allSafe_removePacks`,
`PruneCover`).
-/
import Rustic.Props.C03
namespace Rustic.Repo
open Rustic.Props.C03

theorem applyAll_removePacks_fields : ∀ (l : List Nat) (r : Repo),
    (applyAll r (l.map Op.removePack)).indexes = r.indexes ∧ (applyAll r (l.map Op.removePack)).snaps = r.snaps
  | [], _ => ⟨rfl, rfl⟩
  | id :: l, r => by
    simp only [List.map_cons, applyAll, List.foldl_cons]
    exact applyAll_removePacks_fields l (apply r (.removePack id))

theorem applyAll_writePacks_fields : ∀ (l : List Pack) (r : Repo),
    (applyAll r (l.map Op.writePack)).indexes = r.indexes ∧ (applyAll r (l.map Op.writePack)).snaps = r.snaps
  | [], _ => ⟨rfl, rfl⟩
  | p :: l, r => by
    simp only [List.map_cons, applyAll, List.foldl_cons]
    exact applyAll_writePacks_fields l (apply r (.writePack p))

theorem stored_removePacks : ∀ (l : List Nat) (r : Repo) (pid : Nat) (k : Key), pid ∉ l → stored r pid k = true →
    stored (applyAll r (l.map Op.removePack)) pid k = true
  | [], _, _, _, _, h => h
  | id :: l, r, pid, k, hn, h => by
    simp only [List.map_cons, applyAll, List.foldl_cons]
    simp only [List.mem_cons, not_or] at hn
    apply stored_removePacks l _ pid k hn.2
    rw [stored_iff] at h ⊢
    obtain ⟨q, hq, hid, hk⟩ := h
    refine ⟨q, ?_, hid, hk⟩
    simp only [apply, List.mem_filter]
    exact ⟨hq, by simp [hid]; exact hn.1⟩

theorem stored_writePacks : ∀ (l : List Pack) (r : Repo) (pid : Nat) (k : Key), stored r pid k = true →
    stored (applyAll r (l.map Op.writePack)) pid k = true
  | [], _, _, _, h => h
  | p :: l, r, pid, k, h => by
    simp only [List.map_cons, applyAll, List.foldl_cons]
    exact stored_writePacks l _ pid k (stored_writePack r p pid k h)

theorem stored_of_written : ∀ (l : List Pack) (r : Repo) (p : Pack) (k : Key), p ∈ l → k ∈ p.blobs →
    stored (applyAll r (l.map Op.writePack)) p.id k = true
  | [], _, _, _, h, _ => by simp at h
  | q :: l, r, p, k, hp, hk => by
    simp only [List.map_cons, applyAll, List.foldl_cons]
    rcases List.mem_cons.mp hp with rfl | hp
    · apply stored_writePacks
      rw [stored_iff]
      exact ⟨p, by simp [apply], rfl, hk⟩
    · exact stored_of_written l _ p k hp hk

/-- the operations of one prune run -/
def pruneRunOps (first : List Nat) (newPacks : List Pack) (idx : Option IndexFile) (rmIdx rmPacks : List Nat) : List Op :=
  first.map Op.removePack ++ newPacks.map Op.writePack ++ idx.toList.map Op.writeIndex ++
    rmIdx.map Op.removeIndex ++ rmPacks.map Op.removePack

/-- **Prefix safety of a prune run** from premises about the *initial* repository only:
* `hfirst`  — the packs removed first are listed (unmarked) nowhere;
* `hidx`    — every unmarked entry of the new index file is a blob of a pack that is stored and not removed first, or
              of one of the new packs;
* `hcover`  — every key a snapshot needs is listed unmarked in the new index file or in an old index file that stays;
* `hunl*`   — no pack removed at the end is listed unmarked by the new index file or by an old index file that stays;
* `hfresh`  — the new index file's id is not the id of an index file to remove. -/
theorem prune_run_safe (r : Repo) (first : List Nat) (newPacks : List Pack) (idx : Option IndexFile)
    (rmIdx rmPacks : List Nat) (hc : consistent r = true)
    (hfirst : ∀ i ∈ r.indexes, ∀ p ∈ i.packs, p.id ∉ first)
    (hidx : ∀ i, idx = some i → ∀ p ∈ i.packs, ∀ k ∈ p.blobs,
      (p.id ∉ first ∧ stored r p.id k = true) ∨ (∃ np ∈ newPacks, np.id = p.id ∧ k ∈ np.blobs))
    (hfresh : ∀ i, idx = some i → i.id ∉ rmIdx)
    (hcover : ∀ s ∈ r.snaps, ∀ k ∈ s.needs,
      (∃ i, idx = some i ∧ ∃ p ∈ i.packs, k ∈ p.blobs) ∨ (∃ i ∈ r.indexes, i.id ∉ rmIdx ∧ ∃ p ∈ i.packs, k ∈ p.blobs))
    (hunlNew : ∀ i, idx = some i → ∀ p ∈ i.packs, p.id ∉ rmPacks)
    (hunlOld : ∀ i ∈ r.indexes, i.id ∉ rmIdx → ∀ p ∈ i.packs, p.id ∉ rmPacks) :
    ∀ r' ∈ prefixStates r (pruneRunOps first newPacks idx rmIdx rmPacks), consistent r' = true := by
  apply safe_run _ r hc
  unfold pruneRunOps
  rw [allSafe_append, allSafe_append, allSafe_append, allSafe_append]
  simp only [Bool.and_eq_true]
  -- states
  have f1 := applyAll_removePacks_fields first r
  generalize hr1 : applyAll r (first.map Op.removePack) = r1 at f1
  have f2 := applyAll_writePacks_fields newPacks r1
  have e12 : applyAll r (first.map Op.removePack ++ newPacks.map Op.writePack) = applyAll r1 (newPacks.map Op.writePack) := by
    rw [applyAll_append, hr1]
  generalize hr2 : applyAll r1 (newPacks.map Op.writePack) = r2 at f2 e12
  have e123 : applyAll r (first.map Op.removePack ++ newPacks.map Op.writePack ++ idx.toList.map Op.writeIndex) =
      applyAll r2 (idx.toList.map Op.writeIndex) := by
    rw [applyAll_append, e12]
  have hr3i : (applyAll r2 (idx.toList.map Op.writeIndex)).indexes = idx.toList ++ r.indexes := by
    cases idx with
    | none => simp [applyAll, f2.1, f1.1]
    | some i => simp [applyAll, apply, f2.1, f1.1]
  have hr3s : (applyAll r2 (idx.toList.map Op.writeIndex)).snaps = r.snaps := by
    cases idx with
    | none => simp [applyAll, f2.2, f1.2]
    | some i => simp [applyAll, apply, f2.2, f1.2]
  generalize hr3 : applyAll r2 (idx.toList.map Op.writeIndex) = r3 at e123 hr3i hr3s
  have hcov : PruneCover r3 rmIdx rmPacks := by
    constructor
    · intro s hs k hk
      rw [hr3s] at hs
      rcases hcover s hs k hk with ⟨i, hi, p, hp, hkp⟩ | ⟨i, hi, hni, p, hp, hkp⟩
      · exact ⟨i, by rw [hr3i, hi]; simp, hfresh i hi, p, hp, hkp⟩
      · exact ⟨i, by rw [hr3i]; exact List.mem_append_right _ hi, hni, p, hp, hkp⟩
    · intro i hi hni p hp
      rw [hr3i] at hi
      rcases List.mem_append.mp hi with hi | hi
      · cases idx with
        | none => simp at hi
        | some j =>
          simp only [Option.toList_some, List.mem_singleton] at hi
          subst hi
          exact hunlNew i rfl p hp
      · exact hunlOld i hi hni p hp
  obtain ⟨s1, s2, s3⟩ := allSafe_removeIndexes rmIdx rmPacks rmIdx r3 (fun _ h => h) hcov
  refine ⟨⟨⟨⟨?_, ?_⟩, ?_⟩, ?_⟩, ?_⟩
  · exact allSafe_removePacks first first r (fun _ h => h) hfirst
  · exact allSafe_writePacks newPacks r1
  · rw [e12]
    cases idx with
    | none => rfl
    | some i =>
      simp only [Option.toList_some, List.map_cons, List.map_nil, allSafe, safeOp, Bool.and_true, List.all_eq_true,
        idxPackSound]
      intro p hp k hk
      rcases hidx i rfl p hp k hk with ⟨hnf, hst⟩ | ⟨np, hnp, hid, hkn⟩
      · rw [← hr2]
        apply stored_writePacks
        rw [← hr1]
        exact stored_removePacks first r p.id k hnf hst
      · rw [← hr2, ← hid]
        exact stored_of_written newPacks r1 np k hnp hkn
  · rw [e123]; exact s1
  · rw [applyAll_append, e123]
    apply allSafe_removePacks rmPacks rmPacks _ (fun _ h => h)
    intro i hi p hp
    obtain ⟨h1, h2⟩ := s3 i hi
    exact s2.unlisted i hi (fun hmem => h2 hmem) p hp

/-- a run with one injected failure at operation `k` ends in the state after the first `k` operations -/
theorem runWithFault_state : ∀ (ops : List Op) (r : Repo) (k : Nat),
    (runWithFault r k ops).1 = applyAll r (ops.take k)
  | [], r, k => by simp [runWithFault, applyAll]
  | o :: ops, r, k => by
    unfold runWithFault
    by_cases hk : k = 0
    · simp [hk, applyAll]
    · obtain ⟨j, rfl⟩ : ∃ j, k = j + 1 := ⟨k - 1, by omega⟩
      simp only [hk, if_false, Nat.add_sub_cancel, List.take_succ_cons, applyAll, List.foldl_cons]
      exact runWithFault_state ops (apply r o) j

/-- **A prune run that fails before its clean-up phase has removed nothing that is listed**: when the failing operation is
one of the early removals of unreferenced packs, the write of a repacked pack or the write of the new index file
(`k ≤ |first| + |newPacks|`), the index files and the snapshot files are exactly those from before the run. -/
theorem prune_run_fault_before_cleanup (r : Repo) (first : List Nat) (newPacks : List Pack) (idx : Option IndexFile)
    (rmIdx rmPacks : List Nat) (k : Nat) (hk : k ≤ first.length + newPacks.length) :
    (runWithFault r k (pruneRunOps first newPacks idx rmIdx rmPacks)).1.indexes = r.indexes ∧
    (runWithFault r k (pruneRunOps first newPacks idx rmIdx rmPacks)).1.snaps = r.snaps := by
  rw [runWithFault_state]
  have e : (pruneRunOps first newPacks idx rmIdx rmPacks).take k =
      (first.take k).map Op.removePack ++ (newPacks.take (k - first.length)).map Op.writePack := by
    unfold pruneRunOps
    rw [List.append_assoc, List.append_assoc]
    rw [List.take_append_of_le_length (by simp; omega), List.take_append]
    simp [List.map_take]
  rw [e, applyAll_append]
  have f1 := applyAll_removePacks_fields (first.take k) r
  have f2 := applyAll_writePacks_fields (newPacks.take (k - first.length)) (applyAll r ((first.take k).map Op.removePack))
  exact ⟨f2.1.trans f1.1, f2.2.trans f1.2⟩

/-- pack and index operations leave the snapshot files alone -/
def Op.noSnap : Op → Bool
  | .writeSnap _ | .removeSnap _ => false
  | _ => true

theorem snaps_prefixStates : ∀ (ops : List Op) (r : Repo), ops.all Op.noSnap = true →
    ∀ r' ∈ prefixStates r ops, r'.snaps = r.snaps
  | [], r, _, r', h => by simp [prefixStates] at h; rw [h]
  | o :: ops, r, ha, r', h => by
    simp only [List.all_cons, Bool.and_eq_true] at ha
    simp only [prefixStates, List.mem_cons] at h
    rcases h with rfl | h
    · rfl
    · rw [snaps_prefixStates ops (apply r o) ha.2 r' h]
      cases o <;> simp_all [apply, Op.noSnap]

end Rustic.Repo
