/-
Lemmas about the packer / file-writer / indexer actor model (`Model/PackerActor.lean`): invariants of every schedule.
* `Sound`   — what index files (stored or still in the indexer) and written-results list is stored  ⇒ `index_lists_only_written_packs`
* `Report`  — a failed storage operation stays visible until the command returns                    ⇒ `failed_op_reports_error`
* `Track`   — every pack handed to a writer is in flight, or stored and listed; snapshots stay readable  ⇒ `actor_every_schedule_point_consistent`
-/
import Rustic.Model.PackerActor
import Rustic.Lemmas.Repo
namespace Rustic.PackerActor
open Rustic.Repo

/-- every pack an index file lists is a stored pack file with exactly those blobs -/
def LW (r : Repo) : Prop := ∀ i ∈ r.indexes, ∀ p ∈ i.packs, ∃ q ∈ r.packs, q.id = p.id ∧ q.blobs = p.blobs

theorem listedWritten_iff (r : Repo) : listedWritten r = true ↔ LW r := by
  simp [listedWritten, LW, List.all_eq_true, List.any_eq_true]

theorem LW.indexSound {r : Repo} (h : LW r) : indexSound r = true := by
  rw [indexSound_iff]
  intro i hi p hp k hk
  obtain ⟨q, hq, h1, h2⟩ := h i hi p hp
  rw [stored_iff]
  exact ⟨q, hq, h1, h2 ▸ hk⟩

/-! ### `setWr` -/
@[simp] theorem setWr_wr (s : St) (w : Nat) (x : Wr) (v : Nat) : (setWr s w x).wr v = if v = w then x else s.wr v := rfl
@[simp] theorem setWr_repo (s : St) (w : Nat) (x : Wr) : (setWr s w x).repo = s.repo := rfl
@[simp] theorem setWr_file (s : St) (w : Nat) (x : Wr) : (setWr s w x).file = s.file := rfl
@[simp] theorem setWr_count (s : St) (w : Nat) (x : Wr) : (setWr s w x).count = s.count := rfl
@[simp] theorem setWr_n (s : St) (w : Nat) (x : Wr) : (setWr s w x).n = s.n := rfl
@[simp] theorem setWr_faults (s : St) (w : Nat) (x : Wr) : (setWr s w x).faults = s.faults := rfl
@[simp] theorem setWr_result (s : St) (w : Nat) (x : Wr) : (setWr s w x).result = s.result := rfl
@[simp] theorem setWr_sent (s : St) (w : Nat) (x : Wr) : (setWr s w x).sent = s.sent := rfl
@[simp] theorem setWr_nextIdx (s : St) (w : Nat) (x : Wr) : (setWr s w x).nextIdx = s.nextIdx := rfl

/-! ### invariant 1: what is listed is stored -/

def PackStored (r : Repo) (p : IdxPack) : Prop := ∃ q ∈ r.packs, q.id = p.id ∧ q.blobs = p.blobs

structure Sound (s : St) : Prop where
  idx : LW s.repo
  file : ∀ p ∈ s.file, PackStored s.repo p
  stream : ∀ w p, some p ∈ (s.wr w).stream → p ∈ s.repo.packs

theorem LW_writePack {r : Repo} (h : LW r) (p : Pack) : LW (apply r (.writePack p)) := by
  intro i hi x hx
  obtain ⟨q, hq, h1⟩ := h i hi x hx
  exact ⟨q, List.mem_cons_of_mem _ hq, h1⟩

theorem LW_writeIndex {r : Repo} (h : LW r) (i : IndexFile) (hi : ∀ p ∈ i.packs, PackStored r p) :
    LW (apply r (.writeIndex i)) := by
  intro j hj x hx
  simp only [apply, List.mem_cons] at hj
  rcases hj with rfl | hj
  · exact hi x hx
  · exact h j hj x hx

theorem LW_writeSnap {r : Repo} (h : LW r) (s : Snap) : LW (apply r (.writeSnap s)) := h

theorem sound_init (r : Repo) (n : Nat) (h : LW r) : Sound (init r n) :=
  ⟨h, by simp [init], by simp [init]⟩

theorem packStored_of_mem {r : Repo} {p : Pack} (h : p ∈ r.packs) : PackStored r (idxPackOf p) := ⟨p, h, rfl, rfl⟩

theorem sound_addToIndexer (maxCount : Nat) (s : St) (w : Nat) (p : Pack) (age ok : Bool) (h : Sound s)
    (hp : p ∈ s.repo.packs) : Sound (addToIndexer maxCount s w p age ok) := by
  have hfile : ∀ x ∈ s.file ++ [idxPackOf p], PackStored s.repo x := by
    intro x hx
    simp only [List.mem_append, List.mem_singleton] at hx
    rcases hx with hx | rfl
    · exact h.file x hx
    · exact packStored_of_mem hp
  unfold addToIndexer
  split
  · split
    · refine ⟨LW_writeIndex h.idx _ hfile, by simp, ?_⟩
      intro v x hx
      exact h.stream v x hx
    · refine ⟨h.idx, hfile, ?_⟩
      intro v x hx
      simp only [setWr_wr] at hx
      split at hx
      · subst_vars; exact h.stream _ x hx
      · exact h.stream v x hx
  · exact ⟨h.idx, hfile, h.stream⟩

theorem LW_idxFinal {s : St} (h : Sound s) : LW (idxFinal s) := by
  unfold idxFinal
  split
  · exact h.idx
  · exact LW_writeIndex h.idx _ h.file

theorem idxFinal_packs (s : St) : (idxFinal s).packs = s.repo.packs := by
  unfold idxFinal; split <;> rfl

theorem sound_step (maxCount : Nat) (s : St) (e : Ev) (h : Sound s) : Sound (step maxCount s e) := by
  cases e with
  | send w p =>
    simp only [step]
    split
    · exact h
    · refine ⟨h.idx, h.file, ?_⟩
      intro v x hx
      simp only [setWr_wr] at hx
      split at hx
      · subst_vars; exact h.stream _ x hx
      · exact h.stream v x hx
  | write w ok =>
    simp only [step]
    split
    · exact h
    · split
      · exact h
      · rename_i p rest hq
        split
        · refine ⟨LW_writePack h.idx p, ?_, ?_⟩
          · intro x hx
            obtain ⟨q, hq, h1⟩ := h.file x hx
            exact ⟨q, List.mem_cons_of_mem _ hq, h1⟩
          · intro v x hx
            simp only [setWr_wr] at hx
            simp only [setWr_repo, apply]
            split at hx
            · subst_vars
              simp only [List.mem_append, List.mem_singleton, Option.some.injEq] at hx
              rcases hx with hx | rfl
              · exact List.mem_cons_of_mem _ (h.stream _ x hx)
              · exact List.mem_cons_self
            · exact List.mem_cons_of_mem _ (h.stream v x hx)
        · refine ⟨h.idx, h.file, ?_⟩
          intro v x hx
          simp only [setWr_wr] at hx
          split at hx
          · subst_vars
            simp only [List.mem_append, List.mem_singleton, reduceCtorEq, or_false] at hx
            exact h.stream _ x hx
          · exact h.stream v x hx
  | index w age ok =>
    simp only [step]
    split
    · exact h
    · split
      · exact h
      · rename_i rest hq
        refine ⟨h.idx, h.file, ?_⟩
        intro v x hx
        simp only [setWr_wr] at hx
        split at hx
        · subst_vars
          exact h.stream _ x (by rw [hq]; exact List.mem_cons_of_mem _ hx)
        · exact h.stream v x hx
      · rename_i p rest hq
        apply sound_addToIndexer
        · refine ⟨h.idx, h.file, ?_⟩
          intro v x hx
          simp only [setWr_wr] at hx
          split at hx
          · subst_vars
            exact h.stream _ x (by rw [hq]; exact List.mem_cons_of_mem _ hx)
          · exact h.stream v x hx
        · exact h.stream w p (by rw [hq]; exact List.mem_cons_self)
  | finish snap okIdx okSnap =>
    simp only [step]
    split
    · exact h
    · split
      · exact ⟨h.idx, h.file, h.stream⟩
      · split
        · exact h
        · split
          · exact ⟨h.idx, h.file, h.stream⟩
          · split
            · refine ⟨LW_writeSnap (LW_idxFinal h) snap, by simp, ?_⟩
              intro v x hx
              show x ∈ (apply (idxFinal s) (Op.writeSnap snap)).packs
              simp only [apply, idxFinal_packs]
              exact h.stream v x hx
            · refine ⟨LW_idxFinal h, by simp, ?_⟩
              intro v x hx
              show x ∈ (idxFinal s).packs
              rw [idxFinal_packs]
              exact h.stream v x hx

theorem sound_run (maxCount : Nat) : ∀ (evs : List Ev) (s : St), Sound s → Sound (run maxCount s evs)
  | [], _, h => h
  | e :: evs, s, h => sound_run maxCount evs (step maxCount s e) (sound_step maxCount s e h)


/-! ### invariant 2: a failed storage operation stays visible until the command returns -/

/-- some writer has stopped with an error, or has a failed write in its result stream -/
def Bad (s : St) : Prop := ∃ w, w < s.n ∧ ((s.wr w).dead = true ∨ none ∈ (s.wr w).stream)

/-- every writer is alive and has nothing queued or unconsumed -/
def Quiet (s : St) : Prop := ∀ w, w < s.n → (s.wr w).dead = false ∧ (s.wr w).queue = [] ∧ (s.wr w).stream = []

theorem anyDead_iff (s : St) : anyDead s = true ↔ ∃ w, w < s.n ∧ (s.wr w).dead = true := by
  simp [anyDead, List.any_eq_true, List.mem_range]

theorem allDrained_iff (s : St) : allDrained s = true ↔ ∀ w, w < s.n → (s.wr w).queue = [] ∧ (s.wr w).stream = [] := by
  simp [allDrained, Wr.drained, List.all_eq_true, List.mem_range, List.isEmpty_iff]

theorem quiet_of (s : St) (h1 : ¬ anyDead s = true) (h2 : allDrained s = true) : Quiet s := by
  intro w hw
  rw [anyDead_iff] at h1
  rw [allDrained_iff] at h2
  refine ⟨?_, h2 w hw⟩
  cases hd : (s.wr w).dead
  · rfl
  · exact absurd ⟨w, hw, hd⟩ h1

theorem not_bad_of_quiet {s : St} (h : Quiet s) : ¬ Bad s := by
  rintro ⟨w, hw, hd | hn⟩
  · have := (h w hw).1; simp [hd] at this
  · have := (h w hw).2.2; simp [this] at hn

theorem step_noop (maxCount : Nat) (s : St) (e : Ev) (h : s.result = some true) (hq : Quiet s) :
    step maxCount s e = s := by
  cases e with
  | send w p => simp [step, h]
  | write w ok =>
    simp only [step]
    by_cases hw : s.n ≤ w
    · simp [hw]
    · have := hq w (by omega)
      simp [hw, this.2.1]
  | index w age ok =>
    simp only [step]
    by_cases hw : s.n ≤ w
    · simp [hw]
    · have := hq w (by omega)
      simp [hw, this.2.2, this.1]
  | finish snap a b => simp [step, h]

/-- `Bad` only looks at `n`, `dead` and the `none`s of the streams -/
theorem bad_congr {s t : St} (hn : t.n = s.n)
    (hd : ∀ w, (t.wr w).dead = (s.wr w).dead) (hs : ∀ w, none ∈ (t.wr w).stream ↔ none ∈ (s.wr w).stream) :
    Bad t ↔ Bad s := by
  unfold Bad
  constructor
  · rintro ⟨w, hw, h⟩; exact ⟨w, hn ▸ hw, by rw [← hd, ← hs]; exact h⟩
  · rintro ⟨w, hw, h⟩; exact ⟨w, hn ▸ hw, by rw [hd, hs]; exact h⟩

structure Report (s : St) : Prop where
  vis : 0 < s.faults → Bad s ∨ s.result = some false
  rev : Bad s ∨ s.result = some false → 0 < s.faults
  okq : s.result = some true → Quiet s

theorem report_init (r : Repo) (n : Nat) : Report (init r n) := by
  refine ⟨by simp [init], ?_, by simp [init]⟩
  rintro (⟨w, _, h⟩ | h) <;> simp [init] at h

theorem report_addToIndexer (maxCount : Nat) (s : St) (w : Nat) (p : Pack) (age ok : Bool) (hw : w < s.n)
    (h : Report s) (hres : s.result ≠ some true) : Report (addToIndexer maxCount s w p age ok) := by
  unfold addToIndexer
  split
  · split
    · have hb : Bad { s with repo := apply s.repo (.writeIndex { id := s.nextIdx, packs := s.file ++ [idxPackOf p] }), file := [],
                             count := 0, nextIdx := s.nextIdx + 1 } ↔ Bad s := bad_congr rfl (fun _ => rfl) (fun _ => Iff.rfl)
      exact ⟨fun hf => by rw [hb]; exact h.vis hf, fun hf => h.rev (by rw [hb] at hf; exact hf), fun hr => absurd hr hres⟩
    · refine ⟨fun _ => Or.inl ⟨w, hw, Or.inl (by simp)⟩, fun _ => by simp, fun hr => absurd hr hres⟩
  · have hb : Bad { s with file := s.file ++ [idxPackOf p], count := s.count + p.blobs.length } ↔ Bad s :=
      bad_congr rfl (fun _ => rfl) (fun _ => Iff.rfl)
    exact ⟨fun hf => by rw [hb]; exact h.vis hf, fun hf => h.rev (by rw [hb] at hf; exact hf), fun hr => absurd hr hres⟩

theorem report_step (maxCount : Nat) (s : St) (e : Ev) (h : Report s) : Report (step maxCount s e) := by
  by_cases hres : s.result = some true
  · rw [step_noop maxCount s e hres (h.okq hres)]; exact h
  cases e with
  | send w p =>
    simp only [step]
    split
    · exact h
    · have hb : Bad (setWr { s with sent := p :: s.sent } w { s.wr w with queue := (s.wr w).queue ++ [p] }) ↔ Bad s := by
        refine bad_congr (s := s) rfl ?_ ?_
        · intro v; simp only [setWr_wr]; split <;> simp_all
        · intro v; simp only [setWr_wr]; split <;> simp_all
      exact ⟨fun hf => by rw [hb]; exact h.vis hf, fun hf => h.rev (by rw [hb] at hf; exact hf), fun hr => absurd hr hres⟩
  | write w ok =>
    simp only [step]
    split
    · exact h
    · rename_i hw
      have hw : w < s.n := by simpa using hw
      split
      · exact h
      · rename_i p rest hq
        split
        · have hb : Bad (setWr { s with repo := apply s.repo (.writePack p) } w
              { s.wr w with queue := rest, stream := (s.wr w).stream ++ [some p] }) ↔ Bad s := by
            refine bad_congr (s := s) rfl ?_ ?_
            · intro v; simp only [setWr_wr]; split <;> simp_all
            · intro v; simp only [setWr_wr]; split <;> simp_all
          exact ⟨fun hf => by rw [hb]; exact h.vis hf, fun hf => h.rev (by rw [hb] at hf; exact hf), fun hr => absurd hr hres⟩
        · refine ⟨fun _ => Or.inl ⟨w, hw, Or.inr (by simp)⟩, fun _ => by simp, fun hr => absurd hr hres⟩
  | index w age ok =>
    simp only [step]
    split
    · exact h
    · rename_i hw
      simp only [Bool.or_eq_true, decide_eq_true_eq, not_or, Nat.not_le] at hw
      split
      · exact h
      · rename_i rest hq
        have hbad : Bad s := ⟨w, hw.1, Or.inr (by rw [hq]; exact List.mem_cons_self)⟩
        refine ⟨fun _ => Or.inl ⟨w, hw.1, Or.inl (by simp)⟩, fun _ => h.rev (Or.inl hbad), fun hr => absurd hr hres⟩
      · rename_i p rest hq
        refine report_addToIndexer maxCount (setWr s w _) w p age ok hw.1 ?_ hres
        have hb : Bad (setWr s w { s.wr w with stream := rest }) ↔ Bad s := by
          refine bad_congr (s := s) rfl ?_ ?_
          · intro v; simp only [setWr_wr]; split <;> simp_all
          · intro v; simp only [setWr_wr]; split
            · subst_vars; simp [hq]
            · rfl
        exact ⟨fun hf => by rw [hb]; exact h.vis hf, fun hf => h.rev (by rw [hb] at hf; exact hf), fun hr => absurd hr hres⟩
  | finish snap okIdx okSnap =>
    simp only [step]
    split
    · exact h
    · split
      · rename_i hd
        rw [anyDead_iff] at hd
        obtain ⟨w, hw, hd⟩ := hd
        exact ⟨fun _ => Or.inr rfl, fun _ => h.rev (Or.inl ⟨w, hw, Or.inl hd⟩), by simp⟩
      · split
        · exact h
        · rename_i hnone hd hdr
          have hq : Quiet s := quiet_of s hd (by simpa using hdr)
          have hnone : s.result = none := by simpa using hnone
          split
          · exact ⟨fun _ => Or.inr rfl, fun _ => by simp, by simp⟩
          · split
            · refine ⟨fun hf => ?_, ?_, fun _ => hq⟩
              · rcases h.vis hf with hb | hr
                · exact absurd hb (not_bad_of_quiet hq)
                · simp [hnone] at hr
              · rintro (hb | hr)
                · exact absurd ((bad_congr (s := s) rfl (fun _ => rfl) (fun _ => Iff.rfl)).mp hb) (not_bad_of_quiet hq)
                · simp at hr
            · exact ⟨fun _ => Or.inr rfl, fun _ => by simp, by simp⟩

theorem report_run (maxCount : Nat) : ∀ (evs : List Ev) (s : St), Report s → Report (run maxCount s evs)
  | [], _, h => h
  | e :: evs, s, h => report_run maxCount evs (step maxCount s e) (report_step maxCount s e h)

/-! ### invariant 3: every pack handed to a writer is in flight, or stored and listed -/

def InFlight (s : St) (p : Pack) : Prop := ∃ w, w < s.n ∧ (p ∈ (s.wr w).queue ∨ some p ∈ (s.wr w).stream)
def IsListed (s : St) (p : Pack) : Prop := idxPackOf p ∈ s.file ∨ ∃ i ∈ s.repo.indexes, idxPackOf p ∈ i.packs
def Done (s : St) (p : Pack) : Prop := p ∈ s.repo.packs ∧ IsListed s p

structure Track (r0 : Repo) (s : St) : Prop where
  sent : Bad s ∨ ∀ p ∈ s.sent, InFlight s p ∨ Done s p
  idx0 : ∀ i ∈ r0.indexes, i ∈ s.repo.indexes
  snaps : ∀ sn ∈ s.repo.snaps, readable s.repo sn = true

theorem indexed_mono {r r' : Repo} (h : ∀ i ∈ r.indexes, i ∈ r'.indexes) (k : Key) (hk : indexed r k = true) :
    indexed r' k = true := by
  rw [indexed_iff] at hk ⊢
  obtain ⟨i, hi, x⟩ := hk
  exact ⟨i, h i hi, x⟩

theorem readable_mono {r r' : Repo} (h : ∀ i ∈ r.indexes, i ∈ r'.indexes) (sn : Snap) (hk : readable r sn = true) :
    readable r' sn = true := by
  rw [readable_iff] at hk ⊢
  exact fun k hkk => indexed_mono h k (hk k hkk)

theorem idxFinal_indexes (s : St) : ∀ i ∈ s.repo.indexes, i ∈ (idxFinal s).indexes := by
  intro i hi
  unfold idxFinal
  split
  · exact hi
  · exact List.mem_cons_of_mem _ hi

theorem idxFinal_snaps (s : St) : (idxFinal s).snaps = s.repo.snaps := by
  unfold idxFinal; split <;> rfl

/-- after `indexer.finalize` everything the indexer held is listed by a stored index file -/
theorem idxFinal_lists (s : St) (x : IdxPack) (hx : x ∈ s.file) : ∃ i ∈ (idxFinal s).indexes, x ∈ i.packs := by
  unfold idxFinal
  split
  · rename_i he
    simp only [List.isEmpty_iff] at he
    rw [he] at hx; cases hx
  · exact ⟨_, List.mem_cons_self, hx⟩

theorem track_init (r : Repo) (n : Nat) (h : ∀ sn ∈ r.snaps, readable r sn = true) : Track r (init r n) :=
  ⟨Or.inr (by simp [init]), fun _ hi => hi, h⟩

/-- what the finish event of a schedule must satisfy: the snapshot's closure is indexed before the run or consists of
blobs of packs handed to a writer before (the archiver's obligation) -/
def evCovered (r0 : Repo) (s : St) : Ev → Prop
  | .finish snap _ _ => ∀ k ∈ snap.needs, indexed r0 k = true ∨ ∃ p ∈ s.sent, k ∈ p.blobs
  | _ => True

/-- `Bad` is inherited by any state whose writers keep their `dead` flags and the `none`s of their streams (or die) -/
theorem bad_of_bad {s t : St} (h : Bad s) (hn : t.n = s.n) (hd : ∀ w, (s.wr w).dead = true → (t.wr w).dead = true)
    (hs : ∀ w, none ∈ (s.wr w).stream → none ∈ (t.wr w).stream ∨ (t.wr w).dead = true) : Bad t := by
  obtain ⟨w, hw, h | h⟩ := h
  · exact ⟨w, hn ▸ hw, Or.inl (hd w h)⟩
  · exact ⟨w, hn ▸ hw, (hs w h).symm⟩

theorem bad_addToIndexer (maxCount : Nat) (s : St) (w : Nat) (p : Pack) (age ok : Bool) (h : Bad s) :
    Bad (addToIndexer maxCount s w p age ok) := by
  unfold addToIndexer
  split
  · split
    · exact bad_of_bad h rfl (fun _ h => h) (fun _ h => Or.inl h)
    · refine bad_of_bad h rfl (fun v h => ?_) (fun v h => ?_)
      · simp only [setWr_wr]; split <;> simp_all
      · simp only [setWr_wr]; split
        · exact Or.inr rfl
        · exact Or.inl h
  · exact bad_of_bad h rfl (fun _ h => h) (fun _ h => Or.inl h)

theorem bad_step (maxCount : Nat) (s : St) (e : Ev) (h : Bad s) : Bad (step maxCount s e) := by
  cases e with
  | send w p =>
    simp only [step]
    split
    · exact h
    · refine bad_of_bad h rfl (fun v h => ?_) (fun v h => ?_)
      · simp only [setWr_wr]; split <;> simp_all
      · simp only [setWr_wr]; split <;> simp_all
  | write w ok =>
    simp only [step]
    split
    · exact h
    · split
      · exact h
      · split
        · refine bad_of_bad h rfl (fun v h => ?_) (fun v h => ?_)
          · simp only [setWr_wr]; split <;> simp_all
          · simp only [setWr_wr]; split <;> simp_all
        · refine bad_of_bad h rfl (fun v h => ?_) (fun v h => ?_)
          · simp only [setWr_wr]; split <;> simp_all
          · simp only [setWr_wr]; split <;> simp_all
  | index w age ok =>
    simp only [step]
    split
    · exact h
    · split
      · exact h
      · rename_i rest hq
        refine bad_of_bad h rfl (fun v h => ?_) (fun v h => ?_)
        · simp only [setWr_wr]; split <;> simp_all
        · simp only [setWr_wr]; split
          · exact Or.inr rfl
          · exact Or.inl h
      · rename_i p rest hq
        apply bad_addToIndexer
        refine bad_of_bad h rfl (fun v h => ?_) (fun v h => ?_)
        · simp only [setWr_wr]; split <;> simp_all
        · simp only [setWr_wr]; split
          · subst_vars; rw [hq] at h; simp at h; exact Or.inl h
          · exact Or.inl h
  | finish snap okIdx okSnap =>
    simp only [step]
    split
    · exact h
    · split
      · exact bad_of_bad h rfl (fun _ h => h) (fun _ h => Or.inl h)
      · split
        · exact h
        · split
          · exact bad_of_bad h rfl (fun _ h => h) (fun _ h => Or.inl h)
          · split
            · exact bad_of_bad h rfl (fun _ h => h) (fun _ h => Or.inl h)
            · exact bad_of_bad h rfl (fun _ h => h) (fun _ h => Or.inl h)

/-- `InFlight` / `Done` are monotone in what they look at -/
theorem inflight_mono {s t : St} {p : Pack} (h : InFlight s p) (hn : t.n = s.n)
    (hq : ∀ v q, q ∈ (s.wr v).queue → q ∈ (t.wr v).queue ∨ some q ∈ (t.wr v).stream)
    (hs : ∀ v q, some q ∈ (s.wr v).stream → some q ∈ (t.wr v).stream) : InFlight t p := by
  obtain ⟨w, hw, h | h⟩ := h
  · exact ⟨w, hn ▸ hw, hq w p h⟩
  · exact ⟨w, hn ▸ hw, Or.inr (hs w p h)⟩

theorem done_mono {s t : St} {p : Pack} (h : Done s p) (hp : ∀ q ∈ s.repo.packs, q ∈ t.repo.packs)
    (hf : ∀ x ∈ s.file, x ∈ t.file ∨ ∃ i ∈ t.repo.indexes, x ∈ i.packs)
    (hi : ∀ i ∈ s.repo.indexes, i ∈ t.repo.indexes) : Done t p := by
  refine ⟨hp p h.1, ?_⟩
  rcases h.2 with h2 | ⟨i, hi', hx⟩
  · exact hf _ h2
  · exact Or.inr ⟨i, hi i hi', hx⟩

/-- the `sent` part of the invariant through `Indexer::add_with` for the pack `p0` just taken off a stream -/
theorem sent_addToIndexer (maxCount : Nat) (s : St) (w : Nat) (p0 : Pack) (age ok : Bool) (hw : w < s.n)
    (hp0 : p0 ∈ s.repo.packs) (hs : ∀ p ∈ s.sent, (InFlight s p ∨ p = p0) ∨ Done s p) :
    Bad (addToIndexer maxCount s w p0 age ok) ∨
      ∀ p ∈ (addToIndexer maxCount s w p0 age ok).sent, InFlight (addToIndexer maxCount s w p0 age ok) p ∨
        Done (addToIndexer maxCount s w p0 age ok) p := by
  unfold addToIndexer
  split
  · split
    · refine Or.inr (fun p hp => ?_)
      rcases hs p hp with (hfl | rfl) | hd
      · exact Or.inl (inflight_mono hfl rfl (fun _ _ h => Or.inl h) (fun _ _ h => h))
      · exact Or.inr ⟨hp0, Or.inr ⟨_, List.mem_cons_self, by simp⟩⟩
      · refine Or.inr (done_mono hd (fun q hq => hq) (fun x hx => Or.inr ⟨_, List.mem_cons_self, ?_⟩)
          (fun i hi => List.mem_cons_of_mem _ hi))
        simp [hx]
    · exact Or.inl ⟨w, hw, Or.inl (by simp)⟩
  · refine Or.inr (fun p hp => ?_)
    rcases hs p hp with (hfl | rfl) | hd
    · exact Or.inl (inflight_mono hfl rfl (fun _ _ h => Or.inl h) (fun _ _ h => h))
    · exact Or.inr ⟨hp0, Or.inl (by simp)⟩
    · exact Or.inr (done_mono hd (fun q hq => hq) (fun x hx => Or.inl (by simp [hx])) (fun i hi => hi))

/-- everything sent is `Done` once all writers are quiet -/
theorem done_of_quiet {s : St} (hq : Quiet s) (hs : Bad s ∨ ∀ p ∈ s.sent, InFlight s p ∨ Done s p) :
    ∀ p ∈ s.sent, Done s p := by
  intro p hp
  rcases hs with hb | hs
  · exact absurd hb (not_bad_of_quiet hq)
  · rcases hs p hp with ⟨v, hv, hfl⟩ | hdn
    · have := hq v hv
      rcases hfl with hfl | hfl
      · rw [this.2.1] at hfl; cases hfl
      · rw [this.2.2] at hfl; cases hfl
    · exact hdn

theorem listed_of_done {s : St} {p : Pack} (h : Done s p) : ∃ i ∈ (idxFinal s).indexes, idxPackOf p ∈ i.packs := by
  rcases h.2 with hf | ⟨i, hi, hx⟩
  · exact idxFinal_lists s _ hf
  · exact ⟨i, idxFinal_indexes s i hi, hx⟩

theorem sent_step (maxCount : Nat) (s : St) (e : Ev) (hS : Sound s)
    (hT : Bad s ∨ ∀ p ∈ s.sent, InFlight s p ∨ Done s p) :
    Bad (step maxCount s e) ∨ ∀ p ∈ (step maxCount s e).sent, InFlight (step maxCount s e) p ∨ Done (step maxCount s e) p := by
  rcases hT with hb | hs
  · exact Or.inl (bad_step maxCount s e hb)
  cases e with
  | send w p0 =>
    simp only [step]
    split
    · exact Or.inr hs
    · rename_i hg
      simp only [Bool.or_eq_true, decide_eq_true_eq, not_or, Nat.not_le] at hg
      refine Or.inr (fun p hp => ?_)
      simp only [setWr_sent, List.mem_cons] at hp
      rcases hp with rfl | hp
      · exact Or.inl ⟨w, hg.2, Or.inl (by simp)⟩
      · rcases hs p hp with hfl | hd
        · refine Or.inl (inflight_mono hfl rfl (fun v q h => Or.inl ?_) (fun v q h => ?_))
          · simp only [setWr_wr]; split
            · subst_vars; simp [h]
            · exact h
          · simp only [setWr_wr]; split
            · subst_vars; exact h
            · exact h
        · exact Or.inr (done_mono hd (fun q hq => hq) (fun x hx => Or.inl hx) (fun i hi => hi))
  | write w ok =>
    simp only [step]
    split
    · exact Or.inr hs
    · rename_i hw
      have hw : w < s.n := by simpa using hw
      split
      · exact Or.inr hs
      · rename_i p0 rest hq
        split
        · refine Or.inr (fun p hp => ?_)
          rcases hs p hp with hfl | hd
          · refine Or.inl (inflight_mono hfl rfl (fun v q h => ?_) (fun v q h => ?_))
            · simp only [setWr_wr]; split
              · subst_vars
                rw [hq] at h
                rcases List.mem_cons.mp h with rfl | h
                · exact Or.inr (by simp)
                · exact Or.inl h
              · exact Or.inl h
            · simp only [setWr_wr]; split
              · subst_vars; simp [h]
              · exact h
          · exact Or.inr (done_mono hd (fun q hq => List.mem_cons_of_mem _ hq) (fun x hx => Or.inl hx) (fun i hi => hi))
        · exact Or.inl ⟨w, hw, Or.inr (by simp)⟩
  | index w age ok =>
    simp only [step]
    split
    · exact Or.inr hs
    · rename_i hw
      simp only [Bool.or_eq_true, decide_eq_true_eq, not_or, Nat.not_le] at hw
      split
      · exact Or.inr hs
      · exact Or.inl ⟨w, hw.1, Or.inl (by simp)⟩
      · rename_i p0 rest hq
        refine sent_addToIndexer maxCount (setWr s w _) w p0 age ok hw.1
          (hS.stream w p0 (by rw [hq]; exact List.mem_cons_self)) (fun p hp => ?_)
        rcases hs p hp with ⟨v, hv, hfl⟩ | hd
        · by_cases hvw : v = w
          · subst hvw
            rcases hfl with hfl | hfl
            · exact Or.inl (Or.inl ⟨v, hv, Or.inl (by simp [hfl])⟩)
            · rw [hq] at hfl
              rcases List.mem_cons.mp hfl with h | h
              · exact Or.inl (Or.inr (by injection h))
              · exact Or.inl (Or.inl ⟨v, hv, Or.inr (by simp [h])⟩)
          · exact Or.inl (Or.inl ⟨v, hv, by simpa [hvw] using hfl⟩)
        · exact Or.inr (done_mono hd (fun q hq => hq) (fun x hx => Or.inl hx) (fun i hi => hi))
  | finish snap okIdx okSnap =>
    simp only [step]
    split
    · exact Or.inr hs
    · split
      · exact Or.inr hs
      · split
        · exact Or.inr hs
        · rename_i hnone hd hdr
          have hquiet : Quiet s := quiet_of s hd (by simpa using hdr)
          have hdone := done_of_quiet hquiet (Or.inr hs)
          split
          · exact Or.inr hs
          · split
            · refine Or.inr (fun p hp => Or.inr ⟨?_, ?_⟩)
              · show p ∈ (apply (idxFinal s) (Op.writeSnap snap)).packs
                simp only [apply, idxFinal_packs]; exact (hdone p hp).1
              · obtain ⟨i, hi, hx⟩ := listed_of_done (hdone p hp)
                exact Or.inr ⟨i, hi, hx⟩
            · refine Or.inr (fun p hp => Or.inr ⟨?_, ?_⟩)
              · show p ∈ (idxFinal s).packs
                rw [idxFinal_packs]; exact (hdone p hp).1
              · obtain ⟨i, hi, hx⟩ := listed_of_done (hdone p hp)
                exact Or.inr ⟨i, hi, hx⟩

theorem addToIndexer_indexes (maxCount : Nat) (s : St) (w : Nat) (p : Pack) (age ok : Bool) :
    ∀ i ∈ s.repo.indexes, i ∈ (addToIndexer maxCount s w p age ok).repo.indexes := by
  intro i hi
  unfold addToIndexer
  split
  · split
    · exact List.mem_cons_of_mem _ hi
    · exact hi
  · exact hi

theorem addToIndexer_snaps (maxCount : Nat) (s : St) (w : Nat) (p : Pack) (age ok : Bool) :
    (addToIndexer maxCount s w p age ok).repo.snaps = s.repo.snaps := by
  unfold addToIndexer
  split
  · split <;> rfl
  · rfl

/-- index files are only ever added -/
theorem step_indexes (maxCount : Nat) (s : St) (e : Ev) :
    ∀ i ∈ s.repo.indexes, i ∈ (step maxCount s e).repo.indexes := by
  intro i hi
  cases e with
  | send w p => simp only [step]; split <;> exact hi
  | write w ok =>
    simp only [step]
    split
    · exact hi
    · split
      · exact hi
      · split <;> exact hi
  | index w age ok =>
    simp only [step]
    split
    · exact hi
    · split
      · exact hi
      · exact hi
      · exact addToIndexer_indexes _ _ _ _ _ _ i hi
  | finish snap okIdx okSnap =>
    simp only [step]
    split
    · exact hi
    · split
      · exact hi
      · split
        · exact hi
        · split
          · exact hi
          · split
            · exact idxFinal_indexes s i hi
            · exact idxFinal_indexes s i hi

/-- snapshot files: unchanged, except for a successful `finish`, which adds its snapshot on top of `idxFinal` -/
theorem step_snaps (maxCount : Nat) (s : St) (e : Ev) :
    (step maxCount s e).repo.snaps = s.repo.snaps ∨
    ∃ snap a b, e = .finish snap a b ∧ Quiet s ∧ (step maxCount s e).repo = apply (idxFinal s) (.writeSnap snap) := by
  cases e with
  | send w p => left; simp only [step]; split <;> rfl
  | write w ok =>
    left
    simp only [step]
    split
    · rfl
    · split
      · rfl
      · split <;> rfl
  | index w age ok =>
    left
    simp only [step]
    split
    · rfl
    · split
      · rfl
      · rfl
      · rw [addToIndexer_snaps]; rfl
  | finish snap okIdx okSnap =>
    simp only [step]
    split
    · exact Or.inl rfl
    · split
      · exact Or.inl rfl
      · split
        · exact Or.inl rfl
        · rename_i hnone hd hdr
          split
          · exact Or.inl rfl
          · split
            · exact Or.inr ⟨snap, okIdx, okSnap, rfl, quiet_of s hd (by simpa using hdr), rfl⟩
            · exact Or.inl (idxFinal_snaps s)

theorem track_step (maxCount : Nat) (r0 : Repo) (s : St) (e : Ev) (hS : Sound s) (hT : Track r0 s)
    (hc : evCovered r0 s e) : Track r0 (step maxCount s e) := by
  refine ⟨sent_step maxCount s e hS hT.sent, fun i hi => step_indexes maxCount s e i (hT.idx0 i hi), fun sn hsn => ?_⟩
  rcases step_snaps maxCount s e with h | ⟨snap, a, b, rfl, hquiet, hrepo⟩
  · rw [h] at hsn
    exact readable_mono (step_indexes maxCount s e) sn (hT.snaps sn hsn)
  · rw [hrepo] at hsn ⊢
    have hs' : sn = snap ∨ sn ∈ s.repo.snaps := by
      have : sn ∈ snap :: (idxFinal s).snaps := hsn
      rw [idxFinal_snaps] at this
      exact List.mem_cons.mp this
    rw [readable_congr (apply (idxFinal s) (Op.writeSnap snap)) (idxFinal s) rfl]
    rcases hs' with rfl | hs'
    · rw [readable_iff]
      intro k hk
      rcases hc k hk with h0 | ⟨p, hp, hkp⟩
      · exact indexed_mono (fun i hi => idxFinal_indexes s i (hT.idx0 i hi)) k h0
      · obtain ⟨i, hi, hx⟩ := listed_of_done (done_of_quiet hquiet hT.sent p hp)
        rw [indexed_iff]
        exact ⟨i, hi, idxPackOf p, hx, hkp⟩
    · exact readable_mono (idxFinal_indexes s) sn (hT.snaps sn hs')

/-- the snapshot of every `finish` event of the schedule is covered (see `evCovered`) in the state it meets -/
def Covered (maxCount : Nat) (r0 : Repo) : St → List Ev → Prop
  | _, [] => True
  | s, e :: es => evCovered r0 s e ∧ Covered maxCount r0 (step maxCount s e) es

theorem track_run (maxCount : Nat) (r0 : Repo) : ∀ (evs : List Ev) (s : St), Sound s → Track r0 s →
    Covered maxCount r0 s evs → Track r0 (run maxCount s evs)
  | [], _, _, h, _ => h
  | e :: evs, s, hS, hT, hc =>
    track_run maxCount r0 evs (step maxCount s e) (sound_step maxCount s e hS) (track_step maxCount r0 s e hS hT hc.1) hc.2

end Rustic.PackerActor
