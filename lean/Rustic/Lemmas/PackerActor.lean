/-
Lemmas about the packer / file-writer / indexer actor model (`Model/PackerActor.lean`): invariants of every schedule.
* `Sound`   — what index files (stored or still in the indexer) and written-results list is stored  ⇒ `index_lists_only_written_packs`
* `Report`  — a failed storage operation stays visible until the command returns                    ⇒ `failed_op_reports_error`
* `Track`   — every pack handed to a writer is queued, written, or stored and listed               ⇒ `ok_result_all_listed`
-/
import Rustic.Model.PackerActor
import Rustic.Lemmas.Repo
namespace Rustic.PackerActor
open Rustic.Repo

/-- every pack an index file lists is a stored pack file with exactly those blobs -/
def LW (r : Repo) : Prop := ∀ i ∈ r.indexes, ∀ p ∈ i.packs, ∃ q ∈ r.packs, q.id = p.id ∧ q.blobs = p.blobs

theorem listedWritten_iff (r : Repo) : listedWritten r = true ↔ LW r := by
  simp [listedWritten, LW, List.all_eq_true, List.any_eq_true]

theorem LW.indexSound {r : Repo} (h : LW r) : indexSound r = true := by
  rw [indexSound_iff]
  intro i hi p hp k hk
  obtain ⟨q, hq, h1, h2⟩ := h i hi p hp
  rw [stored_iff]
  exact ⟨q, hq, h1, h2 ▸ hk⟩

/-! ### `setWr` -/
@[simp] theorem setWr_wr (s : St) (w : Nat) (x : Wr) (v : Nat) : (setWr s w x).wr v = if v = w then x else s.wr v := rfl
@[simp] theorem setWr_repo (s : St) (w : Nat) (x : Wr) : (setWr s w x).repo = s.repo := rfl
@[simp] theorem setWr_file (s : St) (w : Nat) (x : Wr) : (setWr s w x).file = s.file := rfl
@[simp] theorem setWr_count (s : St) (w : Nat) (x : Wr) : (setWr s w x).count = s.count := rfl
@[simp] theorem setWr_n (s : St) (w : Nat) (x : Wr) : (setWr s w x).n = s.n := rfl
@[simp] theorem setWr_faults (s : St) (w : Nat) (x : Wr) : (setWr s w x).faults = s.faults := rfl
@[simp] theorem setWr_result (s : St) (w : Nat) (x : Wr) : (setWr s w x).result = s.result := rfl
@[simp] theorem setWr_sent (s : St) (w : Nat) (x : Wr) : (setWr s w x).sent = s.sent := rfl
@[simp] theorem setWr_nextIdx (s : St) (w : Nat) (x : Wr) : (setWr s w x).nextIdx = s.nextIdx := rfl

/-! ### invariant 1: what is listed is stored -/

def PackStored (r : Repo) (p : IdxPack) : Prop := ∃ q ∈ r.packs, q.id = p.id ∧ q.blobs = p.blobs

structure Sound (s : St) : Prop where
  idx : LW s.repo
  file : ∀ p ∈ s.file, PackStored s.repo p
  stream : ∀ w p, some p ∈ (s.wr w).stream → p ∈ s.repo.packs

theorem LW_writePack {r : Repo} (h : LW r) (p : Pack) : LW (apply r (.writePack p)) := by
  intro i hi x hx
  obtain ⟨q, hq, h1⟩ := h i hi x hx
  exact ⟨q, List.mem_cons_of_mem _ hq, h1⟩

theorem LW_writeIndex {r : Repo} (h : LW r) (i : IndexFile) (hi : ∀ p ∈ i.packs, PackStored r p) :
    LW (apply r (.writeIndex i)) := by
  intro j hj x hx
  simp only [apply, List.mem_cons] at hj
  rcases hj with rfl | hj
  · exact hi x hx
  · exact h j hj x hx

theorem LW_writeSnap {r : Repo} (h : LW r) (s : Snap) : LW (apply r (.writeSnap s)) := h

theorem sound_init (r : Repo) (n : Nat) (h : LW r) : Sound (init r n) :=
  ⟨h, by simp [init], by simp [init]⟩

theorem packStored_of_mem {r : Repo} {p : Pack} (h : p ∈ r.packs) : PackStored r (idxPackOf p) := ⟨p, h, rfl, rfl⟩

theorem sound_addToIndexer (maxCount : Nat) (s : St) (w : Nat) (p : Pack) (age ok : Bool) (h : Sound s)
    (hp : p ∈ s.repo.packs) : Sound (addToIndexer maxCount s w p age ok) := by
  have hfile : ∀ x ∈ s.file ++ [idxPackOf p], PackStored s.repo x := by
    intro x hx
    simp only [List.mem_append, List.mem_singleton] at hx
    rcases hx with hx | rfl
    · exact h.file x hx
    · exact packStored_of_mem hp
  unfold addToIndexer
  split
  · split
    · refine ⟨LW_writeIndex h.idx _ hfile, by simp, ?_⟩
      intro v x hx
      exact h.stream v x hx
    · refine ⟨h.idx, hfile, ?_⟩
      intro v x hx
      simp only [setWr_wr] at hx
      split at hx
      · subst_vars; exact h.stream _ x hx
      · exact h.stream v x hx
  · exact ⟨h.idx, hfile, h.stream⟩

theorem LW_idxFinal {s : St} (h : Sound s) : LW (idxFinal s) := by
  unfold idxFinal
  split
  · exact h.idx
  · exact LW_writeIndex h.idx _ h.file

theorem idxFinal_packs (s : St) : (idxFinal s).packs = s.repo.packs := by
  unfold idxFinal; split <;> rfl

theorem sound_step (maxCount : Nat) (s : St) (e : Ev) (h : Sound s) : Sound (step maxCount s e) := by
  cases e with
  | send w p =>
    simp only [step]
    split
    · exact h
    · refine ⟨h.idx, h.file, ?_⟩
      intro v x hx
      simp only [setWr_wr] at hx
      split at hx
      · subst_vars; exact h.stream _ x hx
      · exact h.stream v x hx
  | write w ok =>
    simp only [step]
    split
    · exact h
    · split
      · exact h
      · rename_i p rest hq
        split
        · refine ⟨LW_writePack h.idx p, ?_, ?_⟩
          · intro x hx
            obtain ⟨q, hq, h1⟩ := h.file x hx
            exact ⟨q, List.mem_cons_of_mem _ hq, h1⟩
          · intro v x hx
            simp only [setWr_wr] at hx
            simp only [setWr_repo, apply]
            split at hx
            · subst_vars
              simp only [List.mem_append, List.mem_singleton, Option.some.injEq] at hx
              rcases hx with hx | rfl
              · exact List.mem_cons_of_mem _ (h.stream _ x hx)
              · exact List.mem_cons_self
            · exact List.mem_cons_of_mem _ (h.stream v x hx)
        · refine ⟨h.idx, h.file, ?_⟩
          intro v x hx
          simp only [setWr_wr] at hx
          split at hx
          · subst_vars
            simp only [List.mem_append, List.mem_singleton, reduceCtorEq, or_false] at hx
            exact h.stream _ x hx
          · exact h.stream v x hx
  | index w age ok =>
    simp only [step]
    split
    · exact h
    · split
      · exact h
      · rename_i rest hq
        refine ⟨h.idx, h.file, ?_⟩
        intro v x hx
        simp only [setWr_wr] at hx
        split at hx
        · subst_vars
          exact h.stream _ x (by rw [hq]; exact List.mem_cons_of_mem _ hx)
        · exact h.stream v x hx
      · rename_i p rest hq
        apply sound_addToIndexer
        · refine ⟨h.idx, h.file, ?_⟩
          intro v x hx
          simp only [setWr_wr] at hx
          split at hx
          · subst_vars
            exact h.stream _ x (by rw [hq]; exact List.mem_cons_of_mem _ hx)
          · exact h.stream v x hx
        · exact h.stream w p (by rw [hq]; exact List.mem_cons_self)
  | finish snap okIdx okSnap =>
    simp only [step]
    split
    · exact h
    · split
      · exact ⟨h.idx, h.file, h.stream⟩
      · split
        · exact h
        · split
          · exact ⟨h.idx, h.file, h.stream⟩
          · split
            · refine ⟨LW_writeSnap (LW_idxFinal h) snap, by simp, ?_⟩
              intro v x hx
              show x ∈ (apply (idxFinal s) (Op.writeSnap snap)).packs
              simp only [apply, idxFinal_packs]
              exact h.stream v x hx
            · refine ⟨LW_idxFinal h, by simp, ?_⟩
              intro v x hx
              show x ∈ (idxFinal s).packs
              rw [idxFinal_packs]
              exact h.stream v x hx

theorem sound_run (maxCount : Nat) : ∀ (evs : List Ev) (s : St), Sound s → Sound (run maxCount s evs)
  | [], _, h => h
  | e :: evs, s, h => sound_run maxCount evs (step maxCount s e) (sound_step maxCount s e h)

end Rustic.PackerActor
